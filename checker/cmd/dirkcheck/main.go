// Command dirkcheck decides the structural obligations of one property (or all) on the current tree of /repo.
package main

import (
	"flag"
	"fmt"
	"os"
	"path/filepath"
	"runtime/debug"
	"sort"
	"strconv"
	"strings"
	"time"

	"dirkcheck/internal/prog"
	"dirkcheck/internal/report"
	"dirkcheck/internal/rules"
)

func main() {
	property := flag.String("property", "", "property id (C01..C20), comma list, or 'all'")
	tier := flag.String("tier", "quick", "quick|thorough")
	repo := flag.String("repo", "/repo", "repository root")
	out := flag.String("out", "/verif/evidence", "evidence directory")
	known := flag.String("known", "/verif/known-findings.txt", "known findings file")
	goarch := flag.String("goarch", "", "GOARCH for the load (default host)")
	explain := flag.String("explain", "", "print a replay file")
	flag.Parse()

	if *explain != "" {
		data, err := os.ReadFile(*explain)
		if err != nil {
			fmt.Fprintln(os.Stderr, err)
			os.Exit(2)
		}
		fmt.Println(string(data))
		return
	}
	if *property == "" {
		fmt.Fprintln(os.Stderr, "usage: dirkcheck -property Cnn [-tier quick|thorough]")
		os.Exit(2)
	}
	var ids []string
	if *property == "all" {
		for id := range rules.Registry {
			ids = append(ids, id)
		}
	} else {
		ids = strings.Split(*property, ",")
	}
	sort.Strings(ids)
	seed := 0
	if s := os.Getenv("VERIF_SEED"); s != "" {
		seed, _ = strconv.Atoi(s)
	}
	if t := os.Getenv("VERIF_TIER"); t != "" && *tier == "" {
		*tier = t
	}
	abs, _ := filepath.Abs(*repo)
	t0 := time.Now()
	findings, _, err := report.LoadKnown(*known)
	if err != nil {
		fmt.Fprintln(os.Stderr, "known findings:", err)
		os.Exit(2)
	}
	exit := 0
	p, lerr := prog.Load(abs, *goarch)
	for _, id := range ids {
		spec := rules.Registry[id]
		r := report.New(id)
		if spec == nil {
			fmt.Fprintf(os.Stderr, "unknown property %s\n", id)
			os.Exit(2)
		}
		ts := time.Now()
		if lerr != nil {
			r.Obls = append(r.Obls, &report.Obligation{Rule: id + ".load", Construct: "program", Status: report.Undecided, Kind: "load", Detail: lerr.Error()})
		} else {
			ctx := rules.NewCtx(p, r, *tier)
			ctx.UseCHA = *tier == "thorough"
			func() {
				defer func() {
					if e := recover(); e != nil {
						r.Obls = append(r.Obls, &report.Obligation{Rule: id + ".panic", Construct: "checker", Status: report.Undecided, Kind: "selftest", Detail: fmt.Sprint("checker panic: ", e, "\n", string(debug.Stack()))})
					}
				}()
				spec.Run(ctx)
			}()
			r.Count("module_packages", len(p.ModPkgs))
			r.Count("packages_loaded", len(p.ByPath))
		}
		extra := map[string]any{"goarch": *goarch, "repo": abs, "callgraphs": map[bool][]string{true: {"vta", "cha"}, false: {"vta"}}[*tier == "thorough"]}
		if p != nil {
			extra["timings"] = p.Timings
		}
		wall := time.Since(ts).Seconds()
		if len(ids) == 1 {
			wall = time.Since(t0).Seconds()
		}
		if code := r.Finish(*out, *tier, seed, wall, spec.Explanation, spec.Trusted, spec.Assumptions, extra, findings); code != 0 {
			exit = 1
		}
	}
	os.Exit(exit)
}
