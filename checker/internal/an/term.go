// Package an holds the analysis primitives: terms and access paths (P4), normalised
// branch atoms (P3), cut / must-pass-through (P1), finite value sets (P2), origins (P11b).
package an

import (
	"fmt"
	"go/constant"
	"go/token"
	"go/types"
	"sort"
	"strings"

	"golang.org/x/tools/go/ssa"
)

// TypeStr renders a type with full package paths, module prefix shortened.
func TypeStr(t types.Type) string {
	if t == nil {
		return "?"
	}
	s := types.TypeString(t, func(p *types.Package) string { return p.Path() })
	return strings.ReplaceAll(s, "github.com/attestantio/dirk/", "dirk/")
}

// Termer computes canonical terms for SSA values of one function family.
type Termer struct {
	// Bind maps a FreeVar to the value bound at the (unique) MakeClosure site.
	depth int
}

// closureBinding returns the value bound to free variable fv in the enclosing function, if unique.
func closureBinding(fv *ssa.FreeVar) ssa.Value {
	fn := fv.Parent()
	parent := fn.Parent()
	if parent == nil {
		return nil
	}
	idx := -1
	for i, f := range fn.FreeVars {
		if f == fv {
			idx = i
		}
	}
	if idx < 0 {
		return nil
	}
	var found ssa.Value
	n := 0
	for _, b := range parent.Blocks {
		for _, ins := range b.Instrs {
			if mc, ok := ins.(*ssa.MakeClosure); ok && mc.Fn == fn {
				found = mc.Bindings[idx]
				n++
			}
		}
	}
	if n == 1 {
		return found
	}
	return nil
}

// FreeVarBinding is the value bound to fv at the unique MakeClosure site of its function (nil if not unique).
func FreeVarBinding(fv *ssa.FreeVar) ssa.Value { return closureBinding(fv) }

// singleStore returns the unique value stored to alloc a in its function (ignoring stores in
// closures), or nil if there are zero or several stores, or if a closure may write it.
func singleStore(a *ssa.Alloc) ssa.Value {
	var val ssa.Value
	n := 0
	refs := a.Referrers()
	if refs == nil {
		return nil
	}
	for _, r := range *refs {
		switch r := r.(type) {
		case *ssa.Store:
			if r.Addr == a {
				val = r.Val
				n++
			}
		case *ssa.MakeClosure:
			// closure captures the cell; check the closure does not store to it
			for i, b := range r.Bindings {
				if b == a {
					fn := r.Fn.(*ssa.Function)
					if closureWrites(fn, fn.FreeVars[i], 0) {
						return nil
					}
				}
			}
		}
	}
	if n == 1 {
		// the single store must precede every use of the cell on every path from its allocation (otherwise a use can see the
		// zero value, or - for a cell declared outside a loop and assigned conditionally inside - a value of an earlier iteration)
		var st ssa.Instruction
		for _, r := range *refs {
			if s2, ok := r.(*ssa.Store); ok && s2.Addr == ssa.Value(a) {
				st = s2
			}
		}
		for _, r := range *refs {
			if r == st {
				continue
			}
			switch r.(type) {
			case *ssa.UnOp, *ssa.MakeClosure, *ssa.Slice, *ssa.FieldAddr, *ssa.IndexAddr:
				use := r
				if x, _ := Cut(CutQuery{From: After(a), Target: func(i ssa.Instruction) bool { return i == use },
					AcceptInstr: func(i ssa.Instruction) bool { return i == st }}); x != nil {
					return nil
				}
			}
		}
		return val
	}
	return nil
}

func closureWrites(fn *ssa.Function, fv *ssa.FreeVar, depth int) bool {
	if depth > 4 {
		return true
	}
	refs := fv.Referrers()
	if refs == nil {
		return false
	}
	for _, r := range *refs {
		switch r := r.(type) {
		case *ssa.Store:
			if r.Addr == fv {
				return true
			}
		case *ssa.MakeClosure:
			for i, b := range r.Bindings {
				if b == fv {
					f2 := r.Fn.(*ssa.Function)
					if closureWrites(f2, f2.FreeVars[i], depth+1) {
						return true
					}
				}
			}
		}
	}
	return false
}

// ResolveCell sees through a captured/spilled variable cell: for a pointer value that is a
// FreeVar or Alloc holding a single assignment, it returns the assigned value (and true).
func ResolveCell(addr ssa.Value) (ssa.Value, bool) {
	for i := 0; i < 6; i++ {
		switch a := addr.(type) {
		case *ssa.FreeVar:
			b := closureBinding(a)
			if b == nil {
				return nil, false
			}
			addr = b
		case *ssa.Alloc:
			v := singleStore(a)
			if v == nil {
				return nil, false
			}
			return v, true
		default:
			return nil, false
		}
	}
	return nil, false
}

// Term renders a canonical, position-free description of v in terms of parameters,
// receiver, field paths, constants and calls. Roots are rendered by type, so renaming
// variables does not change a term.
func Term(v ssa.Value) string { return term(v, 0) }

func term(v ssa.Value, d int) string {
	if v == nil {
		return "nil"
	}
	if d > 24 {
		return "…"
	}
	switch v := v.(type) {
	case *ssa.Const:
		return constStr(v)
	case *ssa.Parameter:
		return fmt.Sprintf("param<%s>", TypeStr(v.Type()))
	case *ssa.FreeVar:
		if b := closureBinding(v); b != nil {
			return term(b, d+1)
		}
		return fmt.Sprintf("freevar<%s>", TypeStr(v.Type()))
	case *ssa.Global:
		return "global:" + globalName(v)
	case *ssa.Function:
		return "func:" + v.String()
	case *ssa.Alloc:
		if sv := singleStore(v); sv != nil {
			return "&cell(" + term(sv, d+1) + ")"
		}
		return fmt.Sprintf("alloc<%s>", TypeStr(v.Type()))
	case *ssa.UnOp:
		switch v.Op {
		case token.MUL:
			// load
			if inner, ok := ResolveCell(v.X); ok {
				return term(inner, d+1)
			}
			switch a := v.X.(type) {
			case *ssa.FieldAddr:
				return term(a.X, d+1) + "." + fieldName(a.X.Type(), a.Field)
			case *ssa.IndexAddr:
				return term(a.X, d+1) + "[" + term(a.Index, d+1) + "]"
			case *ssa.Global:
				return "global:" + globalName(a)
			}
			return "*" + term(v.X, d+1)
		case token.NOT:
			return "!" + term(v.X, d+1)
		case token.SUB:
			return "-" + term(v.X, d+1)
		case token.ARROW:
			return "<-" + term(v.X, d+1)
		}
		return v.Op.String() + term(v.X, d+1)
	case *ssa.FieldAddr:
		return "&" + term(v.X, d+1) + "." + fieldName(v.X.Type(), v.Field)
	case *ssa.Field:
		return term(v.X, d+1) + "." + fieldName(v.X.Type(), v.Field)
	case *ssa.IndexAddr:
		return "&" + term(v.X, d+1) + "[" + term(v.Index, d+1) + "]"
	case *ssa.Index:
		return term(v.X, d+1) + "[" + term(v.Index, d+1) + "]"
	case *ssa.Lookup:
		return term(v.X, d+1) + "[" + term(v.Index, d+1) + "]"
	case *ssa.Slice:
		lo, hi := "", ""
		if v.Low != nil {
			lo = term(v.Low, d+1)
		}
		if v.High != nil {
			hi = term(v.High, d+1)
		}
		x := term(v.X, d+1)
		// slicing a pointer to array: &arr -> arr[:]
		x = strings.TrimPrefix(x, "&")
		return x + "[" + lo + ":" + hi + "]"
	case *ssa.Convert:
		return TypeStr(v.Type()) + "(" + term(v.X, d+1) + ")"
	case *ssa.ChangeType:
		return term(v.X, d+1)
	case *ssa.ChangeInterface:
		return term(v.X, d+1)
	case *ssa.MakeInterface:
		return term(v.X, d+1)
	case *ssa.TypeAssert:
		if v.CommaOk {
			return "assert<" + TypeStr(v.AssertedType) + ">(" + term(v.X, d+1) + ")"
		}
		return "assert<" + TypeStr(v.AssertedType) + ">(" + term(v.X, d+1) + ")"
	case *ssa.Extract:
		return term(v.Tuple, d+1) + "#" + fmt.Sprint(v.Index)
	case *ssa.BinOp:
		return "(" + term(v.X, d+1) + " " + v.Op.String() + " " + term(v.Y, d+1) + ")"
	case *ssa.Call:
		return callTerm(&v.Call, d)
	case *ssa.Phi:
		var parts []string
		seen := map[string]bool{}
		for _, e := range v.Edges {
			var s string
			if e == v {
				continue
			}
			s = term(e, d+6)
			if !seen[s] {
				seen[s] = true
				parts = append(parts, s)
			}
		}
		sort.Strings(parts)
		if len(parts) == 1 {
			return parts[0]
		}
		return "phi(" + strings.Join(parts, "|") + ")"
	case *ssa.MakeSlice:
		return "make<" + TypeStr(v.Type()) + ">(" + term(v.Len, d+1) + ")"
	case *ssa.MakeMap:
		return "makemap<" + TypeStr(v.Type()) + ">"
	case *ssa.MakeChan:
		return "makechan<" + TypeStr(v.Type()) + ">"
	case *ssa.MakeClosure:
		return "closure:" + v.Fn.(*ssa.Function).String()
	case *ssa.Next:
		return "next(" + term(v.Iter, d+1) + ")"
	case *ssa.Range:
		return "range(" + term(v.X, d+1) + ")"
	case *ssa.Builtin:
		return "builtin:" + v.Name()
	}
	return fmt.Sprintf("?%T", v)
}

func callTerm(c *ssa.CallCommon, d int) string {
	var args []string
	for _, a := range c.Args {
		args = append(args, term(a, d+1))
	}
	if c.IsInvoke() {
		recvT := TypeStr(c.Value.Type())
		return "invoke:" + recvT + "." + c.Method.Name() + "(" + term(c.Value, d+1) + ";" + strings.Join(args, ",") + ")"
	}
	switch f := c.Value.(type) {
	case *ssa.Function:
		return "call:" + f.String() + "(" + strings.Join(args, ",") + ")"
	case *ssa.Builtin:
		return f.Name() + "(" + strings.Join(args, ",") + ")"
	case *ssa.MakeClosure:
		return "call:" + f.Fn.(*ssa.Function).String() + "(" + strings.Join(args, ",") + ")"
	}
	return "dyncall:" + term(c.Value, d+1) + "(" + strings.Join(args, ",") + ")"
}

func constStr(c *ssa.Const) string {
	if c.Value == nil {
		return "nil<" + TypeStr(c.Type()) + ">"
	}
	switch c.Value.Kind() {
	case constant.String:
		return fmt.Sprintf("%q", constant.StringVal(c.Value))
	case constant.Bool:
		if constant.BoolVal(c.Value) {
			return "true"
		}
		return "false"
	}
	return c.Value.ExactString()
}

func globalName(g *ssa.Global) string {
	if g.Pkg != nil && g.Pkg.Pkg != nil {
		return strings.ReplaceAll(g.Pkg.Pkg.Path(), "github.com/attestantio/dirk/", "dirk/") + "." + g.Name()
	}
	return g.Name()
}

func fieldName(t types.Type, idx int) string {
	if p, ok := t.Underlying().(*types.Pointer); ok {
		t = p.Elem()
	}
	if st, ok := t.Underlying().(*types.Struct); ok && idx < st.NumFields() {
		return st.Field(idx).Name()
	}
	return fmt.Sprintf("f%d", idx)
}

// FieldOf returns (struct named type string, field name) if v is a load of a struct field
// (through a pointer or a struct value), else "", "".
func FieldOf(v ssa.Value) (owner types.Type, field string, base ssa.Value) {
	switch x := v.(type) {
	case *ssa.UnOp:
		if x.Op == token.MUL {
			if fa, ok := x.X.(*ssa.FieldAddr); ok {
				t := fa.X.Type()
				if p, ok := t.Underlying().(*types.Pointer); ok {
					t = p.Elem()
				}
				return t, fieldName(fa.X.Type(), fa.Field), fa.X
			}
			if inner, ok := ResolveCell(x.X); ok {
				return FieldOf(inner)
			}
		}
	case *ssa.Field:
		return x.X.Type(), fieldName(x.X.Type(), x.Field), x.X
	case *ssa.ChangeType:
		return FieldOf(x.X)
	}
	return nil, "", nil
}

// IsConstInt reports whether v is an integer constant equal to n.
func IsConstInt(v ssa.Value, n int64) bool {
	c, ok := v.(*ssa.Const)
	if !ok || c.Value == nil || c.Value.Kind() != constant.Int {
		return false
	}
	i, exact := constant.Int64Val(c.Value)
	return exact && i == n
}

// ConstUint64 returns the value of an integer constant as uint64.
func ConstUint64(v ssa.Value) (uint64, bool) {
	c, ok := v.(*ssa.Const)
	if !ok || c.Value == nil || c.Value.Kind() != constant.Int {
		return 0, false
	}
	return constant.Uint64Val(c.Value)
}

// StripConv removes value-preserving wrappers (ChangeType, MakeInterface) and returns the inner value.
func StripConv(v ssa.Value) ssa.Value {
	for {
		switch x := v.(type) {
		case *ssa.ChangeType:
			v = x.X
		case *ssa.MakeInterface:
			v = x.X
		case *ssa.ChangeInterface:
			v = x.X
		default:
			return v
		}
	}
}

// Unspill resolves a load of a local cell (go/ssa spills results of functions with defer into
// cells: `*t2 = v; rundefers; t9 = *t2; return t9`) to the value stored earlier in the same block.
func Unspill(v ssa.Value) ssa.Value {
	u, ok := v.(*ssa.UnOp)
	if !ok || u.Op != token.MUL {
		return v
	}
	a, ok := u.X.(*ssa.Alloc)
	if !ok {
		return v
	}
	b := u.Block()
	if b == nil {
		return v
	}
	idx := -1
	for i, ins := range b.Instrs {
		if ins == ssa.Instruction(u) {
			idx = i
			break
		}
	}
	for i := idx - 1; i >= 0; i-- {
		switch x := b.Instrs[i].(type) {
		case *ssa.Store:
			if x.Addr == ssa.Value(a) {
				return x.Val
			}
		case *ssa.RunDefers:
			// deferred calls could write a named result only through a closure capturing the cell
			if cellCapturedByWriter(a) {
				return v
			}
		case ssa.CallInstruction:
			if cellCapturedByWriter(a) {
				return v
			}
		}
	}
	return v
}

func cellCapturedByWriter(a *ssa.Alloc) bool {
	refs := a.Referrers()
	if refs == nil {
		return false
	}
	for _, r := range *refs {
		if mc, ok := r.(*ssa.MakeClosure); ok {
			for i, b := range mc.Bindings {
				if b == ssa.Value(a) {
					fn := mc.Fn.(*ssa.Function)
					if closureWrites(fn, fn.FreeVars[i], 0) {
						return true
					}
				}
			}
		}
	}
	return false
}

// Returns lists the return instructions of fn outside its recover block, with results unspilled.
func Returns(fn *ssa.Function) []*ssa.Return {
	var out []*ssa.Return
	for _, b := range fn.Blocks {
		if b == fn.Recover {
			continue
		}
		for _, ins := range b.Instrs {
			if r, ok := ins.(*ssa.Return); ok {
				out = append(out, r)
			}
		}
	}
	return out
}

// Result returns the k-th result of ret with defer spills resolved.
func Result(ret *ssa.Return, k int) ssa.Value {
	v := Unspill(ret.Results[k])
	// a named result assigned earlier (`sig, err = f(); ...; return OK, sig` in a function with defer): the one store that
	// reaches the load on every path, unspilled again
	for i := 0; i < 3; i++ {
		r := ReachingStore(v)
		if r == v {
			break
		}
		v = Unspill(r)
	}
	// `return report(X), ...` where report hands its argument back unchanged on every path
	for i := 0; i < 3; i++ {
		a, ok := IdentityCallArg(v)
		if !ok {
			break
		}
		v = Unspill(a)
	}
	return v
}

// IdentityCallArg: v is a static call of a function with a body and a single result that returns one and the same of
// its parameters on every path (whatever else it does); the corresponding argument is returned.
func IdentityCallArg(v ssa.Value) (ssa.Value, bool) {
	call, ok := v.(*ssa.Call)
	if !ok || call.Call.IsInvoke() {
		return nil, false
	}
	callee := call.Call.StaticCallee()
	if callee == nil || callee.Blocks == nil || callee.Signature.Results().Len() != 1 {
		return nil, false
	}
	var p *ssa.Parameter
	n := 0
	for _, b := range callee.Blocks {
		ret, ok := b.Instrs[len(b.Instrs)-1].(*ssa.Return)
		if !ok {
			continue
		}
		n++
		r := ret.Results[0]
		for {
			if ct, ok := r.(*ssa.ChangeType); ok {
				r = ct.X
				continue
			}
			break
		}
		q, ok := r.(*ssa.Parameter)
		if !ok || (p != nil && q != p) {
			return nil, false
		}
		p = q
	}
	if n == 0 || p == nil || callee.Recover != nil {
		return nil, false
	}
	for i, q := range callee.Params {
		if q == p && i < len(call.Call.Args) {
			return call.Call.Args[i], true
		}
	}
	return nil, false
}

// ReachingStore resolves a load of a local cell to the value of the single store that reaches it on every path from the
// cell's allocation (no path without a store, no two different stores, no closure that writes the cell). Otherwise v itself.
func ReachingStore(v ssa.Value) ssa.Value {
	u, ok := v.(*ssa.UnOp)
	if !ok || u.Op != token.MUL {
		return v
	}
	a, ok := u.X.(*ssa.Alloc)
	if !ok || cellCapturedByWriter(a) {
		return v
	}
	// the address must not be used other than by loads, stores and (reading) closures
	for _, r := range *a.Referrers() {
		switch x := r.(type) {
		case *ssa.Store:
			if x.Val == ssa.Value(a) {
				return v
			}
		case *ssa.UnOp, *ssa.DebugRef, *ssa.MakeClosure:
		default:
			return v
		}
	}
	b := u.Block()
	if b == nil {
		return v
	}
	var found *ssa.Store
	type pos struct {
		b   *ssa.BasicBlock
		idx int
	}
	seen := map[*ssa.BasicBlock]bool{}
	start := -1
	for i, ins := range b.Instrs {
		if ins == ssa.Instruction(u) {
			start = i
		}
	}
	work := []pos{{b, start}}
	first := true
	for len(work) > 0 {
		p := work[len(work)-1]
		work = work[:len(work)-1]
		hit := false
		for i := p.idx - 1; i >= 0; i-- {
			ins := p.b.Instrs[i]
			if st, ok := ins.(*ssa.Store); ok && st.Addr == ssa.Value(a) {
				if found != nil && found != st {
					return v
				}
				found = st
				hit = true
				break
			}
			if ins == ssa.Instruction(a) {
				return v // reached the allocation without a store: the zero value
			}
		}
		if hit {
			continue
		}
		if len(p.b.Preds) == 0 {
			return v
		}
		for _, pr := range p.b.Preds {
			if pr == b && first {
				// a loop back into the block of the load: scan it fully
			}
			if seen[pr] {
				continue
			}
			seen[pr] = true
			work = append(work, pos{pr, len(pr.Instrs)})
		}
		first = false
	}
	if found == nil {
		return v
	}
	return found.Val
}
