package an

import (
	"fmt"
	"go/constant"
	"go/token"

	"golang.org/x/tools/go/ssa"
)

// Point is a program point: before instruction Idx of Block.
type Point struct {
	Block *ssa.BasicBlock
	Idx   int
}

// After returns the point just after ins.
func After(ins ssa.Instruction) Point {
	b := ins.Block()
	for i, x := range b.Instrs {
		if x == ins {
			return Point{b, i + 1}
		}
	}
	return Point{b, len(b.Instrs)}
}

// Entry returns the entry point of fn.
func Entry(fn *ssa.Function) Point { return Point{fn.Blocks[0], 0} }

// Step is one element of a witness path.
type Step struct {
	Block *ssa.BasicBlock
	Succ  int
	Atom  *Atom
}

// CutQuery describes a removal-reachability question (P1).
type CutQuery struct {
	From Point
	// Target reports whether ins is a target.
	Target func(ins ssa.Instruction) bool
	// AcceptEdge reports whether the edge (b -> b.Succs[i]) carrying atom a is an accepting edge (removed).
	AcceptEdge func(b *ssa.BasicBlock, i int, a *Atom) bool
	// AcceptInstr reports whether passing ins discharges the path (removed). May be nil.
	AcceptInstr func(ins ssa.Instruction) bool
}

// Cut answers: is any target reachable from q.From without crossing an accepting edge or instruction?
// It returns the first reachable target and the branch decisions leading to it.
func Cut(q CutQuery) (ssa.Instruction, []Step) {
	// Blocks whose branch condition is a phi defined in the block itself (the join of a short-circuit `a && b` / `a || b`
	// evaluated as a value) are visited once per predecessor: coming from a predecessor whose incoming value is a
	// constant only one successor is feasible, and otherwise the edge carries the incoming value's atom.
	type key struct {
		b    *ssa.BasicBlock
		pred int
	}
	type node struct {
		b      *ssa.BasicBlock
		idx    int
		pred   int // index into b.Preds of the edge taken into b; -1 if irrelevant/unknown
		parent int
		via    Step
	}
	var nodes []node
	visited := map[key]bool{}
	nodes = append(nodes, node{q.From.Block, q.From.Idx, -1, -1, Step{}})
	if q.From.Idx == 0 {
		visited[key{q.From.Block, -1}] = true
	}
	for qi := 0; qi < len(nodes); qi++ {
		n := nodes[qi]
		blocked := false
		for i := n.idx; i < len(n.b.Instrs); i++ {
			ins := n.b.Instrs[i]
			if q.Target(ins) {
				var path []Step
				for k := qi; k > 0; k = nodes[k].parent {
					path = append([]Step{nodes[k].via}, path...)
				}
				return ins, path
			}
			if q.AcceptInstr != nil && q.AcceptInstr(ins) {
				blocked = true
				break
			}
		}
		if blocked {
			continue
		}
		phi, neg := phiCond(n.b)
		for si, s := range n.b.Succs {
			a := EdgeAtom(n.b, si)
			if phi != nil && n.pred >= 0 && n.pred < len(phi.Edges) {
				in := phi.Edges[n.pred]
				want := (si == 0) != neg // the value the incoming operand must have for this successor
				if k, ok := in.(*ssa.Const); ok && k.Value != nil && k.Value.Kind() == constant.Bool {
					if constant.BoolVal(k.Value) != want {
						continue // infeasible on this path
					}
					a = nil
				} else {
					a = CondAtom(in, want)
				}
			}
			if a != nil && q.AcceptEdge != nil && q.AcceptEdge(n.b, si, a) {
				continue
			}
			if a == nil && q.AcceptEdge != nil && q.AcceptEdge(n.b, si, nil) {
				continue
			}
			pi := -1
			if p2, _ := phiCond(s); p2 != nil {
				pi = predIndex(n.b, si)
			}
			if visited[key{s, pi}] {
				continue
			}
			visited[key{s, pi}] = true
			nodes = append(nodes, node{s, 0, pi, qi, Step{n.b, si, a}})
		}
	}
	return nil, nil
}

// phiCond returns the phi (defined in b) that b's terminating If branches on, and whether it is negated.
func phiCond(b *ssa.BasicBlock) (*ssa.Phi, bool) {
	if len(b.Instrs) == 0 {
		return nil, false
	}
	iff, ok := b.Instrs[len(b.Instrs)-1].(*ssa.If)
	if !ok {
		return nil, false
	}
	c := iff.Cond
	neg := false
	for {
		if u, ok := c.(*ssa.UnOp); ok && u.Op == token.NOT {
			c = u.X
			neg = !neg
			continue
		}
		break
	}
	phi, ok := c.(*ssa.Phi)
	if !ok || phi.Block() != b {
		return nil, false
	}
	return phi, neg
}

// predIndex returns the index in b.Succs[si].Preds that corresponds to the edge (b, si).
func predIndex(b *ssa.BasicBlock, si int) int {
	s := b.Succs[si]
	nth := 0
	for k := 0; k < si; k++ {
		if b.Succs[k] == s {
			nth++
		}
	}
	for j, p := range s.Preds {
		if p == b {
			if nth == 0 {
				return j
			}
			nth--
		}
	}
	return -1
}

// PathString renders a witness path.
func PathString(pos func(ssa.Instruction) string, path []Step) []string {
	var out []string
	for _, s := range path {
		last := s.Block.Instrs[len(s.Block.Instrs)-1]
		if s.Atom != nil {
			out = append(out, fmt.Sprintf("%s: [%s]", pos(last), s.Atom))
		}
	}
	return out
}

// Reachable reports whether instruction `to` can execute after point `from` (plain CFG reachability).
func Reachable(from Point, to ssa.Instruction) bool {
	ins, _ := Cut(CutQuery{From: from, Target: func(i ssa.Instruction) bool { return i == to }})
	return ins != nil
}

// InstrPos returns a usable position for an instruction (falls back to operands / block neighbours).
func InstrPos(ins ssa.Instruction) (p int) {
	return int(ins.Pos())
}
