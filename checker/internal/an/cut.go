package an

import (
	"fmt"

	"golang.org/x/tools/go/ssa"
)

// Point is a program point: before instruction Idx of Block.
type Point struct {
	Block *ssa.BasicBlock
	Idx   int
}

// After returns the point just after ins.
func After(ins ssa.Instruction) Point {
	b := ins.Block()
	for i, x := range b.Instrs {
		if x == ins {
			return Point{b, i + 1}
		}
	}
	return Point{b, len(b.Instrs)}
}

// Entry returns the entry point of fn.
func Entry(fn *ssa.Function) Point { return Point{fn.Blocks[0], 0} }

// Step is one element of a witness path.
type Step struct {
	Block *ssa.BasicBlock
	Succ  int
	Atom  *Atom
}

// CutQuery describes a removal-reachability question (P1).
type CutQuery struct {
	From Point
	// Target reports whether ins is a target.
	Target func(ins ssa.Instruction) bool
	// AcceptEdge reports whether the edge (b -> b.Succs[i]) carrying atom a is an accepting edge (removed).
	AcceptEdge func(b *ssa.BasicBlock, i int, a *Atom) bool
	// AcceptInstr reports whether passing ins discharges the path (removed). May be nil.
	AcceptInstr func(ins ssa.Instruction) bool
}

// Cut answers: is any target reachable from q.From without crossing an accepting edge or instruction?
// It returns the first reachable target and the branch decisions leading to it.
func Cut(q CutQuery) (ssa.Instruction, []Step) {
	type key struct {
		b *ssa.BasicBlock
	}
	// scan remainder of the first block, then BFS over blocks from their start
	type node struct {
		b      *ssa.BasicBlock
		idx    int
		parent int
		via    Step
	}
	var nodes []node
	visited := map[*ssa.BasicBlock]bool{}
	nodes = append(nodes, node{q.From.Block, q.From.Idx, -1, Step{}})
	if q.From.Idx == 0 {
		visited[q.From.Block] = true
	}
	for qi := 0; qi < len(nodes); qi++ {
		n := nodes[qi]
		blocked := false
		for i := n.idx; i < len(n.b.Instrs); i++ {
			ins := n.b.Instrs[i]
			if q.Target(ins) {
				var path []Step
				for k := qi; k > 0; k = nodes[k].parent {
					path = append([]Step{nodes[k].via}, path...)
				}
				return ins, path
			}
			if q.AcceptInstr != nil && q.AcceptInstr(ins) {
				blocked = true
				break
			}
		}
		if blocked {
			continue
		}
		for si, s := range n.b.Succs {
			a := EdgeAtom(n.b, si)
			if q.AcceptEdge != nil && q.AcceptEdge(n.b, si, a) {
				continue
			}
			if visited[s] {
				continue
			}
			visited[s] = true
			nodes = append(nodes, node{s, 0, qi, Step{n.b, si, a}})
		}
	}
	return nil, nil
}

// PathString renders a witness path.
func PathString(pos func(ssa.Instruction) string, path []Step) []string {
	var out []string
	for _, s := range path {
		last := s.Block.Instrs[len(s.Block.Instrs)-1]
		if s.Atom != nil {
			out = append(out, fmt.Sprintf("%s: [%s]", pos(last), s.Atom))
		}
	}
	return out
}

// Reachable reports whether instruction `to` can execute after point `from` (plain CFG reachability).
func Reachable(from Point, to ssa.Instruction) bool {
	ins, _ := Cut(CutQuery{From: from, Target: func(i ssa.Instruction) bool { return i == to }})
	return ins != nil
}

// InstrPos returns a usable position for an instruction (falls back to operands / block neighbours).
func InstrPos(ins ssa.Instruction) (p int) {
	return int(ins.Pos())
}
