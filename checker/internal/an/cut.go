package an

import (
	"fmt"
	"go/constant"
	"go/token"
	"go/types"

	"golang.org/x/tools/go/ssa"
)

// Point is a program point: before instruction Idx of Block.
type Point struct {
	Block *ssa.BasicBlock
	Idx   int
}

// After returns the point just after ins.
func After(ins ssa.Instruction) Point {
	b := ins.Block()
	for i, x := range b.Instrs {
		if x == ins {
			return Point{b, i + 1}
		}
	}
	return Point{b, len(b.Instrs)}
}

// Entry returns the entry point of fn.
func Entry(fn *ssa.Function) Point { return Point{fn.Blocks[0], 0} }

// Step is one element of a witness path.
type Step struct {
	Block *ssa.BasicBlock
	Succ  int
	Atom  *Atom
}

// CutQuery describes a removal-reachability question (P1).
type CutQuery struct {
	From Point
	// Target reports whether ins is a target.
	Target func(ins ssa.Instruction) bool
	// AcceptEdge reports whether the edge (b -> b.Succs[i]) carrying atom a is an accepting edge (removed).
	AcceptEdge func(b *ssa.BasicBlock, i int, a *Atom) bool
	// AcceptInstr reports whether passing ins discharges the path (removed). May be nil.
	AcceptInstr func(ins ssa.Instruction) bool
}

// Cut answers: is any target reachable from q.From without crossing an accepting edge or instruction?
// It returns the first reachable target and the branch decisions leading to it.
//
// The search is path-insensitive except for two cheap, sound refinements:
//   - a block whose branch condition is (a comparison of) a phi defined in that block is evaluated per predecessor: the
//     incoming operand replaces the phi (short-circuit joins `a && b`, results threaded through `if res == OK { res = next() }`);
//     a constant incoming operand decides the branch;
//   - an edge whose atom contradicts a fact established by the edge taken immediately before (same SSA values, opposite
//     relation) is infeasible.
func Cut(q CutQuery) (ssa.Instruction, []Step) {
	type key struct {
		b     *ssa.BasicBlock
		pred  int
		facts string
	}
	type node struct {
		b      *ssa.BasicBlock
		idx    int
		pred   int // index into b.Preds of the edge taken into b; -1 if irrelevant/unknown
		facts  []*Atom
		parent int
		via    Step
	}
	factsKey := func(fs []*Atom) string {
		k := ""
		for _, f := range fs {
			if f != nil {
				k += f.String() + ";"
			}
		}
		return k
	}
	var nodes []node
	visited := map[key]bool{}
	nodes = append(nodes, node{q.From.Block, q.From.Idx, -1, nil, -1, Step{}})
	if q.From.Idx == 0 {
		visited[key{q.From.Block, -1, ""}] = true
	}
	for qi := 0; qi < len(nodes); qi++ {
		n := nodes[qi]
		blocked := false
		for i := n.idx; i < len(n.b.Instrs); i++ {
			ins := n.b.Instrs[i]
			if q.Target(ins) {
				var path []Step
				for k := qi; k > 0; k = nodes[k].parent {
					path = append([]Step{nodes[k].via}, path...)
				}
				return ins, path
			}
			if q.AcceptInstr != nil && q.AcceptInstr(ins) {
				blocked = true
				break
			}
		}
		if blocked {
			continue
		}
		// facts of the incoming edge that still speak about the same dynamic values (not redefined in this block)
		var facts []*Atom
		for _, f := range n.facts {
			if f != nil && !definedIn(f.LV, n.b) && !definedIn(f.RV, n.b) {
				facts = append(facts, f)
			}
		}
		for si, s := range n.b.Succs {
			a0 := EdgeAtom(n.b, si)
			a1, feasible := substPhiCond(n.b, si, n.pred)
			if !feasible {
				continue
			}
			infeasible := false
			for _, f := range facts {
				if contradicts(f, a0) || contradicts(f, a1) {
					infeasible = true
				}
			}
			if infeasible {
				continue
			}
			a := a0
			if a1 != nil {
				a = a1
			}
			if q.AcceptEdge != nil {
				if q.AcceptEdge(n.b, si, a) || (a1 != nil && a0 != nil && q.AcceptEdge(n.b, si, a0)) {
					continue
				}
			}
			pi := -1
			if hasPhiCond(s) {
				pi = predIndex(n.b, si)
			}
			var nf []*Atom
			fk := ""
			if endsInIf(s) {
				if a0 != nil {
					nf = append(nf, a0)
				}
				if a1 != nil {
					nf = append(nf, a1)
				}
				fk = factsKey(nf)
			}
			if visited[key{s, pi, fk}] {
				continue
			}
			visited[key{s, pi, fk}] = true
			nodes = append(nodes, node{s, 0, pi, nf, qi, Step{n.b, si, a}})
		}
	}
	return nil, nil
}

func endsInIf(b *ssa.BasicBlock) bool {
	if len(b.Instrs) == 0 {
		return false
	}
	_, ok := b.Instrs[len(b.Instrs)-1].(*ssa.If)
	return ok
}

func definedIn(v ssa.Value, b *ssa.BasicBlock) bool {
	if v == nil {
		return false
	}
	if ins, ok := v.(ssa.Instruction); ok {
		return ins.Block() == b
	}
	return false
}

// contradicts reports whether f and a cannot both hold (same operands, complementary relation).
func contradicts(f, a *Atom) bool {
	if f == nil || a == nil {
		return false
	}
	same := func(x, y ssa.Value) bool {
		if x == y {
			return true
		}
		kx, ok1 := x.(*ssa.Const)
		ky, ok2 := y.(*ssa.Const)
		return ok1 && ok2 && Term(kx) == Term(ky) && types.Identical(kx.Type(), ky.Type())
	}
	switch {
	case (f.Op == "true" && a.Op == "false") || (f.Op == "false" && a.Op == "true"):
		return same(f.LV, a.LV)
	case (f.Op == "==" && a.Op == "!=") || (f.Op == "!=" && a.Op == "=="):
		return (same(f.LV, a.LV) && same(f.RV, a.RV)) || (same(f.LV, a.RV) && same(f.RV, a.LV))
	case (f.Op == "<" && a.Op == "<=") || (f.Op == "<=" && a.Op == "<"):
		// l < r  contradicts  r <= l
		return same(f.LV, a.RV) && same(f.RV, a.LV)
	}
	return false
}

// hasPhiCond: the block branches on (a comparison of) a phi defined in the block itself.
func hasPhiCond(b *ssa.BasicBlock) bool {
	if p, _ := phiCond(b); p != nil {
		return true
	}
	_, _, _, ok := cmpPhi(b)
	return ok
}

// cmpPhi: the block's branch condition is a comparison one operand of which is a phi defined in the block.
func cmpPhi(b *ssa.BasicBlock) (bin *ssa.BinOp, phi *ssa.Phi, neg bool, ok bool) {
	if !endsInIf(b) {
		return nil, nil, false, false
	}
	c := b.Instrs[len(b.Instrs)-1].(*ssa.If).Cond
	for {
		if u, isU := c.(*ssa.UnOp); isU && u.Op == token.NOT {
			c = u.X
			neg = !neg
			continue
		}
		break
	}
	bo, isB := c.(*ssa.BinOp)
	if !isB {
		return nil, nil, false, false
	}
	switch bo.Op {
	case token.EQL, token.NEQ, token.LSS, token.LEQ, token.GTR, token.GEQ:
	default:
		return nil, nil, false, false
	}
	if p, isP := bo.X.(*ssa.Phi); isP && p.Block() == b {
		return bo, p, neg, true
	}
	if p, isP := bo.Y.(*ssa.Phi); isP && p.Block() == b {
		return bo, p, neg, true
	}
	return nil, nil, false, false
}

// substPhiCond evaluates b's branch towards successor si for a path that entered b through predecessor edge pred:
// the atom with the phi replaced by its incoming operand (nil if not applicable), and whether the edge is feasible.
func substPhiCond(b *ssa.BasicBlock, si int, pred int) (*Atom, bool) {
	if pred < 0 {
		return nil, true
	}
	if phi, neg := phiCond(b); phi != nil && pred < len(phi.Edges) {
		in := phi.Edges[pred]
		want := (si == 0) != neg
		if k, ok := in.(*ssa.Const); ok && k.Value != nil && k.Value.Kind() == constant.Bool {
			return nil, constant.BoolVal(k.Value) == want
		}
		return CondAtom(in, want), true
	}
	bo, phi, neg, ok := cmpPhi(b)
	if !ok || pred >= len(phi.Edges) {
		return nil, true
	}
	in := phi.Edges[pred]
	x, y := bo.X, bo.Y
	if x == ssa.Value(phi) {
		x = in
	}
	if y == ssa.Value(phi) {
		y = in
	}
	want := (si == 0) != neg
	kx, okx := x.(*ssa.Const)
	ky, oky := y.(*ssa.Const)
	if okx && oky && kx.Value != nil && ky.Value != nil {
		return nil, constant.Compare(kx.Value, bo.Op, ky.Value) == want
	}
	if okx && oky && bo.Op == token.EQL || okx && oky && bo.Op == token.NEQ {
		// nil constants
		eq := kx.Value == nil && ky.Value == nil
		return nil, (eq == (bo.Op == token.EQL)) == want
	}
	var op string
	switch bo.Op {
	case token.EQL:
		op = "=="
	case token.NEQ:
		op = "!="
	case token.LSS:
		op = "<"
	case token.LEQ:
		op = "<="
	case token.GTR:
		op = ">"
	case token.GEQ:
		op = ">="
	}
	return Normalise(op, Term(x), Term(y), x, y, want), true
}

// phiCond returns the phi (defined in b) that b's terminating If branches on, and whether it is negated.
func phiCond(b *ssa.BasicBlock) (*ssa.Phi, bool) {
	if len(b.Instrs) == 0 {
		return nil, false
	}
	iff, ok := b.Instrs[len(b.Instrs)-1].(*ssa.If)
	if !ok {
		return nil, false
	}
	c := iff.Cond
	neg := false
	for {
		if u, ok := c.(*ssa.UnOp); ok && u.Op == token.NOT {
			c = u.X
			neg = !neg
			continue
		}
		break
	}
	phi, ok := c.(*ssa.Phi)
	if !ok || phi.Block() != b {
		return nil, false
	}
	return phi, neg
}

// predIndex returns the index in b.Succs[si].Preds that corresponds to the edge (b, si).
func predIndex(b *ssa.BasicBlock, si int) int {
	s := b.Succs[si]
	nth := 0
	for k := 0; k < si; k++ {
		if b.Succs[k] == s {
			nth++
		}
	}
	for j, p := range s.Preds {
		if p == b {
			if nth == 0 {
				return j
			}
			nth--
		}
	}
	return -1
}

// PathString renders a witness path.
func PathString(pos func(ssa.Instruction) string, path []Step) []string {
	var out []string
	for _, s := range path {
		last := s.Block.Instrs[len(s.Block.Instrs)-1]
		if s.Atom != nil {
			out = append(out, fmt.Sprintf("%s: [%s]", pos(last), s.Atom))
		}
	}
	return out
}

// Reachable reports whether instruction `to` can execute after point `from` (plain CFG reachability).
func Reachable(from Point, to ssa.Instruction) bool {
	ins, _ := Cut(CutQuery{From: from, Target: func(i ssa.Instruction) bool { return i == to }})
	return ins != nil
}

// InstrPos returns a usable position for an instruction (falls back to operands / block neighbours).
func InstrPos(ins ssa.Instruction) (p int) {
	return int(ins.Pos())
}
