package an

import (
	"go/token"
	"go/types"

	"golang.org/x/tools/go/ssa"
)

// PureLocalStruct: al is a local (stack) struct variable that never leaves the function by address: it is only written
// (whole, or field by field) and read (whole, or field by field). Its whole-value loads may go anywhere (they are copies).
func PureLocalStruct(al *ssa.Alloc) bool {
	if al == nil || al.Heap || al.Referrers() == nil {
		return false
	}
	pt, ok := al.Type().Underlying().(*types.Pointer)
	if !ok {
		return false
	}
	if _, ok := pt.Elem().Underlying().(*types.Struct); !ok {
		return false
	}
	for _, r := range *al.Referrers() {
		switch x := r.(type) {
		case *ssa.DebugRef:
		case *ssa.UnOp:
			if x.Op != token.MUL {
				return false
			}
		case *ssa.Store:
			if x.Addr != ssa.Value(al) {
				return false // its address is stored somewhere
			}
		case *ssa.FieldAddr:
			if x.Referrers() == nil {
				return false
			}
			for _, fr := range *x.Referrers() {
				switch y := fr.(type) {
				case *ssa.DebugRef:
				case *ssa.UnOp:
					if y.Op != token.MUL {
						return false
					}
				case *ssa.Store:
					if y.Addr != ssa.Value(x) {
						return false
					}
				default:
					return false
				}
			}
		default:
			return false
		}
	}
	return true
}

// LocalStructField: the one value field `field` of the pure local struct al holds whenever it is read at `at` (or anywhere,
// when at is nil): the struct is assigned at most once as a whole (from another pure local struct, followed) or field by
// field with one store per field, never both; the store dominates `at`. zero reports that the field is never written (it
// holds the zero value). ok is false when the shape is anything else.
func LocalStructField(al *ssa.Alloc, field int, at ssa.Instruction) (v ssa.Value, zero bool, ok bool) {
	return localStructField(al, field, at, 0)
}

func localStructField(al *ssa.Alloc, field int, at ssa.Instruction, depth int) (ssa.Value, bool, bool) {
	if depth > 3 || !PureLocalStruct(al) {
		return nil, false, false
	}
	var whole []*ssa.Store
	var fstores []*ssa.Store
	anyField := false
	for _, r := range *al.Referrers() {
		switch x := r.(type) {
		case *ssa.Store:
			whole = append(whole, x)
		case *ssa.FieldAddr:
			for _, fr := range *x.Referrers() {
				if st, isSt := fr.(*ssa.Store); isSt {
					anyField = true
					if x.Field == field {
						fstores = append(fstores, st)
					}
				}
			}
		}
	}
	dominates := func(st ssa.Instruction) bool {
		if at == nil {
			return true
		}
		if st.Block() == at.Block() {
			for _, i := range st.Block().Instrs {
				if i == st {
					return true
				}
				if i == at {
					return false
				}
			}
		}
		return st.Block().Dominates(at.Block())
	}
	switch {
	case len(whole) == 0 && len(fstores) == 1:
		if !dominates(fstores[0]) {
			return nil, false, false
		}
		return fstores[0].Val, false, true
	case len(whole) == 0 && len(fstores) == 0:
		return nil, true, true
	case len(whole) == 1 && !anyField:
		if !dominates(whole[0]) {
			return nil, false, false
		}
		ld, isLoad := whole[0].Val.(*ssa.UnOp)
		if !isLoad || ld.Op != token.MUL {
			return nil, false, false
		}
		src, isAl := ld.X.(*ssa.Alloc)
		if !isAl {
			return nil, false, false
		}
		// the source must not be written between the copy and ... (it is a pure local with single stores: its value is fixed
		// once its stores have run; they must dominate the copy)
		return localStructField(src, field, ld, depth+1)
	}
	return nil, false, false
}

// LocalFieldLoad: for `*(&local.f)` of a pure local struct, the value the field holds (see LocalStructField).
func LocalFieldLoad(v ssa.Value) (ssa.Value, bool) {
	u, ok := v.(*ssa.UnOp)
	if !ok || u.Op != token.MUL {
		return nil, false
	}
	fa, ok := u.X.(*ssa.FieldAddr)
	if !ok {
		return nil, false
	}
	al, ok := fa.X.(*ssa.Alloc)
	if !ok {
		return nil, false
	}
	val, zero, ok := LocalStructField(al, fa.Field, u)
	if !ok || zero {
		return nil, false
	}
	return val, true
}
