package an

import (
	"go/token"

	"golang.org/x/tools/go/ssa"
)

// Atom is a normalised relational fact that holds on a CFG edge.
// Op is one of "==", "!=", "<", "<=", "true", "false".  For "<"/"<=" the sides are
// ordered as written after normalisation (a > b becomes b < a).  For "true"/"false"
// L is the boolean term and R is empty.
type Atom struct {
	Op     string
	L, R   string
	LV, RV ssa.Value
}

func (a *Atom) String() string {
	if a == nil {
		return "<none>"
	}
	if a.Op == "true" {
		return a.L
	}
	if a.Op == "false" {
		return "!" + a.L
	}
	return a.L + " " + a.Op + " " + a.R
}

// Is reports whether the atom is (op, l, r) after normalisation; for ==/!= the sides commute.
func (a *Atom) Is(op, l, r string) bool {
	if a == nil {
		return false
	}
	n := Normalise(op, l, r, nil, nil, true)
	if a.Op != n.Op {
		return false
	}
	return a.L == n.L && a.R == n.R
}

// Normalise builds the canonical atom for "l op r" holding (pos=true) or not holding.
func Normalise(op string, l, r string, lv, rv ssa.Value, pos bool) *Atom {
	if !pos {
		switch op {
		case "==":
			op = "!="
		case "!=":
			op = "=="
		case "<":
			op, l, r, lv, rv = "<=", r, l, rv, lv // !(l<r) == r<=l
		case "<=":
			op, l, r, lv, rv = "<", r, l, rv, lv
		case ">":
			op = "<=" // !(l>r) == l<=r
		case ">=":
			op = "<"
		case "true":
			op = "false"
		case "false":
			op = "true"
		}
	} else {
		switch op {
		case ">":
			op, l, r, lv, rv = "<", r, l, rv, lv
		case ">=":
			op, l, r, lv, rv = "<=", r, l, rv, lv
		}
	}
	if (op == "==" || op == "!=") && l > r {
		l, r, lv, rv = r, l, rv, lv
	}
	return &Atom{Op: op, L: l, R: r, LV: lv, RV: rv}
}

// CondAtom returns the atom that holds when cond evaluates to `pos`.
func CondAtom(cond ssa.Value, pos bool) *Atom {
	for {
		if u, ok := cond.(*ssa.UnOp); ok && u.Op == token.NOT {
			cond = u.X
			pos = !pos
			continue
		}
		break
	}
	if b, ok := cond.(*ssa.BinOp); ok {
		var op string
		switch b.Op {
		case token.EQL:
			op = "=="
		case token.NEQ:
			op = "!="
		case token.LSS:
			op = "<"
		case token.LEQ:
			op = "<="
		case token.GTR:
			op = ">"
		case token.GEQ:
			op = ">="
		}
		if op != "" {
			return Normalise(op, Term(b.X), Term(b.Y), b.X, b.Y, pos)
		}
	}
	return Normalise("true", Term(cond), "", cond, nil, pos)
}

// EdgeAtom returns the atom holding on the edge from block b to its succ index i (nil if unconditional).
func EdgeAtom(b *ssa.BasicBlock, i int) *Atom {
	if len(b.Instrs) == 0 {
		return nil
	}
	iff, ok := b.Instrs[len(b.Instrs)-1].(*ssa.If)
	if !ok {
		return nil
	}
	return CondAtom(iff.Cond, i == 0)
}
