// Package prog loads /repo as a type-checked, SSA-built whole program and offers
// the shared queries (call graphs, production reachability, role anchors).
package prog

import (
	"fmt"
	"go/token"
	"go/types"
	"os"
	"sort"
	"strings"
	"time"

	"golang.org/x/tools/go/callgraph"
	"golang.org/x/tools/go/callgraph/cha"
	"golang.org/x/tools/go/callgraph/vta"
	"golang.org/x/tools/go/packages"
	"golang.org/x/tools/go/ssa"
	"golang.org/x/tools/go/ssa/ssautil"
)

// Module is the import path prefix of the analysed module.
const Module = "github.com/attestantio/dirk"

// MinModulePackages is the floor of module packages that must load (confirmed by hand: 56 non-test).
const MinModulePackages = 50

// Program is the loaded program.
type Program struct {
	Repo     string
	GOARCH   string
	Fset     *token.FileSet
	Pkgs     []*packages.Package
	ByPath   map[string]*packages.Package
	SSA      *ssa.Program
	ModPkgs  []*ssa.Package // module packages, sorted by path
	AllFuncs map[*ssa.Function]bool

	vta   *callgraph.Graph
	cha   *callgraph.Graph
	reach map[*ssa.Function]bool

	Timings map[string]float64
}

// Load loads the program rooted at repo.
func Load(repo string, goarch string) (*Program, error) {
	t0 := time.Now()
	env := append(os.Environ(), "GOFLAGS=-mod=mod", "GOPROXY=off", "GOSUMDB=off", "GOTOOLCHAIN=local", "GOWORK=off")
	if goarch != "" {
		env = append(env, "GOARCH="+goarch, "CGO_ENABLED=0")
	}
	cfg := &packages.Config{
		Mode:       packages.LoadAllSyntax,
		Dir:        repo,
		Tests:      false,
		BuildFlags: []string{"-tags=verif"},
		Env:        env,
	}
	pkgs, err := packages.Load(cfg, "./...")
	if err != nil {
		return nil, fmt.Errorf("load: %w", err)
	}
	if len(pkgs) == 0 {
		return nil, fmt.Errorf("load: zero packages")
	}
	p := &Program{Repo: repo, GOARCH: goarch, Pkgs: pkgs, ByPath: map[string]*packages.Package{}, Timings: map[string]float64{}}
	var errs []string
	nmod := 0
	packages.Visit(pkgs, nil, func(pk *packages.Package) {
		p.ByPath[pk.PkgPath] = pk
		if IsModulePath(pk.PkgPath) {
			nmod++
			for _, e := range pk.Errors {
				errs = append(errs, e.Error())
			}
		}
	})
	if len(errs) > 0 {
		sort.Strings(errs)
		if len(errs) > 10 {
			errs = errs[:10]
		}
		return nil, fmt.Errorf("load: type errors in module packages:\n  %s", strings.Join(errs, "\n  "))
	}
	if nmod < MinModulePackages {
		return nil, fmt.Errorf("load: only %d module packages loaded, floor is %d", nmod, MinModulePackages)
	}
	p.Fset = pkgs[0].Fset
	p.Timings["load_s"] = time.Since(t0).Seconds()

	t1 := time.Now()
	prog, _ := ssautil.AllPackages(pkgs, ssa.InstantiateGenerics)
	prog.Build()
	p.SSA = prog
	for _, sp := range prog.AllPackages() {
		if sp.Pkg != nil && IsModulePath(sp.Pkg.Path()) {
			p.ModPkgs = append(p.ModPkgs, sp)
		}
	}
	sort.Slice(p.ModPkgs, func(i, j int) bool { return p.ModPkgs[i].Pkg.Path() < p.ModPkgs[j].Pkg.Path() })
	p.Timings["ssa_s"] = time.Since(t1).Seconds()
	return p, nil
}

// IsModulePath reports whether the package path is in the analysed module.
func IsModulePath(path string) bool {
	return path == Module || strings.HasPrefix(path, Module+"/")
}

// InModule reports whether fn is defined in the analysed module (including closures).
func InModule(fn *ssa.Function) bool {
	if fn == nil {
		return false
	}
	for fn.Parent() != nil {
		fn = fn.Parent()
	}
	if fn.Pkg != nil && fn.Pkg.Pkg != nil {
		return IsModulePath(fn.Pkg.Pkg.Path())
	}
	if o := fn.Origin(); o != nil && o != fn {
		return InModule(o)
	}
	if fn.Object() != nil && fn.Object().Pkg() != nil {
		return IsModulePath(fn.Object().Pkg().Path())
	}
	return false
}

// PkgPathOf returns the package path fn belongs to.
func PkgPathOf(fn *ssa.Function) string {
	for fn.Parent() != nil {
		fn = fn.Parent()
	}
	if fn.Pkg != nil && fn.Pkg.Pkg != nil {
		return fn.Pkg.Pkg.Path()
	}
	if fn.Object() != nil && fn.Object().Pkg() != nil {
		return fn.Object().Pkg().Path()
	}
	return ""
}

// IsTestish reports whether a module package is a mock/testing helper package.
func IsTestish(path string) bool {
	if !IsModulePath(path) {
		return false
	}
	rel := strings.TrimPrefix(path, Module)
	for _, seg := range strings.Split(rel, "/") {
		if seg == "mock" || seg == "testing" || seg == "mocks" {
			return true
		}
	}
	return false
}

// Package returns the SSA package with the given path, or nil.
func (p *Program) Package(path string) *ssa.Package {
	for _, sp := range p.SSA.AllPackages() {
		if sp.Pkg != nil && sp.Pkg.Path() == path {
			return sp
		}
	}
	return nil
}

// ModuleFuncs returns all source functions (incl. methods and closures) of module packages, sorted.
func (p *Program) ModuleFuncs() []*ssa.Function {
	var out []*ssa.Function
	seen := map[*ssa.Function]bool{}
	var add func(fn *ssa.Function)
	add = func(fn *ssa.Function) {
		if fn == nil || seen[fn] {
			return
		}
		seen[fn] = true
		if fn.Blocks != nil || fn.Synthetic == "" {
			out = append(out, fn)
		}
		for _, an := range fn.AnonFuncs {
			add(an)
		}
	}
	for _, sp := range p.ModPkgs {
		for _, m := range sp.Members {
			switch m := m.(type) {
			case *ssa.Function:
				add(m)
			case *ssa.Type:
				for _, t := range []types.Type{m.Type(), types.NewPointer(m.Type())} {
					ms := p.SSA.MethodSets.MethodSet(t)
					for i := 0; i < ms.Len(); i++ {
						fn := p.SSA.MethodValue(ms.At(i))
						if fn != nil && fn.Synthetic == "" && InModule(fn) {
							add(fn)
						}
					}
				}
			}
		}
	}
	sort.Slice(out, func(i, j int) bool { return FuncKey(out[i]) < FuncKey(out[j]) })
	return out
}

// FuncKey is a stable printable name for a function.
func FuncKey(fn *ssa.Function) string {
	if fn == nil {
		return "<nil>"
	}
	return fn.String()
}

// ShortFunc is a shorter name with the module prefix stripped.
func ShortFunc(fn *ssa.Function) string {
	return strings.ReplaceAll(FuncKey(fn), Module+"/", "")
}

// Pos renders a position relative to the repo.
func (p *Program) Pos(pos token.Pos) string {
	if !pos.IsValid() {
		return "-"
	}
	ps := p.Fset.Position(pos)
	f := ps.Filename
	if strings.HasPrefix(f, p.Repo+"/") {
		f = strings.TrimPrefix(f, p.Repo+"/")
	} else if i := strings.Index(f, "/pkg/mod/"); i >= 0 {
		f = f[i+len("/pkg/mod/"):]
	}
	return fmt.Sprintf("%s:%d", f, ps.Line)
}

// FuncPos renders the position of a function.
func (p *Program) FuncPos(fn *ssa.Function) string { return p.Pos(fn.Pos()) }

// VTA returns the VTA call graph (seeded by CHA), computing it on first use.
func (p *Program) VTA() *callgraph.Graph {
	if p.vta == nil {
		t := time.Now()
		p.AllFuncs = ssautil.AllFunctions(p.SSA)
		p.vta = vta.CallGraph(p.AllFuncs, p.CHA())
		p.Timings["vta_s"] = time.Since(t).Seconds()
	}
	return p.vta
}

// CHA returns the class-hierarchy call graph.
func (p *Program) CHA() *callgraph.Graph {
	if p.cha == nil {
		t := time.Now()
		p.cha = cha.CallGraph(p.SSA)
		p.Timings["cha_s"] = time.Since(t).Seconds()
	}
	return p.cha
}

// MainFunc returns main.main of the module root package.
func (p *Program) MainFunc() *ssa.Function {
	sp := p.Package(Module)
	if sp == nil {
		return nil
	}
	return sp.Func("main")
}

// Production returns the set of functions reachable from main.main (and main's init) in the VTA graph.
func (p *Program) Production() map[*ssa.Function]bool {
	if p.reach != nil {
		return p.reach
	}
	g := p.VTA()
	reach := map[*ssa.Function]bool{}
	var stack []*ssa.Function
	push := func(f *ssa.Function) {
		if f != nil && !reach[f] {
			reach[f] = true
			stack = append(stack, f)
		}
	}
	sp := p.Package(Module)
	if sp != nil {
		push(sp.Func("main"))
		push(sp.Func("init"))
	}
	for len(stack) > 0 {
		f := stack[len(stack)-1]
		stack = stack[:len(stack)-1]
		if n := g.Nodes[f]; n != nil {
			for _, e := range n.Out {
				push(e.Callee.Func)
			}
		}
		// closures defined in f are considered reachable when f is (conservative)
		for _, an := range f.AnonFuncs {
			push(an)
		}
	}
	p.reach = reach
	return reach
}

// Callees returns the possible callees of a call instruction using the VTA graph.
func (p *Program) Callees(site ssa.CallInstruction) []*ssa.Function {
	if f := site.Common().StaticCallee(); f != nil {
		return []*ssa.Function{f}
	}
	g := p.VTA()
	n := g.Nodes[site.Parent()]
	var out []*ssa.Function
	if n == nil {
		return nil
	}
	seen := map[*ssa.Function]bool{}
	for _, e := range n.Out {
		if e.Site == site && !seen[e.Callee.Func] {
			seen[e.Callee.Func] = true
			out = append(out, e.Callee.Func)
		}
	}
	sort.Slice(out, func(i, j int) bool { return FuncKey(out[i]) < FuncKey(out[j]) })
	return out
}

// LookupType finds a named type by package path and name.
func (p *Program) LookupType(pkgPath, name string) *types.Named {
	pk := p.ByPath[pkgPath]
	if pk == nil || pk.Types == nil {
		return nil
	}
	o := pk.Types.Scope().Lookup(name)
	if o == nil {
		return nil
	}
	tn, ok := o.(*types.TypeName)
	if !ok {
		return nil
	}
	n, _ := tn.Type().(*types.Named)
	return n
}

// Implementations returns the module named types (not in mock/testing packages) whose pointer
// or value method set implements iface, restricted to those with at least one production-reachable method.
func (p *Program) Implementations(iface *types.Interface, productionOnly bool) []*types.Named {
	var out []*types.Named
	prod := map[*ssa.Function]bool{}
	if productionOnly {
		prod = p.Production()
	}
	for _, sp := range p.ModPkgs {
		if IsTestish(sp.Pkg.Path()) {
			continue
		}
		for _, m := range sp.Members {
			t, ok := m.(*ssa.Type)
			if !ok {
				continue
			}
			named, ok := t.Type().(*types.Named)
			if !ok || types.IsInterface(named) {
				continue
			}
			ptr := types.NewPointer(named)
			if !types.Implements(ptr, iface) && !types.Implements(named, iface) {
				continue
			}
			if productionOnly {
				any := false
				ms := p.SSA.MethodSets.MethodSet(ptr)
				for i := 0; i < ms.Len(); i++ {
					if fn := p.SSA.MethodValue(ms.At(i)); fn != nil && prod[fn] {
						any = true
						break
					}
				}
				if !any {
					continue
				}
			}
			out = append(out, named)
		}
	}
	sort.Slice(out, func(i, j int) bool { return out[i].String() < out[j].String() })
	return out
}

// Method returns the SSA function for method name on *T (or T).
func (p *Program) Method(t *types.Named, name string) *ssa.Function {
	for _, typ := range []types.Type{types.NewPointer(t), t} {
		ms := p.SSA.MethodSets.MethodSet(typ)
		for i := 0; i < ms.Len(); i++ {
			sel := ms.At(i)
			if sel.Obj().Name() == name {
				fn := p.SSA.MethodValue(sel)
				if fn != nil && fn.Synthetic != "" {
					// wrapper (e.g. promoted or pointer-receiver wrapper): find underlying declared func
					if f2 := p.SSA.FuncValue(sel.Obj().(*types.Func)); f2 != nil {
						return f2
					}
				}
				return fn
			}
		}
	}
	return nil
}
