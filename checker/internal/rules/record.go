package rules

import (
	"fmt"
	"go/types"

	"dirkcheck/internal/an"
	"dirkcheck/internal/prog"

	"golang.org/x/tools/go/ssa"
)

// StoreCommit (C03.O2): Store.Store / Store.BatchStore return a nil error only as the verdict of a badger commit
// that wrote exactly the given keys and values.
func (c *Ctx) StoreCommit(prop string, s *Slashing) {
	prop = "C03"
	rule := prop + ".O2 commit"
	dbUpdate := "(*" + pkgBadger + ".DB).Update"
	wbFlush := "(*" + pkgBadger + ".WriteBatch).Flush"
	wbSet := "(*" + pkgBadger + ".WriteBatch).Set"
	txnSet := "(*" + pkgBadger + ".Txn).Set"

	// --- single store
	{
		fn := s.StoreStore
		txnCommit := "(*" + pkgBadger + ".Txn).Commit"
		esc, commits := NilErrorNeeds(fn, func(ci ssa.CallInstruction) bool { return IsCallTo(ci, dbUpdate) || IsCallTo(ci, txnCommit) })
		if len(commits) == 0 {
			c.R.Fail(rule, Fn(fn), c.P.FuncPos(fn), "no synchronous commit ((*badger.DB).Update or (*badger.Txn).Commit) found in the single-record store", "nil error only as the verdict of a synchronous commit", nil)
		}
		for _, e := range esc {
			c.R.Fail(rule, Fn(fn), c.Pos(e.Ret), "the store "+e.Why+" without a successful db.Update", "every nil-error return is the verdict of db.Update", an.PathString(c.Pos, e.Path))
		}
		if len(esc) == 0 && len(commits) > 0 {
			c.R.OK(rule, Fn(fn), c.P.FuncPos(fn), "nil error only as the verdict of db.Update")
		}
		// commit must be a plain call (not go / defer)
		for _, ci := range commits {
			if _, ok := ci.(*ssa.Call); !ok {
				c.R.Fail(rule, Fn(fn)+":sync", c.Pos(ci), "db.Update is started with go/defer: the caller gets its verdict before the commit", "plain synchronous call", nil)
			}
			if IsCallTo(ci, txnCommit) {
				// explicit transaction: txn.Set(key, value) of the parameters must succeed before Commit on every path
				sets := Calls(fn, func(c2 ssa.CallInstruction) bool { return IsCallTo(c2, txnSet) })
				okSet := false
				for _, st := range sets {
					a := st.Common().Args
					if len(a) == 3 && a[0] == ci.Common().Args[0] && paramIndexOf(fn, a[1]) == 2 && paramIndexOf(fn, a[2]) == 3 {
						errs := map[ssa.Value]bool{}
						for _, e := range errValuesOfCall(st) {
							errs[e] = true
						}
						target := ci.(ssa.Instruction)
						if x, _ := an.Cut(an.CutQuery{From: an.Entry(fn), Target: func(i ssa.Instruction) bool { return i == target },
							AcceptEdge: func(b *ssa.BasicBlock, i int, a *an.Atom) bool { return errNilAtom(a, errs) }}); x == nil {
							okSet = true
						}
					}
				}
				if !okSet {
					c.R.Fail(rule, Fn(fn)+":txn-body", c.Pos(ci), "Commit is reachable without a successful txn.Set(key, value) of the store's own parameters on the same transaction", "txn.Set(key, value) err == nil before txn.Commit()", nil)
				} else {
					c.R.OK(rule, Fn(fn)+":txn-body", c.Pos(ci), "explicit transaction: Set(key,value) succeeded before the synchronous Commit")
				}
				continue
			}
			// the transaction body sets (key, value) of the parameters and returns that error
			args := ci.Common().Args
			var body *ssa.Function
			if len(args) >= 2 {
				if mc, ok := args[1].(*ssa.MakeClosure); ok {
					body = mc.Fn.(*ssa.Function)
				} else if f, ok := args[1].(*ssa.Function); ok {
					body = f
				}
			}
			if body == nil {
				c.R.Unknown(rule, Fn(fn)+":txn-body", c.Pos(ci), "cannot resolve the transaction function passed to db.Update")
				continue
			}
			besc, sets := NilErrorNeeds(body, func(ci ssa.CallInstruction) bool { return IsCallTo(ci, txnSet) })
			okArgs := false
			for _, st := range sets {
				a := st.Common().Args
				if len(a) == 3 && paramIndexOf(fn, a[1]) == paramIdxByName(fn, 2) && paramIndexOf(fn, a[2]) == paramIdxByName(fn, 3) {
					okArgs = true
				}
			}
			if len(sets) == 0 || !okArgs {
				c.R.Fail(rule, Fn(fn)+":txn-body", c.Pos(ci), "the transaction does not Set(key, value) of the store's own parameters", "txn.Set(key, value) with the parameters of Store", nil)
			} else if len(besc) > 0 {
				c.R.Fail(rule, Fn(fn)+":txn-body", c.Pos(besc[0].Ret), "the transaction function can return nil without a successful txn.Set (the commit would then succeed without the record)", "nil only as the verdict of txn.Set", an.PathString(c.Pos, besc[0].Path))
			} else {
				c.R.OK(rule, Fn(fn)+":txn-body", c.Pos(ci), "transaction sets (key,value) of the parameters and returns txn.Set's error")
			}
		}
	}
	// --- batch store
	{
		fn := s.StoreBatch
		esc, commits := NilErrorNeeds(fn, func(ci ssa.CallInstruction) bool { return IsCallTo(ci, wbFlush) })
		if len(commits) == 0 {
			c.R.Fail(rule, Fn(fn), c.P.FuncPos(fn), "no call to WriteBatch.Flush found in the batch store", "nil error only as the verdict of Flush", nil)
		}
		for _, e := range esc {
			c.R.Fail(rule, Fn(fn), c.Pos(e.Ret), "the batch store "+e.Why+" without a successful Flush", "every nil-error return is the verdict of WriteBatch.Flush", an.PathString(c.Pos, e.Path))
		}
		if len(esc) == 0 && len(commits) > 0 {
			c.R.OK(rule, Fn(fn), c.P.FuncPos(fn), "nil error only as the verdict of WriteBatch.Flush")
		}
		// every index is Set before Flush: Flush is reachable only through the exit edge of a full-range loop over keys
		// whose every iteration performs wb.Set(keys[i], values[i]) and leaves on error.
		keysP, valsP := fn.Params[paramIdxByName(fn, 2)], fn.Params[paramIdxByName(fn, 3)]
		// (second form) an intermediate list of entries: `entries := make([]*badger.Entry, len(keys))`, filled at every index
		// with badger.NewEntry(keys[i], values[i]) by a full-range loop over keys, then handed to wb.SetEntry one by one
		var entriesRoot ssa.Value
		for _, l1 := range FindLoops(fn) {
			if !l1.FullRange || l1.BoundLen != ssa.Value(keysP) {
				continue
			}
			var root ssa.Value
			fill := func(ins ssa.Instruction) bool {
				st, ok := ins.(*ssa.Store)
				if !ok {
					return false
				}
				ia, ok := st.Addr.(*ssa.IndexAddr)
				if !ok || ia.Index != l1.Idx {
					return false
				}
				ms, ok := sliceRootExact(ia.X).(*ssa.MakeSlice)
				if !ok {
					return false
				}
				ln, ok := stripConvert(ms.Len).(*ssa.Call)
				if !ok || !isBuiltin(ln, "len") || sliceRoot(ln.Call.Args[0]) != ssa.Value(keysP) {
					return false
				}
				ne, ok := st.Val.(*ssa.Call)
				if !ok || !IsCallTo(ne, pkgBadger+".NewEntry") || len(ne.Call.Args) != 2 {
					return false
				}
				if !(isElemLoad(ne.Call.Args[0], keysP, l1.Idx) || isRangeValueOf(ne.Call.Args[0], keysP, l1.Idx)) || !isElemLoad(ne.Call.Args[1], valsP, l1.Idx) {
					return false
				}
				root = ms
				return true
			}
			// an iteration reaches the next one only after the store; leaving the loop early must leave the function
			if !l1.IterationSkips(fill) && root != nil {
				leaves := true
				for _, e := range l1.BreakEdges() {
					if x, _ := an.Cut(an.CutQuery{From: an.Point{Block: e[1], Idx: 0}, Target: func(i ssa.Instruction) bool {
						ci, ok := i.(ssa.CallInstruction)
						return ok && IsCallTo(ci, wbFlush)
					}}); x != nil {
						leaves = false
					}
				}
				if leaves {
					entriesRoot = root
				}
			}
		}
		var good *Loop
		for _, l := range FindLoops(fn) {
			if !l.FullRange || !(l.BoundLen == ssa.Value(keysP) || (entriesRoot != nil && l.BoundLen == entriesRoot)) {
				continue
			}
			l := l
			var setCall ssa.CallInstruction
			skips := l.IterationSkips(func(ins ssa.Instruction) bool {
				ci, ok := ins.(ssa.CallInstruction)
				if ok && entriesRoot != nil && l.BoundLen == entriesRoot && IsCallTo(ci, "(*"+pkgBadger+".WriteBatch).SetEntry") && len(ci.Common().Args) == 2 {
					if isElemLoad(ci.Common().Args[1], entriesRoot, l.Idx) {
						setCall = ci
						return true
					}
					return false
				}
				if !ok || !IsCallTo(ci, wbSet) {
					return false
				}
				a := ci.Common().Args
				if len(a) != 3 {
					return false
				}
				if !isElemLoad(a[1], keysP, l.Idx) || !isElemLoad(a[2], valsP, l.Idx) {
					return false
				}
				setCall = ci
				return true
			})
			if setCall == nil || skips {
				continue
			}
			// the set error must leave the function: from the Set call, the header is reachable only via err == nil
			errs := map[ssa.Value]bool{}
			for _, e := range errValuesOfCall(setCall) {
				errs[e] = true
			}
			hdr := l.Header
			x, _ := an.Cut(an.CutQuery{From: an.After(setCall), Target: func(i ssa.Instruction) bool { return i == hdr.Instrs[0] },
				AcceptEdge: func(b *ssa.BasicBlock, i int, a *an.Atom) bool { return errNilAtom(a, errs) }})
			if x != nil {
				continue
			}
			good = l
		}
		// one write batch: what is flushed is what was filled (a fresh batch per chunk leaves the earlier chunks unwritten)
		{
			var batches []ssa.Instruction
			for _, g := range WithClosures(fn) {
				for _, ci := range Calls(g, func(ci ssa.CallInstruction) bool {
					return IsCallTo(ci, "(*"+pkgBadger+".DB).NewWriteBatch") || IsCallTo(ci, "(*"+pkgBadger+".DB).NewWriteBatchAt")
				}) {
					batches = append(batches, ci.(ssa.Instruction))
				}
			}
			inLoop := false
			for _, bi := range batches {
				blk := bi.Block()
				seen := map[*ssa.BasicBlock]bool{}
				st := append([]*ssa.BasicBlock{}, blk.Succs...)
				for len(st) > 0 {
					x := st[len(st)-1]
					st = st[:len(st)-1]
					if x == blk {
						inLoop = true
						break
					}
					if seen[x] {
						continue
					}
					seen[x] = true
					st = append(st, x.Succs...)
				}
			}
			if len(batches) != 1 || inLoop {
				good = nil
				c.R.Fail(rule, Fn(fn)+":one-batch", c.P.FuncPos(fn), fmt.Sprintf("the batch store creates %d write batches (or creates one inside a loop): the batch that is flushed is not the one every entry was set in", len(batches)), "one NewWriteBatch, filled completely, flushed once", nil)
			}
		}
		if good == nil {
			c.R.Fail(rule, Fn(fn)+":set-all", c.P.FuncPos(fn), "no full-range loop over keys found in which every iteration does wb.Set(keys[i], values[i]) and stops on error", "for i := range keys { wb.Set(keys[i], values[i]) or return the error }", nil)
		} else {
			for _, ci := range commits {
				exitB, hdr := good.Exit, good.Header
				x, path := an.Cut(an.CutQuery{From: an.Entry(fn), Target: func(i ssa.Instruction) bool { return i == ci.(ssa.Instruction) },
					AcceptEdge: func(b *ssa.BasicBlock, i int, a *an.Atom) bool { return b == hdr && b.Succs[i] == exitB }})
				if x != nil {
					c.R.Fail(rule, Fn(fn)+":set-all", c.Pos(ci), "Flush is reachable without completing the loop that sets every key", "Flush only after the full-range Set loop", an.PathString(c.Pos, path))
				} else {
					c.R.OK(rule, Fn(fn)+":set-all", c.Pos(ci), "Flush only after a full-range loop that Sets (keys[i], values[i]) for every i and returns on error")
				}
				if _, ok := ci.(*ssa.Call); !ok {
					c.R.Fail(rule, Fn(fn)+":sync", c.Pos(ci), "Flush is deferred or started asynchronously", "plain synchronous call", nil)
				}
			}
		}
	}
}

// isElemLoad reports whether v is a load of root[idx].
func isElemLoad(v ssa.Value, root ssa.Value, idx ssa.Value) bool {
	u, ok := v.(*ssa.UnOp)
	if !ok {
		return false
	}
	ia, ok := u.X.(*ssa.IndexAddr)
	if !ok {
		return false
	}
	return sliceRoot(ia.X) == root && ia.Index == idx
}

// paramIndexOf returns the index in outer.Params of the parameter that v resolves to (through closure cells), or -1.
func paramIndexOf(outer *ssa.Function, v ssa.Value) int {
	for i := 0; i < 6; i++ {
		switch x := v.(type) {
		case *ssa.Parameter:
			for k, p := range outer.Params {
				if p == x {
					return k
				}
			}
			return -1
		case *ssa.UnOp:
			if inner, ok := an.ResolveCell(x.X); ok {
				v = inner
				continue
			}
			return -1
		case *ssa.FreeVar:
			if b := closureBindingOf(x); b != nil {
				v = b
				continue
			}
			return -1
		default:
			return -1
		}
	}
	return -1
}

func closureBindingOf(fv *ssa.FreeVar) ssa.Value {
	fn := fv.Parent()
	parent := fn.Parent()
	if parent == nil {
		return nil
	}
	idx := -1
	for i, f := range fn.FreeVars {
		if f == fv {
			idx = i
		}
	}
	for _, b := range parent.Blocks {
		for _, ins := range b.Instrs {
			if mc, ok := ins.(*ssa.MakeClosure); ok && mc.Fn == fn && idx >= 0 {
				return mc.Bindings[idx]
			}
		}
	}
	return nil
}

// paramIdxByName: index into fn.Params of the n-th declared parameter counting the receiver as 0.
func paramIdxByName(fn *ssa.Function, n int) int { return n }

// Recorders returns the module functions (in the rules implementation package) whose nil-error returns imply a
// committed write: Store.Store, Store.BatchStore and, transitively, helpers that return nil only after one of them did.
func (c *Ctx) Recorders(s *Slashing) map[*ssa.Function]bool {
	if r, ok := c.memo["recorders"].(map[*ssa.Function]bool); ok {
		return r
	}
	rec := map[*ssa.Function]bool{s.StoreStore: true, s.StoreBatch: true}
	for changed := true; changed; {
		changed = false
		for _, fn := range c.P.ModuleFuncs() {
			if rec[fn] || prog.PkgPathOf(fn) != s.Pkg.Pkg.Path() || errResultIndex(fn) < 0 || fn.Blocks == nil {
				continue
			}
			esc, commits := NilErrorNeeds(fn, func(ci ssa.CallInstruction) bool {
				f := ci.Common().StaticCallee()
				_, plain := ci.(*ssa.Call)
				return f != nil && rec[f] && plain
			})
			if len(commits) > 0 && len(esc) == 0 {
				rec[fn] = true
				changed = true
			}
		}
	}
	c.memo["recorders"] = rec
	return rec
}

// RecordBeforeApprove (C01/C02.O7, C03.O4): in each entry method, no APPROVED verdict leaves without the
// nil-error edge of a recorder call (or a blanket overwrite of the verdict slice by a non-approving constant).
func (c *Ctx) RecordBeforeApprove(prop string, s *Slashing, kind string) {
	prop = homeProp(kind)
	rule := prop + ".O7 record"
	rec := c.Recorders(s)
	isRec := func(ci ssa.CallInstruction) bool {
		f := ci.Common().StaticCallee()
		_, plain := ci.(*ssa.Call)
		return f != nil && rec[f] && plain
	}
	type ent struct {
		fn    *ssa.Function
		batch bool
	}
	var entries []ent
	if kind == "att" {
		entries = []ent{{s.Attest, false}, {s.AttestB, true}}
	} else {
		entries = []ent{{s.Propose, false}}
	}
	for _, e := range entries {
		E := e.fn
		errs := map[ssa.Value]bool{}
		nrec := 0
		for _, b := range E.Blocks {
			for _, ins := range b.Instrs {
				if ci, ok := ins.(ssa.CallInstruction); ok && isRec(ci) {
					nrec++
					for _, ev := range errValuesOfCall(ci) {
						errs[ev] = true
					}
				}
			}
		}
		c.R.Floor(rule, "recorder calls in "+Fn(E), nrec, 1)
		if !e.batch {
			bad := 0
			for _, ret := range an.Returns(E) {
				{
					if len(ret.Results) == 0 {
						continue
					}
					// each incoming alternative of the returned value
					for _, o := range ValueOrigins(an.Result(ret, 0), ret) {
						if o.Kind == "const" && o.Const != s.APPROVED {
							continue
						}
						// the site inside E at which the approving value enters: outermost call site, or the origin site itself
						var v ssa.Value
						var from an.Point
						if len(o.Chain) > 0 {
							v = o.Chain[0].Value()
							from = an.After(o.Chain[0])
						} else {
							v = nil
							from = an.Entry(E)
						}
						target := ssa.Instruction(ret)
						x, path := an.Cut(an.CutQuery{From: from, Target: func(i ssa.Instruction) bool { return i == target },
							AcceptEdge: func(b *ssa.BasicBlock, i int, a *an.Atom) bool {
								if errNilAtom(a, errs) {
									return true
								}
								// edge on which the value is known not to be APPROVED
								if v != nil && a != nil {
									if a.Op == "!=" && ((a.LV == v && an.IsConstInt(a.RV, s.APPROVED)) || (a.RV == v && an.IsConstInt(a.LV, s.APPROVED))) {
										return true
									}
									if a.Op == "==" {
										for _, side := range [][2]ssa.Value{{a.LV, a.RV}, {a.RV, a.LV}} {
											if side[0] == v {
												if k, ok := side[1].(*ssa.Const); ok && !an.IsConstInt(k, s.APPROVED) && k.Value != nil {
													return true
												}
											}
										}
									}
								}
								return false
							}})
						if x != nil && len(o.Chain) == 0 && o.Kind == "const" {
							// constant APPROVED returned directly: path must reach *this* return through the origin site
							if o.Site != ssa.Instruction(ret) {
								// origin is a phi edge; restrict to paths through that edge: recompute from entry to the edge's jump, then it is the same question
								target = o.Site
								x, path = an.Cut(an.CutQuery{From: an.Entry(E), Target: func(i ssa.Instruction) bool { return i == target },
									AcceptEdge: func(b *ssa.BasicBlock, i int, a *an.Atom) bool { return errNilAtom(a, errs) }})
							}
						}
						if x != nil {
							bad++
							c.R.Fail(rule, Fn(E), c.Pos(ret), "an APPROVED verdict can be returned without the watermark having been stored successfully", "every path from the approval to the return passes the nil-error edge of the store call", an.PathString(c.Pos, path))
						}
					}
				}
			}
			if bad == 0 {
				c.R.OK(rule, Fn(E), c.P.FuncPos(E), "APPROVED leaves only through the nil-error edge of a recorder call")
			}
			continue
		}
		// batch: stores of approving values into the verdict slice
		var root ssa.Value
		for _, ret := range an.Returns(E) {
			{
				if len(ret.Results) > 0 {
					r := sliceRoot(an.Result(ret, 0))
					if root != nil && r != root {
						c.R.Unknown(rule, Fn(E), c.Pos(ret), "the batch entry returns different verdict slices on different paths")
					}
					root = r
				}
			}
		}
		if root == nil {
			c.R.Unknown(rule, Fn(E), c.P.FuncPos(E), "no verdict slice found")
			continue
		}
		// blanket overwrite loops (non-approving constant over the whole verdict slice)
		exitEdges := map[[2]*ssa.BasicBlock]bool{}
		for _, l := range FindLoops(E) {
			if BlanketOverwrite(l, root, func(k *ssa.Const) bool { return !an.IsConstInt(k, s.APPROVED) }) {
				exitEdges[[2]*ssa.BasicBlock{l.Header, l.Exit}] = true
			}
		}
		bad, napp := 0, 0
		for _, o := range ElemOrigins(root, E.Blocks[0].Instrs[0]) {
			if o.Kind == "const" && o.Const != s.APPROVED {
				continue
			}
			if o.Kind == "opaque" {
				continue // reported by O1
			}
			// store instruction in E through which the approving value enters the slice
			var st ssa.Instruction
			if len(o.Chain) > 0 {
				// find the store of the outermost call's value
				call := o.Chain[0]
				if call.Parent() != E {
					c.R.Unknown(rule, Fn(E), c.Pos(call), "approving value enters the verdict slice outside the entry function")
					continue
				}
				for _, r := range *call.Value().Referrers() {
					if s2, ok := r.(*ssa.Store); ok {
						st = s2
					}
				}
			} else {
				st = o.Site
			}
			if st == nil || st.Parent() != E {
				c.R.Unknown(rule, Fn(E), c.Pos(o.Site), "cannot locate the store of the approving verdict in the entry function")
				continue
			}
			napp++
			x, path := an.Cut(an.CutQuery{From: an.After(st), Target: func(i ssa.Instruction) bool { _, ok := i.(*ssa.Return); return ok },
				AcceptEdge: func(b *ssa.BasicBlock, i int, a *an.Atom) bool {
					return errNilAtom(a, errs) || exitEdges[[2]*ssa.BasicBlock{b, b.Succs[i]}]
				},
				AcceptInstr: func(ins ssa.Instruction) bool {
					ci, ok := ins.(ssa.CallInstruction)
					return ok && BlanketCall(ci, root, func(k *ssa.Const) bool { return !an.IsConstInt(k, s.APPROVED) })
				}})
			if x != nil {
				bad++
				c.R.Fail(rule, Fn(E), c.Pos(x), "the verdict slice can be returned holding APPROVED entries although the batch of watermarks was not stored", "return only after the nil-error edge of the batch store, or after overwriting every verdict with a non-approving constant", an.PathString(c.Pos, path))
			}
		}
		c.R.Floor(rule, "approving stores into the verdict slice of "+Fn(E), napp, 1)
		if bad == 0 && napp > 0 {
			c.R.OK(rule, Fn(E), c.P.FuncPos(E), fmt.Sprintf("APPROVED entries leave only after the batch store succeeded or after a blanket overwrite (%d overwrite loops recognised)", len(exitEdges)))
		}
	}
}

var _ = types.Identical

// isRangeValueOf: v is the element of root at idx as a range loop hands it out (a load of &root[idx]).
func isRangeValueOf(v ssa.Value, root ssa.Value, idx ssa.Value) bool { return isElemLoad(v, root, idx) }
