package rules

import (
	"fmt"
	"go/types"
	"sort"
	"strings"

	"dirkcheck/internal/an"
	"dirkcheck/internal/prog"

	"golang.org/x/tools/go/ssa"
)

const pkgE2Types = "github.com/wealdtech/go-eth2-types/v2"

// domainTest recognises bytes.Equal(<req>.Domain[0:4], e2types.<Global>[:]) (either argument order) and returns the
// request value, the global's name; ok=false otherwise.
func domainTest(v ssa.Value) (req ssa.Value, global string, ok bool) {
	return domainTestS(v, nil)
}

// domainTestS is domainTest with callee parameters resolved through sub.
func domainTestS(v ssa.Value, sub Subst) (req ssa.Value, global string, ok bool) {
	call, isCall := sub.Res(v).(*ssa.Call)
	if !isCall {
		return nil, "", false
	}
	f := call.Call.StaticCallee()
	if f == nil || f.String() != "bytes.Equal" || len(call.Call.Args) != 2 {
		return nil, "", false
	}
	for _, pair := range [][2]ssa.Value{{call.Call.Args[0], call.Call.Args[1]}, {call.Call.Args[1], call.Call.Args[0]}} {
		sl, isSl := pair[0].(*ssa.Slice)
		if !isSl || sl.Low == nil || sl.High == nil || !an.IsConstInt(sl.Low, 0) || !an.IsConstInt(sl.High, 4) {
			// also accept [:4]
			if !isSl || sl.Low != nil || sl.High == nil || !an.IsConstInt(sl.High, 4) {
				continue
			}
		}
		owner, fld, base := an.FieldOf(sub.Res(sl.X))
		if owner == nil || fld != "Domain" {
			continue
		}
		gs, isSl2 := pair[1].(*ssa.Slice)
		if !isSl2 || gs.Low != nil || gs.High != nil {
			continue
		}
		g, isG := gs.X.(*ssa.Global)
		if !isG || g.Pkg == nil || g.Pkg.Pkg.Path() != pkgE2Types {
			continue
		}
		if at, okArr := g.Type().(*types.Pointer).Elem().Underlying().(*types.Array); !okArr || at.Len() != 4 {
			continue
		}
		return base, g.Name(), true
	}
	return nil, "", false
}

// domainAtom: atom a states that the request's domain type IS (pos) / IS NOT (!pos) the given global.
func domainAtom(a *an.Atom, global string, pos bool) bool {
	return domainAtomS(a, nil, global, pos)
}

// domainPrefixOf: v is the 4-byte domain type of a request taken by array conversion ([4]byte(req.Domain), possibly through a
// small helper); returns the request object.
func domainPrefixOf(v ssa.Value, sub Subst, depth int) (ssa.Value, bool) {
	v = sub.Res(v)
	if depth > 3 {
		return nil, false
	}
	switch x := v.(type) {
	case *ssa.UnOp:
		// var t [4]byte; copy(t[:], req.Domain[0:4]); ... t ...: a local array written by exactly one copy of the prefix
		if al, ok := x.X.(*ssa.Alloc); ok {
			if at, ok := derefT(al.Type()).Underlying().(*types.Array); ok && at.Len() == 4 {
				var src ssa.Value
				nw := 0
				for _, r := range *al.Referrers() {
					switch y := r.(type) {
					case *ssa.Slice:
						for _, r2 := range *y.Referrers() {
							if call, ok := r2.(*ssa.Call); ok && isBuiltin(call, "copy") && call.Call.Args[0] == ssa.Value(y) {
								nw++
								src = call.Call.Args[1]
							} else {
								nw += 2 // the slice of the array is used otherwise: not understood
							}
						}
					case *ssa.Store:
						nw += 2
					case *ssa.IndexAddr:
						nw += 2
					}
				}
				if nw == 1 && src != nil {
					if sl, ok := sub.Res(src).(*ssa.Slice); ok && sl.High != nil && an.IsConstInt(sl.High, 4) && (sl.Low == nil || an.IsConstInt(sl.Low, 0)) {
						owner, fld, base := an.FieldOf(sub.Res(sl.X))
						if owner != nil && fld == "Domain" {
							return base, true
						}
					}
				}
			}
		}
		if sp, ok := x.X.(*ssa.SliceToArrayPointer); ok {
			if at, ok := sp.Type().(*types.Pointer).Elem().Underlying().(*types.Array); ok && at.Len() == 4 {
				owner, fld, base := an.FieldOf(sub.Res(sp.X))
				if owner != nil && fld == "Domain" {
					return base, true
				}
			}
		}
	case *ssa.Call:
		f := x.Call.StaticCallee()
		if f == nil || !prog.InModule(f) || f.Blocks == nil || f.Signature.Results().Len() != 1 {
			return nil, false
		}
		ns := Subst{}
		for k, v2 := range sub {
			ns[k] = v2
		}
		for i, p := range f.Params {
			if i < len(x.Call.Args) {
				ns[p] = sub.Res(x.Call.Args[i])
			}
		}
		var base ssa.Value
		for _, ret := range an.Returns(f) {
			b, ok := domainPrefixOf(an.Result(ret, 0), ns, depth+1)
			if !ok {
				return nil, false
			}
			base = b
		}
		return base, base != nil
	}
	return nil, false
}

// domainArrayTest recognises [4]byte(req.Domain) ==/!= e2types.<Global> (array comparison).
func domainArrayTest(a *an.Atom, sub Subst) (req ssa.Value, global string, eq bool, ok bool) {
	if a == nil || (a.Op != "==" && a.Op != "!=") {
		return nil, "", false, false
	}
	for _, side := range [][2]ssa.Value{{a.LV, a.RV}, {a.RV, a.LV}} {
		u, isU := sub.Res(side[1]).(*ssa.UnOp)
		if !isU {
			continue
		}
		g, isG := u.X.(*ssa.Global)
		if !isG || g.Pkg == nil || g.Pkg.Pkg.Path() != pkgE2Types {
			continue
		}
		if base, ok := domainPrefixOf(side[0], sub, 0); ok {
			return base, g.Name(), a.Op == "==", true
		}
	}
	return nil, "", false, false
}

func domainAtomS(a *an.Atom, sub Subst, global string, pos bool) bool {
	if _, g, eq, ok := domainArrayTest(a, sub); ok {
		return g == global && eq == pos
	}
	if a == nil || (a.Op != "true" && a.Op != "false") {
		return false
	}
	_, g, ok := domainTestS(a.LV, sub)
	if !ok || g != global {
		return false
	}
	return (a.Op == "true") == pos
}

// domainTableExits: loops of fn that compare the request's domain type with every entry of a local table and leave on a
// match: `for _, e := range table { if bytes.Equal(req.Domain[0:4], e.domainType[:]) { return DENIED } }`. On the exit edge
// of such a loop the domain type differs from every domain the table holds. Returned: header block -> names of the e2types
// domain globals stored in the table, for loops that (a) run over the whole literal, (b) reach the next
// iteration only through the not-equal edge of that comparison (the match edge leaves the loop; where it leads is judged
// by the cut like any other path).
func domainTableExits(fn *ssa.Function) map[*ssa.BasicBlock]map[string]bool {
	out := map[*ssa.BasicBlock]map[string]bool{}
	for _, l := range FindLoops(fn) {
		if !l.FullRange || l.BoundLen == nil {
			continue // (leaving the loop early on a match is the point; the facts are claimed for the exit edge of the header only)
		}
		// the table: a slice of a local array literal
		var arr *ssa.Alloc
		switch x := l.BoundLen.(type) {
		case *ssa.Slice:
			arr, _ = x.X.(*ssa.Alloc)
		case *ssa.Alloc:
			arr = x
		}
		if arr == nil {
			continue
		}
		tableRoot := sliceRootExact(l.BoundLen)
		sameTable := func(v ssa.Value) bool {
			r := sliceRootExact(v)
			return r == tableRoot || r == ssa.Value(arr) || v == l.BoundLen
		}
		// a global loaded directly, or through a local composite literal whose field holds it
		globalsOf := func(v ssa.Value) []string {
			u, isU := v.(*ssa.UnOp)
			if !isU {
				return nil
			}
			if g, isG := u.X.(*ssa.Global); isG && g.Pkg != nil && g.Pkg.Pkg.Path() == pkgE2Types {
				return []string{g.Name()}
			}
			var out []string
			if lit, isLit := u.X.(*ssa.Alloc); isLit {
				for _, r := range *lit.Referrers() {
					fa, isFA := r.(*ssa.FieldAddr)
					if !isFA {
						continue
					}
					for _, r2 := range *fa.Referrers() {
						if st, isSt := r2.(*ssa.Store); isSt && st.Addr == ssa.Value(fa) {
							if u2, ok := st.Val.(*ssa.UnOp); ok {
								if g, isG := u2.X.(*ssa.Global); isG && g.Pkg != nil && g.Pkg.Pkg.Path() == pkgE2Types {
									out = append(out, g.Name())
								}
							}
						}
					}
				}
			}
			return out
		}
		// entries: stores of loaded e2types globals (4-byte arrays) into (fields of) elements at constant positions
		globals := map[string]bool{}
		fieldOfEntry := -1
		okTable := true
		for _, r := range *arr.Referrers() {
			ia, isIA := r.(*ssa.IndexAddr)
			if !isIA {
				continue
			}
			if _, isK := ia.Index.(*ssa.Const); !isK {
				okTable = false
				continue
			}
			for _, r2 := range *ia.Referrers() {
				switch y := r2.(type) {
				case *ssa.FieldAddr:
					for _, r3 := range *y.Referrers() {
						st, isSt := r3.(*ssa.Store)
						if !isSt {
							continue
						}
						if u, isU := st.Val.(*ssa.UnOp); isU {
							if g, isG := u.X.(*ssa.Global); isG && g.Pkg != nil && g.Pkg.Pkg.Path() == pkgE2Types {
								globals[g.Name()] = true
								fieldOfEntry = y.Field
							}
						}
					}
				case *ssa.Store:
					for _, gn := range globalsOf(y.Val) {
						globals[gn] = true
					}
				}
			}
		}
		if !okTable || len(globals) == 0 {
			continue
		}
		// the comparison in the body: bytes.Equal(<domain prefix>, <current entry>[.field][:])
		isEntry := func(v ssa.Value) bool {
			s2, ok := v.(*ssa.Slice)
			if !ok || s2.Low != nil || s2.High != nil {
				return false
			}
			x := s2.X
			if fa, ok := x.(*ssa.FieldAddr); ok {
				if fieldOfEntry >= 0 && fa.Field != fieldOfEntry {
					return false
				}
				x = fa.X
			}
			// x: the element address table[idx], or a local copy of the element
			if ia, ok := x.(*ssa.IndexAddr); ok {
				return ia.Index == l.Idx && sameTable(ia.X)
			}
			if cp, ok := x.(*ssa.Alloc); ok {
				n := 0
				okCopy := true
				for _, r := range *cp.Referrers() {
					if st, isSt := r.(*ssa.Store); isSt && st.Addr == ssa.Value(cp) {
						n++
						root, idx, isLoad := elemLoadAny(st.Val)
						if !isLoad || idx != l.Idx || !sameTable(root) {
							okCopy = false
						}
					}
				}
				return n == 1 && okCopy
			}
			return false
		}
		var cmp *ssa.Call
		for b := range l.Body {
			for _, ins := range b.Instrs {
				call, ok := ins.(*ssa.Call)
				if !ok || call.Call.StaticCallee() == nil || call.Call.StaticCallee().String() != "bytes.Equal" {
					continue
				}
				a0, a1 := call.Call.Args[0], call.Call.Args[1]
				isPrefix := func(v ssa.Value) bool {
					p, ok := v.(*ssa.Slice)
					if !ok || p.High == nil || !an.IsConstInt(p.High, 4) || (p.Low != nil && !an.IsConstInt(p.Low, 0)) {
						return false
					}
					owner, fld, _ := an.FieldOf(p.X)
					return owner != nil && fld == "Domain"
				}
				if (isPrefix(a0) && isEntry(a1)) || (isPrefix(a1) && isEntry(a0)) {
					cmp = call
				}
			}
		}
		if cmp == nil {
			continue
		}
		hdr := l.Header
		if x, _ := an.Cut(an.CutQuery{From: an.Point{Block: l.BodyFirst, Idx: 0}, Target: func(i ssa.Instruction) bool { return i == hdr.Instrs[0] },
			AcceptEdge: func(b *ssa.BasicBlock, i int, a *an.Atom) bool {
				return a != nil && a.Op == "false" && a.LV == ssa.Value(cmp)
			}}); x != nil {
			continue
		}
		out[l.Header] = globals
	}
	return out
}

// DomainRules: C05 O1-O4.
func (c *Ctx) DomainRules(prop string) {
	s := c.Slashing(prop + ".anchors")
	if !s.OK() {
		return
	}
	// ---- O1 generic.deny
	rule1 := "C05.O1 generic.deny"
	appr, all := c.approvalSites(rule1, s, s.Sign, false)
	_ = all
	c.R.Floor(rule1, "APPROVED origins of the generic rule", len(appr), 1)
	isSignRoot := func(f *ssa.Function) bool { return f == s.Sign }
	nExit := 0
	for _, o := range appr {
		site := o.Site
		for _, g := range []string{"DomainBeaconAttester", "DomainBeaconProposer"} {
			g := g
			// the deny tests may sit in any frame of the call chain from the generic rule to the APPROVED origin
			okCut, wit := c.InterCut(o.Fn, site, isSignRoot, func(a *an.Atom, sub Subst) bool { return domainAtomS(a, sub, g, false) })
			if !okCut {
				// the refusals as a loop over a local table of protected domains: the loop's exit edge stands for [!= every entry]
				okAll := false
				for _, ch := range c.Chains(o.Fn, site, isSignRoot, 4) {
					if !isSignRoot(ch[0].Fn) {
						continue
					}
					okAll = true
					cutSome := false
					for k := len(ch) - 1; k >= 0 && !cutSome; k-- {
						fr := ch[k]
						exits := domainTableExits(fr.Fn)
						base := c.WithSummariesFrom(fr.Sub, func(a *an.Atom, sub Subst) bool { return domainAtomS(a, sub, g, false) })
						tk := fr.Target
						if x, _ := an.Cut(an.CutQuery{From: an.Entry(fr.Fn), Target: func(i ssa.Instruction) bool { return i == tk },
							AcceptEdge: func(b *ssa.BasicBlock, i int, a *an.Atom) bool {
								if base(b, i, a) {
									return true
								}
								gs := exits[b]
								return gs != nil && gs[g] && len(b.Succs) == 2 && i == 1
							}}); x == nil {
							cutSome = true
						}
					}
					if !cutSome {
						okAll = false
						break
					}
				}
				okCut = okAll
			}
			want := "every path to APPROVED in the generic rule passes [domain[0:4] != " + g + "]"
			if !okCut {
				c.R.Fail(rule1, Fn(o.Fn)+":"+g, c.Pos(site), "the generic signing rule can approve a request whose domain type is "+g+" (a slashable message signed without its slashing rule)", want, wit)
			} else {
				c.R.OK(rule1, Fn(o.Fn)+":"+g, c.Pos(site), want)
			}
		}
		// ---- O2 generic.exit
		rule2 := "C05.O2 generic.exit"
		ipNonEmpty := func(a *an.Atom, sub Subst) bool {
			if a == nil || a.Op != "!=" {
				return false
			}
			l, r := sub.Res(a.LV), sub.Res(a.RV)
			return (isMetaIP(l) && isEmptyString(r)) || (isMetaIP(r) && isEmptyString(l))
		}
		adminMatch := func(a *an.Atom, sub Subst) bool {
			if a == nil {
				return false
			}
			if isAdminIPEq(resolveAtom(a, sub)) {
				return true
			}
			if a.Op != "true" {
				return false
			}
			if phi, ok := a.LV.(*ssa.Phi); ok && c.isAdminIPFlag(phi.Parent(), phi) {
				return true
			}
			// slices.Contains(<receiver>.adminIPs, metadata.IP)
			if call, ok := sub.Res(a.LV).(*ssa.Call); ok && call.Call.StaticCallee() != nil && len(call.Call.Args) == 2 {
				f := call.Call.StaticCallee()
				if f.Origin() != nil {
					f = f.Origin()
				}
				if f.Pkg != nil && f.Pkg.Pkg.Path() == "slices" && f.Name() == "Contains" {
					owner, fld, _ := an.FieldOf(sub.Res(call.Call.Args[0]))
					_, isSl := call.Call.Args[0].Type().(*types.Slice)
					if owner != nil && isSl && strings.Contains(strings.ToLower(fld), "ip") && isMetaIP(sub.Res(call.Call.Args[1])) {
						return true
					}
				}
			}
			return false
		}
		// every path to the approval decides whether the request is a voluntary exit
		if okT, wit := c.InterCut(o.Fn, site, isSignRoot, func(a *an.Atom, sub Subst) bool {
			return domainAtomS(a, sub, "DomainVoluntaryExit", true) || domainAtomS(a, sub, "DomainVoluntaryExit", false)
		}); !okT {
			c.R.Fail(rule2, Fn(o.Fn)+":exit-tested", c.Pos(site), "the generic rule can approve without having tested whether the domain is the voluntary-exit type", "every path to APPROVED passes the voluntary-exit test", wit)
		} else {
			c.R.OK(rule2, Fn(o.Fn)+":exit-tested", c.Pos(site), "every path to APPROVED passes the voluntary-exit test (either outcome)")
		}
		// edges of the generic rule on which the domain is the voluntary-exit type; the approval (or the call leading to it) below
		for _, ch := range c.Chains(o.Fn, site, isSignRoot, 4) {
			if !isSignRoot(ch[0].Fn) {
				continue
			}
			F := ch[0].Fn
			target0 := ch[0].Target
			for _, b := range F.Blocks {
				for i := range b.Succs {
					if !domainAtom(an.EdgeAtom(b, i), "DomainVoluntaryExit", true) {
						continue
					}
					from := an.Point{Block: b.Succs[i], Idx: 0}
					if !an.Reachable(from, target0) {
						continue
					}
					nExit++
					cutBy := func(pred AtomPred) ([]string, bool) {
						x, path := an.Cut(an.CutQuery{From: from, Target: func(ins ssa.Instruction) bool { return ins == target0 },
							AcceptEdge: c.WithSummariesFrom(ch[0].Sub, pred)})
						if x == nil {
							return nil, true
						}
						for k := 1; k < len(ch); k++ {
							tk := ch[k].Target
							if y, _ := an.Cut(an.CutQuery{From: an.Entry(ch[k].Fn), Target: func(ins ssa.Instruction) bool { return ins == tk },
								AcceptEdge: c.WithSummariesFrom(ch[k].Sub, pred)}); y == nil {
								return nil, true
							}
						}
						return an.PathString(c.Pos, path), false
					}
					key := Fn(o.Fn)
					// (i) source address non-empty
					if wit, ok := cutBy(ipNonEmpty); !ok {
						c.R.Fail(rule2, key+":ip-nonempty", c.Pos(site), "a voluntary-exit request without a source address can be approved", "exit domain => [metadata.IP != \"\"] before APPROVED", wit)
					} else {
						c.R.OK(rule2, key+":ip-nonempty", c.Pos(site), "exit domain => [metadata.IP != \"\"] before APPROVED")
					}
					// (ii) the source address matched an entry of the administrator list
					if wit, ok := cutBy(adminMatch); !ok {
						c.R.Fail(rule2, key+":admin-ip", c.Pos(site), "a voluntary-exit request can be approved without its source address having matched an entry of the administrator list", "exit domain => [metadata.IP == adminIPs[i]] for some i before APPROVED", wit)
					} else {
						c.R.OK(rule2, key+":admin-ip", c.Pos(site), "exit domain => the source address matched an entry of the administrator list")
					}
				}
			}
		}
	}
	c.R.Floor("C05.O2 generic.exit", "voluntary-exit domain tests in the generic rule", nExit, 1)
	// ---- O3 / O4 require
	type req struct {
		rule   string
		entry  *ssa.Function
		batch  bool
		global string
	}
	for _, rq := range []req{
		{"C05.O3 attest.require", s.Attest, false, "DomainBeaconAttester"},
		{"C05.O3 attest.require", s.AttestB, true, "DomainBeaconAttester"},
		{"C05.O4 propose.require", s.Propose, false, "DomainBeaconProposer"},
	} {
		appr, _ := c.approvalSites(rq.rule, s, rq.entry, rq.batch)
		c.R.Floor(rq.rule, "APPROVED origins of "+Fn(rq.entry), len(appr), 1)
		for _, o := range appr {
			site := o.Site
			// the test may sit in any frame of the call chain, but must be applied to the very request object being approved:
			// the innermost request-typed parameter on the chain, resolved to the entry's frame
			isRoot := func(f *ssa.Function) bool { return f == rq.entry }
			ok, wit := c.InterCutCh(o.Fn, site, isRoot, func(ch []Frame) AtomPred {
				var reqObj ssa.Value
				for k := len(ch) - 1; k >= 0 && reqObj == nil; k-- {
					for _, p := range ch[k].Fn.Params {
						if pt, ok := p.Type().(*types.Pointer); ok && (types.Identical(pt.Elem(), s.AttReq) || types.Identical(pt.Elem(), s.PropReq)) {
							reqObj = ch[k].Sub.Res(p)
						}
					}
				}
				return func(a *an.Atom, sub Subst) bool {
					if !domainAtomS(a, sub, rq.global, true) {
						return false
					}
					if reqObj == nil {
						return false
					}
					base, _, _ := domainTestS(a.LV, sub)
					if b2, _, _, ok := domainArrayTest(a, sub); ok {
						base = b2
					}
					if base == nil {
						return false
					}
					base = sub.Res(base)
					return base == reqObj || sameValue(base, reqObj)
				}
			})
			var x ssa.Instruction
			var path []an.Step
			_ = path
			if !ok {
				x = site
			}
			want := "every path to APPROVED passes [domain[0:4] == " + rq.global + "] on the request being approved"
			if x != nil {
				c.R.Fail(rq.rule, Fn(o.Fn)+" via "+Fn(rq.entry), c.Pos(site), "the protected endpoint's rule approves a request of another domain type; the generic endpoint refuses nothing about it and the watermark it moves is the wrong one", want, wit)
			} else {
				c.R.OK(rq.rule, Fn(o.Fn)+" via "+Fn(rq.entry), c.Pos(site), want)
			}
		}
	}
	// proposal: the domain test precedes any state access
	{
		rule := "C05.O4 propose.require/before-state"
		n := 0
		for _, ci := range Calls(s.Propose, func(ci ssa.CallInstruction) bool {
			f := ci.Common().StaticCallee()
			if f == nil || !prog.InModule(f) {
				return false
			}
			for _, g := range c.StaticReach(f, 4) {
				if g == s.StoreFetch || g == s.StoreStore || g == s.StoreBatch {
					return true
				}
			}
			return false
		}) {
			n++
			target := ci.(ssa.Instruction)
			x, path := an.Cut(an.CutQuery{From: an.Entry(s.Propose), Target: func(i ssa.Instruction) bool { return i == target },
				AcceptEdge: c.WithSummaries(func(a *an.Atom, sub Subst) bool { return domainAtomS(a, sub, "DomainBeaconProposer", true) })})
			if x != nil {
				c.R.Fail(rule, Fn(s.Propose)+":"+CalleeName(ci), c.Pos(ci), "slashing-protection state is read or written for a request whose domain type was not yet checked", "domain test before any fetch/store", an.PathString(c.Pos, path))
			} else {
				c.R.OK(rule, Fn(s.Propose)+":"+CalleeName(ci), c.Pos(ci), "state access only below [domain[0:4] == DomainBeaconProposer]")
			}
		}
		c.R.Floor(rule, "state accesses in the proposal rule", n, 2)
	}
}

func isMetaIP(v ssa.Value) bool {
	owner, f, _ := an.FieldOf(v)
	if owner == nil || f != "IP" {
		return false
	}
	n, ok := owner.(*types.Named)
	return ok && n.Obj().Name() == "ReqMetadata" && n.Obj().Pkg().Path() == pkgRules
}

func isEmptyString(v ssa.Value) bool {
	k, ok := v.(*ssa.Const)
	return ok && k.Value != nil && an.Term(k) == `""`
}

// isAdminIPEq: atom metadata.IP == <receiver>.adminIPs[i]
func isAdminIPEq(a *an.Atom) bool {
	if a == nil || a.Op != "==" {
		return false
	}
	for _, side := range [][2]ssa.Value{{a.LV, a.RV}, {a.RV, a.LV}} {
		if !isMetaIP(side[0]) {
			continue
		}
		root, _, ok := elemLoadAny(side[1])
		if !ok {
			continue
		}
		owner, f, _ := an.FieldOf(root)
		if owner != nil && strings.Contains(strings.ToLower(f), "ip") {
			if _, isSl := root.Type().(*types.Slice); isSl {
				return true
			}
		}
	}
	return false
}

// elemLoadAny is elemLoad without resolving the root.
func elemLoadAny(v ssa.Value) (root ssa.Value, idx ssa.Value, ok bool) {
	u, isU := v.(*ssa.UnOp)
	if !isU {
		return nil, nil, false
	}
	ia, isIA := u.X.(*ssa.IndexAddr)
	if !isIA {
		return nil, nil, false
	}
	return ia.X, ia.Index, true
}

// isAdminIPFlag: v is a boolean whose every `true` origin lies below [metadata.IP == adminIPs[i]].
func (c *Ctx) isAdminIPFlag(F *ssa.Function, v ssa.Value) bool {
	phi, ok := v.(*ssa.Phi)
	if !ok {
		return false
	}
	seen := map[*ssa.Phi]bool{}
	var check func(p *ssa.Phi) bool
	check = func(p *ssa.Phi) bool {
		if seen[p] {
			return true
		}
		seen[p] = true
		for i, e := range p.Edges {
			switch x := e.(type) {
			case *ssa.Const:
				if an.Term(x) == "false" {
					continue
				}
				// true constant: the edge's predecessor end must be below the equality
				pred := p.Block().Preds[i]
				site := pred.Instrs[len(pred.Instrs)-1]
				// the edge itself may be the equality's true edge
				if isAdminIPEq(edgeAtomTo(pred, p.Block())) {
					continue
				}
				if y, _ := an.Cut(an.CutQuery{From: an.Entry(F), Target: func(i ssa.Instruction) bool { return i == site },
					AcceptEdge: func(b *ssa.BasicBlock, i int, a *an.Atom) bool { return isAdminIPEq(a) }}); y != nil {
					return false
				}
			case *ssa.Phi:
				if !check(x) {
					return false
				}
			default:
				return false
			}
		}
		return true
	}
	return check(phi)
}

func edgeAtomTo(from, to *ssa.BasicBlock) *an.Atom {
	for i, s := range from.Succs {
		if s == to {
			return an.EdgeAtom(from, i)
		}
	}
	return nil
}

// DispatchTable: C05.O5 - the rule evaluated for an action is the one whose request type the signer endpoints send under that action.
func (c *Ctx) DispatchTable(prop string) {
	rule := "C05.O5 dispatch"
	r := c.Ruler(prop + ".anchors")
	sg := c.Signer(prop + ".anchors")
	if !r.OK() || !sg.OK() {
		return
	}
	// endpoint side: action global -> data element type placed in RulesData.Data
	sent := map[*ssa.Global]map[string]bool{}
	nsites := 0
	for _, name := range signerEndpoints {
		E := sg.Endpoints[name]
		run := sg.RunRules[E]
		args := run.Common().Args
		var g *ssa.Global
		for _, a := range args {
			if u, ok := a.(*ssa.UnOp); ok {
				if gg, ok := u.X.(*ssa.Global); ok && gg.Pkg != nil && gg.Pkg.Pkg.Path() == pkgRuler {
					g = gg
				}
			}
		}
		if g == nil {
			c.R.Unknown(rule, Fn(E), c.Pos(run), "RunRules is not called with an action constant of the ruler package")
			continue
		}
		// data type: the endpoint's data parameter element type
		var dt string
		for _, p := range E.Params {
			t := p.Type()
			if sl, ok := t.(*types.Slice); ok {
				t = sl.Elem()
			}
			if pt, ok := t.(*types.Pointer); ok {
				if n, ok := pt.Elem().(*types.Named); ok && n.Obj().Pkg() != nil && n.Obj().Pkg().Path() == pkgRules {
					dt = n.Obj().Name()
				}
			}
		}
		if dt == "" {
			c.R.Unknown(rule, Fn(E), c.Pos(run), "cannot determine the request data type of the endpoint")
			continue
		}
		// the Data field of the RulesData built by the endpoint holds that parameter (element)
		if !c.rulesDataHolds(sg, E, dt) {
			c.R.Fail(rule, Fn(E)+":data", c.Pos(run), "the rules data handed to the ruler does not carry the endpoint's own request data ("+dt+")", "RulesData.Data = the endpoint's data (element)", nil)
			continue
		}
		nsites++
		if sent[g] == nil {
			sent[g] = map[string]bool{}
		}
		sent[g][dt] = true
		// the action used for the permission check is the same constant
		for _, f := range sg.Unit(E) {
			for _, ci := range Calls(f, func(ci ssa.CallInstruction) bool { return ci.Common().StaticCallee() == sg.PreCheck }) {
				okA := false
				for _, a := range ci.Common().Args {
					if isLoadOfGlobal(sg.InEndpoint(E, a), g) {
						okA = true
					}
				}
				if !okA {
					c.R.Fail("C07.O5 operation-constant", Fn(E), c.Pos(ci), "the permission check uses another operation than the one the rules are run for ("+g.Name()+")", "preCheck(..., "+g.Name()+") and RunRules(..., "+g.Name()+", ...)", nil)
				}
			}
		}
	}
	c.R.Floor(rule, "endpoint -> (action, data type) sites", nsites, 5)
	// dispatch side
	ninv := 0
	for _, ri := range r.RuleInvokes {
		gs := c.actionGuards(r, ri, 0)
		m := ri.Common().Method
		sig := m.Type().(*types.Signature)
		pt := sig.Params().At(sig.Params().Len() - 1).Type()
		if sl, ok := pt.(*types.Slice); ok {
			pt = sl.Elem()
		}
		mt := ""
		if p, ok := pt.(*types.Pointer); ok {
			if n, ok := p.Elem().(*types.Named); ok {
				mt = n.Obj().Name()
			}
		}
		if len(gs) == 0 {
			c.R.Fail(rule, "invoke "+m.Name()+" in "+Fn(ri.Parent()), c.Pos(ri), "a rule is evaluated without being tied to an action value", "each rule only below [action == <its action>]", nil)
			continue
		}
		ninv++
		var names []string
		bad := false
		for g := range gs {
			names = append(names, g.Name())
			if st := sent[g]; st != nil {
				if !st[mt] {
					bad = true
					var have []string
					for k := range st {
						have = append(have, k)
					}
					sort.Strings(have)
					c.R.Fail(rule, "invoke "+m.Name()+" in "+Fn(ri.Parent()), c.Pos(ri), fmt.Sprintf("under action %s the signer sends %v but the ruler evaluates %s, the rule for %s: the slashing rule of that message type is bypassed", g.Name(), have, m.Name(), mt), "the rule evaluated under an action is the one for the data type sent under it", nil)
				}
			}
		}
		// the data passed is the type-asserted Data of the same entry
		if !bad {
			sort.Strings(names)
			c.R.OK(rule, "invoke "+m.Name()+" in "+Fn(ri.Parent()), c.Pos(ri), "below [action == "+strings.Join(names, "|")+"], request type "+mt+" matches what the endpoints send")
		}
	}
	c.R.Floor(rule, "rule invokes below the dispatch", ninv, 9)
}

// rulesDataHolds: some store into field Data of a ruler.RulesData in E (or its closures) stores the endpoint's data parameter (or its element).
func (c *Ctx) rulesDataHolds(sg *Signer, E *ssa.Function, dt string) bool {
	for _, f := range sg.Unit(E) {
		for _, b := range f.Blocks {
			for _, ins := range b.Instrs {
				st, ok := ins.(*ssa.Store)
				if !ok {
					continue
				}
				fa, ok := st.Addr.(*ssa.FieldAddr)
				if !ok || !namedIs(fa.X.Type(), pkgRuler, "RulesData") || fieldNameOf(fa) != "Data" {
					continue
				}
				v := an.StripConv(st.Val)
				if mi, ok := v.(*ssa.MakeInterface); ok {
					v = mi.X
				}
				// direct parameter, or element of the parameter
				if p := paramIndexOf(E, v); p >= 0 {
					return true
				}
				if root, _, ok := elemLoad(v); ok {
					root = sg.InEndpoint(E, root)
					if p := paramIndexOf(E, root); p >= 0 {
						return true
					}
				}
			}
		}
	}
	return false
}

func init() {
	register(&Spec{
		ID: "C05",
		Run: func(c *Ctx) {
			c.DomainRules("C05")
			c.DispatchTable("C05")
			c.SourceAddress("C05")
			c.RulerPositions("C05") // the verdict applied to a request is the one computed for it
			c.ScatterIndexDiscipline("C05")
			c.SignIffApproved("C05", map[string]bool{"SignGeneric": true, "Multisign": true})
			c.SigningRootProvenance("C05")
			// a refusal decided for a request (its domain, its source address) is of use only if the reply it gets is its own
			c.RequestMessageScoped("C08")
			c.ReplyRequestScoped("C16")
			c.CredentialsRequestScoped("C19")
		},
		Explanation: "Domain gates decided on every path: the generic rule's APPROVED is cut by [domain type != attester] and [!= proposer] and, below the exit-type edge, by a non-empty source address that matched an administrator entry; the attestation/proposal rules' APPROVED is cut by [domain type == their own]; the ruler evaluates under each action the rule for the data type the endpoints send under it; both generic endpoints sign only APPROVED requests and sign the very domain that was checked. See DESIGN.md §5 C05.",
		Trusted:     append([]string{"the numeric values of the e2types domain constants"}, commonTrusted...),
	})
}
