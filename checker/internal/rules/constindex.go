package rules

import (
	"fmt"
	"go/constant"
	"go/token"
	"go/types"
	"strings"

	"dirkcheck/internal/an"
	"dirkcheck/internal/prog"

	"golang.org/x/tools/go/ssa"
)

// ConstIndexGuarded (C20.O6 index.guarded): in the gRPC handlers and the services behind them, an element of a slice is
// read at a constant position k only where the slice is known to have more than k elements: it was made or sliced with a
// sufficient constant length in the same function, or every path to the read passes a branch that establishes the
// length ([len(x) == n], n > k; [len(x) > m], m >= k; [len(x) != 0] for k = 0; [k < len(x)]). An unguarded read panics
// on a short list, and no recovery interceptor is installed: the whole process dies.
func (c *Ctx) ConstIndexGuarded(prop string) {
	rule := "C20.O6 index.guarded"
	n, bad := 0, 0
	inScope := func(p string) bool {
		return strings.Contains(p, "/services/api/grpc/handlers") || strings.HasSuffix(p, "/services/process/standard") ||
			strings.HasSuffix(p, "/services/signer/standard") || strings.HasSuffix(p, "/services/lister/standard") ||
			strings.HasSuffix(p, "/services/accountmanager/standard") || strings.HasSuffix(p, "/services/walletmanager/standard") ||
			strings.HasSuffix(p, "/services/ruler/golang") || strings.HasSuffix(p, "/rules/standard") || strings.HasSuffix(p, "/services/checker/static") ||
			strings.HasSuffix(p, "/services/fetcher/mem") || strings.HasSuffix(p, "/services/api/grpc/interceptors")
	}
	for _, fn := range c.P.ModuleFuncs() {
		p := prog.PkgPathOf(fn)
		if prog.IsTestish(p) || fn.Blocks == nil || !inScope(p) {
			continue
		}
		if strings.HasSuffix(c.P.FuncPos(fn), "_encoding.go") || strings.Contains(c.P.FuncPos(fn), ".pb.go") {
			continue
		}
		for _, b := range fn.Blocks {
			for _, ins := range b.Instrs {
				ia, ok := ins.(*ssa.IndexAddr)
				if !ok {
					continue
				}
				if _, isSlice := ia.X.Type().Underlying().(*types.Slice); !isSlice {
					continue
				}
				kc, ok := ia.Index.(*ssa.Const)
				if !ok || kc.Value == nil || kc.Value.Kind() != constant.Int {
					continue
				}
				k := kc.Int64()
				n++
				root := sliceRootExact(ia.X)
				// known length at creation
				known := false
				switch x := root.(type) {
				case *ssa.MakeSlice:
					if lc, ok := x.Len.(*ssa.Const); ok && lc.Int64() > k {
						known = true
					}
				case *ssa.Slice:
					if al, ok := x.X.(*ssa.Alloc); ok {
						if arr, ok := derefT(al.Type()).Underlying().(*types.Array); ok && arr.Len() > k {
							known = true
						}
					}
					if hc, ok := x.High.(*ssa.Const); ok && hc.Value != nil {
						lo := int64(0)
						if lc, ok := x.Low.(*ssa.Const); ok && lc.Value != nil {
							lo = lc.Int64()
						}
						if hc.Int64()-lo > k {
							known = true // slicing itself panics if the source is shorter; the read cannot
						}
					}
				}
				if known {
					continue
				}
				// only lists whose length is decided by the caller of this function or by a request: a protobuf getter's result
				// or a list made with the length of one (results of other module functions carry
				// their own contracts, e.g. RunRules never returns an empty list: C20.O2)
				var reqSized func(v ssa.Value, d int) bool
				reqSized = func(v ssa.Value, d int) bool {
					if d > 3 {
						return false
					}
					switch x := sliceRootExact(v).(type) {
					case *ssa.Parameter:
						// a list handed in by the caller: judged where it is built (the caller may guarantee its length)
						_ = x
						return false
					case *ssa.Call:
						f := x.Call.StaticCallee()
						return f != nil && strings.HasPrefix(f.Name(), "Get") && f.Signature.Recv() != nil && strings.Contains(prog.PkgPathOf(f), "/pb")
					case *ssa.UnOp:
						// in the interceptors: a list that is a field of what the peer presented (certificates, their names,
						// metadata values) - its length is the peer's choice
						if strings.HasSuffix(p, "/services/api/grpc/interceptors") {
							if owner, _, _ := an.FieldOf(x); owner != nil {
								return true
							}
						}
					case *ssa.MakeSlice:
						// made with the length of a request-sized list
						if lc, ok := x.Len.(*ssa.Call); ok && isBuiltin(lc, "len") {
							return reqSized(lc.Call.Args[0], d+1)
						}
					}
					return false
				}
				requestSized := reqSized(ia.X, 0)
				if !requestSized {
					n--
					continue
				}
				sameList := func(v ssa.Value) bool {
					if v == ia.X || sliceRootExact(v) == root {
						return true
					}
					return an.Term(v) == an.Term(ia.X)
				}
				target := ssa.Instruction(ia)
				x, path := an.Cut(an.CutQuery{From: an.Entry(fn), Target: func(i ssa.Instruction) bool { return i == target },
					AcceptEdge: func(bb *ssa.BasicBlock, i int, a *an.Atom) bool {
						if a == nil {
							return false
						}
						for _, side := range [][2]ssa.Value{{a.LV, a.RV}, {a.RV, a.LV}} {
							lc, ok := side[0].(*ssa.Call)
							if !ok || !isBuiltin(lc, "len") || !sameList(lc.Call.Args[0]) {
								continue
							}
							cst, ok := side[1].(*ssa.Const)
							if !ok || cst.Value == nil || cst.Value.Kind() != constant.Int {
								continue
							}
							m := cst.Int64()
							left := side[0] == a.LV
							switch a.Op {
							case "==":
								return m > k
							case "!=":
								return m == 0 && k == 0
							case ">":
								if left {
									return m >= k
								}
								return false // m > len
							case ">=":
								if left {
									return m > k
								}
								return false
							case "<":
								if !left {
									return m >= k // m < len
								}
								return false
							case "<=":
								if !left {
									return m > k
								}
								return false
							}
						}
						return false
					}})
				if x != nil {
					bad++
					c.R.Fail(rule, Fn(fn)+fmt.Sprintf(":[%d]", k), c.Pos(ia), fmt.Sprintf("element %d of a list is read without the list being known to have that many elements: a shorter (empty) list makes the request panic, and nothing recovers", k), fmt.Sprintf("read x[%d] only below a test of len(x)", k), an.PathString(c.Pos, path))
				}
			}
		}
	}
	c.R.Count("constant_position_reads_of_request_sized_lists", n) // may be zero
	if bad == 0 {
		c.R.OK(rule, "handlers and services", "-", fmt.Sprintf("%d constant-position reads, each on a list of known sufficient length", n))
	}
	_ = token.ADD
}
