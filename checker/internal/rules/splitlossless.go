package rules

import (
	"fmt"

	"dirkcheck/internal/an"
	"dirkcheck/internal/prog"

	"golang.org/x/tools/go/ssa"
)

// LosslessSplit (C07.O6 name.lossless-split): a name that is cut at a separator (strings.Split / SplitN / Fields) and then
// used component by component at constant positions must not silently lose what follows the last used component:
// every constant-position read of the parts lies below an edge that fixes the number of parts ([len(parts) == c]), or the
// split itself is bounded to the number of components used (SplitN(s, sep, k+1): the last part keeps the remainder).
// Otherwise "wallet/account/extra" and "wallet/account" name the same object to the code that follows, while other layers
// (permissions, key index, listing) treat them as different names.
func (c *Ctx) LosslessSplit(prop string) {
	rule := "C07.O6 name.lossless-split"
	n := 0
	for _, fn := range c.P.ModuleFuncs() {
		if prog.IsTestish(prog.PkgPathOf(fn)) || fn.Blocks == nil {
			continue
		}
		for _, ci := range Calls(fn, func(ci ssa.CallInstruction) bool {
			return IsCallTo(ci, "strings.Split") || IsCallTo(ci, "strings.SplitN") || IsCallTo(ci, "strings.Fields")
		}) {
			call, ok := ci.(*ssa.Call)
			if !ok {
				continue
			}
			n++
			// constant-position reads of the result
			type read struct {
				ia  *ssa.IndexAddr
				idx int64
			}
			var reads []read
			escapes := false
			var walk func(v ssa.Value, d int)
			walk = func(v ssa.Value, d int) {
				if d > 3 {
					return
				}
				for _, r := range *v.Referrers() {
					switch x := r.(type) {
					case *ssa.IndexAddr:
						if k, ok := constIntOf(x.Index); ok {
							reads = append(reads, read{x, k})
						}
					case *ssa.Store:
						if x.Val == v {
							if al, ok := x.Addr.(*ssa.Alloc); ok {
								for _, r2 := range *al.Referrers() {
									if ld, ok := r2.(*ssa.UnOp); ok {
										walk(ld, d+1)
									}
								}
							} else {
								escapes = true
							}
						}
					case *ssa.Phi:
						walk(x, d+1)
					}
				}
			}
			walk(call, 0)
			if len(reads) == 0 {
				c.R.OK(rule, Fn(fn), c.Pos(call), "the parts are not read at constant positions")
				continue
			}
			_ = escapes
			maxIdx := int64(0)
			for _, r := range reads {
				if r.idx > maxIdx {
					maxIdx = r.idx
				}
			}
			if IsCallTo(ci, "strings.SplitN") {
				if k, ok := constIntOf(call.Call.Args[2]); ok && k == maxIdx+1 {
					c.R.OK(rule, Fn(fn), c.Pos(call), "bounded split: the last part used keeps the remainder")
					continue
				}
			}
			bad := false
			for _, r := range reads {
				target := ssa.Instruction(r.ia)
				x, path := an.Cut(an.CutQuery{From: an.After(call), Target: func(i ssa.Instruction) bool { return i == target },
					AcceptEdge: func(b *ssa.BasicBlock, i int, a *an.Atom) bool {
						if a == nil || a.Op != "==" {
							return false
						}
						for _, side := range [][2]ssa.Value{{a.LV, a.RV}, {a.RV, a.LV}} {
							lc, ok := side[0].(*ssa.Call)
							if !ok || !isBuiltin(lc, "len") {
								continue
							}
							if _, isConst := side[1].(*ssa.Const); !isConst {
								continue
							}
							if sliceRootExact(lc.Call.Args[0]) == ssa.Value(call) {
								return true
							}
						}
						return false
					}})
				if x != nil {
					bad = true
					c.R.Fail(rule, Fn(fn)+fmt.Sprintf(":part[%d]", r.idx), c.Pos(r.ia), "a component of a split name is used although the number of components is not fixed on this path: anything after the last used component is silently dropped, so different names denote the same object here", "use parts[k] only below [len(parts) == n], or SplitN with the number of parts used", an.PathString(c.Pos, path))
					break
				}
			}
			if !bad {
				c.R.OK(rule, Fn(fn), c.Pos(call), "every constant-position read lies below [len(parts) == n]")
			}
		}
	}
	c.R.Count("name_splits_in_module", n) // may legitimately be zero: no floor
}
