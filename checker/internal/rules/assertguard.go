package rules

import (
	"go/types"
	"strings"

	"dirkcheck/internal/an"
	"dirkcheck/internal/prog"

	"golang.org/x/tools/go/ssa"
)

// AssertionsGuarded (C20.O10 assertion.guarded): an unchecked type assertion `x.(I)` panics when the dynamic type of x does
// not implement I, and no recovery interceptor is installed. In the services, the rules and the handlers, every assertion
// without the comma-ok form from one interface type to another (wallets and accounts asserted to a capability:
// WalletAccountCreator, WalletDistributedAccountImporter ...) is reached only past a test that settles what x is:
//
//   - a comparison of `x.Type()` (the wallet libraries' type string) with a constant, on whichever side lets the assertion
//     through, or
//   - the true edge of a comma-ok assertion of the same value to the same interface, or
//   - (one reasoned entry) the value is the wallet returned by the distributed wallet package's own OpenWallet /
//     CreateWallet, asserted to the distributed importer.
//
// Assertions to concrete types are the subject of C20.O3's table and of the handlers' own comma-ok forms; they are not judged
// here.
func (c *Ctx) AssertionsGuarded(prop string) {
	rule := "C20.O10 assertion.guarded"
	n := 0
	inScope := func(p string) bool {
		return strings.Contains(p, "/services/") || strings.HasSuffix(p, "/rules/standard") || strings.HasSuffix(p, "/core")
	}
	for _, fn := range c.P.ModuleFuncs() {
		p := prog.PkgPathOf(fn)
		if prog.IsTestish(p) || fn.Blocks == nil || !inScope(p) || strings.Contains(p, "/mock") || strings.Contains(c.P.FuncPos(fn), ".pb.go") {
			continue
		}
		for _, b := range fn.Blocks {
			for _, ins := range b.Instrs {
				ta, ok := ins.(*ssa.TypeAssert)
				if !ok || ta.CommaOk {
					continue
				}
				if _, toIface := ta.AssertedType.Underlying().(*types.Interface); !toIface {
					continue
				}
				if _, fromIface := ta.X.Type().Underlying().(*types.Interface); !fromIface {
					continue
				}
				if types.Identical(ta.X.Type(), ta.AssertedType) {
					continue // the nil check go/ssa emits where a method value is taken from an interface value
				}
				n++
				x := ta.X
				// a wallet opened by the distributed wallet package is a distributed wallet: it imports distributed accounts
				{
					v := x
					if u, isLoad := v.(*ssa.UnOp); isLoad {
						if inner, ok := an.ResolveCell(u.X); ok {
							v = inner // a variable captured by a deferred closure
						}
					}
					if ex, isEx := v.(*ssa.Extract); isEx {
						v = ex.Tuple
					}
					if call, isCall := v.(*ssa.Call); isCall && !call.Call.IsInvoke() {
						if f := call.Call.StaticCallee(); f != nil && f.Pkg != nil && f.Pkg.Pkg.Path() == "github.com/wealdtech/go-eth2-wallet-distributed" && namedIs(ta.AssertedType, pkgWTypes, "WalletDistributedAccountImporter") {
							c.R.OK(rule, Fn(fn)+":WalletDistributedAccountImporter", c.Pos(ta), "the value is a wallet opened by the distributed wallet package")
							continue
						}
					}
				}
				// a parameter captured by a closure lives in a cell: a load of the cell is the parameter
				norm := func(v ssa.Value) ssa.Value {
					if u, isLoad := v.(*ssa.UnOp); isLoad {
						if inner, ok := an.ResolveCell(u.X); ok {
							return inner
						}
					}
					return v
				}
				same := func(v ssa.Value) bool { return v == x || sameValue(v, x) || norm(v) == norm(x) }
				target := ssa.Instruction(ta)
				kinds := map[string]bool{} // the outcomes of the Type() tests that let the assertion through
				cut, path := an.Cut(an.CutQuery{From: an.Entry(fn), Target: func(i ssa.Instruction) bool { return i == target },
					AcceptEdge: func(bb *ssa.BasicBlock, i int, a *an.Atom) bool {
						if a == nil {
							return false
						}
						// x.Type() compared with a constant
						if a.Op == "==" || a.Op == "!=" {
							for _, side := range [][2]ssa.Value{{a.LV, a.RV}, {a.RV, a.LV}} {
								call, isCall := side[0].(*ssa.Call)
								_, isK := side[1].(*ssa.Const)
								if isCall && isK && call.Call.IsInvoke() && call.Call.Method.Name() == "Type" && same(call.Call.Value) {
									kinds[a.Op+" "+an.Term(side[1])] = true
									return true
								}
							}
						}
						// the true edge of `_, ok := x.(I)`
						if a.Op == "true" {
							if ex, isEx := a.LV.(*ssa.Extract); isEx && ex.Index == 1 {
								if t2, isTA := ex.Tuple.(*ssa.TypeAssert); isTA && t2.CommaOk && same(t2.X) && types.Identical(t2.AssertedType, ta.AssertedType) {
									return true
								}
							}
						}
						return false
					}})
				key := Fn(fn) + ":" + types.TypeString(ta.AssertedType, func(p *types.Package) string { return p.Name() })
				if cut == nil && len(kinds) > 1 {
					// does one outcome of the Type() test alone (or the comma-ok edge) stand in front of the assertion?
					single := false
					for k := range kinds {
						k := k
						if x, _ := an.Cut(an.CutQuery{From: an.Entry(fn), Target: func(i ssa.Instruction) bool { return i == target },
							AcceptEdge: func(bb *ssa.BasicBlock, i int, a *an.Atom) bool {
								if a == nil {
									return false
								}
								if a.Op == "true" {
									if ex, isEx := a.LV.(*ssa.Extract); isEx && ex.Index == 1 {
										if t2, isTA := ex.Tuple.(*ssa.TypeAssert); isTA && t2.CommaOk && same(t2.X) && types.Identical(t2.AssertedType, ta.AssertedType) {
											return true
										}
									}
								}
								for _, side := range [][2]ssa.Value{{a.LV, a.RV}, {a.RV, a.LV}} {
									call, isCall := side[0].(*ssa.Call)
									_, isK := side[1].(*ssa.Const)
									if isCall && isK && call.Call.IsInvoke() && call.Call.Method.Name() == "Type" && same(call.Call.Value) && a.Op+" "+an.Term(side[1]) == k {
										return true
									}
								}
								return false
							}}); x == nil {
							single = true
						}
					}
					if single {
						c.R.OK(rule, key, c.Pos(ta), "reached only past one outcome of a test of the value's kind")
						continue
					}
					// e.g. reached both for Type() != K and for Type() == K: the test does not settle anything
					c.R.Fail(rule, key, c.Pos(ta), "an unchecked assertion is reached on both outcomes of the test of the value's kind: the test settles nothing for it", "x.(I) only for one outcome of the comparison of x.Type()", nil)
					continue
				}
				if cut != nil {
					// the test may sit in the callers: x is a parameter, and every module call site hands over a value that one
					// outcome of a Type() comparison (made there) lets through
					if q, isParam := x.(*ssa.Parameter); isParam && q.Parent() == fn {
						idx := -1
						for i, qq := range fn.Params {
							if qq == q {
								idx = i
							}
						}
						sites := c.staticCallers()[fn]
						okAll := idx >= 0 && len(sites) > 0
						for _, site := range sites {
							if !okAll || idx >= len(site.Common().Args) {
								okAll = false
								break
							}
							arg := site.Common().Args[idx]
							st := site.(ssa.Instruction)
							found := false
							for _, pol := range []string{"==", "!="} {
								if y, _ := an.Cut(an.CutQuery{From: an.Entry(site.Parent()), Target: func(i ssa.Instruction) bool { return i == st },
									AcceptEdge: func(bb *ssa.BasicBlock, i int, a *an.Atom) bool {
										if a == nil || a.Op != pol {
											return false
										}
										for _, side := range [][2]ssa.Value{{a.LV, a.RV}, {a.RV, a.LV}} {
											call, isCall := side[0].(*ssa.Call)
											_, isK := side[1].(*ssa.Const)
											if isCall && isK && call.Call.IsInvoke() && call.Call.Method.Name() == "Type" && (call.Call.Value == arg || sameValue(call.Call.Value, arg)) {
												return true
											}
										}
										return false
									}}); y == nil {
									found = true
								}
							}
							if !found {
								okAll = false
							}
						}
						if okAll {
							c.R.OK(rule, key, c.Pos(ta), "every call site is reached only past one outcome of a test of the value's kind")
							continue
						}
					}
					c.R.Fail(rule, key, c.Pos(ta), "an unchecked assertion to "+types.TypeString(ta.AssertedType, func(p *types.Package) string { return p.Name() })+" is reachable without a test of what the value is: for a value of another kind it panics in the request's goroutine", "x.(I) only past a comparison of x.Type() with a constant, or the true edge of a comma-ok assertion to I", an.PathString(c.Pos, path))
				} else {
					c.R.OK(rule, key, c.Pos(ta), "reached only past a test of the value's kind")
				}
			}
		}
	}
	c.R.Floor(rule, "unchecked interface-to-interface assertions in services, rules and core", n, 1)
}
