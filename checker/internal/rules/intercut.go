package rules

import (
	"dirkcheck/internal/an"
	"dirkcheck/internal/prog"

	"golang.org/x/tools/go/ssa"
)

// Frame is one activation on a static call chain from a root to the function that holds the site of interest.
type Frame struct {
	Fn *ssa.Function
	// Target is the instruction of Fn the chain continues through: the call of the next frame's function (or the
	// MakeClosure creating it), or the site itself in the last frame.
	Target ssa.Instruction
	// Sub resolves Fn's parameters (transitively) to values of the outer frames.
	Sub Subst
}

// Chains enumerates the static call chains root -> ... -> F (depth <= maxDepth) through module functions.
// A function is a chain start if isRoot(fn) holds or it has no static caller in the module.
// Closures continue in their parent at the MakeClosure that creates them.
func (c *Ctx) Chains(F *ssa.Function, site ssa.Instruction, isRoot func(*ssa.Function) bool, maxDepth int) [][]Frame {
	callers := c.staticCallers()
	var out [][]Frame
	var rec func(fn *ssa.Function, target ssa.Instruction, tail []Frame, depth int, seen map[*ssa.Function]bool)
	rec = func(fn *ssa.Function, target ssa.Instruction, tail []Frame, depth int, seen map[*ssa.Function]bool) {
		chain := append([]Frame{{Fn: fn, Target: target}}, tail...)
		if (isRoot != nil && isRoot(fn)) || depth >= maxDepth || seen[fn] {
			out = append(out, chain)
			return
		}
		var sites []ssa.Instruction
		if fn.Parent() != nil {
			for _, b := range fn.Parent().Blocks {
				for _, ins := range b.Instrs {
					if mc, ok := ins.(*ssa.MakeClosure); ok && mc.Fn == ssa.Value(fn) {
						sites = append(sites, mc)
					}
				}
			}
		} else {
			for _, cs := range callers[fn] {
				sites = append(sites, cs.(ssa.Instruction))
			}
		}
		if len(sites) == 0 {
			out = append(out, chain)
			return
		}
		seen2 := map[*ssa.Function]bool{fn: true}
		for k := range seen {
			seen2[k] = true
		}
		for _, s := range sites {
			rec(s.Parent(), s, chain, depth+1, seen2)
		}
	}
	rec(F, site, nil, 0, map[*ssa.Function]bool{})
	// substitutions, outermost first
	for _, ch := range out {
		sub := Subst{}
		for k := range ch {
			if k > 0 {
				prev := ch[k-1]
				ns := Subst{}
				for a, b := range sub {
					ns[a] = b
				}
				switch t := prev.Target.(type) {
				case ssa.CallInstruction:
					args := t.Common().Args
					for i, p := range ch[k].Fn.Params {
						if i < len(args) {
							ns[p] = sub.Res(args[i])
						}
					}
				case *ssa.MakeClosure:
					for i, fv := range ch[k].Fn.FreeVars {
						if i < len(t.Bindings) {
							ns[fv] = sub.Res(t.Bindings[i])
						}
					}
				}
				sub = ns
			}
			ch[k].Sub = sub
		}
	}
	return out
}

// staticCallers maps each module function to its static call sites in (non-test) module code.
func (c *Ctx) staticCallers() map[*ssa.Function][]ssa.CallInstruction {
	if m, ok := c.memo["staticCallers"].(map[*ssa.Function][]ssa.CallInstruction); ok {
		return m
	}
	m := map[*ssa.Function][]ssa.CallInstruction{}
	for _, fn := range c.P.ModuleFuncs() {
		if prog.IsTestish(prog.PkgPathOf(fn)) {
			continue
		}
		for _, ci := range Calls(fn, func(ci ssa.CallInstruction) bool {
			f := ci.Common().StaticCallee()
			return f != nil && prog.InModule(f)
		}) {
			f := ci.Common().StaticCallee()
			m[f] = append(m[f], ci)
		}
	}
	c.memo["staticCallers"] = m
	return m
}

// InterCut decides a must-pass-through question across frames: on every static call chain from a root to `site` (an
// instruction of F), some frame's segment [entry of the frame's function .. the frame's target] is cut by edges whose
// atoms satisfy pred (atoms are judged with the frame's parameter substitution, and through helper summaries).
// It returns nil if every chain is cut, else a witness (the innermost uncut path of the first uncut chain).
func (c *Ctx) InterCut(F *ssa.Function, site ssa.Instruction, isRoot func(*ssa.Function) bool, pred AtomPred) (bool, []string) {
	return c.InterCutCh(F, site, isRoot, func([]Frame) AtomPred { return pred })
}

// InterCutCh is InterCut with a predicate that may depend on the chain (e.g. on the object a parameter resolves to).
func (c *Ctx) InterCutCh(F *ssa.Function, site ssa.Instruction, isRoot func(*ssa.Function) bool, predFor func([]Frame) AtomPred) (bool, []string) {
	chains := c.Chains(F, site, isRoot, 4)
	if isRoot != nil {
		// only chains that start at a root count; the site must be reachable from a root at all
		var kept [][]Frame
		for _, ch := range chains {
			if isRoot(ch[0].Fn) {
				kept = append(kept, ch)
			}
		}
		if len(kept) == 0 {
			return false, []string{"no static call chain from the entry point to " + Fn(F)}
		}
		chains = kept
	}
	for _, ch := range chains {
		pred := predFor(ch)
		if pred == nil {
			continue // the obligation does not apply to this chain
		}
		cut := false
		var witness []string
		for k := len(ch) - 1; k >= 0; k-- {
			fr := ch[k]
			target := fr.Target
			x, path := an.Cut(an.CutQuery{From: an.Entry(fr.Fn), Target: func(i ssa.Instruction) bool { return i == target },
				AcceptEdge: c.WithSummariesFrom(fr.Sub, pred)})
			if x == nil {
				cut = true
				break
			}
			if witness == nil {
				witness = an.PathString(c.Pos, path)
			}
		}
		if !cut {
			var via []string
			for _, fr := range ch {
				via = append(via, Fn(fr.Fn))
			}
			return false, append([]string{"call chain: " + joinArrow(via)}, witness...)
		}
	}
	return true, nil
}

func joinArrow(xs []string) string {
	out := ""
	for i, x := range xs {
		if i > 0 {
			out += " -> "
		}
		out += x
	}
	return out
}
