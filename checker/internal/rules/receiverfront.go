package rules

import (
	"fmt"
	"sort"
	"strings"

	"dirkcheck/internal/an"
	"dirkcheck/internal/prog"

	"golang.org/x/tools/go/ssa"
)

// ReceiverFront (C17.O7 receiver.answers-from-process): the lifecycle of a generation is decided in one place, the process
// service's session table (C17.O1-O5). The gRPC receiver in front of it must not answer a protocol message on its own:
//
//   - every nil-error return of a receiver endpoint lies past the nil-error edge of the process service's matching On<Step>
//     call (a reply kept from an earlier call and handed out again answers "committed" for a generation that is gone, or
//     for a new one nobody contributed to);
//   - the receiver type keeps no state of its own: outside its constructor nothing stores into its fields, updates or deletes
//     from a map or sync.Map held in them, or writes an atomic of it.
func (c *Ctx) ReceiverFront(prop string) {
	rule := "C17.O7 receiver.answers-from-process"
	hs := c.handlersIn(rule, "/handlers/receiver")
	n := 0
	impls := map[string]bool{}
	for _, H := range hs {
		if H.Blocks == nil || H.Signature.Recv() == nil {
			continue
		}
		k := errResultIndex(H)
		if k < 0 {
			continue
		}
		if rn := namedOf(H.Signature.Recv().Type()); rn != nil {
			impls[rn.Obj().Pkg().Path()+"."+rn.Obj().Name()] = true
		}
		n++
		isProcessOK := func(a *an.Atom, _ Subst) bool {
			if a == nil || a.Op != "==" {
				return false
			}
			for _, side := range [][2]ssa.Value{{a.LV, a.RV}, {a.RV, a.LV}} {
				if !isNilConst(side[1]) || !isErrorType(side[0].Type()) {
					continue
				}
				v := unwrapErr(side[0])
				if ex, ok := v.(*ssa.Extract); ok {
					v = ex.Tuple
				}
				call, ok := v.(*ssa.Call)
				if ok && call.Call.IsInvoke() && namedIs(call.Call.Value.Type(), pkgProcess, "Service") && protocolMethods[call.Call.Method.Name()] {
					return true
				}
			}
			return false
		}
		bad := 0
		nret := 0
		for _, ret := range an.Returns(H) {
			if !isNilConst(unwrapErr(an.Result(ret, k))) {
				continue
			}
			nret++
			target := ssa.Instruction(ret)
			if x, path := an.Cut(an.CutQuery{From: an.Entry(H), Target: func(i ssa.Instruction) bool { return i == target }, AcceptEdge: c.WithSummaries(isProcessOK)}); x != nil {
				bad++
				c.R.Fail(rule, Fn(H), c.Pos(ret), "the receiver can answer a protocol message with success without the process service having accepted it", "success only past [process.On<Step>(…) err == nil]", an.PathString(c.Pos, path))
			}
		}
		if nret == 0 {
			c.R.Unknown(rule, Fn(H), c.P.FuncPos(H), "no nil-error return found in the receiver endpoint")
		} else if bad == 0 {
			c.R.OK(rule, Fn(H), c.P.FuncPos(H), fmt.Sprintf("%d success returns, each past the nil-error edge of the process service's call", nret))
		}
	}
	c.R.Floor(rule, "receiver endpoints", n, 5)
	// no state of its own
	var names []string
	for k := range impls {
		names = append(names, k)
	}
	sort.Strings(names)
	for _, fn := range c.P.ModuleFuncs() {
		if fn.Blocks == nil || prog.IsTestish(prog.PkgPathOf(fn)) {
			continue
		}
		outer := fn
		for outer.Parent() != nil {
			outer = outer.Parent()
		}
		if outer.Signature.Recv() == nil {
			continue // constructors
		}
		rn := namedOf(outer.Signature.Recv().Type())
		if rn == nil || rn.Obj().Pkg() == nil || !impls[rn.Obj().Pkg().Path()+"."+rn.Obj().Name()] {
			continue
		}
		ofRecv := func(v ssa.Value) bool {
			for i := 0; i < 8 && v != nil; i++ {
				switch x := v.(type) {
				case *ssa.FieldAddr:
					if namedOf(x.X.Type()) == rn {
						return true
					}
					v = x.X
				case *ssa.UnOp:
					v = x.X
				case *ssa.IndexAddr:
					v = x.X
				case *ssa.Lookup:
					v = x.X
				case *ssa.Extract:
					v = x.Tuple
				default:
					return false
				}
			}
			return false
		}
		bad := 0
		for _, b := range fn.Blocks {
			for _, ins := range b.Instrs {
				what := ""
				switch x := ins.(type) {
				case *ssa.Store:
					if ofRecv(x.Addr) {
						what = "stores into " + an.Term(x.Addr)
					}
				case *ssa.MapUpdate:
					if ofRecv(x.Map) {
						what = "updates a map of the receiver"
					}
				case ssa.CallInstruction:
					if op, ok := isSyncMapOp(x); ok && op != "Load" && op != "Range" && len(x.Common().Args) > 0 && ofRecv(x.Common().Args[0]) {
						what = "calls " + op + " on a sync.Map of the receiver"
					}
					if bi, ok := x.Common().Value.(*ssa.Builtin); ok && (bi.Name() == "delete" || bi.Name() == "clear") && len(x.Common().Args) > 0 && ofRecv(x.Common().Args[0]) {
						what = bi.Name() + "s from a map of the receiver"
					}
					if cal := x.Common().StaticCallee(); cal != nil && cal.Pkg != nil && cal.Pkg.Pkg.Path() == "sync/atomic" && len(x.Common().Args) > 0 && ofRecv(x.Common().Args[0]) && !strings.HasPrefix(cal.Name(), "Load") {
						what = "writes an atomic of the receiver"
					}
				}
				if what != "" {
					bad++
					c.R.Fail(rule, Fn(fn)+":state", c.Pos(ins), "the receiver "+what+": it keeps state about generations beside the process service's session table", "the receiver is stateless after construction", nil)
				}
			}
		}
		if bad == 0 {
			c.R.OK(rule, Fn(fn)+":state", c.P.FuncPos(fn), "writes no state of the receiver")
		}
	}
}
