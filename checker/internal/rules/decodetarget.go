package rules

import (
	"dirkcheck/internal/an"
	"dirkcheck/internal/prog"

	"golang.org/x/tools/go/ssa"
)

// DecodeFreshTarget (C11.O7): encoding/json and encoding/gob leave fields of the target untouched when the input does
// not mention them (omitempty on the writer's side makes that the normal case). A decode that runs inside a loop must
// therefore fill an object created in the same iteration; an object declared outside the loop carries the previous
// element's values into the next one.
func (c *Ctx) DecodeFreshTarget(prop string) {
	rule := "C11.O7 decode.fresh-target"
	n, inLoop := 0, 0
	isLib := func(f *ssa.Function) bool {
		if f == nil || f.Pkg == nil {
			return false
		}
		p := f.Pkg.Pkg.Path()
		return (p == "encoding/json" || p == "encoding/gob") && (f.Name() == "Unmarshal" || f.Name() == "Decode")
	}
	// module decoders: functions that hand one of their parameters (or the receiver) to a library decode, or to another
	// module decoder, as the target (two levels)
	decoderParam := map[*ssa.Function]int{}
	for round := 0; round < 2; round++ {
		for _, fn := range c.P.ModuleFuncs() {
			if prog.IsTestish(prog.PkgPathOf(fn)) || fn.Blocks == nil {
				continue
			}
			if _, done := decoderParam[fn]; done {
				continue
			}
			for _, ci := range Calls(fn, func(ci ssa.CallInstruction) bool {
				f := ci.Common().StaticCallee()
				_, isDec := decoderParam[f]
				return isLib(f) || (f != nil && isDec)
			}) {
				f := ci.Common().StaticCallee()
				args := ci.Common().Args
				k := len(args) - 1
				if !isLib(f) {
					k = decoderParam[f]
				}
				if k < 0 || k >= len(args) {
					continue
				}
				t := args[k]
				if mi, ok := t.(*ssa.MakeInterface); ok {
					t = mi.X
				}
				for i, q := range fn.Params {
					if t == ssa.Value(q) {
						decoderParam[fn] = i
					}
				}
			}
		}
	}
	for _, fn := range c.P.ModuleFuncs() {
		if prog.IsTestish(prog.PkgPathOf(fn)) || fn.Blocks == nil {
			continue
		}
		for _, ci := range Calls(fn, func(ci ssa.CallInstruction) bool {
			f := ci.Common().StaticCallee()
			if isLib(f) {
				return true
			}
			_, isDec := decoderParam[f]
			return f != nil && isDec
		}) {
			n++
			args := ci.Common().Args
			target := args[len(args)-1]
			if k, isDec := decoderParam[ci.Common().StaticCallee()]; isDec && !isLib(ci.Common().StaticCallee()) {
				if k >= len(args) {
					continue
				}
				target = args[k]
			}
			if mi, ok := target.(*ssa.MakeInterface); ok {
				target = mi.X
			}
			B := ci.Block()
			// is the call inside a cycle?
			cyc := false
			for _, s := range B.Succs {
				if an.Reachable(an.Point{Block: s, Idx: 0}, B.Instrs[0]) {
					cyc = true
				}
			}
			if !cyc {
				c.R.OK(rule, Fn(fn), c.Pos(ci), "decode outside any loop")
				continue
			}
			inLoop++
			if _, isParam := target.(*ssa.Parameter); isParam {
				c.R.OK(rule, Fn(fn), c.Pos(ci), "the target is the function's own parameter: judged at its callers")
				continue
			}
			al, ok := target.(*ssa.Alloc)
			if !ok {
				c.R.Unknown(rule, Fn(fn), c.Pos(ci), "a decode inside a loop fills an object that is not a local variable: "+an.Term(target))
				continue
			}
			// fresh per iteration: the allocation is executed again on every way round to the call
			fresh := al.Block() == B
			if !fresh {
				fresh = true
				for _, s := range B.Succs {
					x, _ := an.Cut(an.CutQuery{From: an.Point{Block: s, Idx: 0}, Target: func(i ssa.Instruction) bool { return i == ci.(ssa.Instruction) },
						AcceptInstr: func(i ssa.Instruction) bool { return i == ssa.Instruction(al) }})
					if x != nil {
						fresh = false
					}
				}
			}
			if !fresh {
				c.R.Fail(rule, Fn(fn), c.Pos(ci), "every iteration decodes into the same object, declared outside the loop: fields the input omits keep the previous element's values", "a target declared inside the loop body", nil)
			} else {
				c.R.OK(rule, Fn(fn), c.Pos(ci), "the decode target is created in the same iteration")
			}
		}
	}
	c.R.Floor(rule, "json/gob decode calls in the module", n, 2)
	_ = inLoop
}
