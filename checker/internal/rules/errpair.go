package rules

import (
	"fmt"
	"go/types"
	"sort"

	"dirkcheck/internal/an"
	"dirkcheck/internal/prog"

	"golang.org/x/tools/go/ssa"
)

// ResultBeforeErrorCheck (C20.O4 result.kept-after-error-check): in every module function reachable from a client-facing
// handler, the reference result (pointer / interface / map / slice / func) of a call that also returns an error is put into
// memory that outlives the request - a field of a service object, a package-level variable, a map or sync.Map held by either
// - only on paths that passed that call's [err == nil] edge. One level of wrapping is followed (the result stored into a
// fresh object which is then kept). When such a call fails its reference result is nil or half-built (regexp.Compile, hex
// decoding, wallet look-ups ...); kept in a cache it does not hurt the request that put it there but crashes a later one.
// (Uses within the request - locals, per-request slices - are not the concern of this rule: a nil dereference there shows
// on the first request that takes the path, and the request-data paths are covered by O1.)
func (c *Ctx) ResultBeforeErrorCheck(prop string) {
	rule := "C20.O4 result.kept-after-error-check"
	g := c.ModGraph()
	pred := g.Reach(c.clientHandlers(rule), nil)
	var fns []*ssa.Function
	for f := range pred {
		if prog.InModule(f) && f.Blocks != nil && !prog.IsTestish(prog.PkgPathOf(f)) {
			fns = append(fns, f)
		}
	}
	sort.Slice(fns, func(i, j int) bool { return fns[i].String() < fns[j].String() })
	// longLived: the address / map value roots at a field of a (pointer-typed) parameter or free variable, or at a global
	var longLived func(v ssa.Value, d int) bool
	longLived = func(v ssa.Value, d int) bool {
		if d > 8 || v == nil {
			return false
		}
		switch x := v.(type) {
		case *ssa.Global:
			return true
		case *ssa.FieldAddr:
			switch b := x.X.(type) {
			case *ssa.Parameter, *ssa.FreeVar:
				return true
			case *ssa.UnOp:
				return longLived(b.X, d+1) || isParamLike(b.X)
			}
			return longLived(x.X, d+1)
		case *ssa.UnOp:
			return longLived(x.X, d+1)
		case *ssa.IndexAddr:
			return longLived(x.X, d+1)
		case *ssa.Lookup:
			return longLived(x.X, d+1)
		}
		return false
	}
	ncalls, nbad, nkept := 0, 0, 0
	for _, fn := range fns {
		for _, ci := range Calls(fn, func(ci ssa.CallInstruction) bool {
			sig := ci.Common().Signature()
			return sig.Results().Len() >= 2 && isErrorType(sig.Results().At(sig.Results().Len()-1).Type())
		}) {
			call, ok := ci.(*ssa.Call)
			if !ok {
				continue
			}
			sig := ci.Common().Signature()
			ek := sig.Results().Len() - 1
			var errV ssa.Value
			var vals []ssa.Value
			for _, r := range *call.Referrers() {
				ex, ok := r.(*ssa.Extract)
				if !ok {
					continue
				}
				if ex.Index == ek {
					errV = ex
					continue
				}
				switch sig.Results().At(ex.Index).Type().Underlying().(type) {
				case *types.Pointer, *types.Interface, *types.Map, *types.Slice, *types.Signature, *types.Chan:
					vals = append(vals, ex)
				}
			}
			if len(vals) == 0 {
				continue
			}
			ncalls++
			errs := map[ssa.Value]bool{}
			if errV != nil {
				errs[errV] = true
			}
			// one level of wrapping: fresh objects that receive the value in a field
			carriers := append([]ssa.Value{}, vals...)
			for _, v := range vals {
				for _, use := range *v.Referrers() {
					if st, ok := use.(*ssa.Store); ok && st.Val == v {
						if fa, ok := st.Addr.(*ssa.FieldAddr); ok {
							if al, ok := fa.X.(*ssa.Alloc); ok && al.Heap {
								carriers = append(carriers, al)
							}
						}
					}
				}
			}
			for _, v := range carriers {
				for _, use := range *v.Referrers() {
					kept := false
					switch x := use.(type) {
					case *ssa.Store:
						kept = x.Val == v && longLived(x.Addr, 0)
					case *ssa.MapUpdate:
						kept = (x.Value == v || x.Key == v) && longLived(x.Map, 0)
					case *ssa.MakeInterface:
						// boxed for a sync.Map / container call
						for _, u2 := range *x.Referrers() {
							if c2, ok := u2.(*ssa.Call); ok {
								if op, isMap := isSyncMapOp(c2); isMap && (op == "Store" || op == "LoadOrStore" || op == "Swap" || op == "CompareAndSwap") {
									kept = true
									use = c2
								}
							}
						}
					}
					if !kept {
						continue
					}
					nkept++
					target := use
					x, path := an.Cut(an.CutQuery{From: an.After(call), Target: func(i ssa.Instruction) bool { return i == target },
						AcceptEdge: func(b *ssa.BasicBlock, i int, a *an.Atom) bool { return errNilAtom(a, errs) }})
					if x != nil {
						nbad++
						c.R.Fail(rule, fmt.Sprintf("%s:%s", Fn(fn), CalleeName(ci)), c.Pos(use), "the result of "+CalleeName(ci)+" is put into memory that outlives the request although the call may have failed (the result is nil or unusable then): the request that stored it gets its error, a later request that finds the entry crashes the daemon", "keep the result only past [err == nil]", an.PathString(c.Pos, path))
					}
				}
			}
		}
	}
	c.R.Count("error_paired_calls", ncalls)
	c.R.Count("kept_results", nkept)
	c.R.Floor(rule, "calls returning (reference, error) reachable from client handlers", ncalls, 40)
	if nbad == 0 {
		c.R.OK(rule, "handlers", "-", fmt.Sprintf("%d calls returning a reference together with an error in %d functions reachable from the client handlers; %d of the results are kept beyond the request, each only past [err == nil]", ncalls, len(fns), nkept))
	}
}

func isParamLike(v ssa.Value) bool {
	switch v.(type) {
	case *ssa.Parameter, *ssa.FreeVar:
		return true
	}
	return false
}
