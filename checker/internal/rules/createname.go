package rules

import (
	"fmt"
	"go/types"
	"sort"
	"strings"

	"dirkcheck/internal/an"
	"dirkcheck/internal/prog"

	"golang.org/x/tools/go/ssa"
)

// CreatedIsChecked (C07.O8 create.names-what-was-checked): for the create operation the permission check is applied to the
// requested name, because the account does not exist yet (C07.O4 table entry). That is only a decision about the account that
// comes into existence if the name handed to the creating code is that very name: every string the function passes, after the
// check, to something that creates an account (a wallet's creator/importer, or a package function that reaches one or sends
// key-generation messages) is built, without any other operation, from
//
//   - the checked string itself,
//   - a component of e2wallet.WalletAndAccountNames(checked string) (lossless by C07.O6),
//   - Name() of a wallet opened under such a component,
//   - "%s/%s" of two such values.
//
// Trimming, case folding, defaulting or any other rewriting between the check and the creation fails.
func (c *Ctx) CreatedIsChecked(prop string) {
	rule := "C07.O8 create.names-what-was-checked"
	auth := c.authHelpers()
	createG := c.Global(rule, pkgRuler, "ActionCreateAccount")
	if createG == nil {
		return
	}
	n := 0
	type site struct {
		fn *ssa.Function
		K  ssa.CallInstruction
		S  ssa.Value
	}
	var work []site
	for _, fn := range c.P.ModuleFuncs() {
		if prog.IsTestish(prog.PkgPathOf(fn)) || !strings.HasPrefix(prog.PkgPathOf(fn), mod+"/services/") || fn.Blocks == nil {
			continue
		}
		for _, K := range Calls(fn, func(ci ssa.CallInstruction) bool {
			cc := ci.Common()
			isCheck := (cc.StaticCallee() != nil && auth[cc.StaticCallee()]) || (cc.IsInvoke() && namedIs(cc.Value.Type(), pkgChecker, "Service") && cc.Method.Name() == "Check") ||
				(!cc.IsInvoke() && c.boolAuthHelper(cc.StaticCallee(), auth, succOf(c), 0))
			if !isCheck {
				return false
			}
			for _, a := range cc.Args {
				if isLoadOfGlobal(a, createG) {
					return true
				}
			}
			return false
		}) {
			// the checked string: the string argument that is not the operation
			var S ssa.Value
			for _, a := range K.Common().Args {
				if b, ok := a.Type().Underlying().(*types.Basic); ok && b.Kind() == types.String && !isLoadOfGlobal(a, createG) {
					S = a
				}
			}
			if S == nil {
				c.R.Unknown(rule, Fn(fn), c.Pos(K), "the create permission check has no name argument")
				continue
			}
			work = append(work, site{fn, K, S})
		}
	}
	for wi := 0; wi < len(work) && wi < 16; wi++ {
		fn, K, S := work[wi].fn, work[wi].K, work[wi].S
		bad := 0
		nsites := 0
		for _, b := range fn.Blocks {
			for _, ins := range b.Instrs {
				ci, ok := ins.(ssa.CallInstruction)
				if !ok || ins == K.(ssa.Instruction) || !an.Reachable(an.After(K.(ssa.Instruction)), ins) {
					continue
				}
				if !c.createsAccount(ci) {
					continue
				}
				for _, a := range ci.Common().Args {
					bt, ok := a.Type().Underlying().(*types.Basic)
					if !ok || bt.Kind() != types.String {
						continue
					}
					nsites++
					if why := nameFromChecked(a, S, 0); why != "" {
						bad++
						c.R.Fail(rule, Fn(fn)+":"+CalleeName(ci), c.Pos(ci), "the name handed to the account creation is not the name the permission check decided on: "+why, "the checked string, a component of its split, Name() of the wallet opened under it, or \"%s/%s\" of such", nil)
					}
				}
			}
		}
		if nsites == 0 {
			// a helper that only performs the check on a name it was given: the creation is looked for in its callers
			if p, isParam := S.(*ssa.Parameter); isParam && len(c.staticCallers()[fn]) > 0 {
				for k, q := range fn.Params {
					if q != p {
						continue
					}
					for _, cs := range c.staticCallers()[fn] {
						if !prog.IsTestish(prog.PkgPathOf(cs.Parent())) && k < len(cs.Common().Args) {
							work = append(work, site{cs.Parent(), cs, cs.Common().Args[k]})
						}
					}
				}
				continue
			}
			c.R.Unknown(rule, Fn(fn), c.Pos(K), "no account creation with a name argument found after the create permission check")
			continue
		}
		n++
		if bad == 0 {
			c.R.OK(rule, Fn(fn), c.Pos(K), fmt.Sprintf("%d name arguments of creating calls after the check are built only from the checked string", nsites))
		}
	}
	c.R.Floor(rule, "create permission checks", n, 1)
}

// createsAccount: ci is a creation sink, or a static call of a service-layer function that reaches one (or a peer message).
func (c *Ctx) createsAccount(ci ssa.CallInstruction) bool {
	isSink := func(what string) bool { return what == "account creation" || what == "key-generation message to peers" }
	if isSink(primitiveSink(ci)) {
		return true
	}
	if cc := ci.Common(); cc.IsInvoke() && namedIs(cc.Value.Type(), pkgProcess, "Service") && cc.Method.Name() == "OnGenerate" {
		return true // the generation service creates the account it is given the name of
	}
	f := ci.Common().StaticCallee()
	if f == nil || ci.Common().IsInvoke() || !prog.InModule(f) || f.Blocks == nil || !strings.HasPrefix(prog.PkgPathOf(f), mod+"/services/") {
		return false
	}
	memo, _ := c.memo["createsAccount"].(map[*ssa.Function]bool)
	if memo == nil {
		memo = map[*ssa.Function]bool{}
		c.memo["createsAccount"] = memo
	}
	if v, ok := memo[f]; ok {
		return v
	}
	res := false
	for _, g := range c.StaticReach(f, 6) {
		for _, h := range WithClosures(g) {
			for _, ci2 := range Calls(h, func(ssa.CallInstruction) bool { return true }) {
				if isSink(primitiveSink(ci2)) {
					res = true
				}
			}
		}
	}
	memo[f] = res
	return res
}

// nameFromChecked: "" when v is built only from the checked string S in the accepted ways; else what it also depends on.
func nameFromChecked(v ssa.Value, S ssa.Value, depth int) string {
	if depth > 8 {
		return "a value chain too long to follow"
	}
	v = an.StripConv(v)
	if v == S {
		return ""
	}
	switch x := v.(type) {
	case *ssa.MakeInterface:
		return nameFromChecked(x.X, S, depth+1)
	case *ssa.Extract:
		if call, ok := isCallToName(x.Tuple, "github.com/wealdtech/go-eth2-wallet.WalletAndAccountNames"); ok && x.Index < 2 {
			if an.StripConv(call.Call.Args[0]) == S {
				return ""
			}
			return "a component of the split of another string: " + an.Term(call.Call.Args[0])
		}
		// a component of a module helper's result: every return of the helper, with its parameters standing for the arguments
		// (the zero string of its failing returns names nothing)
		if hc, ok := x.Tuple.(*ssa.Call); ok && !hc.Call.IsInvoke() && hc.Call.StaticCallee() != nil && prog.InModule(hc.Call.StaticCallee()) && hc.Call.StaticCallee().Blocks != nil && depth < 4 {
			h := hc.Call.StaticCallee()
			for _, ret := range an.Returns(h) {
				if x.Index >= len(ret.Results) {
					return "an unrecognised value: " + an.Term(v)
				}
				rv := an.StripConv(an.Result(ret, x.Index))
				if k, isK := rv.(*ssa.Const); isK && an.Term(k) == `""` {
					continue
				}
				// judged inside the helper against each string parameter that receives the checked string
				okRet := false
				for i, q := range h.Params {
					if i < len(hc.Call.Args) && nameFromChecked(hc.Call.Args[i], S, depth+1) == "" {
						if _, isStr := q.Type().Underlying().(*types.Basic); isStr && nameFromChecked(rv, q, depth+1) == "" {
							okRet = true
						}
					}
				}
				if !okRet {
					return "a result of " + prog.ShortFunc(h) + " that is not built from the checked name: " + an.Term(rv)
				}
			}
			return ""
		}
		return "an unrecognised value: " + an.Term(v)
	case *ssa.Phi:
		var whys []string
		for _, e := range x.Edges {
			if w := nameFromChecked(e, S, depth+1); w != "" {
				whys = append(whys, w)
			}
		}
		sort.Strings(whys)
		if len(whys) > 0 {
			return whys[0]
		}
		return ""
	case *ssa.Call:
		if x.Call.IsInvoke() && x.Call.Method.Name() == "Name" && namedIs(x.Call.Value.Type(), pkgWTypes, "Wallet") {
			// Name() of the wallet opened under a component of the checked string
			if ex, ok := x.Call.Value.(*ssa.Extract); ok && ex.Index == 0 {
				if open, ok := isCallToName(ex.Tuple, "github.com/wealdtech/go-eth2-wallet.OpenWallet"); ok {
					return nameFromChecked(open.Call.Args[0], S, depth+1)
				}
			}
			return "the name of a wallet that was not opened under the checked name: " + an.Term(x.Call.Value)
		}
		if f := x.Call.StaticCallee(); f != nil && f.String() == "fmt.Sprintf" {
			if k, ok := x.Call.Args[0].(*ssa.Const); !ok || an.Term(k) != `"%s/%s"` {
				return "a formatted string other than \"%s/%s\": " + an.Term(x.Call.Args[0])
			}
			for _, a := range varargValues(x.Call.Args[1]) {
				if w := nameFromChecked(a, S, depth+1); w != "" {
					return w
				}
			}
			return ""
		}
		return "the result of " + CalleeName(x) + " (the name is rewritten between the check and the creation)"
	case *ssa.Const:
		return "a constant: " + an.Term(v)
	}
	return "an unrecognised value: " + an.Term(v)
}

func succOf(c *Ctx) int64 {
	v, _ := c.EnumConst("C07.O3 authorise-before-act", pkgCore, "ResultSucceeded")
	return v
}
