package rules

import (
	"fmt"
	"go/constant"
	"go/token"
	"go/types"
	"strings"

	"dirkcheck/internal/an"
	"dirkcheck/internal/prog"

	"golang.org/x/tools/go/ssa"
)

// abstract value of a configuration field: a known constant, or unknown.
type cfgVal struct {
	Known bool
	Val   constant.Value
	Src   string
}

func (v cfgVal) String() string {
	if !v.Known {
		return "unknown"
	}
	return v.Val.ExactString()
}

// literalFieldDefault reads the value field gets in the composite literal returned by constructor fn
// (e.g. badger.DefaultOptions): the stores into the returned local struct; absent => zero value.
func literalFieldDefault(fn *ssa.Function, field string) cfgVal {
	if fn == nil || fn.Blocks == nil {
		return cfgVal{}
	}
	var found *cfgVal
	n := 0
	for _, b := range fn.Blocks {
		for _, ins := range b.Instrs {
			st, ok := ins.(*ssa.Store)
			if !ok {
				continue
			}
			fa, ok := st.Addr.(*ssa.FieldAddr)
			if !ok || fieldNameOf(fa) != field {
				continue
			}
			n++
			if k, ok := st.Val.(*ssa.Const); ok && k.Value != nil {
				found = &cfgVal{Known: true, Val: k.Value, Src: "literal in " + fn.String()}
			} else {
				return cfgVal{}
			}
		}
	}
	if n == 0 {
		return cfgVal{Known: true, Val: constant.MakeBool(false), Src: "zero value in " + fn.String()}
	}
	if n == 1 && found != nil {
		return *found
	}
	return cfgVal{}
}

// EffectiveField computes the value of struct field `field` of the local struct cell `cell` just before instruction `at`
// (P9): forward dataflow from the cell's initialisation through field stores and With<Field>(c) calls.
func (c *Ctx) EffectiveField(fn *ssa.Function, cell *ssa.Alloc, field string, at ssa.Instruction) cfgVal {
	type state struct {
		set bool
		v   cfgVal
	}
	join := func(a, b state) state {
		if !a.set {
			return b
		}
		if !b.set {
			return a
		}
		if a.v.Known && b.v.Known && constant.Compare(a.v.Val, token.EQL, b.v.Val) {
			return a
		}
		return state{true, cfgVal{}}
	}
	eq := func(a, b state) bool {
		if a.set != b.set {
			return false
		}
		if !a.set {
			return true
		}
		if a.v.Known != b.v.Known {
			return false
		}
		return !a.v.Known || constant.Compare(a.v.Val, token.EQL, b.v.Val)
	}
	var fromValue func(v ssa.Value, cur state, d int) state
	fromValue = func(v ssa.Value, cur state, d int) state {
		if d > 6 {
			return state{true, cfgVal{}}
		}
		switch x := v.(type) {
		case *ssa.Call:
			f := x.Call.StaticCallee()
			if f == nil {
				return state{true, cfgVal{}}
			}
			// WithX(val) on a value receiver
			if f.Signature.Recv() != nil && strings.HasPrefix(f.Name(), "With") && len(x.Call.Args) >= 1 {
				base := fromValue(x.Call.Args[0], cur, d+1)
				if f.Name() == "With"+field && len(x.Call.Args) == 2 {
					if k, ok := x.Call.Args[1].(*ssa.Const); ok && k.Value != nil {
						return state{true, cfgVal{Known: true, Val: k.Value, Src: f.Name()}}
					}
					return state{true, cfgVal{}}
				}
				// other With* keep the field if their body does not store it
				if d2 := literalFieldDefault(f, field); d2.Known && strings.HasPrefix(d2.Src, "zero value") {
					return base
				}
				return state{true, cfgVal{}}
			}
			// a constructor returning the struct
			if d2 := literalFieldDefault(f, field); d2.Known {
				return state{true, d2}
			}
			return state{true, cfgVal{}}
		case *ssa.UnOp:
			if x.Op == token.MUL && x.X == ssa.Value(cell) {
				return cur
			}
		}
		return state{true, cfgVal{}}
	}
	in := map[*ssa.BasicBlock]state{}
	work := []*ssa.BasicBlock{fn.Blocks[0]}
	in[fn.Blocks[0]] = state{}
	var result state
	seenAt := false
	visited := map[*ssa.BasicBlock]bool{}
	for len(work) > 0 {
		b := work[len(work)-1]
		work = work[:len(work)-1]
		visited[b] = true
		cur := in[b]
		for _, ins := range b.Instrs {
			if ins == at {
				if seenAt {
					result = join(result, cur)
				} else {
					result, seenAt = cur, true
				}
			}
			st, ok := ins.(*ssa.Store)
			if !ok {
				// a call receiving &cell may modify it
				if ci, ok := ins.(ssa.CallInstruction); ok {
					for _, a := range ci.Common().Args {
						if a == ssa.Value(cell) {
							cur = state{true, cfgVal{}}
						}
					}
				}
				continue
			}
			if st.Addr == ssa.Value(cell) {
				cur = fromValue(st.Val, cur, 0)
				continue
			}
			if fa, ok := st.Addr.(*ssa.FieldAddr); ok && fa.X == ssa.Value(cell) && fieldNameOf(fa) == field {
				if k, ok := st.Val.(*ssa.Const); ok && k.Value != nil {
					cur = state{true, cfgVal{Known: true, Val: k.Value, Src: "assignment at " + c.Pos(st)}}
				} else {
					cur = state{true, cfgVal{}}
				}
			}
		}
		for _, s := range b.Succs {
			old, had := in[s]
			n := cur
			if had && visited[s] {
				n = join(old, cur)
			} else if had {
				n = join(old, cur)
			}
			if !had || !eq(old, n) {
				in[s] = n
				work = append(work, s)
			}
		}
	}
	if !seenAt || !result.set {
		return cfgVal{}
	}
	return result.v
}

// SyncOption: C03.O1 - at each badger.Open in production the effective SyncWrites is true and InMemory is false,
// and the directory is the constructor's path parameter.
func (c *Ctx) SyncOption(prop string) {
	c.FilesUntouched(prop) // the database files are touched by badger alone
	rule := "C03.O1 sync"
	n := 0
	for _, fn := range c.P.ModuleFuncs() {
		if prog.IsTestish(prog.PkgPathOf(fn)) {
			continue
		}
		for _, ci := range Calls(fn, func(ci ssa.CallInstruction) bool {
			return IsCallTo(ci, pkgBadger+".Open") || IsCallTo(ci, pkgBadger+".OpenManaged")
		}) {
			n++
			ord := fmt.Sprintf("#%d", n)
			arg := ci.Common().Args[0]
			u, ok := arg.(*ssa.UnOp)
			var cell *ssa.Alloc
			if ok && u.Op == token.MUL {
				cell, _ = u.X.(*ssa.Alloc)
			}
			if cell == nil {
				c.R.Unknown(rule, Fn(fn), c.Pos(ci), "badger.Open is not called with a local options value: "+an.Term(arg))
				continue
			}
			sync := c.EffectiveField(fn, cell, "SyncWrites", ci.(ssa.Instruction))
			mem := c.EffectiveField(fn, cell, "InMemory", ci.(ssa.Instruction))
			okSync := sync.Known && sync.Val.Kind() == constant.Bool && constant.BoolVal(sync.Val)
			okMem := mem.Known && mem.Val.Kind() == constant.Bool && !constant.BoolVal(mem.Val)
			if !okSync {
				c.R.Fail(rule, Fn(fn)+":SyncWrites"+ord, c.Pos(ci), "the slashing-protection database is opened with SyncWrites = "+sync.String()+": a commit can be acknowledged before it reaches the disk, so a crash after signing can lose the watermark", "effective SyncWrites == true at badger.Open", nil)
			} else {
				c.R.OK(rule, Fn(fn)+":SyncWrites"+ord, c.Pos(ci), "effective SyncWrites = true ("+sync.Src+")")
			}
			if !okMem {
				c.R.Fail(rule, Fn(fn)+":InMemory"+ord, c.Pos(ci), "the slashing-protection database is opened with InMemory = "+mem.String()+": nothing survives a restart", "effective InMemory == false at badger.Open", nil)
			} else {
				c.R.OK(rule, Fn(fn)+":InMemory"+ord, c.Pos(ci), "effective InMemory = false ("+mem.Src+")")
			}
			// further options that decide whether acknowledged records survive: required effective value false
			for _, o := range []struct{ field, why string }{
				{"Truncate", "on opening, badger cuts the value log at the first damaged record and silently drops every later one, acknowledged watermarks included, instead of refusing to start"},
				{"BypassLockGuard", "a second process may open the same directory and the two overwrite each other's records"},
				{"ReadOnly", "no watermark can be recorded"},
			} {
				v := c.EffectiveField(fn, cell, o.field, ci.(ssa.Instruction))
				if v.Known && v.Val.Kind() == constant.Bool && !constant.BoolVal(v.Val) {
					c.R.OK(rule, Fn(fn)+":"+o.field+ord, c.Pos(ci), "effective "+o.field+" = false ("+v.Src+")")
				} else {
					c.R.Fail(rule, Fn(fn)+":"+o.field+ord, c.Pos(ci), "the slashing-protection database is opened with "+o.field+" = "+v.String()+": "+o.why, "effective "+o.field+" == false at badger.Open", nil)
				}
			}
			// directory: DefaultOptions(path parameter)
			okDir := false
			for _, r := range *cell.Referrers() {
				st, ok := r.(*ssa.Store)
				if !ok || st.Addr != ssa.Value(cell) {
					continue
				}
				v := st.Val
				for {
					call, ok := v.(*ssa.Call)
					if !ok {
						break
					}
					f := call.Call.StaticCallee()
					if f != nil && f.String() == pkgBadger+".DefaultOptions" {
						if p, ok := call.Call.Args[0].(*ssa.Parameter); ok && p.Parent() == fn {
							okDir = true
						}
						break
					}
					if f != nil && f.Signature.Recv() != nil && len(call.Call.Args) > 0 {
						v = call.Call.Args[0]
						continue
					}
					break
				}
			}
			if !okDir {
				c.R.Fail(rule, Fn(fn)+":dir"+ord, c.Pos(ci), "the database directory is not the constructor's path parameter", "badger.DefaultOptions(<path parameter>)", nil)
			} else {
				c.R.OK(rule, Fn(fn)+":dir"+ord, c.Pos(ci), "options start from badger.DefaultOptions(<path parameter>)")
			}
		}
	}
	c.R.Floor(rule, "badger.Open sites", n, 1)
	// the constructor's path comes from configuration in main (storage-path)
	s := c.Slashing(rule)
	if s.OK() {
		_ = fmt.Sprint
		_ = types.Identical
	}
}
