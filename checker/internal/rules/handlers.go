package rules

import (
	"fmt"
	"go/types"
	"strings"

	"dirkcheck/internal/an"
	"dirkcheck/internal/prog"

	"golang.org/x/tools/go/ssa"
)

const pkgPB = "github.com/wealdtech/eth2-signer-api/pb/v1"

// handlersIn returns the registered handler methods whose package path contains frag.
func (c *Ctx) handlersIn(rule, frag string) []*ssa.Function {
	var out []*ssa.Function
	for _, h := range c.HandlerMethods(rule) {
		if strings.Contains(prog.PkgPathOf(h), frag) {
			out = append(out, h)
		}
	}
	return out
}

// HandlerSignature: C06.O3 (handler side) - the signature is copied into the response only under result == SUCCEEDED,
// from the service's own output at the same position.
func (c *Ctx) HandlerSignature(prop string) {
	rule := "C06.O3 handler.sig-iff-succeeded"
	hs := c.handlersIn(rule, "/handlers/signer")
	succ, ok1 := c.EnumConst(rule, pkgCore, "ResultSucceeded")
	pbSucc, ok2 := c.EnumConst(rule, pkgPB, "ResponseState_SUCCEEDED")
	if !ok1 || !ok2 {
		return
	}
	n := 0
	for _, H := range hs {
		var K ssa.CallInstruction
		for _, ci := range Calls(H, func(ci ssa.CallInstruction) bool {
			return ci.Common().IsInvoke() && namedIs(ci.Common().Value.Type(), pkgSigner, "Service")
		}) {
			K = ci
		}
		if K == nil {
			continue
		}
		n++
		var resV, sigV ssa.Value
		for _, ref := range *K.Value().Referrers() {
			if ex, ok := ref.(*ssa.Extract); ok {
				if ex.Index == 0 {
					resV = ex
				} else if ex.Index == 1 {
					sigV = ex
				}
			}
		}
		if resV == nil {
			c.R.Fail(rule, Fn(H), c.Pos(K), "the handler ignores the result of the signing service", "result examined", nil)
			continue
		}
		_, batch := resV.Type().(*types.Slice)
		nsig, bad := 0, 0
		// scopes in which the response is filled: the handler after the service call, and module helpers that are handed the
		// service's results (their parameters then stand for the results / signatures)
		type scope struct {
			fn         *ssa.Function
			from       an.Point
			resV, sigV ssa.Value
		}
		scopes := []scope{{H, an.After(K), resV, sigV}}
		seenFn := map[*ssa.Function]bool{H: true}
		for _, ci := range Calls(H, func(ci ssa.CallInstruction) bool {
			f := ci.Common().StaticCallee()
			return f != nil && prog.InModule(f) && f.Blocks != nil && !ci.Common().IsInvoke()
		}) {
			f := ci.Common().StaticCallee()
			var pr, ps ssa.Value
			for ai, a := range ci.Common().Args {
				if ai >= len(f.Params) {
					continue
				}
				if a == resV {
					pr = f.Params[ai]
				}
				if sigV != nil && a == sigV {
					ps = f.Params[ai]
				}
			}
			if pr != nil && !seenFn[f] {
				seenFn[f] = true
				scopes = append(scopes, scope{f, an.Entry(f), pr, ps})
			}
		}
		// a helper reachable from the handler that writes a signature or SUCCEEDED without seeing the results is not understood
		for _, f := range c.StaticReach(H, 2) {
			if seenFn[f] || !strings.Contains(prog.PkgPathOf(f), "/handlers/") {
				continue
			}
			for _, b := range f.Blocks {
				for _, ins := range b.Instrs {
					if st, ok := ins.(*ssa.Store); ok {
						if fa, ok := st.Addr.(*ssa.FieldAddr); ok && namedIs(fa.X.Type(), pkgPB, "SignResponse") {
							fname := fieldNameOf(fa)
							if fname == "Signature" || (fname == "State" && an.IsConstInt(st.Val, pbSucc)) {
								bad++
								c.R.Fail(rule, Fn(f)+":"+fname, c.Pos(st), "a helper of the handler writes "+fname+" into a response without being given the service's results", "only below [result == ResultSucceeded] of the same position", nil)
							}
						}
					}
				}
			}
		}
		for _, sc := range scopes {
			H, resV, sigV := sc.fn, sc.resV, sc.sigV
			from := sc.from
			for _, b := range H.Blocks {
				for _, ins := range b.Instrs {
					st, ok := ins.(*ssa.Store)
					if !ok {
						continue
					}
					fa, ok := st.Addr.(*ssa.FieldAddr)
					if !ok || !namedIs(fa.X.Type(), pkgPB, "SignResponse") {
						continue
					}
					fname := fieldNameOf(fa)
					isSig := fname == "Signature"
					isSuccState := fname == "State" && an.IsConstInt(st.Val, pbSucc)
					if fname == "State" {
						if _, isConst := st.Val.(*ssa.Const); !isConst {
							// the state is computed: accepted when it is translate(result of the same position), where translate
							// yields SUCCEEDED exactly for ResultSucceeded
							if !c.mappedStateStore(rule, st, fa, resV, batch, succ, pbSucc) {
								bad++
							}
							continue
						}
					}
					if !isSig && !isSuccState {
						continue
					}
					var wantIdx ssa.Value
					if isSig {
						nsig++
						if !batch {
							if st.Val != sigV {
								bad++
								c.R.Fail(rule, Fn(H), c.Pos(st), "the response signature is not the signing service's output: "+an.Term(st.Val), "Signature = signature returned by the service", nil)
								continue
							}
						} else {
							root, idx, ok := elemLoad(st.Val)
							if !ok || root != sigV {
								bad++
								c.R.Fail(rule, Fn(H), c.Pos(st), "the response signature is not signatures[i] of the signing service's output: "+an.Term(st.Val), "Responses[i].Signature = signatures[i]", nil)
								continue
							}
							wantIdx = idx
						}
					}
					if batch {
						// the response object must be Responses[idx] with the same idx
						ro, ridx, ok := elemLoad(fa.X)
						_ = ro
						if !ok {
							bad++
							c.R.Fail(rule, Fn(H), c.Pos(st), "the response written is not an element of the response list", "Responses[i]", nil)
							continue
						}
						if wantIdx != nil && ridx != wantIdx {
							bad++
							c.R.Fail(rule, Fn(H), c.Pos(st), "signature i is written into response j", "Responses[i].Signature = signatures[i]", nil)
							continue
						}
						wantIdx = ridx
					}
					target := ssa.Instruction(st)
					x, path := an.Cut(an.CutQuery{From: from, Target: func(i ssa.Instruction) bool { return i == target },
						AcceptEdge: func(b *ssa.BasicBlock, i int, a *an.Atom) bool {
							if a == nil || a.Op != "==" {
								return false
							}
							for _, side := range [][2]ssa.Value{{a.LV, a.RV}, {a.RV, a.LV}} {
								if !an.IsConstInt(side[1], succ) {
									continue
								}
								if !batch && side[0] == resV {
									return true
								}
								if batch {
									root, idx, ok := elemLoad(side[0])
									if ok && root == resV && idx == wantIdx {
										return true
									}
								}
							}
							return false
						}})
					what := "the signature"
					if isSuccState {
						what = "state SUCCEEDED"
					}
					if x != nil {
						bad++
						c.R.Fail(rule, Fn(H)+":"+fname, c.Pos(st), what+" is written into the response on a path where the service result for that position is not SUCCEEDED", "only below [result == ResultSucceeded] of the same position", an.PathString(c.Pos, path))
					}
					// pairing: the block that sets the signature also sets State = SUCCEEDED on the same object
					if isSig {
						paired := false
						for _, i2 := range b.Instrs {
							if s2, ok := i2.(*ssa.Store); ok {
								if fa2, ok := s2.Addr.(*ssa.FieldAddr); ok && namedIs(fa2.X.Type(), pkgPB, "SignResponse") && fieldNameOf(fa2) == "State" && an.IsConstInt(s2.Val, pbSucc) && an.Term(fa2.X) == an.Term(fa.X) {
									paired = true
								}
							}
						}
						// or: a dominating store of translate(result) into the same response (validated above: the translation of
						// ResultSucceeded is SUCCEEDED, and the signature store sits below [result == ResultSucceeded])
						for _, b2 := range H.Blocks {
							if paired || !(b2 == b || b2.Dominates(b)) {
								continue
							}
							for _, i2 := range b2.Instrs {
								s2, ok := i2.(*ssa.Store)
								if !ok || (b2 == b && an.InstrPos(s2) > an.InstrPos(st)) {
									continue
								}
								if _, isConst := s2.Val.(*ssa.Const); isConst {
									continue
								}
								if fa2, ok := s2.Addr.(*ssa.FieldAddr); ok && namedIs(fa2.X.Type(), pkgPB, "SignResponse") && fieldNameOf(fa2) == "State" && an.Term(fa2.X) == an.Term(fa.X) && c.stateTranslation(s2, resV, batch, succ, pbSucc) == "" {
									paired = true
								}
							}
						}
						if !paired {
							bad++
							c.R.Fail(rule, Fn(H)+":pair", c.Pos(st), "a signature is set without state SUCCEEDED on the same response", "Signature and State=SUCCEEDED are set together", nil)
						}
					}
				}
			}
		}
		if nsig == 0 {
			bad++
			c.R.Fail(rule, Fn(H), c.Pos(K), "the handler never copies the signature into the response", "Signature set under SUCCEEDED", nil)
		}
		if bad == 0 {
			c.R.OK(rule, Fn(H), c.Pos(K), fmt.Sprintf("signature and SUCCEEDED are written only below [result == ResultSucceeded] of the same position (%d signature stores)", nsig))
		}
	}
	c.R.Floor(rule, "signer handlers", n, 5)
}

// stateTranslation validates a store `response.State = v` with a computed v: v is (the first result of) a module function
// applied to the service's result for the same position, and that function returns SUCCEEDED exactly for ResultSucceeded.
// It returns "" when the store is understood and safe, else the reason.
func (c *Ctx) stateTranslation(st *ssa.Store, resV ssa.Value, batch bool, succ, pbSucc int64) string {
	fa := st.Addr.(*ssa.FieldAddr)
	v := st.Val
	if ex, ok := v.(*ssa.Extract); ok {
		if ex.Index != 0 {
			return "the state is not the first result of a translation function"
		}
		v = ex.Tuple
	}
	// a read-only package-level table from results to states: table[result of the same position]
	if lk, isLookup := v.(*ssa.Lookup); isLookup {
		ld, ok := lk.X.(*ssa.UnOp)
		if !ok {
			return "the state is read from a map that is not a package-level table"
		}
		g, ok := ld.X.(*ssa.Global)
		if !ok {
			return "the state is read from a map that is not a package-level table"
		}
		entries, ok := c.globalMapConstEntries(g)
		if !ok {
			return "the state is read from " + g.Name() + ", which is not an init-only table of constants"
		}
		if !batch && lk.Index != resV {
			return "the table is not indexed by the service's result"
		}
		if batch {
			root, idx, ok := elemLoad(lk.Index)
			_, ridx, ok2 := elemLoad(fa.X)
			if !ok || root != resV || !ok2 || ridx != idx {
				return "the state of response j is read from the table at result i"
			}
		}
		if e, has := entries[succ]; !has || e != pbSucc {
			return "the table does not map ResultSucceeded to SUCCEEDED"
		}
		if pbSucc == 0 {
			return "a result missing from the table reads as SUCCEEDED"
		}
		for k, e := range entries {
			if k != succ && e == pbSucc {
				return "the table maps a result other than ResultSucceeded to SUCCEEDED"
			}
		}
		return ""
	}
	call, ok := v.(*ssa.Call)
	if !ok || call.Common().IsInvoke() || call.Common().StaticCallee() == nil {
		return "the state written is neither a constant nor the result of a translation function: " + an.Term(st.Val)
	}
	f := call.Common().StaticCallee()
	if !prog.InModule(f) || f.Blocks == nil {
		return "the translation function is outside the module"
	}
	// a validation verdict: a module function every return of which is a constant state other than SUCCEEDED
	if rets := an.Returns(f); len(rets) > 0 && f.Signature.Results().Len() == 1 {
		never := true
		for _, r := range rets {
			k, isConst := an.Result(r, 0).(*ssa.Const)
			if !isConst || an.IsConstInt(k, pbSucc) {
				never = false
			}
		}
		if never {
			return ""
		}
	}
	ai := -1
	for i, a := range call.Common().Args {
		if !batch && a == resV {
			ai = i
		}
		if batch {
			if root, idx, ok := elemLoad(a); ok && root == resV {
				_, ridx, ok2 := elemLoad(fa.X)
				if !ok2 || ridx != idx {
					return "the state of response j is computed from result i"
				}
				ai = i
			}
		}
	}
	if ai < 0 || ai >= len(f.Params) {
		return "the translation function is not applied to the service's result for this position"
	}
	p := f.Params[ai]
	isP := func(v ssa.Value) bool { return v == ssa.Value(p) }
	resOf := func(r *ssa.Return) ssa.Value {
		if len(r.Results) == 0 {
			return nil
		}
		return an.Result(r, 0)
	}
	for _, r := range an.Returns(f) {
		if _, isConst := resOf(r).(*ssa.Const); !isConst {
			return "the translation function returns a computed state"
		}
	}
	// (a) under [p == ResultSucceeded] every return yields SUCCEEDED
	x, _ := an.Cut(an.CutQuery{From: an.Entry(f), Target: func(i ssa.Instruction) bool {
		r, ok := i.(*ssa.Return)
		return ok && !an.IsConstInt(resOf(r), pbSucc)
	}, AcceptEdge: func(b *ssa.BasicBlock, i int, a *an.Atom) bool {
		if a == nil {
			return false
		}
		for _, side := range [][2]ssa.Value{{a.LV, a.RV}, {a.RV, a.LV}} {
			if !isP(side[0]) {
				continue
			}
			if a.Op == "!=" && an.IsConstInt(side[1], succ) {
				return true
			}
			if k, isC := side[1].(*ssa.Const); isC && a.Op == "==" && !an.IsConstInt(k, succ) {
				return true
			}
		}
		return false
	}})
	if x != nil {
		return "the translation of ResultSucceeded is not always SUCCEEDED"
	}
	// (b) SUCCEEDED is returned only below [p == ResultSucceeded]
	x, _ = an.Cut(an.CutQuery{From: an.Entry(f), Target: func(i ssa.Instruction) bool {
		r, ok := i.(*ssa.Return)
		return ok && an.IsConstInt(resOf(r), pbSucc)
	}, AcceptEdge: func(b *ssa.BasicBlock, i int, a *an.Atom) bool {
		if a == nil || a.Op != "==" {
			return false
		}
		return (isP(a.LV) && an.IsConstInt(a.RV, succ)) || (isP(a.RV) && an.IsConstInt(a.LV, succ))
	}})
	if x != nil {
		return "the translation function yields SUCCEEDED for a result other than ResultSucceeded"
	}
	return ""
}

func (c *Ctx) mappedStateStore(rule string, st *ssa.Store, fa *ssa.FieldAddr, resV ssa.Value, batch bool, succ, pbSucc int64) bool {
	if why := c.stateTranslation(st, resV, batch, succ, pbSucc); why != "" {
		c.R.Fail(rule, Fn(st.Parent())+":State", c.Pos(st), why, "State = constant, or translate(result of the same position) with translate(r) == SUCCEEDED iff r == ResultSucceeded", nil)
		return false
	}
	return true
}
