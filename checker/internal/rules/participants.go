package rules

import (
	"go/types"

	"dirkcheck/internal/an"
	"dirkcheck/internal/prog"

	"golang.org/x/tools/go/ssa"
)

// ParticipantsAsSent (C17.O6 prepare.participants-as-sent): the participant list the receiver hands to the process
// service's OnPrepare has one entry per participant of the request, in order, each carrying that participant's id:
// make(len(req.GetParticipants())) filled at every index of a full-range loop over the request's list, no iteration
// skipped. The commit rule counts contributions against this list; a list that silently leaves participants out lets an
// instance commit a key although a listed participant never contributed.
func (c *Ctx) ParticipantsAsSent(prop string) {
	rule := "C17.O6 prepare.participants-as-sent"
	n := 0
	for _, fn := range c.P.ModuleFuncs() {
		p := prog.PkgPathOf(fn)
		if prog.IsTestish(p) || fn.Blocks == nil || p == pkgProcess || hasPrefixPath(p, pkgProcess) {
			continue
		}
		for _, ci := range Calls(fn, func(ci ssa.CallInstruction) bool { return IsInvokeOf(ci, pkgProcess, "Service", "OnPrepare") }) {
			n++
			var arg ssa.Value
			for _, a := range ci.Common().Args {
				if sl, ok := a.Type().(*types.Slice); ok {
					if pt, ok := sl.Elem().(*types.Pointer); ok && namedIs(pt.Elem(), pkgCore, "Endpoint") {
						arg = a
					}
				}
			}
			if arg == nil {
				c.R.Unknown(rule, Fn(fn), c.Pos(ci), "OnPrepare is not given a participant list")
				continue
			}
			F := fn
			listVal := arg
			root := sliceRootExact(arg)
			// the list may be built by a helper that is given the request's list
			if call, ok := root.(*ssa.Call); ok && !call.Call.IsInvoke() {
				if h := call.Call.StaticCallee(); h != nil && prog.InModule(h) && h.Blocks != nil {
					rets := an.Returns(h)
					same := true
					var r0 ssa.Value
					for _, ret := range rets {
						r := sliceRootExact(an.Result(ret, 0))
						if r0 != nil && r != r0 {
							same = false
						}
						r0 = r
					}
					if same && r0 != nil {
						F, root = h, r0
						if len(rets) == 1 {
							listVal = an.Result(rets[0], 0)
						}
					}
				}
			}
			// append form: list := make(_, 0, n); for _, p := range reqList { list = append(list, &Endpoint{ID: p.GetId(), ...}) }
			if okApp := func() bool {
				for _, l := range FindLoops(F) {
					if !l.FullRange || l.BoundLen == nil {
						continue
					}
					elem, src, ok := appendedPerIteration(F, listVal, l.BoundLen)
					if !ok || src.Header != l.Header {
						continue
					}
					obj, isAlloc := elem.(*ssa.Alloc)
					if !isAlloc {
						continue
					}
					for _, r := range *obj.Referrers() {
						fa, ok := r.(*ssa.FieldAddr)
						if !ok || fieldNameOf(fa) != "ID" {
							continue
						}
						for _, r2 := range *fa.Referrers() {
							s3, ok := r2.(*ssa.Store)
							if !ok || s3.Addr != ssa.Value(fa) {
								continue
							}
							if call, ok := s3.Val.(*ssa.Call); ok && call.Call.StaticCallee() != nil && call.Call.StaticCallee().Name() == "GetId" && len(call.Call.Args) == 1 {
								if r0, idx, ok := elemLoad(call.Call.Args[0]); ok && idx == l.Idx && r0 == l.BoundLen {
									return true
								}
							}
						}
					}
				}
				return false
			}(); okApp {
				c.R.OK(rule, Fn(F), c.Pos(ci), "one entry appended per participant of the request, in order, each with that participant's id")
				continue
			}
			mk, ok := root.(*ssa.MakeSlice)
			if !ok {
				c.R.Fail(rule, Fn(F), c.Pos(ci), "the participant list handed to OnPrepare is not a list made with one slot per participant of the request: "+an.Term(root), "make([]*Endpoint, len(req.GetParticipants()))", nil)
				continue
			}
			lc, ok := mk.Len.(*ssa.Call)
			if !ok || !isBuiltin(lc, "len") {
				c.R.Fail(rule, Fn(F), c.Pos(mk), "the participant list is not made with the length of the request's list (entries appended one by one can be left out)", "make([]*Endpoint, len(req.GetParticipants()))", nil)
				continue
			}
			reqTerm := an.Term(lc.Call.Args[0])
			var L *Loop
			for _, l := range FindLoops(F) {
				if l.FullRange && l.BoundLen != nil && an.Term(l.BoundLen) == reqTerm {
					L = l
				}
			}
			if L == nil {
				c.R.Fail(rule, Fn(F), c.Pos(mk), "no loop over all participants of the request fills the list", "for i, p := range req.GetParticipants() { participants[i] = ... }", nil)
				continue
			}
			var st *ssa.Store
			nst := 0
			for _, f := range WithClosures(F) {
				for _, b := range f.Blocks {
					for _, ins := range b.Instrs {
						s2, ok := ins.(*ssa.Store)
						if !ok {
							continue
						}
						ia, ok := s2.Addr.(*ssa.IndexAddr)
						if !ok || sliceRootExact(ia.X) != ssa.Value(mk) {
							continue
						}
						nst++
						if ia.Index == L.Idx && L.Body[s2.Block()] {
							st = s2
						}
					}
				}
			}
			if st == nil || nst != 1 || L.IterationSkips(func(i ssa.Instruction) bool { return i == ssa.Instruction(st) }) || len(L.BreakEdges()) > 0 {
				c.R.Fail(rule, Fn(F), c.Pos(mk), "a participant of the request can be left out of (or misplaced in) the list handed to OnPrepare", "participants[i] assigned in every iteration, nowhere else", nil)
				continue
			}
			// the entry carries the id of the request's participant at this position
			okID := false
			if obj, isAlloc := st.Val.(*ssa.Alloc); isAlloc {
				for _, r := range *obj.Referrers() {
					fa, ok := r.(*ssa.FieldAddr)
					if !ok || fieldNameOf(fa) != "ID" {
						continue
					}
					for _, r2 := range *fa.Referrers() {
						s3, ok := r2.(*ssa.Store)
						if !ok || s3.Addr != ssa.Value(fa) {
							continue
						}
						if call, ok := s3.Val.(*ssa.Call); ok && call.Call.StaticCallee() != nil && call.Call.StaticCallee().Name() == "GetId" && len(call.Call.Args) == 1 {
							if r0, idx, ok := elemLoad(call.Call.Args[0]); ok && idx == L.Idx && an.Term(r0) == reqTerm {
								okID = true
							}
						}
					}
				}
			}
			if !okID {
				c.R.Fail(rule, Fn(F), c.Pos(st), "the entry at position i does not carry the id of the request's participant i", "ID: req.GetParticipants()[i].GetId()", nil)
				continue
			}
			c.R.OK(rule, Fn(F), c.Pos(ci), "one entry per participant of the request, in order, each with that participant's id")
		}
	}
	c.R.Floor(rule, "calls of OnPrepare outside the process service", n, 1)
}

func hasPrefixPath(p, prefix string) bool {
	return len(p) > len(prefix) && p[:len(prefix)+1] == prefix+"/"
}
