package rules

func init() {
	register(&Spec{
		ID: "C02",
		Run: func(c *Ctx) {
			s := c.Slashing("C02.anchors")
			if !s.OK() {
				return
			}
			c.WatermarkGuards("C02", s, "prop")
			c.WatermarkConversions("C02", s, "prop")
			c.RecordBeforeApprove("C02", s, "prop")
			c.StoreCommit("C03", s)
			// the histories quantified over include restarts: the record must survive them
			c.SyncOption("C03")
			c.SameStore("C10") // incl. C03.O7: the database directory does not depend on the working directory, so a restart finds the same records
			c.WhoWrites("C03")
			c.DomainRules("C05")   // slashable objects are signed only through the protected endpoints
			c.ForkJoinRules("C03") // rule evaluation finishes (and records) before RunRules returns and the key locks are released
			c.BadgerBufferDiscipline("C11")
			c.EntryAlignment("C02", s, "prop")
			c.StateStoreDiscipline("C02", s, "prop")
			c.MetadataImmutable("C01")
			c.RulerLocking("C02")
			c.OneInstance("C02", "locker", "ruler")
			c.LockerInternals("C15") // holding the key's lock means holding it: Lock returns only with the key's one mutex acquired
			c.SignIffApproved("C02", map[string]bool{"SignBeaconProposal": true})
			c.RulerKeyAgreement("C02")
			c.RulerPositions("C02")
			c.SigningRootProvenance("C02")
		},
		Explanation: "Same scheme as C01 in one dimension: APPROVED for a proposal is cut by [stored slot < 0] or [slot > stored slot], the slot is bounded by MaxInt64 before it is narrowed, the new slot is committed before APPROVED leaves, the record is fetched and stored under the request's own key with the proposal action, and only APPROVED requests are signed. See DESIGN.md §5 C02.",
		Trusted:     append([]string{"badger returns the last committed value for a key", "BLS signing"}, commonTrusted...),
	})
	register(&Spec{
		ID: "C03",
		Run: func(c *Ctx) {
			s := c.Slashing("C03.anchors")
			if !s.OK() {
				return
			}
			c.SyncOption("C03")
			c.SameStore("C10") // incl. C03.O7: the database directory does not depend on the working directory, so a restart finds the same records
			c.StoreCommit("C03", s)
			c.BadgerBufferDiscipline("C11")
			c.WhoWrites("C03")
			c.ForkJoinRules("C03")
			c.RecordBeforeApprove("C03", s, "att")
			c.RecordBeforeApprove("C03", s, "prop")
			// the record must be written where later requests for the same key look for it
			c.EntryAlignment("C03", s, "att")
			c.EntryAlignment("C03", s, "prop")
			c.RulerKeyAgreement("C03")
			c.SigningRootProvenance("C03")
			c.SignIffApproved("C03", map[string]bool{"SignBeaconProposal": true, "SignBeaconAttestation": true, "SignBeaconAttestations": true})
		},
		Explanation: "On every path: a signature needs APPROVED; APPROVED leaves the rules only past the nil-error edge of Store/BatchStore; those return nil only as the verdict of db.Update / WriteBatch.Flush over exactly the given keys; the database is opened with SyncWrites effective and nothing else writes or deletes records. Because the argument is per path it covers every crash point. See DESIGN.md §5 C03.",
		Trusted:     append([]string{"badger v2 contract: a nil return from Update/Flush with SyncWrites means the entry is in the fsynced value log and is replayed on open", "the same storage-path is configured after restart"}, commonTrusted...),
	})
}
