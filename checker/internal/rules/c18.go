package rules

import (
	"dirkcheck/internal/prog"
	"fmt"
	"go/types"
	"strings"

	"dirkcheck/internal/an"

	"golang.org/x/tools/go/ssa"
)

// rangeIterLoop describes `for k, v := range m` over a map (or string): header = block of the Next.
type rangeIterLoop struct {
	Next   *ssa.Next
	Header *ssa.BasicBlock
	Body   *ssa.BasicBlock
	Done   *ssa.BasicBlock
	Src    ssa.Value
}

func findRangeIterLoops(fn *ssa.Function) []*rangeIterLoop {
	var out []*rangeIterLoop
	for _, b := range fn.Blocks {
		for _, ins := range b.Instrs {
			nx, ok := ins.(*ssa.Next)
			if !ok {
				continue
			}
			iff, ok := b.Instrs[len(b.Instrs)-1].(*ssa.If)
			if !ok {
				continue
			}
			ex, ok := iff.Cond.(*ssa.Extract)
			if !ok || ex.Tuple != ssa.Value(nx) || ex.Index != 0 {
				continue
			}
			rg, _ := nx.Iter.(*ssa.Range)
			var src ssa.Value
			if rg != nil {
				src = rg.X
			}
			out = append(out, &rangeIterLoop{Next: nx, Header: b, Body: b.Succs[0], Done: b.Succs[1], Src: src})
		}
	}
	return out
}

// ListerRules: C18 O1, O2, O5.
func (c *Ctx) ListerRules(prop string) {
	rule1 := "C18.O1 only-permitted"
	rule2 := "C18.O2 all-permitted"
	impl := c.Role(rule1, pkgLister, "Service")
	if impl == nil {
		return
	}
	F := c.Method(rule1, impl, "ListAccounts")
	if F == nil {
		return
	}
	succ, _ := c.EnumConst(rule1, pkgCore, "ResultSucceeded")
	appr, _ := c.EnumConst(rule1, pkgRules, "APPROVED")
	auth := c.authHelpers()
	// the result list: appends whose result reaches the return
	accountAppends := func(fn *ssa.Function) []*ssa.Call {
		var out []*ssa.Call
		for _, b := range fn.Blocks {
			for _, ins := range b.Instrs {
				call, ok := ins.(*ssa.Call)
				if !ok || !isBuiltin(call, "append") {
					continue
				}
				if sl, ok := call.Type().(*types.Slice); ok && namedIs(sl.Elem(), pkgWTypes, "Account") {
					out = append(out, call)
				}
			}
		}
		return out
	}
	appends := accountAppends(F)
	if len(appends) != 1 {
		c.R.Unknown(rule1, Fn(F), c.P.FuncPos(F), fmt.Sprintf("expected exactly one append to the account result list, found %d", len(appends)))
		return
	}
	// S is the function that scans a wallet's accounts: ListAccounts itself, or a per-path helper whose whole result list
	// ListAccounts appends (`accounts = append(accounts, scan(path)...)`, the list possibly a field of the helper's result)
	entry := F
	var link *ssa.Call // the call of the per-path helper in ListAccounts
	if len(varargValuesT(appends[0].Call.Args[1])) == 0 {
		spread := appends[0]
		src := spread.Call.Args[1]
		field := ""
		if u, ok := src.(*ssa.UnOp); ok {
			if fa, ok := u.X.(*ssa.FieldAddr); ok {
				field = fieldNameOf(fa)
				src = fa.X
			}
		}
		if ex, ok := src.(*ssa.Extract); ok && ex.Index == 0 {
			src = ex.Tuple
		}
		k, ok := src.(*ssa.Call)
		if !ok || k.Call.IsInvoke() || k.Call.StaticCallee() == nil || !prog.InModule(k.Call.StaticCallee()) || k.Call.StaticCallee().Blocks == nil {
			c.R.Unknown(rule1, Fn(F), c.Pos(spread), "the list appended to the result is not the result of a per-path helper of the lister: "+an.Term(spread.Call.Args[1]))
			return
		}
		S := k.Call.StaticCallee()
		sub := accountAppends(S)
		if len(sub) != 1 || len(varargValuesT(sub[0].Call.Args[1])) != 1 {
			c.R.Unknown(rule1, Fn(S), c.P.FuncPos(S), fmt.Sprintf("expected exactly one single-account append in the per-path helper, found %d", len(sub)))
			return
		}
		// the helper's result is the list it appends to
		if why := listResultOf(S, sub[0], field); why != "" {
			c.R.Fail(rule1, Fn(S)+":result", c.P.FuncPos(S), why, "the per-path helper returns exactly the accounts it appended", nil)
			return
		}
		link = k
		appends = sub
		F = S
		_ = spread
		// every path from the helper's call back to the path loop appends the helper's list (a nil result = path skipped)
		defer func(F *ssa.Function, k, spread *ssa.Call) {
			var hdr *ssa.BasicBlock
			for _, l := range FindLoops(F) {
				if l.FullRange && l.Body[k.Block()] {
					hdr = l.Header
				}
			}
			if hdr == nil {
				return // reported by the paths clause
			}
			x, path := an.Cut(an.CutQuery{From: an.After(k), Target: func(i ssa.Instruction) bool { return i == hdr.Instrs[0] },
				AcceptInstr: func(i ssa.Instruction) bool { return i == ssa.Instruction(spread) },
				AcceptEdge: func(b *ssa.BasicBlock, i int, a *an.Atom) bool {
					if a == nil || a.Op != "==" {
						return false
					}
					return (a.LV == ssa.Value(k) && isNilConst(a.RV)) || (a.RV == ssa.Value(k) && isNilConst(a.LV))
				}})
			if x != nil {
				c.R.Fail(rule2, Fn(F)+":collect", c.Pos(k), "the accounts found for a path can be left out of the result", "accounts = append(accounts, <accounts of the path>...) on every path", an.PathString(c.Pos, path))
			} else {
				c.R.OK(rule2, Fn(F)+":collect", c.Pos(k), "the per-path helper's whole list is appended to the result on every path (a nil result skips the path)")
			}
		}(entry, k, spread)
	}
	app := appends[0]
	// the account appended: element of the slice literal argument
	var acct ssa.Value
	if vs := varargValuesT(app.Call.Args[1]); len(vs) == 1 {
		acct = vs[0]
	}
	// the account loop
	var accLoop *rangeIterLoop
	for _, l := range findRangeIterLoops(F) {
		for _, r := range *l.Next.Referrers() {
			if ex, ok := r.(*ssa.Extract); ok && ex.Index == 2 && ssa.Value(ex) == acct {
				accLoop = l
			}
		}
	}
	if accLoop == nil {
		c.R.Fail(rule1, Fn(F), c.Pos(app), "the account appended to the result is not the account of the current iteration over the wallet's accounts: "+an.Term(acct), "append(accounts, walletAccount) inside for _, walletAccount := range walletAccounts", nil)
		return
	}
	if link != nil {
		// after the scan the per-path helper hands its list back: no nil return once the account loop has finished
		for _, ret := range an.Returns(F) {
			if isNilConst(an.Result(ret, 0)) && an.Reachable(an.Point{Block: accLoop.Done, Idx: 0}, ret) {
				c.R.Fail(rule2, Fn(F)+":result", c.Pos(ret), "the per-path helper can discard the accounts it found (nil result after the scan)", "the scanned list is returned", nil)
			}
		}
	}
	// source of the iteration: FetchAccounts(wallet.Name()) of the wallet fetched for the path
	okSrc := false
	var walletVal ssa.Value
	if ex, ok := accLoop.Src.(*ssa.Extract); ok && ex.Index == 0 {
		if call, ok := ex.Tuple.(*ssa.Call); ok && call.Call.IsInvoke() && namedIs(call.Call.Value.Type(), pkgFetcher, "Service") && call.Call.Method.Name() == "FetchAccounts" {
			if nm, ok := call.Call.Args[1].(*ssa.Call); ok && nm.Call.IsInvoke() && nm.Call.Method.Name() == "Name" {
				if wex, ok := nm.Call.Value.(*ssa.Extract); ok && wex.Index == 0 {
					if wc, ok := wex.Tuple.(*ssa.Call); ok && wc.Call.IsInvoke() && wc.Call.Method.Name() == "FetchWallet" {
						okSrc = true
						walletVal = wex
					}
				}
			}
		}
	}
	if !okSrc {
		c.R.Fail(rule1, Fn(F)+":source", c.Pos(accLoop.Next), "the accounts scanned are not those of the wallet fetched for the requested path", "FetchAccounts(wallet.Name()) with wallet = FetchWallet(path)", nil)
	} else {
		c.R.OK(rule1, Fn(F)+":source", c.Pos(accLoop.Next), "accounts scanned = FetchAccounts(Name() of the wallet fetched for the requested path)")
	}
	// clauses on the append
	var regexVal ssa.Value
	isNameOfS := func(v ssa.Value, obj ssa.Value, sub Subst) bool {
		call, ok := an.StripConv(sub.Res(an.StripConv(v))).(*ssa.Call)
		if !ok || !call.Call.IsInvoke() || call.Call.Method.Name() != "Name" {
			return false
		}
		return sub.Res(call.Call.Value) == obj
	}
	clauses := []struct {
		name string
		acc  AtomPred
	}{
		{"access check succeeded for this wallet/account", func(a *an.Atom, sub Subst) bool {
			if a == nil || a.Op != "==" {
				return false
			}
			for _, side := range [][2]ssa.Value{{a.LV, a.RV}, {a.RV, a.LV}} {
				call, ok := sub.Res(side[0]).(*ssa.Call)
				if !ok || !an.IsConstInt(side[1], succ) || !auth[call.Call.StaticCallee()] {
					continue
				}
				// name argument built from wallet.Name() and this account's Name()
				for _, arg := range call.Call.Args {
					if sp, ok := sub.Res(arg).(*ssa.Call); ok && sp.Call.StaticCallee() != nil && sp.Call.StaticCallee().String() == "fmt.Sprintf" {
						vs := varargValues(sp.Call.Args[1])
						if len(vs) == 2 && isNameOfS(vs[0], walletVal, sub) && isNameOfS(vs[1], acct, sub) {
							return true
						}
					}
				}
			}
			return false
		}},
		{"path filter matches this account (or no filter)", func(a *an.Atom, sub Subst) bool {
			if a == nil {
				return false
			}
			if a.Op == "true" {
				if call, ok := isCallToName(sub.Res(a.LV), "(*regexp.Regexp).MatchString"); ok && isNameOfS(call.Call.Args[1], acct, sub) {
					regexVal = call.Call.Args[0]
					return true
				}
			}
			// accountRegex == nil
			if a.Op == "==" && (isNilConst(a.LV) || isNilConst(a.RV)) {
				other := a.LV
				if isNilConst(a.LV) {
					other = a.RV
				}
				if strings.Contains(an.TypeStr(other.Type()), "regexp.Regexp") {
					return true
				}
			}
			return false
		}},
		{"rules approved this account", func(a *an.Atom, sub Subst) bool {
			if a == nil || a.Op != "==" {
				return false
			}
			for _, side := range [][2]ssa.Value{{a.LV, a.RV}, {a.RV, a.LV}} {
				if !an.IsConstInt(side[1], appr) {
					continue
				}
				root, idx, ok := elemLoad(sub.Res(side[0]))
				if !ok || !an.IsConstInt(idx, 0) {
					continue
				}
				if call, ok := root.(*ssa.Call); ok && call.Call.IsInvoke() && call.Call.Method.Name() == "RunRules" {
					return true
				}
			}
			return false
		}},
	}
	body := an.Point{Block: accLoop.Body, Idx: 0}
	for _, cl := range clauses {
		cl := cl
		x, path := an.Cut(an.CutQuery{From: body, Target: func(i ssa.Instruction) bool { return i == ssa.Instruction(app) },
			AcceptEdge: c.WithSummaries(cl.acc)})
		if x != nil {
			c.R.Fail(rule1, Fn(F)+":"+cl.name, c.Pos(app), "an account can be listed without ["+cl.name+"]", "listed only if: "+cl.name, an.PathString(c.Pos, path))
		} else {
			c.R.OK(rule1, Fn(F)+":"+cl.name, c.Pos(app), "append is cut by ["+cl.name+"]")
		}
	}
	_ = regexVal
	// ---- O2 all-permitted: an iteration reaches the next one without the append only through an allowed skip edge
	allowedSkip := func(a *an.Atom, sub Subst) bool {
		if a == nil {
			return false
		}
		switch a.Op {
		case "false":
			if call, ok := isCallToName(sub.Res(a.LV), "(*regexp.Regexp).MatchString"); ok && isNameOfS(call.Call.Args[1], acct, sub) {
				return true // filter mismatch
			}
			if ex, ok := sub.Res(a.LV).(*ssa.Extract); ok && ex.Index == 1 {
				if ta, ok := ex.Tuple.(*ssa.TypeAssert); ok && namedIs(ta.AssertedType, pkgWTypes, "AccountPublicKeyProvider") && sub.Res(ta.X) == acct {
					return true // no public key
				}
			}
		case "!=":
			for _, side := range [][2]ssa.Value{{a.LV, a.RV}, {a.RV, a.LV}} {
				if call, ok := sub.Res(side[0]).(*ssa.Call); ok && an.IsConstInt(side[1], succ) && auth[call.Call.StaticCallee()] {
					return true // access refused
				}
				if an.IsConstInt(side[1], appr) {
					if root, _, ok := elemLoad(sub.Res(side[0])); ok {
						if call, ok := root.(*ssa.Call); ok && call.Call.IsInvoke() && call.Call.Method.Name() == "RunRules" {
							return true // rules did not approve
						}
					}
				}
			}
		}
		return false
	}
	hdr := accLoop.Header
	x, path := an.Cut(an.CutQuery{From: body, Target: func(i ssa.Instruction) bool { return i == hdr.Instrs[0] },
		AcceptEdge:  c.WithSummaries(allowedSkip),
		AcceptInstr: func(i ssa.Instruction) bool { return i == ssa.Instruction(app) }})
	if x != nil {
		c.R.Fail(rule2, Fn(F)+":skip", c.Pos(accLoop.Next), "an account the client may access can be left out of the listing for a reason other than {filter mismatch, access refused, no public key, rules not approved}", "every permitted, matching account is appended", an.PathString(c.Pos, path))
	} else {
		c.R.OK(rule2, Fn(F)+":skip", c.Pos(accLoop.Next), "an account is skipped only for: filter mismatch, access refused, no public key, rules not approved")
	}
	// no early exit from the account loop or the path loop
	early := false
	for _, b := range F.Blocks {
		if !an.Reachable(body, b.Instrs[0]) && b != accLoop.Body {
			continue
		}
		// blocks inside the account loop body: can they leave without returning to the header?
	}
	{
		// from the body, a Return is reachable without passing the header again?
		xr, pr := an.Cut(an.CutQuery{From: body, Target: func(i ssa.Instruction) bool { _, ok := i.(*ssa.Return); return ok },
			AcceptInstr: func(i ssa.Instruction) bool { return i == hdr.Instrs[0] }})
		if xr != nil {
			early = true
			c.R.Fail(rule2, Fn(F)+":early-exit", c.Pos(xr), "the scan of a wallet's accounts can end before every account was considered", "no break/return inside the account scan", an.PathString(c.Pos, pr))
		}
	}
	// the outer loop over requested paths is a full-range loop and the account loop's exit returns to it
	var pathLoop *Loop
	inPathLoop := accLoop.Header
	if link != nil {
		// the account scan lives in the per-path helper: its returns after the scan hand back the list (checked above);
		// the loop over the requested paths is the one around the helper's call
		inPathLoop = link.Block()
		F = entry
	}
	for _, l := range FindLoops(F) {
		if l.FullRange && l.Body[inPathLoop] {
			if p, ok := l.BoundLen.(*ssa.Parameter); ok && p.Parent() == F {
				pathLoop = l
			}
		}
	}
	if pathLoop == nil {
		c.R.Fail(rule2, Fn(F)+":paths", c.P.FuncPos(F), "the requested paths are not all scanned (no forward full-range loop over the paths parameter around the account scan)", "for _, path := range paths", nil)
	} else {
		if len(pathLoop.BreakEdges()) > 0 {
			early = true
			c.R.Fail(rule2, Fn(F)+":paths", c.Pos(pathLoop.Header.Instrs[0]), "the scan of the requested paths can stop early", "every requested path is processed", nil)
		}
		// success return only after the path loop completed
		for _, ret := range an.Returns(F) {
			if !an.IsConstInt(an.Result(ret, 0), succ) {
				continue
			}
			target := ssa.Instruction(ret)
			ph, pe := pathLoop.Header, pathLoop.Exit
			if x, _ := an.Cut(an.CutQuery{From: an.Entry(F), Target: func(i ssa.Instruction) bool { return i == target },
				AcceptEdge: func(b *ssa.BasicBlock, i int, a *an.Atom) bool { return b == ph && b.Succs[i] == pe }}); x != nil {
				early = true
				c.R.Fail(rule2, Fn(F)+":paths", c.Pos(ret), "the listing can be returned before every requested path was processed", "return after the loop over paths", nil)
			}
			// the list returned is the one appended to
			if sliceRootOfAppend(an.Result(ret, 1)) == nil {
				c.R.Unknown(rule2, Fn(F)+":result", c.Pos(ret), "cannot relate the returned list to the appended list")
			}
		}
		if !early {
			c.R.OK(rule2, Fn(F)+":paths", c.Pos(pathLoop.Header.Instrs[0]), "every requested path and every account of its wallet is considered; the result is returned after the scan")
		}
	}
	// ---- O5 handler: name and keys from the same account object
	rule5 := "C18.O5 handler"
	for _, H := range c.handlersIn(rule5, "/handlers/lister") {
		// the list returned by the lister service and the loop over it
		var listVal ssa.Value
		for _, ci := range Calls(H, func(ci ssa.CallInstruction) bool {
			return ci.Common().IsInvoke() && namedIs(ci.Common().Value.Type(), pkgLister, "Service")
		}) {
			for _, r := range *ci.Value().Referrers() {
				if ex, ok := r.(*ssa.Extract); ok && ex.Index == 1 {
					listVal = ex
				}
			}
			// the service is asked for exactly the paths of the request
			okPaths := false
			var pathsArg ssa.Value
			for _, a := range ci.Common().Args {
				if sl, ok := a.Type().(*types.Slice); ok {
					if b, ok := sl.Elem().Underlying().(*types.Basic); ok && b.Kind() == types.String {
						pathsArg = a
					}
				}
			}
			if pathsArg != nil {
				v := sliceRootExact(pathsArg)
				if call, ok := v.(*ssa.Call); ok && !call.Call.IsInvoke() {
					if f := call.Call.StaticCallee(); f != nil && f.Name() == "GetPaths" && len(call.Call.Args) == 1 {
						if p, ok := call.Call.Args[0].(*ssa.Parameter); ok && p.Parent() == H {
							okPaths = true
						}
					}
				}
				if _, f, base := an.FieldOf(v); f == "Paths" {
					if p, ok := base.(*ssa.Parameter); ok && p.Parent() == H {
						okPaths = true
					}
				}
			}
			if !okPaths {
				c.R.Fail(rule5, Fn(H)+":paths", c.Pos(ci), "the lister service is not asked for the request's own paths but for something computed from them: "+an.Term(pathsArg)+" (a rewritten path list can drop or widen what the caller asked for)", "ListAccounts(ctx, credentials, req.GetPaths())", nil)
			} else {
				c.R.OK(rule5, Fn(H)+":paths", c.Pos(ci), "the lister service is asked for req.GetPaths() unchanged")
			}
		}
		var loop *Loop
		for _, l := range FindLoops(H) {
			if l.FullRange && l.BoundLen == listVal && listVal != nil {
				loop = l
			}
		}
		if loop == nil && listVal != nil {
			// the conversion loop lives in a helper that is handed the whole list
			for _, ci := range Calls(H, func(ci ssa.CallInstruction) bool {
				f := ci.Common().StaticCallee()
				return f != nil && prog.InModule(f) && f.Blocks != nil && !ci.Common().IsInvoke()
			}) {
				f := ci.Common().StaticCallee()
				for ai, a := range ci.Common().Args {
					if a != listVal || ai >= len(f.Params) {
						continue
					}
					for _, l := range FindLoops(f) {
						if l.FullRange && l.BoundLen == ssa.Value(f.Params[ai]) {
							loop, H, listVal = l, f, f.Params[ai]
						}
					}
				}
			}
		}
		if loop == nil {
			c.R.Unknown(rule5, Fn(H), c.P.FuncPos(H), "no full-range loop over the lister's result found in the handler")
			continue
		}
		n := 0
		bad := false
		// scopes: the handler (element = accounts[i]) and the helpers that are handed accounts[i] (element = that parameter)
		type scope struct {
			fn    *ssa.Function
			param *ssa.Parameter // nil in the handler itself
		}
		scopes := []scope{{H, nil}}
		seenFn := map[*ssa.Function]bool{H: true}
		for k := 0; k < len(scopes) && k < 6; k++ {
			sc := scopes[k]
			for _, ci := range Calls(sc.fn, func(ci ssa.CallInstruction) bool {
				f := ci.Common().StaticCallee()
				return f != nil && prog.InModule(f) && f.Blocks != nil && !ci.Common().IsInvoke()
			}) {
				f := ci.Common().StaticCallee()
				for ai, a := range ci.Common().Args {
					if ai >= len(f.Params) || seenFn[f] {
						continue
					}
					isElem := false
					if sc.param == nil {
						root, i, ok := elemLoad(a)
						isElem = ok && root == listVal && i == loop.Idx
					} else {
						isElem = a == ssa.Value(sc.param)
					}
					if isElem {
						seenFn[f] = true
						scopes = append(scopes, scope{f, f.Params[ai]})
					}
				}
			}
		}
		for _, sc := range scopes {
			for _, b := range sc.fn.Blocks {
				for _, ins := range b.Instrs {
					st, ok := ins.(*ssa.Store)
					if !ok {
						continue
					}
					fa, ok := st.Addr.(*ssa.FieldAddr)
					if !ok || !(namedIs(fa.X.Type(), pkgPB, "Account") || namedIs(fa.X.Type(), pkgPB, "DistributedAccount")) {
						continue
					}
					f := fieldNameOf(fa)
					if f != "Name" && f != "PublicKey" && f != "CompositePublicKey" {
						continue
					}
					n++
					var own, foreign bool
					if sc.param == nil {
						own, foreign = elementUses(st.Val, listVal, loop.Idx, 0, map[ssa.Value]bool{})
					} else {
						own, foreign = elementUsesParam(st.Val, sc.param, 0, map[ssa.Value]bool{})
					}
					if foreign || !own {
						bad = true
						c.R.Fail(rule5, Fn(sc.fn)+":"+f, c.Pos(st), "a listed entry's "+f+" is not (only) derived from the account of the current iteration: "+an.Term(st.Val), "name and keys of entry i from accounts[i]", nil)
					}
				}
			}
		}
		if n < 5 {
			c.R.Unknown(rule5, Fn(H), c.P.FuncPos(H), fmt.Sprintf("expected name/key assignments for plain and distributed accounts, found %d", n))
		} else if !bad {
			c.R.OK(rule5, Fn(H), c.P.FuncPos(H), fmt.Sprintf("%d name/key fields, each derived only from accounts[i] of the current iteration over the lister's result", n))
		}
		if len(loop.BreakEdges()) > 0 {
			c.R.Fail(rule5, Fn(H)+":all", c.Pos(loop.Header.Instrs[0]), "the handler can stop before every listed account was written to the response", "every account of the result appears", nil)
		}
	}
}

// elementUses walks the backward data slice of v and reports whether it uses list[idx] (own) and/or list[other] (foreign).
func elementUses(v ssa.Value, list ssa.Value, idx ssa.Value, d int, seen map[ssa.Value]bool) (own bool, foreign bool) {
	if v == nil || d > 16 || seen[v] {
		return false, false
	}
	seen[v] = true
	if root, i, ok := elemLoad(v); ok && root == list {
		if i == idx {
			return true, false
		}
		return false, true
	}
	var ops []ssa.Value
	switch x := v.(type) {
	case *ssa.Call:
		if x.Call.IsInvoke() {
			ops = append(ops, x.Call.Value)
		}
		ops = append(ops, x.Call.Args...)
		if f := x.Call.StaticCallee(); f != nil && f.String() == "fmt.Sprintf" {
			ops = append(ops, varargValues(x.Call.Args[1])...)
		}
	case *ssa.Phi:
		ops = append(ops, x.Edges...)
	case *ssa.TypeAssert:
		ops = append(ops, x.X)
	case *ssa.Extract:
		ops = append(ops, x.Tuple)
	case *ssa.MakeInterface:
		ops = append(ops, x.X)
	case *ssa.ChangeType:
		ops = append(ops, x.X)
	case *ssa.Convert:
		ops = append(ops, x.X)
	case *ssa.UnOp:
		ops = append(ops, x.X)
	case *ssa.Slice:
		ops = append(ops, x.X)
	}
	for _, o := range ops {
		a, b := elementUses(o, list, idx, d+1, seen)
		own = own || a
		foreign = foreign || b
	}
	return
}

// elementUsesParam is elementUses inside a helper that received the element as parameter p: own = uses p; foreign = uses
// another parameter of account type or any element of an account list.
func elementUsesParam(v ssa.Value, p *ssa.Parameter, d int, seen map[ssa.Value]bool) (own bool, foreign bool) {
	if v == nil || d > 16 || seen[v] {
		return false, false
	}
	seen[v] = true
	if v == ssa.Value(p) {
		return true, false
	}
	if q, ok := v.(*ssa.Parameter); ok && types.Identical(q.Type(), p.Type()) {
		return false, true
	}
	if _, _, ok := elemLoad(v); ok && types.Identical(v.Type(), p.Type()) {
		return false, true
	}
	var ops []ssa.Value
	switch x := v.(type) {
	case *ssa.Call:
		if x.Call.IsInvoke() {
			ops = append(ops, x.Call.Value)
		}
		ops = append(ops, x.Call.Args...)
		if f := x.Call.StaticCallee(); f != nil && f.String() == "fmt.Sprintf" {
			ops = append(ops, varargValues(x.Call.Args[1])...)
		}
	case *ssa.Phi:
		ops = append(ops, x.Edges...)
	case *ssa.TypeAssert:
		ops = append(ops, x.X)
	case *ssa.Extract:
		ops = append(ops, x.Tuple)
	case *ssa.MakeInterface:
		ops = append(ops, x.X)
	case *ssa.ChangeType:
		ops = append(ops, x.X)
	case *ssa.Convert:
		ops = append(ops, x.X)
	case *ssa.UnOp:
		ops = append(ops, x.X)
	case *ssa.Slice:
		ops = append(ops, x.X)
	}
	for _, o := range ops {
		a, b := elementUsesParam(o, p, d+1, seen)
		own = own || a
		foreign = foreign || b
	}
	return
}

// listResultOf: the per-path helper S returns exactly the list it appends to. field == "": every non-nil return value has
// the append as its root; otherwise the append reads and writes field `field` of one object allocated in S, nothing else
// stores to that field, and every non-nil return is that object. Returns "" or the reason.
func listResultOf(S *ssa.Function, app *ssa.Call, field string) string {
	if field == "" {
		for _, r := range an.Returns(S) {
			v := an.Result(r, 0)
			if isNilConst(v) {
				continue
			}
			if root := sliceRootOfAppend(v); root != ssa.Value(app) {
				if ms, ok := root.(*ssa.MakeSlice); ok && an.IsConstInt(ms.Len, 0) {
					continue
				}
				return "the per-path helper can return a list other than the one it appended to: " + an.Term(v)
			}
		}
		return ""
	}
	u, ok := app.Call.Args[0].(*ssa.UnOp)
	if !ok {
		return "the per-path helper does not append to its result's list field"
	}
	fa, ok := u.X.(*ssa.FieldAddr)
	if !ok || fieldNameOf(fa) != field {
		return "the per-path helper does not append to its result's list field"
	}
	obj, ok := fa.X.(*ssa.Alloc)
	if !ok {
		return "the object whose list the per-path helper fills is not allocated by it"
	}
	stored := false
	for _, r := range *obj.Referrers() {
		fa2, ok := r.(*ssa.FieldAddr)
		if !ok || fieldNameOf(fa2) != field {
			continue
		}
		for _, r2 := range *fa2.Referrers() {
			if st, ok := r2.(*ssa.Store); ok && st.Addr == ssa.Value(fa2) {
				if st.Val == ssa.Value(app) {
					stored = true
					continue
				}
				if ms, ok := st.Val.(*ssa.MakeSlice); ok && an.IsConstInt(ms.Len, 0) {
					continue
				}
				if isNilConst(st.Val) {
					continue
				}
				return "the list field of the per-path helper's result is also written from elsewhere: " + an.Term(st.Val)
			}
		}
	}
	if !stored {
		return "the appended list is not stored back into the per-path helper's result"
	}
	for _, r := range an.Returns(S) {
		v := an.Result(r, 0)
		if isNilConst(v) || v == ssa.Value(obj) {
			continue
		}
		return "the per-path helper can return an object other than the one it filled: " + an.Term(v)
	}
	return ""
}

func sliceRootOfAppend(v ssa.Value) ssa.Value {
	seen := map[ssa.Value]bool{}
	for i := 0; i < 10 && v != nil && !seen[v]; i++ {
		seen[v] = true
		switch x := v.(type) {
		case *ssa.Phi:
			for _, e := range x.Edges {
				if _, ok := e.(*ssa.Call); ok {
					return e
				}
			}
			v = x.Edges[0]
		case *ssa.Call:
			return x
		case *ssa.Slice, *ssa.MakeSlice:
			return x
		default:
			return nil
		}
	}
	return v
}

// varargValuesT is varargValues for typed (non-any) variadic slices.
func varargValuesT(v ssa.Value) []ssa.Value { return varargValues(v) }

// isNameOf: v is obj.Name() (invoke) for the given object value.
func isNameOf(v ssa.Value, obj ssa.Value) bool {
	v = an.StripConv(v)
	call, ok := v.(*ssa.Call)
	return ok && call.Call.IsInvoke() && call.Call.Method.Name() == "Name" && call.Call.Value == obj
}

func init() {
	register(&Spec{
		ID: "C18",
		Run: func(c *Ctx) {
			c.ListerRules("C18")
			c.OverlayRules("C18")
			c.LookupsReadOnly("C18")
			c.ResolvedName("C18")
			c.LosslessSplit("C18")
			c.FirstSlashOnly("C18")
			c.ListRuleApproves("C18")
			c.IdentitySource("C19")           // "permitted" is judged under the name the connection authenticated with
			c.RulerPositions("C18")           // the ruler leaves the request (the path list the lister is iterating over) as it was handed over
			c.CredentialsRequestScoped("C19") // every decision is taken under the request's own authenticated name
			c.CheckSemantics("C07")           // "permitted" is what the permission checker answers for the account's name
			c.RegexWholeName("C07")
			c.PerEntryValues("C18")         // ... each store built from its own definition
			c.ListsAsGiven("C18")           // every configured store is walked
			c.OneInstance("C18", "fetcher") // the lister reads the fetcher instance that run-time creation adds to
			c.ConfigOrderPreserved("C07")   // ... from the operation lists in the order the operator wrote them (first match wins)
			c.ThresholdRules("C12")         // incl. C12.O4: an account created through Dirk reaches the cache the listing reads
		},
		Explanation: "An account is appended to the listing only below a successful access check of wallet.Name()/account.Name() of that very account, the path filter's match (or no filter) and the rules' approval; the accounts scanned are those of the wallet fetched for the requested path; an iteration skips the append only for {filter mismatch, access refused, no public key, rules not approved}; all requested paths and all accounts are scanned before the result is returned; the account source merges the overlay of dynamically created accounts (full copies of both maps, under the lock) and AddAccount updates both overlay maps; handler entries take name and keys from one account object. See DESIGN.md §5 C18.",
		Trusted:     append([]string{"regular-expression semantics of the request filter (its anchoring is not grouped; over-inclusive only among permitted accounts)"}, commonTrusted...),
	})
}

// ListRuleApproves (C18.O6 rules.list-approves): the lister drops every account for which the rules do not answer
// APPROVED (an allowed reason to skip in C18.O2), and it hands the rules the whole path list of the request for each
// candidate. "All permitted accounts are listed" therefore needs the listing rule to approve whatever it is shown: on the
// pinned design every return of the rules implementation's OnListAccounts is the constant APPROVED. A rule that can
// refuse makes accounts disappear from a SUCCEEDED response for reasons unrelated to the account.
func (c *Ctx) ListRuleApproves(prop string) {
	rule := "C18.O6 rules.list-approves"
	s := c.Slashing(prop + ".anchors")
	if !s.OK() {
		return
	}
	fn := c.P.Method(s.RulesImpl, "OnListAccounts")
	if fn == nil || fn.Blocks == nil {
		c.R.Anchor(rule, "OnListAccounts", "the rules implementation has no OnListAccounts")
		return
	}
	rets := an.Returns(fn)
	bad := false
	for _, ret := range rets {
		// the constant itself, or the result of a package helper every return of which is that constant
		viaHelper := false
		if rvs, ok := HelperResults(an.Result(ret, 0)); ok && len(rvs) > 0 {
			viaHelper = true
			for _, rv := range rvs {
				if !an.IsConstInt(rv.Val, s.APPROVED) {
					viaHelper = false
				}
			}
		}
		if !an.IsConstInt(an.Result(ret, 0), s.APPROVED) && !viaHelper {
			bad = true
			c.R.Fail(rule, Fn(fn), c.Pos(ret), "the listing rule can answer something other than APPROVED: "+an.Term(an.Result(ret, 0))+"; the lister silently leaves out every account for which it does (and it is shown all paths of the request for each account)", "OnListAccounts returns APPROVED on every path", nil)
		}
	}
	c.R.Floor(rule, "returns of the listing rule", len(rets), 1)
	if !bad {
		c.R.OK(rule, Fn(fn), c.P.FuncPos(fn), "the listing rule approves on every path")
	}
}
