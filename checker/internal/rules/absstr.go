package rules

import (
	"go/constant"
	"strings"

	"golang.org/x/tools/go/ssa"
)

// strTok is one token of an abstract string (P8).
type strTok struct {
	Const string
	Taint bool // unknown, request- or configuration-derived text
	Arg   bool // token entered through a %s / concatenation operand (kept separate from surrounding literals)
}

type strShape []strTok

func (s strShape) String() string {
	var b strings.Builder
	for _, t := range s {
		if t.Taint {
			b.WriteString("<T>")
		} else if t.Arg {
			b.WriteString("<" + t.Const + ">")
		} else {
			b.WriteString(t.Const)
		}
	}
	return b.String()
}

// evalString returns the finite set of shapes the string value v can take.
func evalString(v ssa.Value, depth int) []strShape {
	if depth > 12 {
		return []strShape{{strTok{Taint: true, Arg: true}}}
	}
	switch x := v.(type) {
	case *ssa.Const:
		if x.Value != nil && x.Value.Kind() == constant.String {
			return []strShape{{strTok{Const: constant.StringVal(x.Value)}}}
		}
	case *ssa.Phi:
		var out []strShape
		for i, e := range x.Edges {
			sh := evalString(e, depth+1)
			// refine by a HasPrefix/HasSuffix test on this very value controlling the edge
			pred := x.Block().Preds[i]
			if iff, ok := pred.Instrs[len(pred.Instrs)-1].(*ssa.If); ok {
				pos := pred.Succs[0] == x.Block()
				if pred.Succs[0] == pred.Succs[1] {
					pos = true
				}
				cond := iff.Cond
				for {
					u, ok := cond.(*ssa.UnOp)
					if !ok {
						break
					}
					cond = u.X
					pos = !pos
				}
				if call, ok := cond.(*ssa.Call); ok {
					if f := call.Call.StaticCallee(); f != nil && (f.String() == "strings.HasPrefix" || f.String() == "strings.HasSuffix") && call.Call.Args[0] == e {
						if k, ok := call.Call.Args[1].(*ssa.Const); ok && k.Value != nil {
							sh = refineAffix(sh, constant.StringVal(k.Value), f.String() == "strings.HasPrefix", pos)
						}
					}
				}
			}
			out = append(out, sh...)
		}
		return dedupShapes(out)
	case *ssa.BinOp:
		// string concatenation
		l, r := evalString(x.X, depth+1), evalString(x.Y, depth+1)
		var out []strShape
		for _, a := range l {
			for _, b := range r {
				out = append(out, append(append(strShape{}, a...), b...))
			}
		}
		return dedupShapes(out)
	case *ssa.Call:
		f := x.Call.StaticCallee()
		if f != nil && f.String() == "fmt.Sprintf" && len(x.Call.Args) == 2 {
			fk, ok := x.Call.Args[0].(*ssa.Const)
			if ok && fk.Value != nil {
				format := constant.StringVal(fk.Value)
				args := varargValues(x.Call.Args[1])
				parts := strings.Split(format, "%s")
				if args != nil && len(parts) == len(args)+1 && !strings.Contains(strings.ReplaceAll(format, "%s", ""), "%") {
					shapes := []strShape{{}}
					for i, p := range parts {
						for k := range shapes {
							if p != "" {
								shapes[k] = append(shapes[k], strTok{Const: p})
							}
						}
						if i < len(args) {
							as := evalString(args[i], depth+1)
							var next []strShape
							for _, sh := range shapes {
								for _, a := range as {
									n := append(strShape{}, sh...)
									if len(a) == 1 {
										t := a[0]
										t.Arg = true
										n = append(n, t)
									} else {
										n = append(n, a...)
									}
									next = append(next, n)
								}
							}
							shapes = next
						}
					}
					return dedupShapes(shapes)
				}
			}
		}
	case *ssa.MakeInterface:
		return evalString(x.X, depth+1)
	}
	return []strShape{{strTok{Taint: true, Arg: true}}}
}

// varargValues extracts the elements of the []any vararg slice built for a call.
func varargValues(v ssa.Value) []ssa.Value {
	sl, ok := v.(*ssa.Slice)
	if !ok {
		return nil
	}
	arr, ok := sl.X.(*ssa.Alloc)
	if !ok {
		return nil
	}
	vals := map[int64]ssa.Value{}
	for _, r := range *arr.Referrers() {
		ia, ok := r.(*ssa.IndexAddr)
		if !ok {
			continue
		}
		k, ok := ia.Index.(*ssa.Const)
		if !ok {
			return nil
		}
		idx, _ := constant.Int64Val(k.Value)
		for _, r2 := range *ia.Referrers() {
			if st, ok := r2.(*ssa.Store); ok {
				vals[idx] = st.Val
			}
		}
	}
	out := make([]ssa.Value, len(vals))
	for i := range out {
		v, ok := vals[int64(i)]
		if !ok {
			return nil
		}
		out[i] = v
	}
	return out
}

func refineAffix(shapes []strShape, affix string, prefix bool, holds bool) []strShape {
	var out []strShape
	for _, sh := range shapes {
		if len(sh) == 0 {
			if !holds {
				out = append(out, sh)
			}
			continue
		}
		t := sh[0]
		if !prefix {
			t = sh[len(sh)-1]
		}
		if t.Taint {
			out = append(out, sh)
			continue
		}
		has := strings.HasPrefix(t.Const, affix)
		if !prefix {
			has = strings.HasSuffix(t.Const, affix)
		}
		definitelyNot := !has && len(t.Const) >= len(affix)
		if holds && definitelyNot {
			continue
		}
		if !holds && has {
			continue
		}
		out = append(out, sh)
	}
	return out
}

func dedupShapes(in []strShape) []strShape {
	seen := map[string]bool{}
	var out []strShape
	for _, s := range in {
		k := s.String()
		if !seen[k] {
			seen[k] = true
			out = append(out, s)
		}
	}
	return out
}
