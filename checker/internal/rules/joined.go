package rules

import (
	"dirkcheck/internal/an"
	"dirkcheck/internal/prog"

	"golang.org/x/tools/go/ssa"
)

// MessagesJoined (C13.O5 initiator.messages-joined): every protocol message the initiator sends for a generation is sent
// while the call that drives the generation is running. A message sent by a goroutine that outlives the call (a
// "clean-up" in the background) can arrive while the next generation for the same account name is under way - messages name
// an account, not a generation - and turn a complete retry into one that an instance refuses to commit while the others
// store the account. In the process service every `go` statement whose function (with the module functions it calls) invokes
// the sender service is joined: the goroutine signals a sync.WaitGroup (Done), and every path from the `go` to a return
// of the starting function passes Wait on that same wait group.
func (c *Ctx) MessagesJoined(prop string) {
	rule := "C13.O5 initiator.messages-joined"
	p := c.Proc(prop + ".anchors")
	if !p.OK() {
		return
	}
	pkg := p.Impl.Obj().Pkg().Path()
	sends := func(f *ssa.Function) bool {
		for _, g := range c.StaticReach(f, 3) {
			if g.Blocks == nil || !prog.InModule(g) {
				continue
			}
			for _, h := range WithClosures(g) {
				if len(Calls(h, func(ci ssa.CallInstruction) bool {
					return ci.Common().IsInvoke() && namedIs(ci.Common().Value.Type(), pkgSender, "Service")
				})) > 0 {
					return true
				}
			}
		}
		return false
	}
	wgCall := func(i ssa.Instruction, name string) ssa.Value {
		ci, ok := i.(ssa.CallInstruction)
		if !ok {
			return nil
		}
		f := ci.Common().StaticCallee()
		if f == nil || f.String() != "(*sync.WaitGroup)."+name || len(ci.Common().Args) == 0 {
			return nil
		}
		return ci.Common().Args[0]
	}
	n := 0
	for _, fn := range c.P.ModuleFuncs() {
		if prog.PkgPathOf(fn) != pkg || fn.Blocks == nil {
			continue
		}
		for _, b := range fn.Blocks {
			for _, ins := range b.Instrs {
				g, ok := ins.(*ssa.Go)
				if !ok {
					continue
				}
				var body *ssa.Function
				var mc *ssa.MakeClosure
				switch v := g.Call.Value.(type) {
				case *ssa.MakeClosure:
					mc = v
					body, _ = v.Fn.(*ssa.Function)
				case *ssa.Function:
					body = v
				}
				if body == nil {
					c.R.Unknown(rule, Fn(fn), c.Pos(g), "a goroutine is started with a function value the analysis cannot name")
					continue
				}
				if !sends(body) {
					continue
				}
				n++
				// the wait group the goroutine signals, as seen by the starter
				var wg ssa.Value
				for _, bb := range body.Blocks {
					for _, i2 := range bb.Instrs {
						if w := wgCall(i2, "Done"); w != nil {
							if fv, isFV := w.(*ssa.FreeVar); isFV && mc != nil {
								for k, f := range body.FreeVars {
									if f == fv && k < len(mc.Bindings) {
										wg = mc.Bindings[k]
									}
								}
							} else if q, isP := w.(*ssa.Parameter); isP {
								for k, f := range body.Params {
									if f == q && k < len(g.Call.Args) {
										wg = g.Call.Args[k]
									}
								}
							}
						}
					}
				}
				if wg == nil {
					c.R.Fail(rule, Fn(fn), c.Pos(g), "a goroutine that sends protocol messages is started and never joined: its messages can arrive after the generation call returned, during the next generation for the same account name", "messages only from goroutines the generation call waits for (WaitGroup Done / Wait)", nil)
					continue
				}
				x, path := an.Cut(an.CutQuery{From: an.After(g), Target: func(i ssa.Instruction) bool { _, isRet := i.(*ssa.Return); return isRet },
					AcceptInstr: func(i ssa.Instruction) bool { return wgCall(i, "Wait") == wg }})
				if x != nil {
					c.R.Fail(rule, Fn(fn), c.Pos(g), "a goroutine that sends protocol messages can outlive the call that started it (a path to a return does not wait for it)", "Wait on the goroutine's wait group on every path to a return", an.PathString(c.Pos, path))
				} else {
					c.R.OK(rule, Fn(fn), c.Pos(g), "the sending goroutine is waited for on every path to a return")
				}
			}
		}
	}
	c.R.Floor(rule, "goroutines in the process service that send protocol messages", n, 1)
}
