package rules

import (
	"fmt"
	"go/token"
	"go/types"

	"dirkcheck/internal/an"
	"dirkcheck/internal/prog"

	"golang.org/x/tools/go/ssa"
)

// RotLoop is a rotated counted loop as go/ssa emits for `for i := range n`:
//
//	pre:  if 0 < N goto body else done
//	body: i = phi [pre: 0, latch: i+1] ... latch: if i+1 < N goto body else done
type RotLoop struct {
	Pre   *ssa.BasicBlock
	Head  *ssa.BasicBlock
	Latch *ssa.BasicBlock
	Done  *ssa.BasicBlock
	Idx   *ssa.Phi
	Bound ssa.Value
	Body  map[*ssa.BasicBlock]bool
}

func FindRotLoops(fn *ssa.Function) []*RotLoop {
	var out []*RotLoop
	for _, b := range fn.Blocks {
		for _, ins := range b.Instrs {
			phi, ok := ins.(*ssa.Phi)
			if !ok {
				break
			}
			if len(phi.Edges) != 2 {
				continue
			}
			for k := 0; k < 2; k++ {
				init, back := phi.Edges[k], phi.Edges[1-k]
				add, ok := back.(*ssa.BinOp)
				if !ok || add.Op != token.ADD || add.X != ssa.Value(phi) || !an.IsConstInt(add.Y, 1) || !an.IsConstInt(init, 0) {
					continue
				}
				pre, latch := b.Preds[k], b.Preds[1-k]
				lif, ok := latch.Instrs[len(latch.Instrs)-1].(*ssa.If)
				if !ok {
					continue
				}
				lc, ok := lif.Cond.(*ssa.BinOp)
				if !ok || lc.Op != token.LSS || lc.X != ssa.Value(add) || latch.Succs[0] != b {
					continue
				}
				pif, ok := pre.Instrs[len(pre.Instrs)-1].(*ssa.If)
				if !ok {
					continue
				}
				pc, ok := pif.Cond.(*ssa.BinOp)
				if !ok || pc.Op != token.LSS || !an.IsConstInt(pc.X, 0) || pc.Y != lc.Y || pre.Succs[0] != b || pre.Succs[1] != latch.Succs[1] {
					continue
				}
				l := &RotLoop{Pre: pre, Head: b, Latch: latch, Done: latch.Succs[1], Idx: phi, Bound: lc.Y, Body: map[*ssa.BasicBlock]bool{}}
				// body = blocks reachable from head without leaving through latch's exit, up to latch
				st := []*ssa.BasicBlock{b}
				for len(st) > 0 {
					x := st[len(st)-1]
					st = st[:len(st)-1]
					if l.Body[x] {
						continue
					}
					l.Body[x] = true
					if x == latch {
						continue
					}
					st = append(st, x.Succs...)
				}
				out = append(out, l)
			}
		}
	}
	return out
}

// JoinedFork (C03.O6 / C04.O8): the helper fn starts one goroutine per iteration of a loop bounded by W, each goroutine
// performs exactly one channel send on every path after its work function returned, and fn performs W blocking receives
// before it returns. Then everything written by the workers happens-before the caller's reads.
func (c *Ctx) JoinedFork(rule string, fn *ssa.Function) bool {
	var loops []*cloop
	for _, l := range FindRotLoops(fn) {
		loops = append(loops, cloopOfRot(l))
	}
	for _, l := range FindLoops(fn) {
		if l.FullRange {
			loops = append(loops, cloopOfLoop(l))
		}
	}
	loops = append(loops, findStepLoops(fn)...)
	var spawn *cloop
	var goIns *ssa.Go
	for _, l := range loops {
		for b := range l.body {
			for _, ins := range b.Instrs {
				if g, ok := ins.(*ssa.Go); ok {
					if goIns != nil && goIns != g {
						c.R.Unknown(rule, Fn(fn), c.Pos(g), "more than one goroutine start in the fork helper")
						return false
					}
					spawn, goIns = l, g
				}
			}
		}
	}
	// any go statement outside a recognised loop?
	for _, b := range fn.Blocks {
		for _, ins := range b.Instrs {
			if g, ok := ins.(*ssa.Go); ok && g != goIns {
				c.R.Unknown(rule, Fn(fn), c.Pos(g), "goroutine started outside the recognised worker loop")
				return false
			}
		}
	}
	if spawn == nil {
		c.R.Unknown(rule, Fn(fn), c.P.FuncPos(fn), "no counted loop starting the workers found (expected `for w := range workers { go ... }`)")
		return false
	}
	W := spawn.count()
	// worker function: a closure, or a named module function given everything as arguments
	var wf *ssa.Function
	outer := func(v ssa.Value) ssa.Value { return v } // maps a value of wf that denotes something of fn to fn's frame
	if mc, ok := goIns.Call.Value.(*ssa.MakeClosure); ok {
		wf = mc.Fn.(*ssa.Function)
		outer = func(v ssa.Value) ssa.Value {
			if u, ok := v.(*ssa.UnOp); ok && u.Op == token.MUL {
				if fv, ok := u.X.(*ssa.FreeVar); ok {
					for k, f := range wf.FreeVars {
						if f == fv {
							return chanID(mc.Bindings[k], true)
						}
					}
				}
			}
			return nil
		}
	} else if f := goIns.Call.StaticCallee(); f != nil && prog.InModule(f) && f.Blocks != nil {
		wf = f
		outer = func(v ssa.Value) ssa.Value {
			if p, ok := v.(*ssa.Parameter); ok {
				for k, q := range wf.Params {
					if q == p && k < len(goIns.Call.Args) {
						return chanID(goIns.Call.Args[k], false)
					}
				}
			}
			return nil
		}
	} else {
		c.R.Unknown(rule, Fn(fn), c.Pos(goIns), "the goroutine body is neither a closure nor a module function")
		return false
	}
	// the work call: dynamic call of the function parameter of fn
	isWorkParam := func(v ssa.Value) bool {
		o := outer(v)
		if o == nil {
			return false
		}
		if inner, ok := an.ResolveCell(o); ok {
			o = inner
		}
		if u, ok := o.(*ssa.UnOp); ok && u.Op == token.MUL {
			if inner, ok := an.ResolveCell(u.X); ok {
				o = inner
			}
		}
		p, ok := o.(*ssa.Parameter)
		return ok && p.Parent() == fn
	}
	var workCall ssa.CallInstruction
	for _, ci := range Calls(wf, func(ci ssa.CallInstruction) bool {
		cc := ci.Common()
		if cc.IsInvoke() || cc.StaticCallee() != nil {
			return false
		}
		return isWorkParam(cc.Value)
	}) {
		if workCall != nil {
			c.R.Unknown(rule, Fn(wf), c.Pos(ci), "the worker calls the work function more than once")
			return false
		}
		workCall = ci
	}
	if workCall == nil {
		c.R.Unknown(rule, Fn(wf), c.P.FuncPos(wf), "the worker does not call the work function")
		return false
	}
	// channels (identified in fn's frame) the worker sends on
	sendChans := map[ssa.Value]bool{}
	isSend := func(i ssa.Instruction) bool {
		s, ok := i.(*ssa.Send)
		if !ok {
			return false
		}
		if o := outer(s.Chan); o != nil {
			sendChans[o] = true
			return true
		}
		return false
	}
	// a send on anything else is not understood
	for _, b := range wf.Blocks {
		for _, ins := range b.Instrs {
			if _, ok := ins.(*ssa.Send); ok && !isSend(ins) {
				c.R.Unknown(rule, Fn(wf), c.Pos(ins), "the worker sends on a channel that is not one of the helper's")
				return false
			}
		}
	}
	// exactly one send after the work call on every path; none before
	if x, path := an.Cut(an.CutQuery{From: an.After(workCall), Target: func(i ssa.Instruction) bool { _, ok := i.(*ssa.Return); return ok }, AcceptInstr: isSend}); x != nil {
		c.R.Fail(rule, Fn(wf), c.Pos(x), "a worker can finish without reporting to the collector: the helper would wait forever or, with fewer receives, return before workers are done", "one send on every path after the work function returned", an.PathString(c.Pos, path))
		return false
	}
	if x, _ := an.Cut(an.CutQuery{From: an.Entry(wf), Target: isSend, AcceptInstr: func(i ssa.Instruction) bool { return i == workCall.(ssa.Instruction) }}); x != nil {
		c.R.Fail(rule, Fn(wf), c.Pos(x), "a worker reports completion before its work function has run", "send only after the work function returned", nil)
		return false
	}
	// two sends on one path?
	for _, b := range wf.Blocks {
		for _, ins := range b.Instrs {
			if isSend(ins) {
				if x, _ := an.Cut(an.CutQuery{From: an.After(ins), Target: isSend}); x != nil {
					c.R.Fail(rule, Fn(wf), c.Pos(x), "a worker can report twice: the collector's count would be satisfied before all workers finished", "exactly one send per worker", nil)
					return false
				}
			}
		}
	}
	// collector loop: in the helper itself, or in a module function the helper calls after the start loop with the
	// worker count and the channels as arguments
	cf := fn                                         // the function holding the collector loop
	toFn := func(v ssa.Value) ssa.Value { return v } // maps a value of cf's frame to fn's frame
	var collCall ssa.CallInstruction
	cloops := loops
	hasSelect := func(ls []*cloop) bool {
		for _, l := range ls {
			if l == spawn {
				continue
			}
			for b := range l.body {
				for _, ins := range b.Instrs {
					if _, ok := blockingRecv(ins); ok {
						return true
					}
				}
			}
		}
		return false
	}
	if !hasSelect(loops) {
		for _, ci := range Calls(fn, func(ci ssa.CallInstruction) bool {
			f := ci.Common().StaticCallee()
			return f != nil && prog.InModule(f) && f.Blocks != nil && !ci.Common().IsInvoke()
		}) {
			g := ci.Common().StaticCallee()
			if _, isGo := ci.(*ssa.Go); isGo {
				continue
			}
			gl := allCloops(g)
			if !hasSelect(gl) {
				continue
			}
			if collCall != nil {
				c.R.Unknown(rule, Fn(fn), c.Pos(ci), "more than one collecting helper is called")
				return false
			}
			collCall, cf, cloops = ci, g, gl
			args := ci.Common().Args
			toFn = func(v ssa.Value) ssa.Value {
				if ct, ok := v.(*ssa.ChangeType); ok {
					v = ct.X
				}
				if p, ok := v.(*ssa.Parameter); ok && p.Parent() == g {
					for k, q := range g.Params {
						if q == p && k < len(args) {
							return args[k]
						}
					}
				}
				return nil
			}
		}
	}
	var coll *cloop
	var sel ssa.Instruction // the blocking receive of the collector: a select over receive cases, or a plain receive
	for _, l := range cloops {
		if l == spawn {
			continue
		}
		cv := l.count()
		if cf != fn {
			m := toFn(cv.v)
			if m == nil {
				continue
			}
			cv = countNorm(m)
		}
		if !sameCount(cv, W) {
			continue
		}
		for b := range l.body {
			for _, ins := range b.Instrs {
				if _, ok := blockingRecv(ins); ok {
					coll, sel = l, ins
				}
			}
		}
	}
	if coll == nil || sel == nil {
		c.R.Fail(rule, Fn(fn), c.P.FuncPos(fn), "no loop performing one blocking receive per started worker (same count as the start loop) found", "for range workers { <-done }", nil)
		return false
	}
	recvChans, _ := blockingRecv(sel)
	if recvChans == nil {
		c.R.Unknown(rule, Fn(cf), c.Pos(sel), "the collector's select has a send case")
		return false
	}
	for _, ch := range recvChans {
		if cf != fn {
			ch = toFn(ch)
		}
		if ch == nil || !sendChans[chanID(ch, false)] {
			c.R.Fail(rule, Fn(cf), c.Pos(sel), "the collector waits on a channel the workers do not send on", "receive on the workers' completion channels", nil)
			return false
		}
	}
	// every iteration passes the select; the loop is left only through its normal exit
	if x, _ := an.Cut(an.CutQuery{From: coll.iterStart, Target: coll.iterEnd,
		AcceptInstr: func(i ssa.Instruction) bool { return i == sel }}); x != nil {
		c.R.Fail(rule, Fn(cf), c.Pos(sel), "an iteration of the collector loop can skip the receive", "one blocking receive per iteration", nil)
		return false
	}
	for b := range coll.body {
		for _, s := range b.Succs {
			if !coll.body[s] && !coll.normalExit(b, s) && !coll.backEdge(b, s) {
				// leaving the loop early: allowed only into a block that panics (synthetic select fall-through)
				if _, isPanic := s.Instrs[len(s.Instrs)-1].(*ssa.Panic); isPanic {
					continue
				}
				c.R.Fail(rule, Fn(cf), c.Pos(b.Instrs[len(b.Instrs)-1]), "the collector loop can be left before all workers reported (early return on error closes the channels under running workers and lets the caller read unfinished results)", "collector loop runs to completion", nil)
				return false
			}
		}
	}
	// returns after the first go are reachable only through the collector's completion
	isRet := func(i ssa.Instruction) bool { _, ok := i.(*ssa.Return); return ok }
	collDone := func(b *ssa.BasicBlock, i int, a *an.Atom) bool {
		// normal completion; or the zero-iteration bypass, which cannot be taken once a worker was started under [0 < W]
		return coll.normalExit(b, b.Succs[i]) || coll.bypass(b, b.Succs[i])
	}
	if cf == fn {
		if x, path := an.Cut(an.CutQuery{From: an.After(goIns), Target: isRet, AcceptEdge: collDone}); x != nil {
			c.R.Fail(rule, Fn(fn), c.Pos(x), "the helper can return while workers are still running", "return only after one receive per started worker", an.PathString(c.Pos, path))
			return false
		}
	} else {
		if x, path := an.Cut(an.CutQuery{From: an.After(goIns), Target: isRet,
			AcceptInstr: func(i ssa.Instruction) bool { return i == collCall.(ssa.Instruction) }}); x != nil {
			c.R.Fail(rule, Fn(fn), c.Pos(x), "the helper can return while workers are still running (without calling the collecting helper)", "return only after one receive per started worker", an.PathString(c.Pos, path))
			return false
		}
		if x, path := an.Cut(an.CutQuery{From: an.Entry(cf), Target: isRet, AcceptEdge: collDone}); x != nil {
			c.R.Fail(rule, Fn(cf), c.Pos(x), "the collecting helper can return while workers are still running", "return only after one receive per started worker", an.PathString(c.Pos, path))
			return false
		}
	}
	c.R.OK(rule, Fn(fn), c.P.FuncPos(fn), "joined fork: one goroutine per iteration of a loop bounded by W; each sends exactly once after its work returned; the helper performs W blocking receives on those channels before returning")
	return true
}

// blockingRecv recognises a blocking receive: a blocking select whose cases are all receives (ok, with the channels;
// ok with nil channels if it has a send case), or a plain `<-ch`.
func blockingRecv(ins ssa.Instruction) ([]ssa.Value, bool) {
	switch x := ins.(type) {
	case *ssa.Select:
		if !x.Blocking {
			return nil, false
		}
		var chans []ssa.Value
		for _, st := range x.States {
			if st.Dir != types.RecvOnly {
				return nil, true
			}
			chans = append(chans, st.Chan)
		}
		return chans, true
	case *ssa.UnOp:
		if x.Op == token.ARROW {
			return []ssa.Value{x.X}, true
		}
	}
	return nil, false
}

// chanID identifies a channel in the fork helper's frame: the cell holding it (captured variables) or the value itself.
func chanID(v ssa.Value, isCell bool) ssa.Value {
	if isCell {
		return v
	}
	if u, ok := v.(*ssa.UnOp); ok && u.Op == token.MUL {
		return u.X
	}
	if ct, ok := v.(*ssa.ChangeType); ok {
		return chanID(ct.X, false)
	}
	return v
}

// cloop is a counted loop in either of the two SSA shapes (rotated `for range n`, or header-tested range/3-clause loops).
type cloop struct {
	body       map[*ssa.BasicBlock]bool
	count      func() countExpr // number of iterations
	idx        ssa.Value        // the induction value seen by the body
	stepped    bool             // idx advances by the stride (for o := 0; o < n; o += e) instead of by one
	iterStart  an.Point
	iterEnd    func(ssa.Instruction) bool
	normalExit func(b, s *ssa.BasicBlock) bool
	backEdge   func(b, s *ssa.BasicBlock) bool
	bypass     func(b, s *ssa.BasicBlock) bool
}

// countExpr is an iteration count: the value v, or ceil(n/e) when n != nil (recognised from n/e (+1 if n%e != 0),
// directly or as the single result of a module helper, and from `for o := 0; o < n; o += e`).
type countExpr struct{ v, n, e ssa.Value }

func sameCount(a, b countExpr) bool {
	if a.v != nil && a.v == b.v {
		return true
	}
	return a.n != nil && b.n != nil && a.n == b.n && a.e == b.e
}

// countNorm recognises the ceiling division in the definition of v.
func countNorm(v ssa.Value) countExpr {
	out := countExpr{v: v}
	if call, ok := v.(*ssa.Call); ok {
		f := call.Call.StaticCallee()
		if f != nil && prog.InModule(f) && f.Blocks != nil && !call.Call.IsInvoke() {
			rets := an.Returns(f)
			if len(rets) == 1 && len(rets[0].Results) == 1 {
				in := countNorm(an.Result(rets[0], 0))
				pn, ok1 := in.n.(*ssa.Parameter)
				pe, ok2 := in.e.(*ssa.Parameter)
				if ok1 && ok2 {
					for k, q := range f.Params {
						if k >= len(call.Call.Args) {
							break
						}
						if q == pn {
							out.n = call.Call.Args[k]
						}
						if q == pe {
							out.e = call.Call.Args[k]
						}
					}
					if out.n == nil || out.e == nil {
						out.n, out.e = nil, nil
					}
				}
			}
		}
		return out
	}
	if q, ok := v.(*ssa.BinOp); ok && q.Op == token.QUO {
		// (n + e - 1) / e
		if sub, ok := q.X.(*ssa.BinOp); ok && sub.Op == token.SUB && an.IsConstInt(sub.Y, 1) {
			if add, ok := sub.X.(*ssa.BinOp); ok && add.Op == token.ADD {
				if add.Y == q.Y {
					out.n, out.e = add.X, q.Y
				} else if add.X == q.Y {
					out.n, out.e = add.Y, q.Y
				}
			}
		}
		return out
	}
	phi, ok := v.(*ssa.Phi)
	if !ok || len(phi.Edges) != 2 {
		return out
	}
	for k := 0; k < 2; k++ {
		q, ok := phi.Edges[k].(*ssa.BinOp)
		if !ok || q.Op != token.QUO {
			continue
		}
		inc, ok := phi.Edges[1-k].(*ssa.BinOp)
		if !ok || inc.Op != token.ADD || inc.X != ssa.Value(q) || !an.IsConstInt(inc.Y, 1) {
			continue
		}
		// the +1 edge is taken exactly when n % e != 0
		bq, bi := phi.Block().Preds[k], phi.Block().Preds[1-k]
		iff, ok := bq.Instrs[len(bq.Instrs)-1].(*ssa.If)
		if !ok || bq.Succs[0] != bi || bq.Succs[1] != phi.Block() || len(bi.Preds) != 1 || len(bi.Succs) != 1 {
			continue
		}
		ne, ok := iff.Cond.(*ssa.BinOp)
		if !ok || ne.Op != token.NEQ || !an.IsConstInt(ne.Y, 0) {
			continue
		}
		rem, ok := ne.X.(*ssa.BinOp)
		if !ok || rem.Op != token.REM || rem.X != q.X || rem.Y != q.Y {
			continue
		}
		out.n, out.e = q.X, q.Y
	}
	return out
}

// allCloops returns the counted loops of fn in all recognised shapes.
func allCloops(fn *ssa.Function) []*cloop {
	var loops []*cloop
	for _, l := range FindRotLoops(fn) {
		loops = append(loops, cloopOfRot(l))
	}
	for _, l := range FindLoops(fn) {
		if l.FullRange {
			loops = append(loops, cloopOfLoop(l))
		}
	}
	return append(loops, findStepLoops(fn)...)
}

// findStepLoops recognises `for o := 0; o < n; o += e` with n and e not changed by the loop: ceil(n/e) iterations
// (for e > 0; with e <= 0 and n > 0 the loop does not end, which no rule here relies on).
func findStepLoops(fn *ssa.Function) []*cloop {
	var out []*cloop
	for _, b := range fn.Blocks {
		if len(b.Instrs) == 0 {
			continue
		}
		iff, ok := b.Instrs[len(b.Instrs)-1].(*ssa.If)
		if !ok {
			continue
		}
		cond, ok := iff.Cond.(*ssa.BinOp)
		if !ok || cond.Op != token.LSS {
			continue
		}
		phi, ok := cond.X.(*ssa.Phi)
		if !ok || phi.Block() != b || len(phi.Edges) != 2 {
			continue
		}
		var step ssa.Value
		okInit := false
		for k := 0; k < 2; k++ {
			if add, ok := phi.Edges[k].(*ssa.BinOp); ok && add.Op == token.ADD && add.X == ssa.Value(phi) && an.IsConstInt(phi.Edges[1-k], 0) {
				step, okInit = add.Y, true
			}
		}
		if !okInit || an.IsConstInt(step, 1) {
			continue
		}
		l := &Loop{Header: b, Cond: cond, BodyFirst: b.Succs[0], Exit: b.Succs[1], Body: map[*ssa.BasicBlock]bool{}}
		st := []*ssa.BasicBlock{l.BodyFirst}
		for len(st) > 0 {
			x := st[len(st)-1]
			st = st[:len(st)-1]
			if x == b || l.Body[x] {
				continue
			}
			l.Body[x] = true
			st = append(st, x.Succs...)
		}
		invariant := func(v ssa.Value) bool {
			switch x := v.(type) {
			case *ssa.Parameter, *ssa.Const:
				return true
			case ssa.Instruction:
				return !l.Body[x.Block()] && x.Block() != b
			}
			return false
		}
		if !invariant(step) || !invariant(cond.Y) {
			continue
		}
		cl := cloopOfLoop(l)
		n, e := cond.Y, step
		cl.count = func() countExpr { return countExpr{n: n, e: e} }
		cl.idx, cl.stepped = phi, true
		out = append(out, cl)
	}
	return out
}

func cloopOfRot(l *RotLoop) *cloop {
	last := l.Latch.Instrs[len(l.Latch.Instrs)-1]
	return &cloop{
		body:       l.Body,
		count:      func() countExpr { return countNorm(l.Bound) },
		idx:        l.Idx,
		iterStart:  an.Point{Block: l.Head, Idx: 0},
		iterEnd:    func(i ssa.Instruction) bool { return i == last },
		normalExit: func(b, s *ssa.BasicBlock) bool { return b == l.Latch && s == l.Done },
		backEdge:   func(b, s *ssa.BasicBlock) bool { return b == l.Latch && s == l.Head },
		bypass:     func(b, s *ssa.BasicBlock) bool { return b == l.Pre && s == l.Done },
	}
}

func cloopOfLoop(l *Loop) *cloop {
	body := map[*ssa.BasicBlock]bool{}
	for b := range l.Body {
		if l.InBodyProper(b) {
			body[b] = true
		}
	}
	first := l.Header.Instrs[0]
	return &cloop{
		body: body,
		idx:  l.Idx,
		count: func() countExpr {
			if mk, ok := l.BoundLen.(*ssa.MakeSlice); ok {
				// for i := range make([]T, W): the slice header is not reassigned (exact root)
				return countNorm(mk.Len)
			}
			return countNorm(l.Bound)
		},
		iterStart:  an.Point{Block: l.BodyFirst, Idx: 0},
		iterEnd:    func(i ssa.Instruction) bool { return i == first },
		normalExit: func(b, s *ssa.BasicBlock) bool { return b == l.Header && s == l.Exit },
		backEdge:   func(b, s *ssa.BasicBlock) bool { return s == l.Header },
		bypass:     func(b, s *ssa.BasicBlock) bool { return false },
	}
}

// ScatterPartition (C08.O8): the extents util.Scatter hands to its workers partition [0, inputLen): it starts
// ceil(inputLen/e) workers, worker w is given offset w*e and min(e, inputLen-offset) entries, and passes exactly these to
// the work function. (e > 0 is not decided: with e <= 0 the helper does not return at all.)
func (c *Ctx) ScatterPartition(prop string) {
	rule := "C08.O8 scatter.partition"
	fn := c.ScatterHelper(rule)
	if fn == nil {
		return
	}
	var nP ssa.Value
	for _, p := range fn.Params {
		if b, ok := p.Type().Underlying().(*types.Basic); ok && b.Info()&types.IsInteger != 0 {
			nP = p
		}
	}
	var spawn *cloop
	var goIns *ssa.Go
	ngo := 0
	for _, l := range allCloops(fn) {
		for b := range l.body {
			for _, ins := range b.Instrs {
				if g, ok := ins.(*ssa.Go); ok {
					if g != goIns {
						ngo++
					}
					spawn, goIns = l, g
				}
			}
		}
	}
	if spawn == nil || nP == nil || ngo != 1 {
		c.R.Unknown(rule, Fn(fn), c.P.FuncPos(fn), "no single counted loop starting the workers found")
		return
	}
	cnt := spawn.count()
	if cnt.n == nil || cnt.n != nP {
		c.R.Fail(rule, Fn(fn)+":count", c.Pos(goIns), "the number of workers started is not ceil(inputLen/extent): "+an.Term(cnt.v)+"; extents at the end of the input are never handed to a worker (or are handed out twice)", "ceil(inputLen/extentSize) workers", nil)
		return
	}
	e := cnt.e
	// the worker function and the (offset, entries) it hands to the work function, traced back to the go statement's arguments
	var wf *ssa.Function
	goArgs := goIns.Call.Args
	if mc, ok := goIns.Call.Value.(*ssa.MakeClosure); ok {
		wf = mc.Fn.(*ssa.Function)
	} else if f := goIns.Call.StaticCallee(); f != nil && f.Blocks != nil && prog.InModule(f) {
		wf = f
	}
	var off, ent ssa.Value
	if wf != nil {
		for _, ci := range Calls(wf, func(ci ssa.CallInstruction) bool {
			cc := ci.Common()
			if cc.IsInvoke() || cc.StaticCallee() != nil || len(cc.Args) < 2 {
				return false
			}
			_, isB := cc.Value.(*ssa.Builtin)
			return !isB
		}) {
			off, ent = nil, nil
			for k, q := range wf.Params {
				if k >= len(goArgs) {
					break
				}
				if ci.Common().Args[0] == ssa.Value(q) {
					off = goArgs[k]
				}
				if ci.Common().Args[1] == ssa.Value(q) {
					ent = goArgs[k]
				}
			}
		}
	}
	if off == nil || ent == nil {
		c.R.Fail(rule, Fn(fn)+":pass", c.Pos(goIns), "the worker does not call the work function with the offset and entries it was started with", "work(offset, entries, ...)", nil)
		return
	}
	// offset and entries may be the two results of a module helper: its (single) return is read with the helper's
	// parameters replaced by the arguments
	env := map[ssa.Value]ssa.Value{}
	rv := func(v ssa.Value) ssa.Value {
		for i := 0; i < 4; i++ {
			if m, ok := env[v]; ok {
				v = m
				continue
			}
			ex, ok := v.(*ssa.Extract)
			if !ok {
				return v
			}
			call, ok := ex.Tuple.(*ssa.Call)
			if !ok || call.Call.IsInvoke() {
				return v
			}
			h := call.Call.StaticCallee()
			if h == nil || !prog.InModule(h) || h.Blocks == nil {
				return v
			}
			rets := an.Returns(h)
			if len(rets) != 1 || ex.Index >= len(rets[0].Results) {
				return v
			}
			for k, q := range h.Params {
				if k < len(call.Call.Args) {
					env[q] = call.Call.Args[k]
				}
			}
			v = an.Result(rets[0], ex.Index)
		}
		return v
	}
	off, ent = rv(off), rv(ent)
	okOff := false
	if spawn.stepped {
		okOff = off == spawn.idx
	} else if m, ok := off.(*ssa.BinOp); ok && m.Op == token.MUL {
		x, y := rv(m.X), rv(m.Y)
		okOff = (x == spawn.idx && y == e) || (y == spawn.idx && x == e)
	}
	if !okOff {
		c.R.Fail(rule, Fn(fn)+":offset", c.Pos(goIns), "worker w is not started at offset w*extent: "+an.Term(off), "offset = worker * extentSize", nil)
		return
	}
	sameOff := func(v ssa.Value) bool {
		v = rv(v)
		if v == off {
			return true
		}
		// the same product computed again
		m1, ok1 := v.(*ssa.BinOp)
		m2, ok2 := off.(*ssa.BinOp)
		if ok1 && ok2 && m1.Op == token.MUL && m2.Op == token.MUL {
			return (rv(m1.X) == rv(m2.X) && rv(m1.Y) == rv(m2.Y)) || (rv(m1.X) == rv(m2.Y) && rv(m1.Y) == rv(m2.X))
		}
		return false
	}
	isRest := func(v ssa.Value) bool {
		sub, ok := rv(v).(*ssa.BinOp)
		return ok && sub.Op == token.SUB && rv(sub.X) == nP && sameOff(sub.Y)
	}
	okEnt := false
	switch x := ent.(type) {
	case *ssa.Call:
		if isBuiltin(x, "min") && len(x.Call.Args) == 2 {
			okEnt = (rv(x.Call.Args[0]) == e && isRest(x.Call.Args[1])) || (rv(x.Call.Args[1]) == e && isRest(x.Call.Args[0]))
		}
	case *ssa.Phi:
		if len(x.Edges) == 2 {
			for k := 0; k < 2; k++ {
				if rv(x.Edges[k]) != e || !isRest(x.Edges[1-k]) {
					continue
				}
				// the rest edge is taken exactly when offset+e exceeds (or reaches) inputLen
				bFull, bRest := x.Block().Preds[k], x.Block().Preds[1-k]
				iff, ok := bFull.Instrs[len(bFull.Instrs)-1].(*ssa.If)
				if !ok || bFull.Succs[0] != bRest || bFull.Succs[1] != x.Block() || len(bRest.Preds) != 1 {
					continue
				}
				cmp, ok := iff.Cond.(*ssa.BinOp)
				if !ok || (cmp.Op != token.GTR && cmp.Op != token.GEQ) || rv(cmp.Y) != nP {
					continue
				}
				add, ok := cmp.X.(*ssa.BinOp)
				if ok && add.Op == token.ADD && ((sameOff(add.X) && rv(add.Y) == e) || (sameOff(add.Y) && rv(add.X) == e)) {
					okEnt = true
				}
			}
		}
	}
	if hc, isCall := ent.(*ssa.Call); !okEnt && isCall && !hc.Call.IsInvoke() {
		// an extent helper with two returns: `if offset+e > n { return n - offset }; return e`
		if h := hc.Call.StaticCallee(); h != nil && prog.InModule(h) && h.Blocks != nil && h.Signature.Results().Len() == 1 {
			for k, q := range h.Params {
				if k < len(hc.Call.Args) {
					env[q] = hc.Call.Args[k]
				}
			}
			rets := an.Returns(h)
			if len(rets) == 2 {
				for k := 0; k < 2; k++ {
					full, rest := rets[k], rets[1-k]
					if rv(an.Result(full, 0)) != e || !isRest(an.Result(rest, 0)) {
						continue
					}
					bRest := rest.Block()
					if len(bRest.Preds) != 1 {
						continue
					}
					bIf := bRest.Preds[0]
					iff, ok := bIf.Instrs[len(bIf.Instrs)-1].(*ssa.If)
					if !ok || bIf.Succs[0] != bRest || bIf.Succs[1] != full.Block() {
						continue
					}
					cmp, ok := iff.Cond.(*ssa.BinOp)
					if !ok || (cmp.Op != token.GTR && cmp.Op != token.GEQ) || rv(cmp.Y) != nP {
						continue
					}
					add, ok := cmp.X.(*ssa.BinOp)
					if ok && add.Op == token.ADD && ((sameOff(add.X) && rv(add.Y) == e) || (sameOff(add.Y) && rv(add.X) == e)) {
						okEnt = true
					}
				}
			}
		}
	}
	if !okEnt {
		c.R.Fail(rule, Fn(fn)+":entries", c.Pos(goIns), "the number of entries given to a worker is not min(extent, inputLen-offset): "+an.Term(ent), "entries = extentSize, or inputLen-offset for the last worker", nil)
		return
	}
	c.R.OK(rule, Fn(fn), c.P.FuncPos(fn), "ceil(inputLen/e) workers; worker w gets offset w*e and min(e, inputLen-offset) entries and hands them to the work function: the extents partition [0, inputLen)")
}

// ScatterHelper returns util.Scatter.
func (c *Ctx) ScatterHelper(rule string) *ssa.Function {
	sp := c.P.Package(mod + "/util")
	if sp == nil || sp.Func("Scatter") == nil {
		c.R.Anchor(rule, "util.Scatter", "not found")
		return nil
	}
	return sp.Func("Scatter")
}

// ForkJoinRules: every goroutine boundary between a store call on an approving path and the signer's use of the
// verdict is a joined fork (C03.O6); also used by C04.O8.
func (c *Ctx) ForkJoinRules(prop string) {
	rule := "C03.O6 synchronous"
	r := c.Ruler(prop + ".anchors")
	s := c.Slashing(prop + ".anchors")
	if !r.OK() || !s.OK() {
		return
	}
	sc := c.ScatterHelper(rule)
	if sc == nil {
		return
	}
	c.JoinedFork(rule+"/joined-fork", sc)
	// between RunRules and the stateful rules, the only goroutine starts are inside the validated helper
	g := c.ModGraph()
	pred := g.Reach([]*ssa.Function{r.RunRules}, nil)
	n := 0
	for f := range pred {
		if !prog.InModule(f) {
			continue
		}
		// only functions that can still reach a stateful rule matter
		sub := g.Reach([]*ssa.Function{f}, nil)
		reaches := false
		for _, e := range []*ssa.Function{s.Attest, s.AttestB, s.Propose} {
			if _, ok := sub[e]; ok {
				reaches = true
			}
		}
		if !reaches {
			continue
		}
		n++
		for _, b := range f.Blocks {
			for _, ins := range b.Instrs {
				switch x := ins.(type) {
				case *ssa.Go:
					if f != sc {
						c.R.Fail(rule, Fn(f), c.Pos(ins), "rule evaluation is handed to a goroutine outside the joined-fork helper: the caller may read verdicts (and sign) before the watermark is stored", "goroutines only inside the validated fork/join helper", nil)
					}
				case *ssa.Defer:
					if cal := x.Call.StaticCallee(); cal != nil {
						if _, ok := g.Reach([]*ssa.Function{cal}, nil)[s.StoreStore]; ok {
							c.R.Fail(rule, Fn(f), c.Pos(ins), "a store is deferred", "stores are plain calls", nil)
						}
					}
				}
			}
		}
	}
	c.R.Floor(rule, "functions between RunRules and the stateful rules", n, 3)
	c.R.OK(rule, Fn(r.RunRules), c.P.FuncPos(r.RunRules), fmt.Sprintf("%d functions lie between RunRules and the stateful rules; the only goroutine start among them is in the validated fork/join helper", n))
}

// ScatterIndexDiscipline (C08.O6 / C04.O8): inside every closure passed to util.Scatter each captured slice is read and
// written only at the induction variable of the worker loop, and no captured scalar is written.
func (c *Ctx) ScatterIndexDiscipline(prop string) {
	rule := "C08.O6 scatter.index-discipline"
	sc := c.ScatterHelper(rule)
	if sc == nil {
		return
	}
	var forwarded []*ssa.Function
	checkWorker := func(W *ssa.Function, l *Loop) {
		bad := 0
		for _, f := range WithClosures(W) {
			for _, b := range f.Blocks {
				for _, ins := range b.Instrs {
					switch x := ins.(type) {
					case *ssa.IndexAddr:
						// captured slice: root reached through a free-variable cell
						u, ok := x.X.(*ssa.UnOp)
						if !ok {
							continue
						}
						if _, isFV := u.X.(*ssa.FreeVar); !isFV {
							continue
						}
						if x.Index != l.Idx {
							// reads of immutable inputs with len-guards (len(pubKeys) > i) still use i; anything else is a violation
							bad++
							c.R.Fail(rule, Fn(W)+":"+an.Term(u.X), c.Pos(x), "a captured slice is indexed with "+an.Term(x.Index)+" instead of the worker's own loop variable: workers would read or write each other's positions", "captured slices only at [i]", nil)
						}
					case *ssa.Store:
						if fv, ok := x.Addr.(*ssa.FreeVar); ok {
							bad++
							c.R.Fail(rule, Fn(W)+":"+fv.Name(), c.Pos(x), "a captured variable is assigned from concurrent workers", "workers write only their own slice positions", nil)
						}
					case *ssa.MapUpdate:
						// a captured map written by several workers: the runtime aborts the whole process on overlapping map
						// writes (fatal error, not recoverable) - allowed only under the mutex Scatter hands to the worker
						m := x.Map
						if u, ok := m.(*ssa.UnOp); ok {
							if _, isFV := u.X.(*ssa.FreeVar); isFV {
								locked := false
								if f == W && len(W.Params) >= 3 {
									mu := ssa.Value(W.Params[2])
									target := ssa.Instruction(x)
									if y, _ := an.Cut(an.CutQuery{From: an.Entry(W), Target: func(i ssa.Instruction) bool { return i == target },
										AcceptInstr: func(i ssa.Instruction) bool {
											ci, ok := i.(ssa.CallInstruction)
											if !ok || ci.Common().StaticCallee() == nil || ci.Common().StaticCallee().Name() != "Lock" || len(ci.Common().Args) == 0 {
												return false
											}
											return ci.Common().Args[0] == mu
										}}); y == nil {
										locked = true
									}
								}
								if !locked {
									bad++
									c.R.Fail(rule, Fn(W)+":map", c.Pos(x), "a captured map is written by concurrent workers without the worker mutex: overlapping map writes are a fatal runtime error that terminates the process", "per-position slices, or the map only under the mutex passed to the worker", nil)
								}
							}
						}
					}
				}
			}
		}
		// the loop must not be left early other than by return (break would skip positions): breaks are tolerated only when every skipped position keeps a non-approving default
		if bad == 0 {
			c.R.OK(rule, Fn(W), c.P.FuncPos(W), "captured slices are accessed only at the worker loop's own index; no captured scalar is written")
		}
	}
	n := 0
	for _, fn := range c.P.ModuleFuncs() {
		if prog.IsTestish(prog.PkgPathOf(fn)) {
			continue
		}
		for _, ci := range Calls(fn, func(ci ssa.CallInstruction) bool { return ci.Common().StaticCallee() == sc }) {
			mc, ok := ci.Common().Args[1].(*ssa.MakeClosure)
			if !ok {
				c.R.Unknown(rule, Fn(fn), c.Pos(ci), "the work function passed to Scatter is not a closure literal")
				continue
			}
			W := mc.Fn.(*ssa.Function)
			n++
			l, ok := scatterLoopIdx(W)
			if !ok {
				// a forwarding wrapper: the closure only calls the enclosing function's work parameter with its own
				// (offset, entries); the closures handed to the wrapper are then the workers
				if k, isFwd := scatterForwarder(fn, mc, W); isFwd {
					nfw := 0
					for _, cs := range c.staticCallers()[fn] {
						if prog.IsTestish(prog.PkgPathOf(cs.Parent())) || k >= len(cs.Common().Args) {
							continue
						}
						mc2, isClosure := cs.Common().Args[k].(*ssa.MakeClosure)
						if !isClosure {
							c.R.Unknown(rule, Fn(cs.Parent()), c.Pos(cs), "the work function handed to the scatter wrapper is not a closure literal")
							continue
						}
						nfw++
						forwarded = append(forwarded, mc2.Fn.(*ssa.Function))
					}
					if nfw > 0 {
						continue
					}
				}
				c.R.Fail(rule, Fn(W), c.P.FuncPos(W), "the worker is not of the form `for i := offset; i < offset+entries; i++`: it may touch positions that belong to other workers", "worker loop over [offset, offset+entries)", nil)
				continue
			}
			checkWorker(W, l)
		}
	}
	for _, W2 := range forwarded {
		n++
		l2, ok := scatterLoopIdx(W2)
		if !ok {
			c.R.Fail(rule, Fn(W2), c.P.FuncPos(W2), "the worker handed to the scatter wrapper is not of the form `for i := offset; i < offset+entries; i++`: it may touch positions that belong to other workers", "worker loop over [offset, offset+entries)", nil)
			continue
		}
		checkWorker(W2, l2)
	}
	// two batch endpoints and the ruler each hand at least one closure to Scatter
	c.R.Floor(rule, "closures passed to Scatter", n, 3)
}

// scatterForwarder: W, the closure fn passes to Scatter, does nothing with positions itself: it calls fn's function-typed
// parameter with its own (offset, entries) and touches no captured slice. It returns the position of that parameter.
func scatterForwarder(fn *ssa.Function, mc *ssa.MakeClosure, W *ssa.Function) (int, bool) {
	if len(W.Params) < 2 {
		return -1, false
	}
	k := -1
	ncall := 0
	for _, b := range W.Blocks {
		for _, ins := range b.Instrs {
			switch x := ins.(type) {
			case *ssa.IndexAddr:
				if u, ok := x.X.(*ssa.UnOp); ok {
					if _, isFV := u.X.(*ssa.FreeVar); isFV {
						return -1, false
					}
				}
			case ssa.CallInstruction:
				cc := x.Common()
				if cc.IsInvoke() || cc.StaticCallee() != nil {
					continue
				}
				if _, isB := cc.Value.(*ssa.Builtin); isB {
					continue
				}
				// dynamic call of a captured function value
				v := cc.Value
				if u, ok := v.(*ssa.UnOp); ok {
					if inner, ok := an.ResolveCell(u.X); ok {
						v = inner
					}
				}
				if fv, ok := v.(*ssa.FreeVar); ok {
					for bi, f := range W.FreeVars {
						if f == fv && bi < len(mc.Bindings) {
							v = mc.Bindings[bi]
						}
					}
				}
				p, ok := v.(*ssa.Parameter)
				if !ok || p.Parent() != fn {
					return -1, false
				}
				if len(cc.Args) < 2 || cc.Args[0] != ssa.Value(W.Params[0]) || cc.Args[1] != ssa.Value(W.Params[1]) {
					return -1, false
				}
				ncall++
				for i, q := range fn.Params {
					if q == p {
						k = i
					}
				}
			}
		}
	}
	return k, ncall == 1 && k >= 0
}

// RulerKeyAgreement (C04.O5, dispatch side): the public key in the metadata handed to the rules is the PubKey of the very
// rules-data entry whose Data is evaluated.
func (c *Ctx) RulerKeyAgreement(prop string) {
	rule := "C04.O5 key-agreement/metadata"
	r := c.Ruler(prop + ".anchors")
	if !r.OK() {
		return
	}
	n := 0
	for _, fn := range c.StaticReach(r.RunRules, 6) {
		for _, b := range fn.Blocks {
			for _, ins := range b.Instrs {
				st, ok := ins.(*ssa.Store)
				if !ok {
					continue
				}
				fa, ok := st.Addr.(*ssa.FieldAddr)
				if !ok || !namedIs(fa.X.Type(), pkgRules, "ReqMetadata") || fieldNameOf(fa) != "PubKey" {
					continue
				}
				n++
				// the value, resolved through the call chain from the scatter worker (helper parameters -> arguments), is the
				// PubKey of rulesData[i] at the worker's own index
				isRoot := func(f *ssa.Function) bool { _, ok := scatterLoopIdx(f); return ok }
				chains := c.Chains(fn, st, isRoot, 5)
				nchain := 0
				for _, ch := range chains {
					W := ch[0].Fn
					l, isWorker := scatterLoopIdx(W)
					if !isWorker {
						c.R.Unknown(rule, Fn(fn)+" via "+Fn(W), c.Pos(st), "rules metadata is built on a call chain that does not start in a scatter worker: the position it belongs to is not identified")
						nchain++
						continue
					}
					nchain++
					sub := ch[len(ch)-1].Sub
					v := sub.Res(st.Val)
					owner, f, base := an.FieldOf(v)
					if owner == nil || f != "PubKey" || !namedIs(owner, pkgRuler, "RulesData") {
						c.R.Fail(rule, Fn(fn), c.Pos(st), "the metadata's public key (which keys the watermark) is not the PubKey of the rules-data entry: "+an.Term(v), "metadata.PubKey = rulesData[i].PubKey", nil)
						continue
					}
					base = sub.Res(base)
					_, idx, ok := elemLoad(base)
					if !ok {
						c.R.Fail(rule, Fn(fn), c.Pos(st), "the metadata's public key is not taken from an element of the request list: "+an.Term(base), "metadata.PubKey = rulesData[i].PubKey", nil)
						continue
					}
					if l.Idx != idx {
						c.R.Fail(rule, Fn(fn), c.Pos(st), "the metadata's public key is taken from another position than the one being evaluated", "metadata.PubKey = rulesData[i].PubKey at the worker's own index", nil)
						continue
					}
					c.R.OK(rule, Fn(fn)+" via "+Fn(W), c.Pos(st), "metadata.PubKey = rulesData[i].PubKey at the worker's own index (the lock key and the database key derive from the same bytes)")
				}
				if nchain == 0 {
					c.R.Unknown(rule, Fn(fn), c.Pos(st), "metadata builder is not reached from a scatter worker below RunRules")
				}
			}
		}
	}
	c.R.Floor(rule, "constructions of rules metadata below RunRules", n, 1)
}
