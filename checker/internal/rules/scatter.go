package rules

import (
	"fmt"
	"go/token"
	"go/types"

	"dirkcheck/internal/an"
	"dirkcheck/internal/prog"

	"golang.org/x/tools/go/ssa"
)

// RotLoop is a rotated counted loop as go/ssa emits for `for i := range n`:
//
//	pre:  if 0 < N goto body else done
//	body: i = phi [pre: 0, latch: i+1] ... latch: if i+1 < N goto body else done
type RotLoop struct {
	Pre   *ssa.BasicBlock
	Head  *ssa.BasicBlock
	Latch *ssa.BasicBlock
	Done  *ssa.BasicBlock
	Idx   *ssa.Phi
	Bound ssa.Value
	Body  map[*ssa.BasicBlock]bool
}

func FindRotLoops(fn *ssa.Function) []*RotLoop {
	var out []*RotLoop
	for _, b := range fn.Blocks {
		for _, ins := range b.Instrs {
			phi, ok := ins.(*ssa.Phi)
			if !ok {
				break
			}
			if len(phi.Edges) != 2 {
				continue
			}
			for k := 0; k < 2; k++ {
				init, back := phi.Edges[k], phi.Edges[1-k]
				add, ok := back.(*ssa.BinOp)
				if !ok || add.Op != token.ADD || add.X != ssa.Value(phi) || !an.IsConstInt(add.Y, 1) || !an.IsConstInt(init, 0) {
					continue
				}
				pre, latch := b.Preds[k], b.Preds[1-k]
				lif, ok := latch.Instrs[len(latch.Instrs)-1].(*ssa.If)
				if !ok {
					continue
				}
				lc, ok := lif.Cond.(*ssa.BinOp)
				if !ok || lc.Op != token.LSS || lc.X != ssa.Value(add) || latch.Succs[0] != b {
					continue
				}
				pif, ok := pre.Instrs[len(pre.Instrs)-1].(*ssa.If)
				if !ok {
					continue
				}
				pc, ok := pif.Cond.(*ssa.BinOp)
				if !ok || pc.Op != token.LSS || !an.IsConstInt(pc.X, 0) || pc.Y != lc.Y || pre.Succs[0] != b || pre.Succs[1] != latch.Succs[1] {
					continue
				}
				l := &RotLoop{Pre: pre, Head: b, Latch: latch, Done: latch.Succs[1], Idx: phi, Bound: lc.Y, Body: map[*ssa.BasicBlock]bool{}}
				// body = blocks reachable from head without leaving through latch's exit, up to latch
				st := []*ssa.BasicBlock{b}
				for len(st) > 0 {
					x := st[len(st)-1]
					st = st[:len(st)-1]
					if l.Body[x] {
						continue
					}
					l.Body[x] = true
					if x == latch {
						continue
					}
					st = append(st, x.Succs...)
				}
				out = append(out, l)
			}
		}
	}
	return out
}

// JoinedFork (C03.O6 / C04.O8): the helper fn starts one goroutine per iteration of a loop bounded by W, each goroutine
// performs exactly one channel send on every path after its work function returned, and fn performs W blocking receives
// before it returns. Then everything written by the workers happens-before the caller's reads.
func (c *Ctx) JoinedFork(rule string, fn *ssa.Function) bool {
	var loops []*cloop
	for _, l := range FindRotLoops(fn) {
		loops = append(loops, cloopOfRot(l))
	}
	for _, l := range FindLoops(fn) {
		if l.FullRange {
			loops = append(loops, cloopOfLoop(l))
		}
	}
	var spawn *cloop
	var goIns *ssa.Go
	for _, l := range loops {
		for b := range l.body {
			for _, ins := range b.Instrs {
				if g, ok := ins.(*ssa.Go); ok {
					if goIns != nil && goIns != g {
						c.R.Unknown(rule, Fn(fn), c.Pos(g), "more than one goroutine start in the fork helper")
						return false
					}
					spawn, goIns = l, g
				}
			}
		}
	}
	// any go statement outside a recognised loop?
	for _, b := range fn.Blocks {
		for _, ins := range b.Instrs {
			if g, ok := ins.(*ssa.Go); ok && g != goIns {
				c.R.Unknown(rule, Fn(fn), c.Pos(g), "goroutine started outside the recognised worker loop")
				return false
			}
		}
	}
	if spawn == nil {
		c.R.Unknown(rule, Fn(fn), c.P.FuncPos(fn), "no counted loop starting the workers found (expected `for w := range workers { go ... }`)")
		return false
	}
	W := spawn.bound
	// worker function: a closure, or a named module function given everything as arguments
	var wf *ssa.Function
	outer := func(v ssa.Value) ssa.Value { return v } // maps a value of wf that denotes something of fn to fn's frame
	if mc, ok := goIns.Call.Value.(*ssa.MakeClosure); ok {
		wf = mc.Fn.(*ssa.Function)
		outer = func(v ssa.Value) ssa.Value {
			if u, ok := v.(*ssa.UnOp); ok && u.Op == token.MUL {
				if fv, ok := u.X.(*ssa.FreeVar); ok {
					for k, f := range wf.FreeVars {
						if f == fv {
							return chanID(mc.Bindings[k], true)
						}
					}
				}
			}
			return nil
		}
	} else if f := goIns.Call.StaticCallee(); f != nil && prog.InModule(f) && f.Blocks != nil {
		wf = f
		outer = func(v ssa.Value) ssa.Value {
			if p, ok := v.(*ssa.Parameter); ok {
				for k, q := range wf.Params {
					if q == p && k < len(goIns.Call.Args) {
						return chanID(goIns.Call.Args[k], false)
					}
				}
			}
			return nil
		}
	} else {
		c.R.Unknown(rule, Fn(fn), c.Pos(goIns), "the goroutine body is neither a closure nor a module function")
		return false
	}
	// the work call: dynamic call of the function parameter of fn
	isWorkParam := func(v ssa.Value) bool {
		o := outer(v)
		if o == nil {
			return false
		}
		if inner, ok := an.ResolveCell(o); ok {
			o = inner
		}
		if u, ok := o.(*ssa.UnOp); ok && u.Op == token.MUL {
			if inner, ok := an.ResolveCell(u.X); ok {
				o = inner
			}
		}
		p, ok := o.(*ssa.Parameter)
		return ok && p.Parent() == fn
	}
	var workCall ssa.CallInstruction
	for _, ci := range Calls(wf, func(ci ssa.CallInstruction) bool {
		cc := ci.Common()
		if cc.IsInvoke() || cc.StaticCallee() != nil {
			return false
		}
		return isWorkParam(cc.Value)
	}) {
		if workCall != nil {
			c.R.Unknown(rule, Fn(wf), c.Pos(ci), "the worker calls the work function more than once")
			return false
		}
		workCall = ci
	}
	if workCall == nil {
		c.R.Unknown(rule, Fn(wf), c.P.FuncPos(wf), "the worker does not call the work function")
		return false
	}
	// channels (identified in fn's frame) the worker sends on
	sendChans := map[ssa.Value]bool{}
	isSend := func(i ssa.Instruction) bool {
		s, ok := i.(*ssa.Send)
		if !ok {
			return false
		}
		if o := outer(s.Chan); o != nil {
			sendChans[o] = true
			return true
		}
		return false
	}
	// a send on anything else is not understood
	for _, b := range wf.Blocks {
		for _, ins := range b.Instrs {
			if _, ok := ins.(*ssa.Send); ok && !isSend(ins) {
				c.R.Unknown(rule, Fn(wf), c.Pos(ins), "the worker sends on a channel that is not one of the helper's")
				return false
			}
		}
	}
	// exactly one send after the work call on every path; none before
	if x, path := an.Cut(an.CutQuery{From: an.After(workCall), Target: func(i ssa.Instruction) bool { _, ok := i.(*ssa.Return); return ok }, AcceptInstr: isSend}); x != nil {
		c.R.Fail(rule, Fn(wf), c.Pos(x), "a worker can finish without reporting to the collector: the helper would wait forever or, with fewer receives, return before workers are done", "one send on every path after the work function returned", an.PathString(c.Pos, path))
		return false
	}
	if x, _ := an.Cut(an.CutQuery{From: an.Entry(wf), Target: isSend, AcceptInstr: func(i ssa.Instruction) bool { return i == workCall.(ssa.Instruction) }}); x != nil {
		c.R.Fail(rule, Fn(wf), c.Pos(x), "a worker reports completion before its work function has run", "send only after the work function returned", nil)
		return false
	}
	// two sends on one path?
	for _, b := range wf.Blocks {
		for _, ins := range b.Instrs {
			if isSend(ins) {
				if x, _ := an.Cut(an.CutQuery{From: an.After(ins), Target: isSend}); x != nil {
					c.R.Fail(rule, Fn(wf), c.Pos(x), "a worker can report twice: the collector's count would be satisfied before all workers finished", "exactly one send per worker", nil)
					return false
				}
			}
		}
	}
	// collector loop
	var coll *cloop
	var sel *ssa.Select
	for _, l := range loops {
		if l == spawn || !l.runs(W) {
			continue
		}
		for b := range l.body {
			for _, ins := range b.Instrs {
				if s, ok := ins.(*ssa.Select); ok && s.Blocking {
					coll, sel = l, s
				}
			}
		}
	}
	if coll == nil || sel == nil {
		c.R.Fail(rule, Fn(fn), c.P.FuncPos(fn), "no loop performing one blocking receive per started worker (same bound as the start loop) found", "for range workers { <-done }", nil)
		return false
	}
	for _, stt := range sel.States {
		if stt.Dir != types.RecvOnly {
			c.R.Unknown(rule, Fn(fn), c.Pos(sel), "the collector's select has a send case")
			return false
		}
		if !sendChans[chanID(stt.Chan, false)] {
			c.R.Fail(rule, Fn(fn), c.Pos(sel), "the collector waits on a channel the workers do not send on", "receive on the workers' completion channels", nil)
			return false
		}
	}
	// every iteration passes the select; the loop is left only through its normal exit
	if x, _ := an.Cut(an.CutQuery{From: coll.iterStart, Target: coll.iterEnd,
		AcceptInstr: func(i ssa.Instruction) bool { return i == ssa.Instruction(sel) }}); x != nil {
		c.R.Fail(rule, Fn(fn), c.Pos(sel), "an iteration of the collector loop can skip the receive", "one blocking receive per iteration", nil)
		return false
	}
	for b := range coll.body {
		for _, s := range b.Succs {
			if !coll.body[s] && !coll.normalExit(b, s) && !coll.backEdge(b, s) {
				// leaving the loop early: allowed only into a block that panics (synthetic select fall-through)
				if _, isPanic := s.Instrs[len(s.Instrs)-1].(*ssa.Panic); isPanic {
					continue
				}
				c.R.Fail(rule, Fn(fn), c.Pos(b.Instrs[len(b.Instrs)-1]), "the collector loop can be left before all workers reported (early return on error closes the channels under running workers and lets the caller read unfinished results)", "collector loop runs to completion", nil)
				return false
			}
		}
	}
	// returns after the first go are reachable only through the collector's completion
	if x, path := an.Cut(an.CutQuery{From: an.After(goIns), Target: func(i ssa.Instruction) bool { _, ok := i.(*ssa.Return); return ok },
		AcceptEdge: func(b *ssa.BasicBlock, i int, a *an.Atom) bool {
			// normal completion; or the zero-iteration bypass, which cannot be taken once a worker was started under [0 < W]
			return coll.normalExit(b, b.Succs[i]) || coll.bypass(b, b.Succs[i])
		}}); x != nil {
		c.R.Fail(rule, Fn(fn), c.Pos(x), "the helper can return while workers are still running", "return only after one receive per started worker", an.PathString(c.Pos, path))
		return false
	}
	c.R.OK(rule, Fn(fn), c.P.FuncPos(fn), "joined fork: one goroutine per iteration of a loop bounded by W; each sends exactly once after its work returned; the helper performs W blocking receives on those channels before returning")
	return true
}

// chanID identifies a channel in the fork helper's frame: the cell holding it (captured variables) or the value itself.
func chanID(v ssa.Value, isCell bool) ssa.Value {
	if isCell {
		return v
	}
	if u, ok := v.(*ssa.UnOp); ok && u.Op == token.MUL {
		return u.X
	}
	if ct, ok := v.(*ssa.ChangeType); ok {
		return chanID(ct.X, false)
	}
	return v
}

// cloop is a counted loop in either of the two SSA shapes (rotated `for range n`, or header-tested range/3-clause loops).
type cloop struct {
	body       map[*ssa.BasicBlock]bool
	bound      ssa.Value
	iterStart  an.Point
	iterEnd    func(ssa.Instruction) bool
	normalExit func(b, s *ssa.BasicBlock) bool
	backEdge   func(b, s *ssa.BasicBlock) bool
	bypass     func(b, s *ssa.BasicBlock) bool
	runs       func(W ssa.Value) bool // the loop performs exactly W iterations
}

func cloopOfRot(l *RotLoop) *cloop {
	last := l.Latch.Instrs[len(l.Latch.Instrs)-1]
	return &cloop{
		body:       l.Body,
		bound:      l.Bound,
		iterStart:  an.Point{Block: l.Head, Idx: 0},
		iterEnd:    func(i ssa.Instruction) bool { return i == last },
		normalExit: func(b, s *ssa.BasicBlock) bool { return b == l.Latch && s == l.Done },
		backEdge:   func(b, s *ssa.BasicBlock) bool { return b == l.Latch && s == l.Head },
		bypass:     func(b, s *ssa.BasicBlock) bool { return b == l.Pre && s == l.Done },
		runs:       func(W ssa.Value) bool { return l.Bound == W },
	}
}

func cloopOfLoop(l *Loop) *cloop {
	body := map[*ssa.BasicBlock]bool{}
	for b := range l.Body {
		if l.InBodyProper(b) {
			body[b] = true
		}
	}
	first := l.Header.Instrs[0]
	return &cloop{
		body:       body,
		bound:      l.Bound,
		iterStart:  an.Point{Block: l.BodyFirst, Idx: 0},
		iterEnd:    func(i ssa.Instruction) bool { return i == first },
		normalExit: func(b, s *ssa.BasicBlock) bool { return b == l.Header && s == l.Exit },
		backEdge:   func(b, s *ssa.BasicBlock) bool { return s == l.Header },
		bypass:     func(b, s *ssa.BasicBlock) bool { return false },
		runs: func(W ssa.Value) bool {
			if l.Bound == W {
				return true
			}
			if mk, ok := l.BoundLen.(*ssa.MakeSlice); ok && mk.Len == W {
				// for i := range make([]T, W): the slice header is not reassigned (exact root)
				return true
			}
			return false
		},
	}
}

// ScatterHelper returns util.Scatter.
func (c *Ctx) ScatterHelper(rule string) *ssa.Function {
	sp := c.P.Package(mod + "/util")
	if sp == nil || sp.Func("Scatter") == nil {
		c.R.Anchor(rule, "util.Scatter", "not found")
		return nil
	}
	return sp.Func("Scatter")
}

// ForkJoinRules: every goroutine boundary between a store call on an approving path and the signer's use of the
// verdict is a joined fork (C03.O6); also used by C04.O8.
func (c *Ctx) ForkJoinRules(prop string) {
	rule := "C03.O6 synchronous"
	r := c.Ruler(prop + ".anchors")
	s := c.Slashing(prop + ".anchors")
	if !r.OK() || !s.OK() {
		return
	}
	sc := c.ScatterHelper(rule)
	if sc == nil {
		return
	}
	c.JoinedFork(rule+"/joined-fork", sc)
	// between RunRules and the stateful rules, the only goroutine starts are inside the validated helper
	g := c.ModGraph()
	pred := g.Reach([]*ssa.Function{r.RunRules}, nil)
	n := 0
	for f := range pred {
		if !prog.InModule(f) {
			continue
		}
		// only functions that can still reach a stateful rule matter
		sub := g.Reach([]*ssa.Function{f}, nil)
		reaches := false
		for _, e := range []*ssa.Function{s.Attest, s.AttestB, s.Propose} {
			if _, ok := sub[e]; ok {
				reaches = true
			}
		}
		if !reaches {
			continue
		}
		n++
		for _, b := range f.Blocks {
			for _, ins := range b.Instrs {
				switch x := ins.(type) {
				case *ssa.Go:
					if f != sc {
						c.R.Fail(rule, Fn(f), c.Pos(ins), "rule evaluation is handed to a goroutine outside the joined-fork helper: the caller may read verdicts (and sign) before the watermark is stored", "goroutines only inside the validated fork/join helper", nil)
					}
				case *ssa.Defer:
					if cal := x.Call.StaticCallee(); cal != nil {
						if _, ok := g.Reach([]*ssa.Function{cal}, nil)[s.StoreStore]; ok {
							c.R.Fail(rule, Fn(f), c.Pos(ins), "a store is deferred", "stores are plain calls", nil)
						}
					}
				}
			}
		}
	}
	c.R.Floor(rule, "functions between RunRules and the stateful rules", n, 3)
	c.R.OK(rule, Fn(r.RunRules), c.P.FuncPos(r.RunRules), fmt.Sprintf("%d functions lie between RunRules and the stateful rules; the only goroutine start among them is in the validated fork/join helper", n))
}

// ScatterIndexDiscipline (C08.O6 / C04.O8): inside every closure passed to util.Scatter each captured slice is read and
// written only at the induction variable of the worker loop, and no captured scalar is written.
func (c *Ctx) ScatterIndexDiscipline(prop string) {
	rule := "C08.O6 scatter.index-discipline"
	sc := c.ScatterHelper(rule)
	if sc == nil {
		return
	}
	n := 0
	for _, fn := range c.P.ModuleFuncs() {
		if prog.IsTestish(prog.PkgPathOf(fn)) {
			continue
		}
		for _, ci := range Calls(fn, func(ci ssa.CallInstruction) bool { return ci.Common().StaticCallee() == sc }) {
			mc, ok := ci.Common().Args[1].(*ssa.MakeClosure)
			if !ok {
				c.R.Unknown(rule, Fn(fn), c.Pos(ci), "the work function passed to Scatter is not a closure literal")
				continue
			}
			W := mc.Fn.(*ssa.Function)
			n++
			l, ok := scatterLoopIdx(W)
			if !ok {
				c.R.Fail(rule, Fn(W), c.P.FuncPos(W), "the worker is not of the form `for i := offset; i < offset+entries; i++`: it may touch positions that belong to other workers", "worker loop over [offset, offset+entries)", nil)
				continue
			}
			bad := 0
			for _, f := range WithClosures(W) {
				for _, b := range f.Blocks {
					for _, ins := range b.Instrs {
						switch x := ins.(type) {
						case *ssa.IndexAddr:
							// captured slice: root reached through a free-variable cell
							u, ok := x.X.(*ssa.UnOp)
							if !ok {
								continue
							}
							if _, isFV := u.X.(*ssa.FreeVar); !isFV {
								continue
							}
							if x.Index != l.Idx {
								// reads of immutable inputs with len-guards (len(pubKeys) > i) still use i; anything else is a violation
								bad++
								c.R.Fail(rule, Fn(W)+":"+an.Term(u.X), c.Pos(x), "a captured slice is indexed with "+an.Term(x.Index)+" instead of the worker's own loop variable: workers would read or write each other's positions", "captured slices only at [i]", nil)
							}
						case *ssa.Store:
							if fv, ok := x.Addr.(*ssa.FreeVar); ok {
								bad++
								c.R.Fail(rule, Fn(W)+":"+fv.Name(), c.Pos(x), "a captured variable is assigned from concurrent workers", "workers write only their own slice positions", nil)
							}
						}
					}
				}
			}
			// the loop must not be left early other than by return (break would skip positions): breaks are tolerated only when every skipped position keeps a non-approving default
			if bad == 0 {
				c.R.OK(rule, Fn(W), c.P.FuncPos(W), "captured slices are accessed only at the worker loop's own index; no captured scalar is written")
			}
		}
	}
	c.R.Floor(rule, "closures passed to Scatter", n, 6)
}

// RulerKeyAgreement (C04.O5, dispatch side): the public key in the metadata handed to the rules is the PubKey of the very
// rules-data entry whose Data is evaluated.
func (c *Ctx) RulerKeyAgreement(prop string) {
	rule := "C04.O5 key-agreement/metadata"
	r := c.Ruler(prop + ".anchors")
	if !r.OK() {
		return
	}
	n := 0
	for _, fn := range c.StaticReach(r.RunRules, 6) {
		for _, b := range fn.Blocks {
			for _, ins := range b.Instrs {
				st, ok := ins.(*ssa.Store)
				if !ok {
					continue
				}
				fa, ok := st.Addr.(*ssa.FieldAddr)
				if !ok || !namedIs(fa.X.Type(), pkgRules, "ReqMetadata") || fieldNameOf(fa) != "PubKey" {
					continue
				}
				n++
				// the value, resolved through the call chain from the scatter worker (helper parameters -> arguments), is the
				// PubKey of rulesData[i] at the worker's own index
				isRoot := func(f *ssa.Function) bool { _, ok := scatterLoopIdx(f); return ok }
				chains := c.Chains(fn, st, isRoot, 5)
				nchain := 0
				for _, ch := range chains {
					W := ch[0].Fn
					l, isWorker := scatterLoopIdx(W)
					if !isWorker {
						c.R.Unknown(rule, Fn(fn)+" via "+Fn(W), c.Pos(st), "rules metadata is built on a call chain that does not start in a scatter worker: the position it belongs to is not identified")
						nchain++
						continue
					}
					nchain++
					sub := ch[len(ch)-1].Sub
					v := sub.Res(st.Val)
					owner, f, base := an.FieldOf(v)
					if owner == nil || f != "PubKey" || !namedIs(owner, pkgRuler, "RulesData") {
						c.R.Fail(rule, Fn(fn), c.Pos(st), "the metadata's public key (which keys the watermark) is not the PubKey of the rules-data entry: "+an.Term(v), "metadata.PubKey = rulesData[i].PubKey", nil)
						continue
					}
					base = sub.Res(base)
					_, idx, ok := elemLoad(base)
					if !ok {
						c.R.Fail(rule, Fn(fn), c.Pos(st), "the metadata's public key is not taken from an element of the request list: "+an.Term(base), "metadata.PubKey = rulesData[i].PubKey", nil)
						continue
					}
					if l.Idx != idx {
						c.R.Fail(rule, Fn(fn), c.Pos(st), "the metadata's public key is taken from another position than the one being evaluated", "metadata.PubKey = rulesData[i].PubKey at the worker's own index", nil)
						continue
					}
					c.R.OK(rule, Fn(fn)+" via "+Fn(W), c.Pos(st), "metadata.PubKey = rulesData[i].PubKey at the worker's own index (the lock key and the database key derive from the same bytes)")
				}
				if nchain == 0 {
					c.R.Unknown(rule, Fn(fn), c.Pos(st), "metadata builder is not reached from a scatter worker below RunRules")
				}
			}
		}
	}
	c.R.Floor(rule, "constructions of rules metadata below RunRules", n, 1)
}
