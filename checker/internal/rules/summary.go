package rules

import (
	"dirkcheck/internal/an"
	"dirkcheck/internal/prog"
	"go/constant"
	"go/types"

	"golang.org/x/tools/go/ssa"
)

// Subst resolves callee parameters to the caller's argument values (P11).
type Subst map[ssa.Value]ssa.Value

// Res resolves v through the substitution (repeatedly).
func (s Subst) Res(v ssa.Value) ssa.Value {
	if s == nil {
		return v
	}
	for i := 0; i < 8; i++ {
		n, ok := s[v]
		if !ok {
			return v
		}
		v = n
	}
	return v
}

// resolveAtom rewrites the atom's values through the substitution.
func resolveAtom(a *an.Atom, s Subst) *an.Atom {
	if a == nil || len(s) == 0 {
		return a
	}
	b := *a
	b.LV, b.RV = deepRes(a.LV, s), deepRes(a.RV, s)
	return &b
}

// deepRes resolves a value; for conversions of a parameter it keeps the conversion node but callers that need the
// inner value use isConvOfRes.
func deepRes(v ssa.Value, s Subst) ssa.Value {
	if v == nil {
		return nil
	}
	return s.Res(v)
}

// AtomPred judges an atom whose values may have to be resolved through subst.
type AtomPred func(a *an.Atom, s Subst) bool

// WithSummaries lifts an atom predicate to edges: an edge is accepting if its atom satisfies pred directly, or if the
// atom is the (non-)truth of a call to a boolean module helper every `pos`-returning path of which passes an accepting
// edge (MustAtoms, depth <= 3).
func (c *Ctx) WithSummaries(pred AtomPred) func(b *ssa.BasicBlock, i int, a *an.Atom) bool {
	return c.WithSummariesFrom(Subst{}, pred)
}

// WithSummariesFrom is WithSummaries for a frame whose parameters are resolved by base.
func (c *Ctx) WithSummariesFrom(base Subst, pred AtomPred) func(b *ssa.BasicBlock, i int, a *an.Atom) bool {
	var judge func(a *an.Atom, s Subst, depth int) bool
	judge = func(a *an.Atom, s Subst, depth int) bool {
		if a == nil {
			return false
		}
		if pred(a, s) {
			return true
		}
		if depth >= 3 {
			return false
		}
		if a.Op == "==" && (isNilConst(a.LV) || isNilConst(a.RV)) {
			// [helper(...) err == nil]: accepting if every nil-error return of the helper is cut by accepting edges
			call, sites, _, ok := helperKSites(a)
			if !ok || len(sites) == 0 {
				return false
			}
			f := call.Call.StaticCallee()
			ns := Subst{}
			for kk, v := range s {
				ns[kk] = v
			}
			for i, p := range f.Params {
				if i < len(call.Call.Args) {
					ns[p] = s.Res(call.Call.Args[i])
				}
			}
			accept := func(b *ssa.BasicBlock, i int, e *an.Atom) bool { return judge(e, ns, depth+1) }
			for _, site := range sites {
				site := site
				if x, _ := an.Cut(an.CutQuery{From: an.Entry(f), Target: func(i ssa.Instruction) bool { return i == site }, AcceptEdge: accept}); x != nil {
					return false
				}
			}
			return true
		}
		if a.Op == "==" {
			// [helper(...) == K] for an enum-valued module helper: accepting if every origin of the constant K among the
			// helper's results lies in the helper itself and is cut there by accepting edges (parameters substituted).
			for _, side := range [][2]ssa.Value{{a.LV, a.RV}, {a.RV, a.LV}} {
				call, ok := s.Res(side[0]).(*ssa.Call)
				k, ok2 := side[1].(*ssa.Const)
				if !ok || !ok2 || k.Value == nil {
					continue
				}
				if k.Value.Kind() == constant.String {
					// [helper(...) == "<const>"] for a string-valued helper: every return of exactly that constant is cut
					if c.stringHelperCut(call, constant.StringVal(k.Value), s, func(ns Subst) func(b *ssa.BasicBlock, i int, e *an.Atom) bool {
						return func(b *ssa.BasicBlock, i int, e *an.Atom) bool { return judge(e, ns, depth+1) }
					}) {
						return true
					}
					continue
				}
				if k.Value.Kind() != constant.Int {
					continue
				}
				kv, exact := constant.Int64Val(k.Value)
				f := call.Call.StaticCallee()
				if !exact || f == nil || !prog.InModule(f) || f.Blocks == nil || f.Signature.Results().Len() != 1 || call.Call.IsInvoke() {
					continue
				}
				ns := Subst{}
				for kk, v := range s {
					ns[kk] = v
				}
				for i, p := range f.Params {
					if i < len(call.Call.Args) {
						ns[p] = s.Res(call.Call.Args[i])
					}
				}
				accept := func(b *ssa.BasicBlock, i int, e *an.Atom) bool { return judge(e, ns, depth+1) }
				any, bad := false, false
				for _, ret := range an.Returns(f) {
					for _, o := range ValueOrigins(an.Result(ret, 0), ret) {
						if o.Kind != "const" {
							bad = true
							continue
						}
						if o.Const != kv {
							continue
						}
						if o.Fn != f {
							bad = true
							continue
						}
						any = true
						site := o.Site
						if x, _ := an.Cut(an.CutQuery{From: an.Entry(f), Target: func(i ssa.Instruction) bool { return i == site }, AcceptEdge: accept}); x != nil {
							bad = true
						}
					}
				}
				if any && !bad {
					return true
				}
			}
			return false
		}
		if a.Op != "true" && a.Op != "false" {
			return false
		}
		ridx := 0
		call, ok := s.Res(a.LV).(*ssa.Call)
		if !ok {
			// a boolean component of a tuple result: (value, ok) := helper(...)
			ex, isEx := s.Res(a.LV).(*ssa.Extract)
			if !isEx {
				return false
			}
			c2, isCall := ex.Tuple.(*ssa.Call)
			if !isCall {
				return false
			}
			call, ridx = c2, ex.Index
		}
		f := call.Call.StaticCallee()
		if f == nil || !prog.InModule(f) || f.Blocks == nil || call.Call.IsInvoke() || ridx >= f.Signature.Results().Len() {
			return false
		}
		if _, isTuple := s.Res(a.LV).(*ssa.Extract); !isTuple && f.Signature.Results().Len() != 1 {
			return false
		}
		if b, isB := f.Signature.Results().At(ridx).Type().Underlying().(*types.Basic); !isB || b.Kind() != types.Bool {
			return false
		}
		want := a.Op == "true"
		ns := Subst{}
		for k, v := range s {
			ns[k] = v
		}
		for i, p := range f.Params {
			if i < len(call.Call.Args) {
				ns[p] = s.Res(call.Call.Args[i])
			}
		}
		accept := func(b *ssa.BasicBlock, i int, e *an.Atom) bool { return judge(e, ns, depth+1) }
		any := false
		for _, ret := range an.Returns(f) {
			if ridx >= len(ret.Results) {
				return false
			}
			v := an.Result(ret, ridx)
			type cand struct {
				v    ssa.Value
				site ssa.Instruction
			}
			var cands []cand
			if phi, ok := v.(*ssa.Phi); ok {
				for k, e := range phi.Edges {
					pred := phi.Block().Preds[k]
					cands = append(cands, cand{e, pred.Instrs[len(pred.Instrs)-1]})
				}
			} else {
				cands = append(cands, cand{v, ret})
			}
			for _, cd := range cands {
				if k, ok := cd.v.(*ssa.Const); ok {
					if an.Term(k) != map[bool]string{true: "true", false: "false"}[want] {
						continue
					}
					any = true
					site := cd.site
					if x, _ := an.Cut(an.CutQuery{From: an.Entry(f), Target: func(i ssa.Instruction) bool { return i == site }, AcceptEdge: accept}); x != nil {
						return false
					}
					continue
				}
				// `return cond`: the function yields `want` exactly when cond == want
				any = true
				if judge(an.CondAtom(cd.v, want), ns, depth+1) {
					continue
				}
				site := cd.site
				if x, _ := an.Cut(an.CutQuery{From: an.Entry(f), Target: func(i ssa.Instruction) bool { return i == site }, AcceptEdge: accept}); x != nil {
					return false
				}
			}
		}
		return any
	}
	return func(b *ssa.BasicBlock, i int, a *an.Atom) bool { return judge(a, base, 0) }
}

// ResVal is a value a helper can return, with the substitution that maps the helper's parameters to the call's arguments.
type ResVal struct {
	Val ssa.Value
	Sub Subst
	Ret *ssa.Return
}

// HelperResults looks through a value that is (a component of) the result of a static call of a module helper: it returns
// the non-nil values the helper can return in that position. ok=false if v is not such a value.
func HelperResults(v ssa.Value) (out []ResVal, ok bool) {
	idx := 0
	var call *ssa.Call
	switch x := v.(type) {
	case *ssa.Extract:
		c2, isCall := x.Tuple.(*ssa.Call)
		if !isCall {
			return nil, false
		}
		call, idx = c2, x.Index
	case *ssa.Call:
		call = x
	default:
		return nil, false
	}
	f := call.Call.StaticCallee()
	if f == nil || !prog.InModule(f) || f.Blocks == nil || call.Call.IsInvoke() {
		return nil, false
	}
	sub := Subst{}
	for i, p := range f.Params {
		if i < len(call.Call.Args) {
			sub[p] = call.Call.Args[i]
		}
	}
	for _, ret := range an.Returns(f) {
		if idx >= len(ret.Results) {
			return nil, false
		}
		r := an.Result(ret, idx)
		if k, isK := r.(*ssa.Const); isK && k.Value == nil {
			continue // nil
		}
		out = append(out, ResVal{Val: r, Sub: sub, Ret: ret})
	}
	return out, true
}

// stringHelperCut: every return of the string helper called by `call` that can yield the constant k is a constant return
// of k that is cut (in the helper) by accepting edges; any non-constant return makes the answer false.
func (c *Ctx) stringHelperCut(call *ssa.Call, k string, s Subst, acceptFor func(Subst) func(b *ssa.BasicBlock, i int, e *an.Atom) bool) bool {
	f := call.Call.StaticCallee()
	if f == nil || !prog.InModule(f) || f.Blocks == nil || f.Signature.Results().Len() != 1 || call.Call.IsInvoke() {
		return false
	}
	ns := Subst{}
	for kk, v := range s {
		ns[kk] = v
	}
	for i, p := range f.Params {
		if i < len(call.Call.Args) {
			ns[p] = s.Res(call.Call.Args[i])
		}
	}
	accept := acceptFor(ns)
	any := false
	for _, ret := range an.Returns(f) {
		v := an.Result(ret, 0)
		type cand struct {
			v    ssa.Value
			site ssa.Instruction
		}
		var cands []cand
		if phi, ok := v.(*ssa.Phi); ok {
			for j, e := range phi.Edges {
				pred := phi.Block().Preds[j]
				cands = append(cands, cand{e, pred.Instrs[len(pred.Instrs)-1]})
			}
		} else {
			cands = append(cands, cand{v, ret})
		}
		for _, cd := range cands {
			kc, ok := cd.v.(*ssa.Const)
			if !ok || kc.Value == nil || kc.Value.Kind() != constant.String {
				return false
			}
			if constant.StringVal(kc.Value) != k {
				continue
			}
			any = true
			site := cd.site
			if x, _ := an.Cut(an.CutQuery{From: an.Entry(f), Target: func(i ssa.Instruction) bool { return i == site }, AcceptEdge: accept}); x != nil {
				return false
			}
		}
	}
	return any
}

// HelperSuccessResults is HelperResults restricted to the helper's success returns (those whose error result is the nil
// constant), for helpers that have an error result; helpers without one yield all their returns.
func HelperSuccessResults(v ssa.Value) ([]ResVal, bool) {
	rvs, ok := HelperResults(v)
	if !ok {
		return nil, false
	}
	var out []ResVal
	for _, rv := range rvs {
		f := rv.Ret.Parent()
		k := errResultIndex(f)
		if k >= 0 {
			ev := an.Result(rv.Ret, k)
			// a return whose error is surely non-nil is a failure; one whose error value may be nil at run time counts as a
			// possible success
			if !isNilConst(unwrapErr(ev)) && errorSurelyNonNil(ev, rv.Ret, f) {
				continue
			}
		}
		out = append(out, rv)
	}
	return out, true
}
