package rules

import (
	"go/types"
	"sort"
	"strings"

	"dirkcheck/internal/an"
	"dirkcheck/internal/prog"

	"golang.org/x/tools/go/ssa"
)

// SameStore (C10.O6 same-store): every place in production code that configures the directory of the slashing-protection
// database passes the same expression. The directory is the argument of badger.DefaultOptions in the store constructor;
// it is followed back to the configuration field it is read from and to the option function that sets that field; all
// calls of that option function must agree (as canonical terms). Otherwise the import/export commands and the signing
// server work on different databases and an import that reports success protects nothing.
func (c *Ctx) SameStore(prop string) {
	rule := "C10.O6 same-store"
	s := c.Slashing(prop + ".anchors")
	if !s.OK() {
		return
	}
	pkgPath := s.Pkg.Pkg.Path()
	// 1. the store constructor: the function of the rules package that calls badger.DefaultOptions(<its string parameter>)
	var ctor *ssa.Function
	ctorParam := -1
	for _, fn := range c.P.ModuleFuncs() {
		if prog.PkgPathOf(fn) != pkgPath {
			continue
		}
		for _, ci := range Calls(fn, func(ci ssa.CallInstruction) bool { return IsCallTo(ci, pkgBadger+".DefaultOptions") }) {
			for k, q := range fn.Params {
				if ci.Common().Args[0] == ssa.Value(q) {
					ctor, ctorParam = fn, k
				}
			}
		}
	}
	if ctor == nil {
		c.R.Unknown(rule, pkgPath, "-", "no store constructor passing its own parameter to badger.DefaultOptions found")
		return
	}
	// 2. the configuration field given to the constructor (through helpers that hand their own parameter on)
	field := ""
	var ownerT types.Type
	for hop := 0; hop < 3; hop++ {
		moved := false
		for _, ci := range c.staticCallers()[ctor] {
			if ctorParam >= len(ci.Common().Args) {
				continue
			}
			if q, isParam := ci.Common().Args[ctorParam].(*ssa.Parameter); isParam && !moved {
				for k, qq := range ci.Parent().Params {
					if qq == q {
						ctor, ctorParam, moved = ci.Parent(), k, true
					}
				}
			}
		}
		if !moved {
			break
		}
	}
	for _, ci := range c.staticCallers()[ctor] {
		if ctorParam >= len(ci.Common().Args) {
			continue
		}
		owner, f, _ := an.FieldOf(ci.Common().Args[ctorParam])
		if owner == nil {
			c.R.Unknown(rule, Fn(ci.Parent()), c.Pos(ci), "the store directory is not read from a configuration field: "+an.Term(ci.Common().Args[ctorParam]))
			return
		}
		field, ownerT = f, owner
	}
	if field == "" {
		c.R.Unknown(rule, Fn(ctor), c.P.FuncPos(ctor), "the store constructor has no caller in the module")
		return
	}
	// 3. option functions: functions of the package whose closure stores one of their parameters into that field
	var opts []*ssa.Function
	for _, fn := range c.P.ModuleFuncs() {
		if prog.PkgPathOf(fn) != pkgPath || fn.Parent() == nil {
			continue
		}
		for _, b := range fn.Blocks {
			for _, ins := range b.Instrs {
				st, ok := ins.(*ssa.Store)
				if !ok {
					continue
				}
				fa, ok := st.Addr.(*ssa.FieldAddr)
				if !ok || fieldNameOf(fa) != field || !types.Identical(derefT(fa.X.Type()), derefT(ownerT)) {
					continue
				}
				opts = append(opts, fn.Parent())
			}
		}
	}
	optArg := 0
	if len(opts) == 0 {
		// value-typed options: `type pathOption string; func (v pathOption) apply(p *parameters) { p.field = string(v) }` and
		// `func WithPath(path string) Option { return pathOption(path) }`
		var optType types.Type
		for _, fn := range c.P.ModuleFuncs() {
			if prog.PkgPathOf(fn) != pkgPath || fn.Signature.Recv() == nil || fn.Blocks == nil {
				continue
			}
			for _, b := range fn.Blocks {
				for _, ins := range b.Instrs {
					st, ok := ins.(*ssa.Store)
					if !ok {
						continue
					}
					fa, ok := st.Addr.(*ssa.FieldAddr)
					if !ok || fieldNameOf(fa) != field || !types.Identical(derefT(fa.X.Type()), derefT(ownerT)) {
						continue
					}
					if an.StripConv(stripConvert(st.Val)) == ssa.Value(fn.Params[0]) {
						optType = fn.Params[0].Type()
					}
				}
			}
		}
		if optType != nil {
			for _, fn := range c.P.ModuleFuncs() {
				if prog.PkgPathOf(fn) != pkgPath || fn.Blocks == nil || fn.Signature.Recv() != nil {
					continue
				}
				for _, ret := range an.Returns(fn) {
					if len(ret.Results) != 1 {
						continue
					}
					mi, ok := an.Result(ret, 0).(*ssa.MakeInterface)
					if !ok || !types.Identical(mi.X.Type(), optType) {
						continue
					}
					v := stripConvert(mi.X)
					for k, q := range fn.Params {
						if v == ssa.Value(q) {
							opts = append(opts, fn)
							optArg = k
						}
					}
				}
			}
		}
	}
	if len(opts) != 1 {
		c.R.Unknown(rule, pkgPath, "-", "expected one option function setting the store directory")
		return
	}
	opt := opts[0]
	// 4. all production calls of the option function agree
	terms := map[string][]ssa.CallInstruction{}
	for _, ci := range c.staticCallers()[opt] {
		if prog.IsTestish(prog.PkgPathOf(ci.Parent())) || len(ci.Common().Args) <= optArg {
			continue
		}
		t := an.Term(ci.Common().Args[optArg])
		terms[t] = append(terms[t], ci)
	}
	n := 0
	var keys []string
	for t, cs := range terms {
		n += len(cs)
		keys = append(keys, t)
	}
	sort.Strings(keys)
	c.R.Floor(rule, "places that configure the store directory", n, 1)
	if len(keys) > 1 {
		for _, t := range keys[1:] {
			ci := terms[t][0]
			c.R.Fail(rule, Fn(ci.Parent()), c.Pos(ci), "the slashing-protection database is opened on different directory expressions in different places: "+strings.Join(keys, "  vs  ")+" (the import/export commands and the server must see the same database)", "one expression for the store directory everywhere", nil)
		}
		return
	}
	if len(keys) == 1 {
		c.R.OK(rule, Fn(opt), c.P.FuncPos(opt), "every place that configures the store directory passes "+keys[0])
	}
	// 5. the directory does not depend on where the process was started: the expression is the result of a module resolver
	// every return of which is its argument below [filepath.IsAbs(argument)], or filepath.Join(anchor, ...) with the anchor a
	// configured value known to be non-empty or the user's home directory obtained without error. A relative directory is
	// resolved against the working directory by the operating system: a restart from another directory then opens an empty
	// database and every earlier signature is forgotten.
	rule7 := "C03.O7 store.location-anchored"
	na := 0
	for _, t := range keys {
		for _, ci := range terms[t] {
			na++
			v := an.StripConv(ci.Common().Args[optArg])
			call, isCall := v.(*ssa.Call)
			if !isCall || call.Call.IsInvoke() || call.Call.StaticCallee() == nil || !prog.InModule(call.Call.StaticCallee()) || call.Call.StaticCallee().Blocks == nil {
				c.R.Fail(rule7, Fn(ci.Parent()), c.Pos(ci), "the store directory is not passed through the module's path resolver: "+an.Term(v), "an absolute directory: resolver(configured path)", nil)
				continue
			}
			R := call.Call.StaticCallee()
			if why, pos := c.anchoredResolver(R); why != "" {
				c.R.Fail(rule7, Fn(R), pos, why, "every result is the argument below [filepath.IsAbs(argument)] or filepath.Join(<non-empty configured base | home directory>, ...)", nil)
			} else {
				c.R.OK(rule7, Fn(R), c.P.FuncPos(R), "every result of the resolver is absolute: the argument below [IsAbs], or joined onto a non-empty configured base or the home directory")
			}
		}
	}
	c.R.Floor(rule7, "store directory expressions", na, 1)
}

// anchoredResolver validates a path resolver (see SameStore step 5); returns "" or the reason and its position.
func (c *Ctx) anchoredResolver(R *ssa.Function) (string, string) {
	if len(R.Params) == 0 {
		return "the resolver has no argument", c.P.FuncPos(R)
	}
	emptyStr := func(v ssa.Value) bool { k, ok := v.(*ssa.Const); return ok && an.Term(k) == `""` }
	nonEmptyAtom := func(a *an.Atom, g ssa.Value) bool {
		if a == nil || a.Op != "!=" {
			return false
		}
		return (a.LV == g && emptyStr(a.RV)) || (a.RV == g && emptyStr(a.LV))
	}
	isHome := func(v ssa.Value) (*ssa.Call, bool) {
		ex, ok := v.(*ssa.Extract)
		if !ok || ex.Index != 0 {
			return nil, false
		}
		call, ok := ex.Tuple.(*ssa.Call)
		if !ok || call.Call.StaticCallee() == nil {
			return nil, false
		}
		switch call.Call.StaticCallee().String() {
		case "github.com/mitchellh/go-homedir.Dir", "os.UserHomeDir":
			return call, true
		}
		return nil, false
	}
	isConfigured := func(v ssa.Value) bool {
		call, ok := v.(*ssa.Call)
		return ok && call.Call.StaticCallee() != nil && call.Call.StaticCallee().String() == "github.com/spf13/viper.GetString"
	}
	// anchor base used at instruction `use`; viaEdge (pred block, succ index) is the CFG edge through which the value flows when it
	// comes out of a phi
	var anchored func(base ssa.Value, use ssa.Instruction, pred *ssa.BasicBlock, si int, depth int) string
	anchored = func(base ssa.Value, use ssa.Instruction, pred *ssa.BasicBlock, si int, depth int) string {
		if depth > 4 {
			return "the base directory is not understood"
		}
		if phi, ok := base.(*ssa.Phi); ok {
			for i, e := range phi.Edges {
				pb := phi.Block().Preds[i]
				k := 0
				for j, sx := range pb.Succs {
					if sx == phi.Block() {
						k = j
					}
				}
				if why := anchored(e, use, pb, k, depth+1); why != "" {
					return why
				}
			}
			return ""
		}
		if call, ok := isHome(base); ok {
			errV := ssa.Value(nil)
			for _, r := range *call.Referrers() {
				if ex, ok := r.(*ssa.Extract); ok && ex.Index == 1 {
					errV = ex
				}
			}
			if errV == nil {
				return "the home directory is used although its lookup may have failed (an empty base makes the result relative)"
			}
			x, _ := an.Cut(an.CutQuery{From: an.After(call), Target: func(i ssa.Instruction) bool { return i == use },
				AcceptEdge: func(b *ssa.BasicBlock, i int, a *an.Atom) bool {
					return a != nil && a.Op == "==" && ((a.LV == errV && isNilConst(a.RV)) || (a.RV == errV && isNilConst(a.LV)))
				}})
			if x != nil {
				return "the home directory is used although its lookup may have failed (an empty base makes the result relative)"
			}
			return ""
		}
		if isConfigured(base) {
			if pred != nil {
				if nonEmptyAtom(an.EdgeAtom(pred, si), base) {
					return ""
				}
			}
			x, _ := an.Cut(an.CutQuery{From: an.After(base.(ssa.Instruction)), Target: func(i ssa.Instruction) bool { return i == use },
				AcceptEdge: func(b *ssa.BasicBlock, i int, a *an.Atom) bool { return nonEmptyAtom(a, base) }})
			if x != nil && pred == nil {
				return "the configured base directory may be empty where it is used (an empty base makes the result relative)"
			}
			if x != nil {
				return "the configured base directory may be empty where it is chosen (an empty base makes the result relative)"
			}
			return ""
		}
		// a module helper computing the base: each of its results is judged inside it
		if hc, ok := base.(*ssa.Call); ok && !hc.Call.IsInvoke() && hc.Call.StaticCallee() != nil && prog.InModule(hc.Call.StaticCallee()) && hc.Call.StaticCallee().Blocks != nil {
			h := hc.Call.StaticCallee()
			for _, ret := range an.Returns(h) {
				if len(ret.Results) == 0 {
					continue
				}
				if why := anchored(an.StripConv(an.Result(ret, 0)), ret, nil, 0, depth+1); why != "" {
					return why
				}
			}
			return ""
		}
		return "the result is joined onto something other than a configured base directory or the home directory: " + an.Term(base)
	}
	p := ssa.Value(R.Params[len(R.Params)-1])
	isAbsEdge := func(b *ssa.BasicBlock, i int, a *an.Atom) bool {
		if a == nil || a.Op != "true" {
			return false
		}
		call, ok := isCallToName(a.LV, "path/filepath.IsAbs")
		return ok && call.Call.Args[0] == p
	}
	// judge one result value; for a value flowing out of a phi, (pred, si) is the edge it arrives through
	var judge func(v ssa.Value, at ssa.Instruction, pred *ssa.BasicBlock, si int, depth int) (string, string)
	judge = func(v ssa.Value, at ssa.Instruction, pred *ssa.BasicBlock, si int, depth int) (string, string) {
		v = an.StripConv(v)
		if cl, ok := isCallToName(v, "path/filepath.Clean"); ok {
			v = cl.Call.Args[0]
		}
		if phi, ok := v.(*ssa.Phi); ok && depth < 3 {
			for i, e := range phi.Edges {
				pb := phi.Block().Preds[i]
				k := 0
				for j, sx := range pb.Succs {
					if sx == phi.Block() {
						k = j
					}
				}
				if why, pos := judge(e, at, pb, k, depth+1); why != "" {
					return why, pos
				}
			}
			return "", ""
		}
		if v == p {
			if pred != nil {
				if isAbsEdge(pred, si, an.EdgeAtom(pred, si)) {
					return "", ""
				}
				target := pred.Instrs[len(pred.Instrs)-1]
				if x, _ := an.Cut(an.CutQuery{From: an.Entry(R), Target: func(i ssa.Instruction) bool { return i == target }, AcceptEdge: isAbsEdge}); x != nil {
					return "the resolver can return its argument unchanged although it is not absolute", c.Pos(at)
				}
				return "", ""
			}
			if x, _ := an.Cut(an.CutQuery{From: an.Entry(R), Target: func(i ssa.Instruction) bool { return i == at }, AcceptEdge: isAbsEdge}); x != nil {
				return "the resolver can return its argument unchanged although it is not absolute", c.Pos(at)
			}
			return "", ""
		}
		join, ok := isCallToName(v, "path/filepath.Join")
		if !ok {
			return "a result of the resolver is neither its absolute argument nor filepath.Join(base, ...): " + an.Term(v), c.Pos(at)
		}
		parts := varargValues(join.Call.Args[0])
		if len(parts) == 0 {
			return "the parts joined by the resolver are not understood", c.Pos(join)
		}
		if why := anchored(an.StripConv(parts[0]), join, nil, 0, 0); why != "" {
			return why, c.Pos(join)
		}
		return "", ""
	}
	for _, ret := range an.Returns(R) {
		if len(ret.Results) == 0 {
			continue
		}
		if why, pos := judge(an.Result(ret, 0), ret, nil, 0, 0); why != "" {
			return why, pos
		}
	}
	return "", ""
}

func derefT(t types.Type) types.Type {
	if p, ok := t.(*types.Pointer); ok {
		return p.Elem()
	}
	return t
}

func stripConvert(v ssa.Value) ssa.Value {
	for {
		switch x := v.(type) {
		case *ssa.Convert:
			v = x.X
		case *ssa.ChangeType:
			v = x.X
		default:
			return v
		}
	}
}
