package rules

import (
	"go/types"
	"sort"
	"strings"

	"dirkcheck/internal/an"
	"dirkcheck/internal/prog"

	"golang.org/x/tools/go/ssa"
)

// SameStore (C10.O6 same-store): every place in production code that configures the directory of the slashing-protection
// database passes the same expression. The directory is the argument of badger.DefaultOptions in the store constructor;
// it is followed back to the configuration field it is read from and to the option function that sets that field; all
// calls of that option function must agree (as canonical terms). Otherwise the import/export commands and the signing
// server work on different databases and an import that reports success protects nothing.
func (c *Ctx) SameStore(prop string) {
	rule := "C10.O6 same-store"
	s := c.Slashing(prop + ".anchors")
	if !s.OK() {
		return
	}
	pkgPath := s.Pkg.Pkg.Path()
	// 1. the store constructor: the function of the rules package that calls badger.DefaultOptions(<its string parameter>)
	var ctor *ssa.Function
	ctorParam := -1
	for _, fn := range c.P.ModuleFuncs() {
		if prog.PkgPathOf(fn) != pkgPath {
			continue
		}
		for _, ci := range Calls(fn, func(ci ssa.CallInstruction) bool { return IsCallTo(ci, pkgBadger+".DefaultOptions") }) {
			for k, q := range fn.Params {
				if ci.Common().Args[0] == ssa.Value(q) {
					ctor, ctorParam = fn, k
				}
			}
		}
	}
	if ctor == nil {
		c.R.Unknown(rule, pkgPath, "-", "no store constructor passing its own parameter to badger.DefaultOptions found")
		return
	}
	// 2. the configuration field given to the constructor (through helpers that hand their own parameter on)
	field := ""
	var ownerT types.Type
	for hop := 0; hop < 3; hop++ {
		moved := false
		for _, ci := range c.staticCallers()[ctor] {
			if ctorParam >= len(ci.Common().Args) {
				continue
			}
			if q, isParam := ci.Common().Args[ctorParam].(*ssa.Parameter); isParam && !moved {
				for k, qq := range ci.Parent().Params {
					if qq == q {
						ctor, ctorParam, moved = ci.Parent(), k, true
					}
				}
			}
		}
		if !moved {
			break
		}
	}
	for _, ci := range c.staticCallers()[ctor] {
		if ctorParam >= len(ci.Common().Args) {
			continue
		}
		owner, f, _ := an.FieldOf(ci.Common().Args[ctorParam])
		if owner == nil {
			c.R.Unknown(rule, Fn(ci.Parent()), c.Pos(ci), "the store directory is not read from a configuration field: "+an.Term(ci.Common().Args[ctorParam]))
			return
		}
		field, ownerT = f, owner
	}
	if field == "" {
		c.R.Unknown(rule, Fn(ctor), c.P.FuncPos(ctor), "the store constructor has no caller in the module")
		return
	}
	// 3. option functions: functions of the package whose closure stores one of their parameters into that field
	var opts []*ssa.Function
	for _, fn := range c.P.ModuleFuncs() {
		if prog.PkgPathOf(fn) != pkgPath || fn.Parent() == nil {
			continue
		}
		for _, b := range fn.Blocks {
			for _, ins := range b.Instrs {
				st, ok := ins.(*ssa.Store)
				if !ok {
					continue
				}
				fa, ok := st.Addr.(*ssa.FieldAddr)
				if !ok || fieldNameOf(fa) != field || !types.Identical(derefT(fa.X.Type()), derefT(ownerT)) {
					continue
				}
				opts = append(opts, fn.Parent())
			}
		}
	}
	optArg := 0
	if len(opts) == 0 {
		// value-typed options: `type pathOption string; func (v pathOption) apply(p *parameters) { p.field = string(v) }` and
		// `func WithPath(path string) Option { return pathOption(path) }`
		var optType types.Type
		for _, fn := range c.P.ModuleFuncs() {
			if prog.PkgPathOf(fn) != pkgPath || fn.Signature.Recv() == nil || fn.Blocks == nil {
				continue
			}
			for _, b := range fn.Blocks {
				for _, ins := range b.Instrs {
					st, ok := ins.(*ssa.Store)
					if !ok {
						continue
					}
					fa, ok := st.Addr.(*ssa.FieldAddr)
					if !ok || fieldNameOf(fa) != field || !types.Identical(derefT(fa.X.Type()), derefT(ownerT)) {
						continue
					}
					if an.StripConv(stripConvert(st.Val)) == ssa.Value(fn.Params[0]) {
						optType = fn.Params[0].Type()
					}
				}
			}
		}
		if optType != nil {
			for _, fn := range c.P.ModuleFuncs() {
				if prog.PkgPathOf(fn) != pkgPath || fn.Blocks == nil || fn.Signature.Recv() != nil {
					continue
				}
				for _, ret := range an.Returns(fn) {
					if len(ret.Results) != 1 {
						continue
					}
					mi, ok := an.Result(ret, 0).(*ssa.MakeInterface)
					if !ok || !types.Identical(mi.X.Type(), optType) {
						continue
					}
					v := stripConvert(mi.X)
					for k, q := range fn.Params {
						if v == ssa.Value(q) {
							opts = append(opts, fn)
							optArg = k
						}
					}
				}
			}
		}
	}
	if len(opts) != 1 {
		c.R.Unknown(rule, pkgPath, "-", "expected one option function setting the store directory")
		return
	}
	opt := opts[0]
	// 4. all production calls of the option function agree
	terms := map[string][]ssa.CallInstruction{}
	for _, ci := range c.staticCallers()[opt] {
		if prog.IsTestish(prog.PkgPathOf(ci.Parent())) || len(ci.Common().Args) <= optArg {
			continue
		}
		t := an.Term(ci.Common().Args[optArg])
		terms[t] = append(terms[t], ci)
	}
	n := 0
	var keys []string
	for t, cs := range terms {
		n += len(cs)
		keys = append(keys, t)
	}
	sort.Strings(keys)
	c.R.Floor(rule, "places that configure the store directory", n, 1)
	if len(keys) > 1 {
		for _, t := range keys[1:] {
			ci := terms[t][0]
			c.R.Fail(rule, Fn(ci.Parent()), c.Pos(ci), "the slashing-protection database is opened on different directory expressions in different places: "+strings.Join(keys, "  vs  ")+" (the import/export commands and the server must see the same database)", "one expression for the store directory everywhere", nil)
		}
		return
	}
	if len(keys) == 1 {
		c.R.OK(rule, Fn(opt), c.P.FuncPos(opt), "every place that configures the store directory passes "+keys[0])
	}
}

func derefT(t types.Type) types.Type {
	if p, ok := t.(*types.Pointer); ok {
		return p.Elem()
	}
	return t
}

func stripConvert(v ssa.Value) ssa.Value {
	for {
		switch x := v.(type) {
		case *ssa.Convert:
			v = x.X
		case *ssa.ChangeType:
			v = x.X
		default:
			return v
		}
	}
}
