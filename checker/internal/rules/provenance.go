package rules

import (
	"fmt"
	"go/constant"
	"go/token"
	"go/types"
	"strings"

	"dirkcheck/internal/an"
	"dirkcheck/internal/prog"

	"golang.org/x/tools/go/ssa"
)

// keyBuild analyses how the []byte database key `key` (an argument of a store call in fn) was assembled.
// Accepted form: key = make([]byte, len(pk)+len(G)); copy(key, pk); copy(key[len(pk):], G)
// It returns the public-key source value and the action global.
func keyBuild(fn *ssa.Function, key ssa.Value) (pk ssa.Value, action *ssa.Global, why string) {
	pk, av, why := keyBuildVal(fn, key, 0)
	if why != "" {
		return nil, nil, why
	}
	ld, ok := av.(*ssa.UnOp)
	if !ok {
		return nil, nil, "key suffix is not a load of a package-level action value"
	}
	g, ok := ld.X.(*ssa.Global)
	if !ok {
		return nil, nil, "key suffix is not a load of a package-level action value"
	}
	return pk, g, ""
}

// keyBuildVal returns the prefix and suffix values of the key in fn's frame; a key produced by a module helper
// (single return of a freshly assembled key) is followed into the helper and its parameters are mapped back to the
// call's arguments.
func keyBuildVal(fn *ssa.Function, key ssa.Value, depth int) (pk ssa.Value, suffix ssa.Value, why string) {
	root := sliceRootExact(key)
	if call, ok := root.(*ssa.Call); ok && depth < 3 {
		callee := call.Call.StaticCallee()
		if callee != nil && callee.Blocks != nil && prog.InModule(callee) && !call.Call.IsInvoke() {
			rets := an.Returns(callee)
			if len(rets) == 1 && len(rets[0].Results) == 1 {
				p2, s2, why := keyBuildVal(callee, an.Result(rets[0], 0), depth+1)
				if why != "" {
					return nil, nil, why
				}
				mapBack := func(v ssa.Value) ssa.Value {
					if q, ok := v.(*ssa.Parameter); ok {
						for i, qq := range callee.Params {
							if qq == q && i < len(call.Call.Args) {
								return call.Call.Args[i]
							}
						}
					}
					return v
				}
				if _, isParam := p2.(*ssa.Parameter); !isParam {
					return nil, nil, "the key helper does not build the key from its own parameter: " + an.Term(p2)
				}
				return mapBack(p2), mapBack(s2), ""
			}
		}
	}
	if p2, s2, ok := keyAppendForm(root); ok {
		return p2, s2, ""
	}
	mk, ok := root.(*ssa.MakeSlice)
	if !ok {
		return nil, nil, "key is not a freshly made slice: " + an.Term(key)
	}
	return keyBuildOfVal(fn, mk, func(v ssa.Value) bool { return sliceRootExact(v) == ssa.Value(mk) }, func(v ssa.Value) bool { return sliceRoot(v) == ssa.Value(mk) })
}

// keyAppendForm recognises key = append(append(empty, prefix...), suffix...) where empty is a zero-length make
// (any capacity) or a nil slice; the intermediate slices are used by nothing else and the key's bytes are not
// written afterwards, so the key is prefix || suffix.
func keyAppendForm(root ssa.Value) (prefix, suffix ssa.Value, ok bool) {
	appendOf := func(v ssa.Value) (base, tail ssa.Value, ok bool) {
		call, isCall := v.(*ssa.Call)
		if !isCall || !isBuiltin(call, "append") || len(call.Call.Args) != 2 {
			return nil, nil, false
		}
		if _, isSlice := call.Call.Args[1].Type().Underlying().(*types.Slice); !isSlice {
			return nil, nil, false
		}
		return call.Call.Args[0], call.Call.Args[1], true
	}
	soleUse := func(v ssa.Value) bool {
		n := 0
		for _, r := range *v.Referrers() {
			if _, dbg := r.(*ssa.DebugRef); !dbg {
				n++
			}
		}
		return n == 1
	}
	mid, suf, ok1 := appendOf(root)
	if !ok1 {
		return nil, nil, false
	}
	empty, pre, ok2 := appendOf(mid)
	if !ok2 || !soleUse(mid) {
		return nil, nil, false
	}
	switch e := empty.(type) {
	case *ssa.MakeSlice:
		c, isConst := e.Len.(*ssa.Const)
		if !isConst || c.Value == nil || c.Int64() != 0 || !soleUse(e) {
			return nil, nil, false
		}
	case *ssa.Const:
		if !e.IsNil() {
			return nil, nil, false
		}
	default:
		return nil, nil, false
	}
	// the finished key is stored or handed on, never written into or extended
	for _, r := range *root.Referrers() {
		switch x := r.(type) {
		case *ssa.DebugRef:
		case *ssa.Store:
			if x.Val != root {
				return nil, nil, false
			}
		case ssa.CallInstruction:
			if _, isB := x.Common().Value.(*ssa.Builtin); isB {
				if b := x.Common().Value.(*ssa.Builtin); b.Name() != "len" {
					return nil, nil, false
				}
			}
		default:
			return nil, nil, false
		}
	}
	return pre, suf, true
}

// keyBuildOf is keyBuild for a key identified by predicates: isKey(v) - v is the whole key; inKey(v) - v aliases (part of) the key.
func keyBuildOf(fn *ssa.Function, mk *ssa.MakeSlice, isKey, inKey func(ssa.Value) bool) (pk ssa.Value, action *ssa.Global, why string) {
	pk, av, why := keyBuildOfVal(fn, mk, isKey, inKey)
	if why != "" {
		return nil, nil, why
	}
	if ld, ok := av.(*ssa.UnOp); ok {
		if g, ok := ld.X.(*ssa.Global); ok {
			return pk, g, ""
		}
	}
	return nil, nil, "key suffix is not a load of a package-level action value"
}

func keyBuildOfVal(fn *ssa.Function, mk *ssa.MakeSlice, isKey, inKey func(ssa.Value) bool) (pk ssa.Value, action ssa.Value, why string) {
	var prefix ssa.Value
	var suffix ssa.Value
	var suffixLow ssa.Value
	n := 0
	isActionVal := func(v ssa.Value) bool {
		if ld, ok := v.(*ssa.UnOp); ok {
			_, isG := ld.X.(*ssa.Global)
			return isG
		}
		_, isP := v.(*ssa.Parameter)
		return isP
	}
	sameAction := func(a, b ssa.Value) bool {
		if a == b {
			return true
		}
		la, ok1 := a.(*ssa.UnOp)
		lb, ok2 := b.(*ssa.UnOp)
		if ok1 && ok2 {
			ga, ok1 := la.X.(*ssa.Global)
			gb, ok2 := lb.X.(*ssa.Global)
			return ok1 && ok2 && ga == gb
		}
		return false
	}
	for _, b := range fn.Blocks {
		for _, ins := range b.Instrs {
			call, ok := ins.(*ssa.Call)
			if !ok {
				continue
			}
			bi, ok := call.Call.Value.(*ssa.Builtin)
			if !ok || bi.Name() != "copy" {
				continue
			}
			dst, src := call.Call.Args[0], call.Call.Args[1]
			if !inKey(dst) {
				continue
			}
			n++
			if sl, ok := dst.(*ssa.Slice); ok && sl.Low != nil {
				if sl.High != nil {
					return nil, nil, "key suffix copy has an upper bound"
				}
				if !isKey(sl.X) {
					return nil, nil, "unrecognised copy into the key"
				}
				suffixLow = sl.Low
				if !isActionVal(src) {
					return nil, nil, "key suffix is not a load of a package-level action value"
				}
				suffix = src
			} else if isKey(dst) {
				prefix = src
			} else {
				return nil, nil, "unrecognised copy into the key"
			}
		}
	}
	// other writes into the key (element stores) are not accepted
	for _, b := range fn.Blocks {
		for _, ins := range b.Instrs {
			if st, ok := ins.(*ssa.Store); ok {
				if ia, ok := st.Addr.(*ssa.IndexAddr); ok && inKey(ia.X) {
					return nil, nil, "key bytes are also written individually"
				}
			}
		}
	}
	if n != 2 || prefix == nil || suffix == nil {
		return nil, nil, fmt.Sprintf("expected exactly copy(key, pubKey) and copy(key[len(pubKey):], action); found %d copies", n)
	}
	// suffix offset must be len(prefix)
	lc, ok := suffixLow.(*ssa.Call)
	if !ok || !isBuiltin(lc, "len") || !sameValue(lc.Call.Args[0], prefix) {
		return nil, nil, "the action suffix is not placed at offset len(pubKey)"
	}
	// length = len(prefix) + len(G)
	sum, ok := mk.Len.(*ssa.BinOp)
	if !ok || sum.Op != token.ADD {
		return nil, nil, "key length is not len(pubKey)+len(action)"
	}
	l1, ok1 := sum.X.(*ssa.Call)
	l2, ok2 := sum.Y.(*ssa.Call)
	if !ok1 || !ok2 || !isBuiltin(l1, "len") || !isBuiltin(l2, "len") {
		return nil, nil, "key length is not len(pubKey)+len(action)"
	}
	okLen := (sameValue(l1.Call.Args[0], prefix) && sameAction(l2.Call.Args[0], suffix)) || (sameValue(l2.Call.Args[0], prefix) && sameAction(l1.Call.Args[0], suffix))
	if !okLen {
		return nil, nil, "key length is not len(pubKey)+len(action)"
	}
	return prefix, suffix, ""
}

func isBuiltin(c *ssa.Call, name string) bool {
	b, ok := c.Call.Value.(*ssa.Builtin)
	return ok && b.Name() == name
}

func isLoadOfGlobal(v ssa.Value, g *ssa.Global) bool {
	u, ok := v.(*ssa.UnOp)
	return ok && u.Op == token.MUL && u.X == ssa.Value(g)
}

// sameValue compares two SSA values structurally for the simple forms used in key building:
// identical values, or loads of the same element X[i] with identical index value, or equal terms of parameters.
func sameValue(a, b ssa.Value) bool {
	if a == b {
		return true
	}
	ua, ok1 := a.(*ssa.UnOp)
	ub, ok2 := b.(*ssa.UnOp)
	if ok1 && ok2 && ua.Op == token.MUL && ub.Op == token.MUL {
		ia, ok1 := ua.X.(*ssa.IndexAddr)
		ib, ok2 := ub.X.(*ssa.IndexAddr)
		if ok1 && ok2 {
			return sliceRootExact(ia.X) == sliceRootExact(ib.X) && ia.Index == ib.Index
		}
		fa, ok1 := ua.X.(*ssa.FieldAddr)
		fb, ok2 := ub.X.(*ssa.FieldAddr)
		if ok1 && ok2 {
			return fa.Field == fb.Field && sameValue(fa.X, fb.X)
		}
	}
	return false
}

// globalInitBytes returns the constant bytes a []byte global is initialised with in the package init (nil if not a constant literal).
func (c *Ctx) globalInitBytes(g *ssa.Global) ([]byte, bool) {
	initFn := g.Pkg.Func("init")
	if initFn == nil {
		return nil, false
	}
	// pattern: t = new [N]byte (slicelit); &t[i] = c ... ; slice t[:] ; *G = slice
	var arr *ssa.Alloc
	nstores := 0
	for _, b := range initFn.Blocks {
		for _, ins := range b.Instrs {
			st, ok := ins.(*ssa.Store)
			if !ok || st.Addr != ssa.Value(g) {
				continue
			}
			nstores++
			sl, ok := st.Val.(*ssa.Slice)
			if !ok {
				return nil, false
			}
			arr, _ = sl.X.(*ssa.Alloc)
		}
	}
	if nstores != 1 || arr == nil {
		return nil, false
	}
	at, ok := arr.Type().(*types.Pointer).Elem().Underlying().(*types.Array)
	if !ok {
		return nil, false
	}
	out := make([]byte, at.Len())
	for _, r := range *arr.Referrers() {
		ia, ok := r.(*ssa.IndexAddr)
		if !ok {
			continue
		}
		idx, ok := ia.Index.(*ssa.Const)
		if !ok {
			return nil, false
		}
		i, _ := constant.Int64Val(idx.Value)
		for _, r2 := range *ia.Referrers() {
			if st, ok := r2.(*ssa.Store); ok {
				k, ok := st.Val.(*ssa.Const)
				if !ok {
					return nil, false
				}
				v, _ := constant.Int64Val(k.Value)
				out[i] = byte(v)
			}
		}
	}
	return out, true
}

// globalWrittenOutsideInit reports stores to global g outside its package init.
func (c *Ctx) globalWrittenOutsideInit(g *ssa.Global) []ssa.Instruction {
	var out []ssa.Instruction
	for _, fn := range c.P.ModuleFuncs() {
		if fn.Name() == "init" && fn.Pkg == g.Pkg {
			continue
		}
		for _, b := range fn.Blocks {
			for _, ins := range b.Instrs {
				switch x := ins.(type) {
				case *ssa.Store:
					if x.Addr == ssa.Value(g) {
						out = append(out, ins)
					}
					// element write through a load of the global slice
					if ia, ok := x.Addr.(*ssa.IndexAddr); ok && isLoadOfGlobal(sliceRoot(ia.X), g) {
						out = append(out, ins)
					}
				case *ssa.Call:
					if isBuiltin(x, "copy") && isLoadOfGlobal(sliceRoot(x.Call.Args[0]), g) {
						out = append(out, ins)
					}
				}
			}
		}
	}
	return out
}

// fetchHelpers returns functions in the rules implementation package returning (*State, error) that call Store.Fetch,
// directly or through one inner package helper (which itself does not return a state).
func (c *Ctx) fetchHelpers(s *Slashing, state *types.Named) []*ssa.Function {
	var out []*ssa.Function
	for _, fn := range c.P.ModuleFuncs() {
		if prog.PkgPathOf(fn) != s.Pkg.Pkg.Path() || fn.Blocks == nil {
			continue
		}
		res := fn.Signature.Results()
		if res.Len() != 2 || !isErrorType(res.At(1).Type()) {
			continue
		}
		pt, ok := res.At(0).Type().(*types.Pointer)
		if !ok || !types.Identical(pt.Elem(), state) {
			continue
		}
		if fs := c.fetchSiteOf(s, fn); fs != nil {
			out = append(out, fn)
		}
	}
	return out
}

// fetchSite describes how a fetch helper reaches the store's Fetch.
type fetchSite struct {
	Call      ssa.CallInstruction // the call in the helper: Store.Fetch itself, or the inner helper
	Inner     *ssa.Function       // nil if the helper calls Fetch directly
	FetchCall ssa.CallInstruction // the Store.Fetch call (in the helper or in Inner)
}

func (c *Ctx) fetchSiteOf(s *Slashing, fn *ssa.Function) *fetchSite {
	direct := Calls(fn, func(ci ssa.CallInstruction) bool { return ci.Common().StaticCallee() == s.StoreFetch })
	if len(direct) > 0 {
		return &fetchSite{Call: direct[0], FetchCall: direct[0]}
	}
	for _, ci := range Calls(fn, func(ci ssa.CallInstruction) bool {
		g := ci.Common().StaticCallee()
		return g != nil && g.Blocks != nil && !ci.Common().IsInvoke() && prog.PkgPathOf(g) == s.Pkg.Pkg.Path() && g != fn
	}) {
		g := ci.Common().StaticCallee()
		if r := g.Signature.Results(); r.Len() >= 1 {
			if _, isPtr := r.At(0).Type().(*types.Pointer); isPtr {
				continue // another state-returning helper: analysed on its own
			}
		}
		inner := Calls(g, func(c2 ssa.CallInstruction) bool { return c2.Common().StaticCallee() == s.StoreFetch })
		if len(inner) == 1 {
			return &fetchSite{Call: ci, Inner: g, FetchCall: inner[0]}
		}
	}
	return nil
}

// fetchKey returns the public-key value (in the helper's frame) and the action global of the key the helper fetches under.
func (c *Ctx) fetchKey(s *Slashing, fn *ssa.Function) (pk ssa.Value, action *ssa.Global, why string) {
	fs := c.fetchSiteOf(s, fn)
	if fs == nil {
		return nil, nil, "no fetch"
	}
	if fs.Inner == nil {
		return keyBuild(fn, fs.FetchCall.Common().Args[2])
	}
	p2, a2, why := keyBuildVal(fs.Inner, fs.FetchCall.Common().Args[2], 0)
	if why != "" {
		return nil, nil, why
	}
	mapBack := func(v ssa.Value) ssa.Value {
		if q, ok := v.(*ssa.Parameter); ok {
			for i, qq := range fs.Inner.Params {
				if qq == q && i < len(fs.Call.Common().Args) {
					return fs.Call.Common().Args[i]
				}
			}
		}
		return v
	}
	if _, isParam := p2.(*ssa.Parameter); !isParam {
		return nil, nil, "the inner fetch helper does not build the key from its own parameter"
	}
	pkv, av := mapBack(p2), mapBack(a2)
	ld, ok := av.(*ssa.UnOp)
	if !ok {
		return nil, nil, "key suffix is not a load of a package-level action value"
	}
	g, ok := ld.X.(*ssa.Global)
	if !ok {
		return nil, nil, "key suffix is not a load of a package-level action value"
	}
	return pkv, g, ""
}

// FetchHelperRules: C06.O5 rules.errors / C11.O4 -1 convention / C01.O9 key for the fetch helpers of one kind.
// Returns the action global used, for cross-checks.
func (c *Ctx) FetchHelperRules(prop string, s *Slashing, kind string) *ssa.Global {
	rule := "C06.O5 rules.errors"
	ruleKey := homeProp(kind) + ".O9 key"
	state := s.AttState
	if kind == "prop" {
		state = s.PropState
	}
	fhs := c.fetchHelpers(s, state)
	c.R.Floor(rule, "fetch helpers ("+kind+")", len(fhs), 1)
	var action *ssa.Global
	for _, fn := range fhs {
		var adapter *ssa.Call // call of a raw fetch adapter G(ctx, pubKey, action) (data, found, err) in fn
		var adFound ssa.Value
		if fs := c.fetchSiteOf(s, fn); fs != nil && fs.Inner != nil && fs.Inner.Signature.Results().Len() == 3 {
			if ac, ok := fs.Call.(*ssa.Call); ok {
				adapter = ac
			}
		}
		if fs := c.fetchSiteOf(s, fn); adapter == nil && fs != nil && fs.Inner != nil {
			if g := c.fetchHelperTwoLevel(prop, s, kind, state, fn, fs); g != nil {
				if action != nil && action != g {
					c.R.Fail(ruleKey, Fn(fn)+":action", c.Pos(fs.Call), "fetch helpers of one kind use different action values", "one action per record kind", nil)
				}
				action = g
			}
			continue
		}
		fetchCalls := Calls(fn, func(ci ssa.CallInstruction) bool { return ci.Common().StaticCallee() == s.StoreFetch })
		if adapter != nil {
			fetchCalls = []ssa.CallInstruction{adapter}
		}
		if len(fetchCalls) != 1 {
			c.R.Unknown(rule, Fn(fn), c.P.FuncPos(fn), "fetch helper calls the store's Fetch more than once")
			continue
		}
		fc := fetchCalls[0]
		// key
		var pk ssa.Value
		var g *ssa.Global
		var why string
		adNotFound := ""
		if adapter != nil {
			var okA bool
			pk, g, adNotFound, okA = c.fetchAdapter(rule, s, adapter)
			if !okA {
				continue
			}
		} else {
			pk, g, why = keyBuild(fn, fc.Common().Args[2])
		}
		if why != "" {
			c.R.Fail(ruleKey, Fn(fn), c.Pos(fc), "database key: "+why, "key = pubKey || action", nil)
		} else if p, ok := pk.(*ssa.Parameter); !ok || p.Parent() != fn {
			c.R.Fail(ruleKey, Fn(fn), c.Pos(fc), "the key prefix is not the helper's public-key parameter: "+an.Term(pk), "key = pubKey parameter || action", nil)
		} else {
			c.R.OK(ruleKey, Fn(fn), c.Pos(fc), "key = "+an.Term(pk)+" || "+g.Name())
			if action != nil && action != g {
				c.R.Fail(ruleKey, Fn(fn)+":action", c.Pos(fc), "fetch helpers of one kind use different action values", "one action per record kind", nil)
			}
			action = g
		}
		// error discipline
		var fetchErr, fetchData ssa.Value
		for _, r := range *fc.Value().Referrers() {
			if ex, ok := r.(*ssa.Extract); ok {
				switch {
				case adapter != nil && ex.Index == 2, adapter == nil && ex.Index == 1:
					fetchErr = ex
				case adapter != nil && ex.Index == 1:
					adFound = ex
				case ex.Index == 0:
					fetchData = ex
				}
			}
		}
		if fetchErr == nil || (adapter != nil && adFound == nil) {
			c.R.Fail(rule, Fn(fn), c.Pos(fc), "the error result of Fetch is discarded", "fetch error is examined", nil)
			continue
		}
		// decode calls: method on the state type taking the fetched data
		var decodeErrs = map[ssa.Value]bool{}
		var decodeCalls []ssa.CallInstruction
		for _, ci := range Calls(fn, func(ci ssa.CallInstruction) bool {
			f := ci.Common().StaticCallee()
			if f == nil || f.Signature.Recv() == nil || errResultIndex(f) < 0 {
				return false
			}
			rt := f.Signature.Recv().Type()
			if p, ok := rt.(*types.Pointer); ok {
				rt = p.Elem()
			}
			return types.Identical(rt, state)
		}) {
			decodeCalls = append(decodeCalls, ci)
			for _, e := range errValuesOfCall(ci) {
				decodeErrs[e] = true
			}
		}
		if len(decodeCalls) != 1 {
			c.R.Unknown(rule, Fn(fn)+":decode", c.P.FuncPos(fn), fmt.Sprintf("expected exactly one decode call on the state, found %d", len(decodeCalls)))
			continue
		}
		dc := decodeCalls[0]
		if len(dc.Common().Args) != 2 || dc.Common().Args[1] != fetchData {
			c.R.Fail(rule, Fn(fn)+":decode", c.Pos(dc), "the record decoded is not the data returned by Fetch", "Decode(data from Fetch)", nil)
		}
		// decode only under fetchErr == nil
		ferrs := map[ssa.Value]bool{fetchErr: true}
		if x, path := an.Cut(an.CutQuery{From: an.Entry(fn), Target: func(i ssa.Instruction) bool { return i == dc.(ssa.Instruction) },
			AcceptEdge: func(b *ssa.BasicBlock, i int, a *an.Atom) bool { return errNilAtom(a, ferrs) }}); x != nil {
			c.R.Fail(rule, Fn(fn)+":decode", c.Pos(dc), "the record is decoded although Fetch failed", "Decode only below [fetch err == nil]", an.PathString(c.Pos, path))
		}
		// "not found" atom: fetchErr.Error() == <const string>
		notFoundStr := adNotFound
		isNotFound := func(a *an.Atom) bool {
			// adapter form: the adapter reported found == false (judged together with [adapter err == nil], below)
			if adapter != nil && a != nil && a.Op == "false" && a.LV == adFound {
				return true
			}
			if a == nil || a.Op != "==" {
				return false
			}
			for _, side := range [][2]ssa.Value{{a.LV, a.RV}, {a.RV, a.LV}} {
				call, ok := side[0].(*ssa.Call)
				if !ok || !call.Call.IsInvoke() || call.Call.Method.Name() != "Error" || call.Call.Value != fetchErr {
					continue
				}
				k, ok := side[1].(*ssa.Const)
				if ok && k.Value != nil && k.Value.Kind() == constant.String {
					notFoundStr = constant.StringVal(k.Value)
					return true
				}
				// errors.Is form is handled below
			}
			return false
		}
		isNotFoundIs := func(a *an.Atom) bool {
			if a == nil || a.Op != "true" {
				return false
			}
			call, ok := a.LV.(*ssa.Call)
			if !ok {
				return false
			}
			f := call.Call.StaticCallee()
			if f == nil || (f.String() != "errors.Is" && f.String() != "github.com/pkg/errors.Is") {
				return false
			}
			return unwrapErr(call.Call.Args[0]) == fetchErr
		}
		// adapter form: found and data mean something only when the adapter's error is nil
		needsErrNil := func(target ssa.Instruction) bool {
			if adapter == nil {
				return true
			}
			x, _ := an.Cut(an.CutQuery{From: an.Entry(fn), Target: func(i ssa.Instruction) bool { return i == target },
				AcceptEdge: func(b *ssa.BasicBlock, i int, a *an.Atom) bool { return errNilAtom(a, ferrs) }})
			return x == nil
		}
		if adapter != nil {
			if x, path := an.Cut(an.CutQuery{From: an.Entry(fn), Target: func(i ssa.Instruction) bool { return i == dc.(ssa.Instruction) },
				AcceptEdge: func(b *ssa.BasicBlock, i int, a *an.Atom) bool { return a != nil && a.Op == "true" && a.LV == adFound }}); x != nil {
				c.R.Fail(rule, Fn(fn)+":decode", c.Pos(dc), "the record is decoded although the fetch adapter did not report a record", "Decode only below [found]", an.PathString(c.Pos, path))
			}
		}
		// nil-error returns are cut by {decode err == nil} or {not found}
		nbad := 0
		for _, ret := range an.Returns(fn) {
			ev := unwrapErr(an.Result(ret, 1))
			if !isNilConst(ev) {
				// must be known non-nil: fetchErr under != nil, or Wrap(decodeErr) under != nil
				continue
			}
			target := ssa.Instruction(ret)
			if !needsErrNil(target) {
				nbad++
				c.R.Fail(rule, Fn(fn), c.Pos(ret), "the helper can report success although the fetch adapter returned an error", "nil error only past [adapter err == nil]", nil)
				continue
			}
			if x, path := an.Cut(an.CutQuery{From: an.Entry(fn), Target: func(i ssa.Instruction) bool { return i == target },
				AcceptEdge: func(b *ssa.BasicBlock, i int, a *an.Atom) bool {
					return errNilAtom(a, decodeErrs) || isNotFound(a) || isNotFoundIs(a)
				}}); x != nil {
				nbad++
				c.R.Fail(rule, Fn(fn), c.Pos(ret), "the helper can report success without a decoded record and without a definite 'not found'", "nil error only after [decode err == nil] or below [fetch err is 'not found']", an.PathString(c.Pos, path))
			}
		}
		if nbad == 0 {
			c.R.OK(rule, Fn(fn), c.P.FuncPos(fn), "nil error only after a successful decode of the fetched record, or below the 'not found' edge")
		}
		// -1 convention: stores into the state in this helper are exactly: -1 to every field, each only below the not-found edge
		rule4 := "C11.O4 none-is-minus-one"
		st := state.Underlying().(*types.Struct)
		got := map[string]bool{}
		for _, fs := range c.stateFieldStores(s) {
			if fs.Fn != fn {
				continue
			}
			if fs.Val == nil || !an.IsConstInt(fs.Val, -1) {
				c.R.Fail(rule4, Fn(fn)+":"+fs.Field, c.Pos(fs.Store), "the fetch helper writes something other than -1 into the state: "+termOrZero(fs.Val), "only the 'none' marker -1, below the not-found edge", nil)
				continue
			}
			target := ssa.Instruction(fs.Store)
			if !needsErrNil(target) {
				c.R.Fail(rule4, Fn(fn)+":"+fs.Field, c.Pos(fs.Store), "the none marker is written although the fetch adapter returned an error (any failure would then read as nothing signed)", "-1 only past [adapter err == nil] and [not found]", nil)
				continue
			}
			if x, path := an.Cut(an.CutQuery{From: an.Entry(fn), Target: func(i ssa.Instruction) bool { return i == target },
				AcceptEdge: func(b *ssa.BasicBlock, i int, a *an.Atom) bool { return isNotFound(a) || isNotFoundIs(a) }}); x != nil {
				c.R.Fail(rule4, Fn(fn)+":"+fs.Field, c.Pos(fs.Store), "the 'none' marker is written on a path other than 'record not found' (any other failure would then read as 'nothing signed')", "-1 only below the not-found edge", an.PathString(c.Pos, path))
				continue
			}
			got[fs.Field] = true
		}
		missing := []string{}
		for i := 0; i < st.NumFields(); i++ {
			if !got[st.Field(i).Name()] {
				missing = append(missing, st.Field(i).Name())
			}
		}
		if len(missing) > 0 {
			c.R.Fail(rule4, Fn(fn), c.P.FuncPos(fn), "when no record exists these state fields are not set to -1: "+strings.Join(missing, ","), "every field = -1 when the record is not found", nil)
		} else {
			c.R.OK(rule4, Fn(fn), c.P.FuncPos(fn), "every state field is set to -1 exactly on the not-found path")
		}
		// the not-found string must be produced by the store only for badger.ErrKeyNotFound
		if notFoundStr != "" {
			c.notFoundProducer(prop, s, notFoundStr)
		}
		// returned state is the decoded/initialised object
		for _, ret := range an.Returns(fn) {
			if isNilConst(unwrapErr(an.Result(ret, 1))) {
				rv := an.Result(ret, 0)
				if rv != dc.Common().Args[0] {
					c.R.Fail(rule, Fn(fn)+":result", c.Pos(ret), "the state returned is not the object that was decoded", "return the decoded state", nil)
				}
			}
		}
	}
	return action
}

// fetchAdapter validates a raw fetch adapter G(ctx, pubKey, action) (data []byte, found bool, err error) called at `call`:
// G fetches under pubKey || action; it returns (the fetched data, true, nil) only below [fetch err == nil], (_, false, nil)
// only below the not-found test of the fetch error, and every other return carries an error that is known non-nil there.
// It returns the key prefix and action in the caller's frame and the not-found text G compares with.
func (c *Ctx) fetchAdapter(rule string, s *Slashing, call *ssa.Call) (pk ssa.Value, g *ssa.Global, notFound string, ok bool) {
	G := call.Call.StaticCallee()
	res := G.Signature.Results()
	if res.Len() != 3 || !isErrorType(res.At(2).Type()) {
		c.R.Unknown(rule, Fn(G), c.P.FuncPos(G), "the fetch adapter does not return (data, found, error)")
		return nil, nil, "", false
	}
	fcs := Calls(G, func(ci ssa.CallInstruction) bool { return ci.Common().StaticCallee() == s.StoreFetch })
	if len(fcs) != 1 {
		c.R.Unknown(rule, Fn(G), c.P.FuncPos(G), "the fetch adapter does not call the store's Fetch exactly once")
		return nil, nil, "", false
	}
	fc := fcs[0]
	pre, suf, why := keyBuildVal(G, fc.Common().Args[2], 0)
	if why != "" {
		c.R.Fail(rule, Fn(G), c.Pos(fc), "database key: "+why, "key = pubKey || action", nil)
		return nil, nil, "", false
	}
	argOf := func(v ssa.Value) ssa.Value {
		for k, q := range G.Params {
			if ssa.Value(q) == v && k < len(call.Call.Args) {
				return call.Call.Args[k]
			}
		}
		return nil
	}
	pk = argOf(pre)
	act := argOf(suf)
	if pk == nil || act == nil || globalOfLoad(act) == nil {
		c.R.Fail(rule, Fn(G), c.Pos(fc), "the fetch adapter's key is not built from its public-key and action parameters, or the action given is not a package-level action value", "key = pubKey || action", nil)
		return nil, nil, "", false
	}
	g = globalOfLoad(act)
	var fetchErr, fetchData ssa.Value
	for _, r := range *fc.Value().Referrers() {
		if ex, isEx := r.(*ssa.Extract); isEx {
			if ex.Index == 1 {
				fetchErr = ex
			} else {
				fetchData = ex
			}
		}
	}
	if fetchErr == nil {
		c.R.Fail(rule, Fn(G), c.Pos(fc), "the error result of Fetch is discarded", "fetch error is examined", nil)
		return nil, nil, "", false
	}
	ferrs := map[ssa.Value]bool{fetchErr: true}
	isNotFound := func(a *an.Atom) bool {
		if a == nil {
			return false
		}
		if a.Op == "==" {
			for _, side := range [][2]ssa.Value{{a.LV, a.RV}, {a.RV, a.LV}} {
				ec, isCall := side[0].(*ssa.Call)
				if !isCall || !ec.Call.IsInvoke() || ec.Call.Method.Name() != "Error" || ec.Call.Value != fetchErr {
					continue
				}
				if k, isK := side[1].(*ssa.Const); isK && k.Value != nil && k.Value.Kind() == constant.String {
					notFound = constant.StringVal(k.Value)
					return true
				}
			}
		}
		if a.Op == "true" {
			if ec, isCall := a.LV.(*ssa.Call); isCall {
				if f := ec.Call.StaticCallee(); f != nil && (f.String() == "errors.Is" || f.String() == "github.com/pkg/errors.Is") {
					return unwrapErr(ec.Call.Args[0]) == fetchErr
				}
			}
		}
		return false
	}
	good := true
	for _, ret := range an.Returns(G) {
		target := ssa.Instruction(ret)
		ev := an.Result(ret, 2)
		if isNilConst(unwrapErr(ev)) {
			fk, isK := an.Result(ret, 1).(*ssa.Const)
			if !isK {
				good = false
				c.R.Unknown(rule, Fn(G), c.Pos(ret), "the fetch adapter returns a computed 'found' value")
				continue
			}
			accept := isNotFound
			if an.Term(fk) == "true" {
				accept = func(a *an.Atom) bool { return errNilAtom(a, ferrs) }
				if an.Result(ret, 0) != fetchData {
					good = false
					c.R.Fail(rule, Fn(G), c.Pos(ret), "the data the fetch adapter hands back as found is not the data returned by Fetch", "return data from Fetch, true, nil", nil)
					continue
				}
			}
			if x, path := an.Cut(an.CutQuery{From: an.Entry(G), Target: func(i ssa.Instruction) bool { return i == target },
				AcceptEdge: func(b *ssa.BasicBlock, i int, a *an.Atom) bool { return accept(a) }}); x != nil {
				good = false
				c.R.Fail(rule, Fn(G), c.Pos(ret), "the fetch adapter can report (found="+an.Term(fk)+", no error) without a fetched record / without a definite 'not found'", "(data, true, nil) only below [fetch err == nil]; (nil, false, nil) only below [fetch err is 'not found']", an.PathString(c.Pos, path))
			}
			continue
		}
		if !errorSurelyNonNil(ev, ret, G) {
			good = false
			c.R.Fail(rule, Fn(G), c.Pos(ret), "the fetch adapter returns an error value that may be nil on a failure path (the caller would read 'no error, not found' = 'nothing signed yet')", "failure returns carry a non-nil error", nil)
		}
	}
	if good {
		c.R.OK(rule, Fn(G), c.P.FuncPos(G), "fetch adapter: (data, true, nil) only below [fetch err == nil]; (nil, false, nil) only below the not-found test; other returns carry a non-nil error")
	}
	return pk, g, notFound, good
}

// fetchHelperTwoLevel: the obligations of FetchHelperRules for a helper H that owns the state object and delegates
// fetch+decode to an inner helper G(ctx, pubKey, action, decoder) (found bool, err error):
//
//	G: key = pubKey || action; Decode(data of Fetch) on its decoder parameter only below [fetch err == nil];
//	   (true, nil) only past [decode err == nil]; (false, nil) only below the not-found edge; every other return carries an
//	   error value that is known non-nil where it is returned;
//	H: passes its own state object as decoder; writes -1 into every field exactly below [found == false]; nil error only
//	   past [G err == nil]; returns that state object.
func (c *Ctx) fetchHelperTwoLevel(prop string, s *Slashing, kind string, state *types.Named, H *ssa.Function, fs *fetchSite) *ssa.Global {
	rule := "C06.O5 rules.errors"
	ruleKey := homeProp(kind) + ".O9 key"
	rule4 := "C11.O4 none-is-minus-one"
	G := fs.Inner
	hc := fs.Call
	fc := fs.FetchCall
	// ---- key
	pk, g, why := c.fetchKey(s, H)
	if why != "" {
		c.R.Fail(ruleKey, Fn(H), c.Pos(hc), "database key: "+why, "key = pubKey || action", nil)
		return nil
	}
	if p, ok := pk.(*ssa.Parameter); !ok || p.Parent() != H {
		c.R.Fail(ruleKey, Fn(H), c.Pos(hc), "the key prefix is not the helper's public-key parameter: "+an.Term(pk), "key = pubKey parameter || action", nil)
		return nil
	}
	c.R.OK(ruleKey, Fn(H), c.Pos(hc), "key = "+an.Term(pk)+" || "+g.Name()+" (built in "+Fn(G)+")")
	// ---- G's shape
	if r := G.Signature.Results(); r.Len() != 2 || !isErrorType(r.At(1).Type()) {
		c.R.Unknown(rule, Fn(G), c.P.FuncPos(G), "the inner fetch helper does not return (found, error)")
		return g
	}
	var fetchErr, fetchData ssa.Value
	for _, r := range *fc.Value().Referrers() {
		if ex, ok := r.(*ssa.Extract); ok {
			if ex.Index == 1 {
				fetchErr = ex
			} else {
				fetchData = ex
			}
		}
	}
	if fetchErr == nil {
		c.R.Fail(rule, Fn(G), c.Pos(fc), "the error result of Fetch is discarded", "fetch error is examined", nil)
		return g
	}
	// decode: an invoke of Decode(data) on a parameter of G
	var dc ssa.CallInstruction
	nd := 0
	for _, ci := range Calls(G, func(ci ssa.CallInstruction) bool {
		cc := ci.Common()
		if cc.IsInvoke() {
			return cc.Method.Name() == "Decode"
		}
		f := cc.StaticCallee()
		return f != nil && f.Name() == "Decode" && f.Signature.Recv() != nil
	}) {
		dc = ci
		nd++
	}
	if nd != 1 {
		c.R.Unknown(rule, Fn(G)+":decode", c.P.FuncPos(G), fmt.Sprintf("expected exactly one decode call in the inner fetch helper, found %d", nd))
		return g
	}
	var decRecv, decData ssa.Value
	if dc.Common().IsInvoke() {
		decRecv = dc.Common().Value
		if len(dc.Common().Args) == 1 {
			decData = dc.Common().Args[0]
		}
	} else if len(dc.Common().Args) == 2 {
		decRecv, decData = dc.Common().Args[0], dc.Common().Args[1]
	}
	dp, isParam := decRecv.(*ssa.Parameter)
	if !isParam || decData != fetchData {
		c.R.Fail(rule, Fn(G)+":decode", c.Pos(dc), "the record decoded is not the data returned by Fetch, or not decoded into the caller's object", "decoder.Decode(data from Fetch)", nil)
		return g
	}
	decodeErrs := map[ssa.Value]bool{}
	for _, e := range errValuesOfCall(dc) {
		decodeErrs[e] = true
	}
	ferrs := map[ssa.Value]bool{fetchErr: true}
	if x, path := an.Cut(an.CutQuery{From: an.Entry(G), Target: func(i ssa.Instruction) bool { return i == dc.(ssa.Instruction) },
		AcceptEdge: func(b *ssa.BasicBlock, i int, a *an.Atom) bool { return errNilAtom(a, ferrs) }}); x != nil {
		c.R.Fail(rule, Fn(G)+":decode", c.Pos(dc), "the record is decoded although Fetch failed", "Decode only below [fetch err == nil]", an.PathString(c.Pos, path))
	}
	notFoundStr := ""
	isNotFound := func(a *an.Atom) bool {
		if a == nil {
			return false
		}
		if a.Op == "==" {
			for _, side := range [][2]ssa.Value{{a.LV, a.RV}, {a.RV, a.LV}} {
				call, ok := side[0].(*ssa.Call)
				if !ok || !call.Call.IsInvoke() || call.Call.Method.Name() != "Error" || call.Call.Value != fetchErr {
					continue
				}
				if k, ok := side[1].(*ssa.Const); ok && k.Value != nil && k.Value.Kind() == constant.String {
					notFoundStr = constant.StringVal(k.Value)
					return true
				}
			}
		}
		if a.Op == "true" {
			if call, ok := a.LV.(*ssa.Call); ok {
				if f := call.Call.StaticCallee(); f != nil && (f.String() == "errors.Is" || f.String() == "github.com/pkg/errors.Is") {
					return unwrapErr(call.Call.Args[0]) == fetchErr
				}
			}
		}
		return false
	}
	errNonNil := func(a *an.Atom, e ssa.Value) bool {
		if a == nil || a.Op != "!=" {
			return false
		}
		return (a.LV == e && isNilConst(a.RV)) || (a.RV == e && isNilConst(a.LV))
	}
	badG := 0
	for _, ret := range an.Returns(G) {
		target := ssa.Instruction(ret)
		ev := an.Result(ret, 1)
		found := an.Result(ret, 0)
		fk, isK := found.(*ssa.Const)
		if !isK {
			badG++
			c.R.Unknown(rule, Fn(G), c.Pos(ret), "the inner fetch helper returns a computed 'found' value")
			continue
		}
		if isNilConst(unwrapErr(ev)) {
			// success returns
			var accept func(a *an.Atom) bool
			if an.Term(fk) == "true" {
				accept = func(a *an.Atom) bool { return errNilAtom(a, decodeErrs) }
			} else {
				accept = isNotFound
			}
			if x, path := an.Cut(an.CutQuery{From: an.Entry(G), Target: func(i ssa.Instruction) bool { return i == target },
				AcceptEdge: func(b *ssa.BasicBlock, i int, a *an.Atom) bool { return accept(a) }}); x != nil {
				badG++
				c.R.Fail(rule, Fn(G), c.Pos(ret), "the inner fetch helper can report (found="+an.Term(fk)+", no error) without a decoded record / without a definite 'not found'", "(true, nil) only past [decode err == nil]; (false, nil) only below [fetch err is 'not found']", an.PathString(c.Pos, path))
			}
			continue
		}
		// failure returns: the error value must be known non-nil here (a wrapped nil error is nil: the caller would read
		// 'no error, not found' = 'nothing signed yet')
		inner := unwrapErr(ev)
		fresh := false
		for k := 0; k < 4; k++ {
			call, ok := inner.(*ssa.Call)
			if !ok || call.Call.StaticCallee() == nil {
				break
			}
			name := call.Call.StaticCallee().String()
			if name == "fmt.Errorf" || name == "errors.New" || name == "github.com/pkg/errors.New" || name == "github.com/pkg/errors.Errorf" {
				fresh = true
				break
			}
			if (name == "github.com/pkg/errors.Wrap" || name == "github.com/pkg/errors.Wrapf" || name == "github.com/pkg/errors.WithStack" || name == "github.com/pkg/errors.WithMessage") && len(call.Call.Args) > 0 {
				inner = unwrapErr(call.Call.Args[0]) // Wrap(e) is nil exactly when e is
				continue
			}
			break
		}
		if fresh {
			continue
		}
		if an.Term(fk) == "true" {
			badG++
			c.R.Fail(rule, Fn(G), c.Pos(ret), "the inner fetch helper reports found together with an error", "found only on success", nil)
			continue
		}
		if x, path := an.Cut(an.CutQuery{From: an.Entry(G), Target: func(i ssa.Instruction) bool { return i == target },
			AcceptEdge: func(b *ssa.BasicBlock, i int, a *an.Atom) bool { return errNonNil(a, inner) }}); x != nil {
			badG++
			c.R.Fail(rule, Fn(G), c.Pos(ret), "a failure return of the inner fetch helper carries an error value that is not known to be non-nil there ("+an.Term(inner)+"): wrapped nil is nil, and the caller then reads 'no record' = 'nothing signed yet'", "failure returns carry the error that was tested non-nil", an.PathString(c.Pos, path))
		}
	}
	if badG == 0 {
		c.R.OK(rule, Fn(G), c.P.FuncPos(G), "(true, nil) only past a successful decode of the fetched record; (false, nil) only below the 'not found' edge; failures carry a non-nil error")
	}
	if notFoundStr != "" {
		c.notFoundProducer(prop, s, notFoundStr)
	}
	// ---- H
	// the decoder handed to G is H's own fresh state object
	var decArg ssa.Value
	for i, q := range G.Params {
		if q == dp && i < len(hc.Common().Args) {
			decArg = hc.Common().Args[i]
		}
	}
	if mi, ok := decArg.(*ssa.MakeInterface); ok {
		decArg = mi.X
	}
	stObj, isAlloc := decArg.(*ssa.Alloc)
	if !isAlloc || namedOf(stObj.Type()) != state {
		c.R.Fail(rule, Fn(H)+":decode", c.Pos(hc), "the object handed to the inner fetch helper for decoding is not a fresh state of this kind: "+an.Term(decArg), "decode into the state object that is returned", nil)
		return g
	}
	var foundV ssa.Value
	herrs := map[ssa.Value]bool{}
	for _, r := range *hc.Value().Referrers() {
		if ex, ok := r.(*ssa.Extract); ok {
			if ex.Index == 0 {
				foundV = ex
			} else {
				herrs[ex] = true
			}
		}
	}
	nbad := 0
	for _, ret := range an.Returns(H) {
		if !isNilConst(unwrapErr(an.Result(ret, 1))) {
			continue
		}
		target := ssa.Instruction(ret)
		if x, path := an.Cut(an.CutQuery{From: an.Entry(H), Target: func(i ssa.Instruction) bool { return i == target },
			AcceptEdge: func(b *ssa.BasicBlock, i int, a *an.Atom) bool { return errNilAtom(a, herrs) }}); x != nil {
			nbad++
			c.R.Fail(rule, Fn(H), c.Pos(ret), "the helper can report success although the fetch/decode helper failed", "nil error only past ["+Fn(G)+" err == nil]", an.PathString(c.Pos, path))
		}
		if an.Result(ret, 0) != ssa.Value(stObj) {
			nbad++
			c.R.Fail(rule, Fn(H)+":result", c.Pos(ret), "the state returned is not the object that was decoded", "return the decoded state", nil)
		}
	}
	if nbad == 0 {
		c.R.OK(rule, Fn(H), c.P.FuncPos(H), "nil error only past the nil-error edge of "+Fn(G)+"; returns the object that was decoded")
	}
	// -1 exactly below [found == false]
	st := state.Underlying().(*types.Struct)
	got := map[string]bool{}
	for _, fsr := range c.stateFieldStores(s) {
		if fsr.Fn == G {
			c.R.Fail(rule4, Fn(G)+":"+fsr.Field, c.Pos(fsr.Store), "the inner fetch helper writes state fields itself", "only Decode and the owner's -1 initialisation write the state", nil)
			continue
		}
		if fsr.Fn != H {
			continue
		}
		if fsr.Val == nil || !an.IsConstInt(fsr.Val, -1) {
			c.R.Fail(rule4, Fn(H)+":"+fsr.Field, c.Pos(fsr.Store), "the fetch helper writes something other than -1 into the state: "+termOrZero(fsr.Val), "only the 'none' marker -1, below [found == false]", nil)
			continue
		}
		target := ssa.Instruction(fsr.Store)
		if x, path := an.Cut(an.CutQuery{From: an.Entry(H), Target: func(i ssa.Instruction) bool { return i == target },
			AcceptEdge: func(b *ssa.BasicBlock, i int, a *an.Atom) bool { return a != nil && a.Op == "false" && a.LV == foundV }}); x != nil {
			c.R.Fail(rule4, Fn(H)+":"+fsr.Field, c.Pos(fsr.Store), "the 'none' marker is written on a path other than 'record not found' (any other failure would then read as 'nothing signed')", "-1 only below [found == false]", an.PathString(c.Pos, path))
			continue
		}
		if x, _ := an.Cut(an.CutQuery{From: an.Entry(H), Target: func(i ssa.Instruction) bool { return i == target },
			AcceptEdge: func(b *ssa.BasicBlock, i int, a *an.Atom) bool { return errNilAtom(a, herrs) }}); x != nil {
			c.R.Fail(rule4, Fn(H)+":"+fsr.Field, c.Pos(fsr.Store), "the 'none' marker is written although the fetch helper reported an error", "-1 only past [err == nil]", nil)
			continue
		}
		got[fsr.Field] = true
	}
	var missing []string
	for i := 0; i < st.NumFields(); i++ {
		if !got[st.Field(i).Name()] {
			missing = append(missing, st.Field(i).Name())
		}
	}
	if len(missing) > 0 {
		c.R.Fail(rule4, Fn(H), c.P.FuncPos(H), "when no record exists these state fields are not set to -1: "+strings.Join(missing, ","), "every field = -1 when the record is not found", nil)
	} else {
		c.R.OK(rule4, Fn(H), c.P.FuncPos(H), "every state field is set to -1 exactly on the not-found path")
	}
	return g
}

// notFoundProducer: inside Store.Fetch (and its closures) an error with message msg is created only below errors.Is(err, badger.ErrKeyNotFound),
// and Fetch returns a nil error only as the verdict of View.
func (c *Ctx) notFoundProducer(prop string, s *Slashing, msg string) {
	if c.memo["nfp:"+msg] != nil {
		return
	}
	c.memo["nfp:"+msg] = true
	rule := "C06.O5 rules.errors/store-not-found"
	n := 0
	for _, fn := range WithClosures(s.StoreFetch) {
		for _, b := range fn.Blocks {
			for _, ins := range b.Instrs {
				call, ok := ins.(*ssa.Call)
				if !ok {
					continue
				}
				f := call.Call.StaticCallee()
				if f == nil || len(call.Call.Args) == 0 {
					continue
				}
				switch f.String() {
				case "errors.New", "github.com/pkg/errors.New", "fmt.Errorf", "github.com/pkg/errors.Errorf":
				default:
					continue
				}
				k, ok := call.Call.Args[0].(*ssa.Const)
				if !ok || k.Value == nil || k.Value.Kind() != constant.String || constant.StringVal(k.Value) != msg {
					continue
				}
				n++
				target := ssa.Instruction(call)
				x, path := an.Cut(an.CutQuery{From: an.Entry(fn), Target: func(i ssa.Instruction) bool { return i == target },
					AcceptEdge: func(b *ssa.BasicBlock, i int, a *an.Atom) bool {
						if a == nil || a.Op != "true" {
							return false
						}
						cl, ok := a.LV.(*ssa.Call)
						if !ok {
							return false
						}
						cf := cl.Call.StaticCallee()
						if cf == nil || (cf.String() != "errors.Is" && cf.String() != "github.com/pkg/errors.Is") {
							return false
						}
						return strings.HasSuffix(an.Term(cl.Call.Args[1]), "badger/v2.ErrKeyNotFound")
					}})
				if x != nil {
					c.R.Fail(rule, Fn(fn), c.Pos(call), fmt.Sprintf("the store reports %q for failures other than badger.ErrKeyNotFound; the rules read that as 'nothing signed yet'", msg), "this message only below errors.Is(err, badger.ErrKeyNotFound)", an.PathString(c.Pos, path))
				} else {
					c.R.OK(rule, Fn(fn), c.Pos(call), fmt.Sprintf("%q is produced only below errors.Is(err, badger.ErrKeyNotFound)", msg))
				}
			}
		}
	}
	c.R.Floor(rule, fmt.Sprintf("producers of %q in the store's Fetch", msg), n, 1)
	esc, commits := NilErrorNeeds(s.StoreFetch, func(ci ssa.CallInstruction) bool { return IsCallTo(ci, "(*"+pkgBadger+".DB).View") })
	if len(commits) == 0 {
		c.R.Fail(rule, Fn(s.StoreFetch)+":view", c.P.FuncPos(s.StoreFetch), "Fetch does not read through db.View", "nil error only as the verdict of db.View", nil)
	}
	for _, e := range esc {
		c.R.Fail(rule, Fn(s.StoreFetch)+":view", c.Pos(e.Ret), "Fetch "+e.Why+" without a successful db.View", "nil error only as the verdict of db.View", an.PathString(c.Pos, e.Path))
	}
	if len(esc) == 0 && len(commits) > 0 {
		c.R.OK(rule, Fn(s.StoreFetch)+":view", c.P.FuncPos(s.StoreFetch), "nil error only as the verdict of db.View")
	}
}
