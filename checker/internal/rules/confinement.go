package rules

import (
	"fmt"
	"go/types"
	"sort"
	"strings"

	"dirkcheck/internal/an"
	"dirkcheck/internal/prog"

	"golang.org/x/tools/go/ssa"
)

// Confinement: C04.O4 stateful.only-under-lock, C04.O6 state.confined, C03.O3 who-writes.
func (c *Ctx) Confinement(prop string) {
	s := c.Slashing(prop + ".anchors")
	r := c.Ruler(prop + ".anchors")
	if !s.OK() || !r.OK() {
		return
	}
	g := c.ModGraph()
	mainFn := c.P.MainFunc()
	if mainFn == nil {
		c.R.Anchor(prop+".anchors", "main.main", "not found")
		return
	}
	roots := []*ssa.Function{mainFn}
	if ini := c.P.Package(mod).Func("init"); ini != nil {
		roots = append(roots, ini)
	}
	// ---- C04.O4: stateful rule methods are reachable only through RunRules
	rule4 := "C04.O4 stateful.only-under-lock"
	without := map[*ssa.Function]bool{r.RunRules: true}
	pred := g.Reach(roots, without)
	nchecked := 0
	for _, fn := range []*ssa.Function{s.Attest, s.AttestB, s.Propose} {
		nchecked++
		if _, reached := pred[fn]; reached {
			c.R.Fail(rule4, Fn(fn), c.P.FuncPos(fn), "a rule that reads and writes slashing-protection state can be reached from main without passing through RunRules (which takes the per-key locks)", "every production path to a stateful rule passes RunRules", PathTo(pred, fn))
		} else {
			// must be reachable at all with RunRules present (else the rule lost its subject)
			full := g.Reach(roots, nil)
			if _, ok := full[fn]; !ok {
				c.R.Unknown(rule4, Fn(fn), c.P.FuncPos(fn), "the stateful rule is not reachable from main in the module graph at all: the graph has lost its subject")
			} else {
				c.R.OK(rule4, Fn(fn), c.P.FuncPos(fn), "reachable from main only through RunRules")
			}
		}
	}
	if len(g.Unresolved) > 0 {
		var sites []string
		for _, u := range g.Unresolved {
			sites = append(sites, c.Pos(u))
		}
		sort.Strings(sites)
		c.R.Count("unresolved_dynamic_calls", len(g.Unresolved))
		c.R.Notes = append(c.R.Notes, "dynamic calls with no resolved callee (not followed): "+strings.Join(sites, " "))
	}
	// ---- C04.O6: the store's methods are called only from the stateful rules' helpers and import/export
	rule6 := "C04.O6 state.confined"
	allowed := map[*ssa.Function]bool{}
	for _, e := range []*ssa.Function{s.Attest, s.AttestB, s.Propose, s.ExportFn, s.ImportFn} {
		for _, f := range c.StaticReach(e, 8) {
			allowed[f] = true
		}
	}
	storeMethods := map[*ssa.Function]string{s.StoreStore: "Store", s.StoreBatch: "BatchStore", s.StoreFetch: "Fetch", s.StoreFetchAll: "FetchAll"}
	nsites := 0
	for _, fn := range c.P.ModuleFuncs() {
		if prog.IsTestish(prog.PkgPathOf(fn)) {
			continue
		}
		for _, ci := range Calls(fn, func(ci ssa.CallInstruction) bool { return storeMethods[ci.Common().StaticCallee()] != "" }) {
			nsites++
			if !allowed[fn] {
				c.R.Fail(rule6, Fn(fn), c.Pos(ci), "the slashing-protection store is accessed ("+storeMethods[ci.Common().StaticCallee()]+") outside the stateful rules and import/export", "store access only below the stateful rules (under the key locks) or import/export", nil)
			}
		}
	}
	// the db handle itself must not leak: field reads of the *badger.DB field outside Store methods / constructor
	nleak := 0
	for _, fn := range c.P.ModuleFuncs() {
		if prog.IsTestish(prog.PkgPathOf(fn)) {
			continue
		}
		isStoreMethod := fn.Signature.Recv() != nil && namedOf(fn.Signature.Recv().Type()) == s.StoreType
		for _, b := range fn.Blocks {
			for _, ins := range b.Instrs {
				fa, ok := ins.(*ssa.FieldAddr)
				if !ok || namedOf(fa.X.Type()) != s.StoreType {
					continue
				}
				if strings.HasSuffix(fa.Type().String(), "badger/v2.DB") && !isStoreMethod && fn.Parent() == nil {
					// constructor (composite literal store) is fine: only stores, no loads
					loads := false
					for _, ref := range *fa.Referrers() {
						if _, isStore := ref.(*ssa.Store); !isStore {
							loads = true
						}
					}
					if loads {
						nleak++
						c.R.Fail(rule6, Fn(fn)+":db", c.Pos(ins), "the badger handle is read outside the store's own methods", "the database handle is private to the store type", nil)
					}
				}
			}
		}
	}
	// nothing that runs below the stateful rules writes memory shared between requests: the per-key locks serialise requests for
	// one key only, requests for different keys run the same code concurrently, so a field of the (single) rules service, a
	// package-level variable, or a buffer loaded from either must not be written there
	{
		svcT := s.RulesImpl
		sharedRoot := func(v ssa.Value) (string, bool) {
			for i := 0; i < 8 && v != nil; i++ {
				switch x := v.(type) {
				case *ssa.FieldAddr:
					if namedOf(x.X.Type()) == svcT {
						return "field " + fieldNameOf(x) + " of the rules service", true
					}
					v = x.X
				case *ssa.IndexAddr:
					v = x.X
				case *ssa.Slice:
					v = x.X
				case *ssa.UnOp:
					v = x.X
				case *ssa.Global:
					if x.Pkg != nil && prog.InModule(x.Pkg.Func("init")) {
						return "package-level variable " + x.Name(), true
					}
					return "", false
				case *ssa.ChangeType:
					v = x.X
				default:
					return "", false
				}
			}
			return "", false
		}
		nscan, nbad := 0, 0
		seenFn := map[*ssa.Function]bool{}
		for _, e := range []*ssa.Function{s.Attest, s.AttestB, s.Propose} {
			for _, f := range c.StaticReach(e, 8) {
				if seenFn[f] || f.Blocks == nil || prog.PkgPathOf(f) != s.Pkg.Pkg.Path() {
					continue
				}
				// the store type has its own discipline (C03); its methods are not rule code
				if f.Signature.Recv() != nil && namedOf(f.Signature.Recv().Type()) == s.StoreType {
					continue
				}
				seenFn[f] = true
				nscan++
				for _, g := range WithClosures(f) {
					for _, b := range g.Blocks {
						for _, ins := range b.Instrs {
							var addr ssa.Value
							switch x := ins.(type) {
							case *ssa.Store:
								addr = x.Addr
							case *ssa.MapUpdate:
								addr = x.Map
							case *ssa.Call:
								if isBuiltin(x, "copy") && len(x.Call.Args) == 2 {
									addr = x.Call.Args[0]
								}
							}
							if addr == nil {
								continue
							}
							if what, shared := sharedRoot(addr); shared {
								nbad++
								c.R.Fail(rule6, Fn(g)+":shared-write", c.Pos(ins), "rule evaluation writes "+what+": requests for different keys run this code concurrently (the key locks only serialise one key), so one request can overwrite what another is using", "rule evaluation keeps its working state in locals; only the store is shared, and only under the key locks", nil)
							}
						}
					}
				}
			}
		}
		c.R.Floor(rule6, "rule functions scanned for writes to shared memory", nscan, 6)
		if nbad == 0 {
			c.R.OK(rule6, "shared-writes", c.P.FuncPos(s.Attest), fmt.Sprintf("%d functions below the stateful rules write no field of the rules service, no package-level variable and no buffer loaded from them", nscan))
		}
	}
	c.R.Floor(rule6, "store call sites in production code", nsites, 6)
	if nleak == 0 {
		c.R.OK(rule6, "store-handle", c.P.FuncPos(s.StoreStore), fmt.Sprintf("%d store call sites, all below the stateful rules or import/export; the database handle does not leave the store type", nsites))
	}
}

// WhoWrites: C03.O3.
func (c *Ctx) WhoWrites(prop string) {
	s := c.Slashing(prop + ".anchors")
	if !s.OK() {
		return
	}
	rule := "C03.O3 who-writes"
	mutators := map[string]bool{}
	for _, m := range []string{"(*DB).Update", "(*DB).NewWriteBatch", "(*DB).NewTransaction", "(*DB).DropAll", "(*DB).DropPrefix", "(*DB).Flatten", "(*DB).Load", "(*DB).NewStreamWriter",
		"(*DB).NewManagedWriteBatch", "(*DB).NewWriteBatchAt", "(*DB).NewTransactionAt", "(*DB).GetMergeOperator",
		"(*Txn).Delete", "(*Txn).Set", "(*Txn).SetEntry", "(*WriteBatch).Delete", "(*WriteBatch).Set", "(*WriteBatch).SetEntry", "(*WriteBatch).SetEntryAt", "(*WriteBatch).DeleteAt"} {
		mutators[strings.Replace(m, "(*", "(*"+pkgBadger+".", 1)] = true
	}
	deleters := map[string]bool{}
	for _, m := range []string{"(*DB).DropAll", "(*DB).DropPrefix", "(*Txn).Delete", "(*WriteBatch).Delete", "(*WriteBatch).DeleteAt"} {
		deleters[strings.Replace(m, "(*", "(*"+pkgBadger+".", 1)] = true
	}
	n := 0
	bad := 0
	for _, fn := range c.P.ModuleFuncs() {
		if prog.IsTestish(prog.PkgPathOf(fn)) {
			continue
		}
		outer := fn
		for outer.Parent() != nil {
			outer = outer.Parent()
		}
		isStoreMethod := outer.Signature.Recv() != nil && namedOf(outer.Signature.Recv().Type()) == s.StoreType
		for _, ci := range Calls(fn, func(ci ssa.CallInstruction) bool {
			f := ci.Common().StaticCallee()
			return f != nil && mutators[f.String()]
		}) {
			n++
			name := ci.Common().StaticCallee().String()
			if !isStoreMethod {
				bad++
				c.R.Fail(rule, Fn(fn), c.Pos(ci), "the slashing-protection database is modified outside the store type ("+short(name)+")", "badger mutators only in the store's methods", nil)
			} else if deleters[name] {
				bad++
				c.R.Fail(rule, Fn(fn)+":delete", c.Pos(ci), "slashing-protection records can be deleted ("+short(name)+")", "no delete/drop of records in production code", nil)
			} else if outer != s.StoreStore && outer != s.StoreBatch {
				bad++
				c.R.Fail(rule, Fn(fn)+":writer", c.Pos(ci), "a store method other than Store/BatchStore writes records ("+short(name)+")", "only Store and BatchStore write", nil)
			}
		}
	}
	c.R.Floor(rule, "badger mutator call sites", n, 3)
	// callers of Store/BatchStore: the validated recorder helpers and the import
	allowed := map[*ssa.Function]bool{s.ImportFn: true}
	for _, k := range []string{"att", "prop"} {
		st := s.AttState
		if k == "prop" {
			st = s.PropState
		}
		_ = st
	}
	rec := c.Recorders(s)
	for f := range rec {
		allowed[f] = true
	}
	for _, fn := range c.P.ModuleFuncs() {
		if prog.IsTestish(prog.PkgPathOf(fn)) {
			continue
		}
		for _, ci := range Calls(fn, func(ci ssa.CallInstruction) bool {
			f := ci.Common().StaticCallee()
			return f == s.StoreStore || f == s.StoreBatch
		}) {
			if !allowed[fn] {
				bad++
				c.R.Fail(rule, Fn(fn)+":caller", c.Pos(ci), "records are written by a function that is neither a watermark recorder (nil error only after the commit) nor the import", "Store/BatchStore called only by the state recorders and ImportSlashingProtection", nil)
			}
		}
	}
	// the recorders themselves are called only from rule evaluation (which runs under the key lock of the record's key):
	// any other caller - a start-up job, a background task - is a second writer that can put an older value back
	entries := map[*ssa.Function]bool{s.Attest: true, s.AttestB: true, s.Propose: true}
	for f := range rec {
		if f == s.StoreStore || f == s.StoreBatch {
			continue // their direct callers are judged above
		}
		for _, cs := range c.staticCallers()[f] {
			caller := cs.Parent()
			if prog.IsTestish(prog.PkgPathOf(caller)) || rec[caller] || caller == s.ImportFn {
				continue
			}
			if c.onlyCalledFrom(caller, map[*ssa.Function]bool{s.ImportFn: true}, 2) {
				continue // a helper of the rules-level import
			}
			if !c.onlyCalledFrom(caller, entries, 2) {
				bad++
				c.R.Fail(rule, Fn(caller)+":recorder-caller", c.Pos(cs), "a watermark recorder ("+Fn(f)+") is called from outside rule evaluation: records can be written without the key lock and after newer approvals (a stale value put back)", "recorders are called only by the rule entry points", nil)
			}
		}
	}
	// callers of ImportSlashingProtection: only the import command path of main (never a service)
	g := c.ModGraph()
	handlers := c.HandlerMethods(rule)
	if len(handlers) > 0 {
		pred := g.Reach(handlers, nil)
		if _, ok := pred[s.ImportFn]; ok {
			bad++
			c.R.Fail(rule, Fn(s.ImportFn)+":online", c.P.FuncPos(s.ImportFn), "the bulk import (which overwrites records without the key locks) is reachable from a gRPC handler", "import only from the offline command", PathTo(pred, s.ImportFn))
		}
	}
	if bad == 0 {
		c.R.OK(rule, "production", c.P.FuncPos(s.StoreStore), fmt.Sprintf("%d badger mutator sites, all Set inside Store/BatchStore; no delete/drop; writers are the recorders and the offline import", n))
	}
}

// HandlerMethods returns the methods of the types registered on the gRPC server (pb.Register*Server).
func (c *Ctx) HandlerMethods(rule string) []*ssa.Function {
	if h, ok := c.memo["handlers"].([]*ssa.Function); ok {
		return h
	}
	var out []*ssa.Function
	nreg := 0
	for _, fn := range c.P.ModuleFuncs() {
		if prog.IsTestish(prog.PkgPathOf(fn)) {
			continue
		}
		for _, ci := range Calls(fn, func(ci ssa.CallInstruction) bool {
			f := ci.Common().StaticCallee()
			return f != nil && f.Pkg != nil && f.Pkg.Pkg.Path() == "github.com/wealdtech/eth2-signer-api/pb/v1" && strings.HasPrefix(f.Name(), "Register") && strings.HasSuffix(f.Name(), "Server")
		}) {
			nreg++
			arg := ci.Common().Args[1]
			if mi, ok := arg.(*ssa.MakeInterface); ok {
				named := namedOf(mi.X.Type())
				iface := namedOf(mi.Type())
				if named == nil || iface == nil {
					continue
				}
				it := iface.Underlying()
				_ = it
				ms := c.P.SSA.MethodSets.MethodSet(mi.X.Type())
				for i := 0; i < ms.Len(); i++ {
					m := c.P.SSA.MethodValue(ms.At(i))
					if m != nil && prog.InModule(m) && m.Object() != nil && m.Object().Exported() {
						if f2 := c.P.Method(named, m.Name()); f2 != nil && f2.Blocks != nil {
							out = append(out, f2)
						}
					}
				}
			}
		}
	}
	c.R.Count("grpc_registrations", nreg)
	sort.Slice(out, func(i, j int) bool { return out[i].String() < out[j].String() })
	c.memo["handlers"] = out
	return out
}

// ImmutableAfterConstruction: the slice / map configuration fields of a service implementation are written only by its
// constructor. Services on the signing path are called from parallel scatter workers; a method that mutates shared
// configuration (even under a mutex that is not held across the whole use) makes the outcome depend on the interleaving.
func (c *Ctx) ImmutableAfterConstruction(rule, ifacePkg, what string) {
	impl := c.Role(rule, ifacePkg, "Service")
	if impl == nil {
		return
	}
	st, ok := impl.Underlying().(*types.Struct)
	if !ok {
		return
	}
	cfg := map[string]bool{}
	for i := 0; i < st.NumFields(); i++ {
		switch st.Field(i).Type().Underlying().(type) {
		case *types.Slice, *types.Map:
			cfg[st.Field(i).Name()] = true
		}
	}
	if len(cfg) == 0 {
		c.R.OK(rule, impl.Obj().Pkg().Name()+"."+impl.Obj().Name(), "-", "no slice/map configuration fields")
		return
	}
	isCfgField := func(v ssa.Value) (string, bool) {
		owner, f, _ := an.FieldOf(v)
		if owner == nil || namedOf(owner) != impl || !cfg[f] {
			return "", false
		}
		return f, true
	}
	bad := 0
	nfn := 0
	for _, fn := range c.P.ModuleFuncs() {
		if prog.PkgPathOf(fn) != impl.Obj().Pkg().Path() || fn.Blocks == nil {
			continue
		}
		outer := fn
		for outer.Parent() != nil {
			outer = outer.Parent()
		}
		if outer.Signature.Recv() == nil {
			continue // constructor and its helpers
		}
		nfn++
		for _, b := range fn.Blocks {
			for _, ins := range b.Instrs {
				field := ""
				switch x := ins.(type) {
				case *ssa.Store:
					if fa, ok := x.Addr.(*ssa.FieldAddr); ok && namedOf(fa.X.Type()) == impl && cfg[fieldNameOf(fa)] {
						field = fieldNameOf(fa)
					}
					if ia, ok := x.Addr.(*ssa.IndexAddr); ok {
						if f, ok := isCfgField(ia.X); ok {
							field = f
						}
					}
				case *ssa.MapUpdate:
					if f, ok := isCfgField(x.Map); ok {
						field = f
					}
				case *ssa.Call:
					if bi, ok := x.Call.Value.(*ssa.Builtin); ok && (bi.Name() == "delete" || bi.Name() == "clear" || bi.Name() == "copy") && len(x.Call.Args) > 0 {
						if f, ok := isCfgField(x.Call.Args[0]); ok {
							field = f
						}
					}
					if f := x.Call.StaticCallee(); f != nil && (f.String() == "sort.Slice" || f.String() == "sort.Strings" || strings.HasPrefix(f.String(), "slices.Sort")) && len(x.Call.Args) > 0 {
						if fl, ok := isCfgField(an.StripConv(x.Call.Args[0])); ok {
							field = fl
						}
					}
				}
				if field != "" {
					bad++
					c.R.Fail(rule, Fn(fn)+":"+field, c.Pos(ins), "the "+what+" field "+field+" is modified by a method at request time; requests are served by parallel workers that read it, so the outcome of a request depends on what other requests did meanwhile", "configuration is written by the constructor only", nil)
				}
			}
		}
	}
	if bad == 0 {
		var names []string
		for f := range cfg {
			names = append(names, f)
		}
		sort.Strings(names)
		c.R.OK(rule, impl.Obj().Pkg().Name()+"."+impl.Obj().Name(), "-", fmt.Sprintf("fields %v are written by the constructor only (%d methods scanned)", names, nfn))
	}
}

// ImmutableSliceConfig: the slice-typed configuration fields of a service (set by its constructor: passphrases, lists)
// are never modified at request time - neither directly nor through a field of another structure of the package that
// was assigned the configured slice itself (not a copy). Element stores, clear and copy-into are the writes looked for.
func (c *Ctx) ImmutableSliceConfig(rule, ifacePkg, what string) {
	impl := c.Role(rule, ifacePkg, "Service")
	if impl == nil {
		return
	}
	st, ok := impl.Underlying().(*types.Struct)
	if !ok {
		return
	}
	pkgPath := impl.Obj().Pkg().Path()
	type fld struct {
		owner *types.Named
		name  string
	}
	shared := map[fld]string{} // field -> the configuration field it may alias
	for i := 0; i < st.NumFields(); i++ {
		if _, isSlice := st.Field(i).Type().Underlying().(*types.Slice); isSlice {
			shared[fld{impl, st.Field(i).Name()}] = st.Field(i).Name()
		}
	}
	if len(shared) == 0 {
		c.R.OK(rule, impl.Obj().Pkg().Name()+"."+impl.Obj().Name(), "-", "no slice-typed configuration fields")
		return
	}
	fieldOfLoad := func(v ssa.Value) (fld, bool) {
		owner, f, _ := an.FieldOf(v)
		if owner == nil {
			return fld{}, false
		}
		n := namedOf(owner)
		if n == nil {
			return fld{}, false
		}
		return fld{n, f}, true
	}
	var mayAlias func(v ssa.Value, d int) (string, bool)
	mayAlias = func(v ssa.Value, d int) (string, bool) {
		if d > 4 {
			return "", false
		}
		v = an.StripConv(v)
		if phi, ok := v.(*ssa.Phi); ok {
			for _, e := range phi.Edges {
				if src, ok := mayAlias(e, d+1); ok {
					return src, true
				}
			}
			return "", false
		}
		if sl, ok := v.(*ssa.Slice); ok {
			return mayAlias(sl.X, d+1)
		}
		if f, ok := fieldOfLoad(v); ok {
			if src, isShared := shared[f]; isShared {
				return src, true
			}
		}
		return "", false
	}
	var fns []*ssa.Function
	for _, fn := range c.P.ModuleFuncs() {
		if prog.PkgPathOf(fn) == pkgPath && fn.Blocks != nil && !prog.IsTestish(pkgPath) {
			fns = append(fns, fn)
		}
	}
	// propagate through field assignments (two rounds)
	for round := 0; round < 2; round++ {
		for _, fn := range fns {
			for _, b := range fn.Blocks {
				for _, ins := range b.Instrs {
					s2, ok := ins.(*ssa.Store)
					if !ok {
						continue
					}
					fa, ok := s2.Addr.(*ssa.FieldAddr)
					if !ok {
						continue
					}
					n := namedOf(fa.X.Type())
					if n == nil || n == impl {
						continue
					}
					if src, ok := mayAlias(s2.Val, 0); ok {
						shared[fld{n, fieldNameOf(fa)}] = src
					}
				}
			}
		}
	}
	bad := 0
	for _, fn := range fns {
		outer := fn
		for outer.Parent() != nil {
			outer = outer.Parent()
		}
		isCtor := outer.Signature.Recv() == nil && outer.Name() == "New"
		for _, b := range fn.Blocks {
			for _, ins := range b.Instrs {
				var base ssa.Value
				switch x := ins.(type) {
				case *ssa.Store:
					if ia, ok := x.Addr.(*ssa.IndexAddr); ok {
						base = ia.X
					}
				case *ssa.Call:
					if bi, ok := x.Call.Value.(*ssa.Builtin); ok && (bi.Name() == "clear" || bi.Name() == "copy") && len(x.Call.Args) > 0 {
						base = x.Call.Args[0]
					}
				}
				if base == nil || isCtor {
					continue
				}
				if src, ok := mayAlias(base, 0); ok {
					bad++
					c.R.Fail(rule, Fn(fn)+":"+src, c.Pos(ins), "bytes of the "+what+" field "+src+" can be overwritten at request time (directly or through a structure that was given the configured slice itself rather than a copy): every later use of the configuration sees the overwritten value", "configuration bytes are never written after construction; hand out copies", nil)
				}
			}
		}
	}
	if bad == 0 {
		var names []string
		for f, src := range shared {
			if f.owner == impl {
				names = append(names, src)
			}
		}
		sort.Strings(names)
		c.R.OK(rule, impl.Obj().Pkg().Name()+"."+impl.Obj().Name(), "-", fmt.Sprintf("slice configuration fields %v (and %d fields that may alias them) are never written at request time", names, len(shared)-len(names)))
	}
}
