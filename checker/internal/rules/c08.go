package rules

import (
	"dirkcheck/internal/prog"
	"fmt"
	"go/types"
	"sort"
	"strings"

	"dirkcheck/internal/an"

	"golang.org/x/tools/go/ssa"
)

// getterPath renders v as a chain of protobuf getters below a request value: ("Data.Source.Epoch", base) for
// base.GetData().GetSource().GetEpoch().
func getterPath(v ssa.Value) (string, ssa.Value) {
	var parts []string
	cur := v
	for i := 0; i < 6; i++ {
		call, ok := cur.(*ssa.Call)
		if !ok {
			break
		}
		f := call.Call.StaticCallee()
		if f == nil || !strings.HasPrefix(f.Name(), "Get") || f.Pkg == nil || f.Pkg.Pkg.Path() != pkgPB || len(call.Call.Args) != 1 {
			break
		}
		parts = append([]string{strings.TrimPrefix(f.Name(), "Get")}, parts...)
		cur = call.Call.Args[0]
	}
	return strings.Join(parts, "."), cur
}

// HandlerToRules: C08.O1 and O5 (handler side).
func (c *Ctx) HandlerToRules(prop string) {
	rule := "C08.O1 handler->rules"
	rule5 := "C08.O5 one-entry-per-request"
	hs := c.handlersIn(rule, "/handlers/signer")
	n := 0
	tables := map[string]string{} // data type -> canonical table (sibling agreement)
	for _, H := range hs {
		var K ssa.CallInstruction
		for _, ci := range Calls(H, func(ci ssa.CallInstruction) bool {
			return ci.Common().IsInvoke() && namedIs(ci.Common().Value.Type(), pkgSigner, "Service")
		}) {
			K = ci
		}
		if K == nil {
			continue
		}
		n++
		reqP := ssa.Value(H.Params[2])
		_, batch := K.Common().Signature().Results().At(0).Type().(*types.Slice)
		bad := false
		// "the request list" / "this position's request", with helper parameters resolved to the handler's frame through sub
		isReqList := func(v ssa.Value, sub Subst) bool {
			p, base := getterPath(sub.Res(sliceRootExact(sub.Res(v))))
			return p == "Requests" && sub.Res(base) == reqP
		}
		var fillLoops []*Loop
		var isReq func(v ssa.Value, sub Subst, d int) bool
		isReq = func(v ssa.Value, sub Subst, d int) bool {
			if d > 4 {
				return false
			}
			v = sub.Res(v)
			if !batch {
				return v == reqP
			}
			u, ok := v.(*ssa.UnOp)
			if !ok {
				return false
			}
			ia, ok := u.X.(*ssa.IndexAddr)
			if !ok || !isReqList(ia.X, sub) {
				return false
			}
			// the index is the induction variable of a full-range loop over the request list in the same function
			for _, l := range FindLoops(ia.Parent()) {
				if l.FullRange && l.Idx == ia.Index && l.BoundLen != nil && isReqList(l.BoundLen, sub) {
					fillLoops = append(fillLoops, l)
					return true
				}
			}
			return false
		}
		getterPathS := func(v ssa.Value, sub Subst) (string, ssa.Value) {
			var parts []string
			cur := sub.Res(v)
			for i := 0; i < 8; i++ {
				call, ok := cur.(*ssa.Call)
				if !ok {
					break
				}
				f := call.Call.StaticCallee()
				if f == nil || !strings.HasPrefix(f.Name(), "Get") || f.Pkg == nil || f.Pkg.Pkg.Path() != pkgPB || len(call.Call.Args) != 1 {
					break
				}
				parts = append([]string{strings.TrimPrefix(f.Name(), "Get")}, parts...)
				cur = sub.Res(call.Call.Args[0])
			}
			return strings.Join(parts, "."), cur
		}
		// helperAlloc: v is a fresh rules-data object, built here or by a module helper whose single return is such an object
		var helperAlloc func(v ssa.Value, sub Subst) (*ssa.Alloc, Subst, bool)
		helperAlloc = func(v ssa.Value, sub Subst) (*ssa.Alloc, Subst, bool) {
			if al, ok := v.(*ssa.Alloc); ok {
				return al, sub, true
			}
			call, ok := v.(*ssa.Call)
			if !ok || call.Call.IsInvoke() {
				return nil, nil, false
			}
			h := call.Call.StaticCallee()
			if h == nil || !prog.InModule(h) || h.Blocks == nil {
				return nil, nil, false
			}
			rets := an.Returns(h)
			if len(rets) != 1 || len(rets[0].Results) != 1 {
				return nil, nil, false
			}
			ns := Subst{}
			for k, x := range sub {
				ns[k] = x
			}
			for i, q := range h.Params {
				if i < len(call.Call.Args) {
					ns[q] = sub.Res(call.Call.Args[i])
				}
			}
			return helperAlloc(an.Result(rets[0], 0), ns)
		}
		// collect: the field table of one rules-data object (nested checkpoints and helper-built parts followed)
		got := map[string]string{}
		var dataType string
		var collect func(obj *ssa.Alloc, prefix string, sub Subst, d int)
		collect = func(obj *ssa.Alloc, prefix string, sub Subst, d int) {
			if d > 4 {
				return
			}
			owner := namedOf(obj.Type())
			if owner == nil || owner.Obj().Pkg() == nil || owner.Obj().Pkg().Path() != pkgRules {
				return
			}
			if prefix == "" {
				dataType = owner.Obj().Name()
			}
			for _, r := range *obj.Referrers() {
				fa, ok := r.(*ssa.FieldAddr)
				if !ok {
					continue
				}
				for _, r2 := range *fa.Referrers() {
					st, ok := r2.(*ssa.Store)
					if !ok {
						continue
					}
					path := prefix + fieldNameOf(fa)
					if inner, isub, ok := helperAlloc(st.Val, sub); ok && namedOf(inner.Type()) != nil && namedOf(inner.Type()).Obj().Pkg() != nil && namedOf(inner.Type()).Obj().Pkg().Path() == pkgRules {
						collect(inner, path+".", isub, d+1)
						continue
					}
					gp, base := getterPathS(st.Val, sub)
					if gp == "" || !isReq(base, sub, 0) {
						bad = true
						c.R.Fail(rule, Fn(H)+":"+path, c.Pos(st), "rules data field "+path+" is not filled from a getter of this request: "+an.Term(st.Val), path+" <- request field of the same meaning", nil)
						continue
					}
					got[path] = gp
				}
			}
		}
		args := K.Common().Args
		// the data argument of the service call
		var dataArg ssa.Value
		for _, a := range args {
			t := a.Type()
			if sl, ok := t.(*types.Slice); ok {
				t = sl.Elem()
			}
			if pt, ok := t.(*types.Pointer); ok {
				if nn := namedOf(pt.Elem()); nn != nil && nn.Obj().Pkg() != nil && nn.Obj().Pkg().Path() == pkgRules {
					dataArg = a
				}
			}
		}
		if dataArg == nil {
			c.R.Unknown(rule, Fn(H), c.Pos(K), "the service call has no rules-data argument")
			continue
		}
		// resolveList: a per-request list passed to the service: made in the handler, or made, filled and returned by a helper
		type listInfo struct {
			mk  *ssa.MakeSlice
			fn  *ssa.Function
			sub Subst
		}
		resolveList := func(v ssa.Value) (listInfo, bool) {
			if mk, ok := sliceRootExact(v).(*ssa.MakeSlice); ok {
				return listInfo{mk, H, Subst{}}, true
			}
			ex, ok := v.(*ssa.Extract)
			var call *ssa.Call
			idx := 0
			if ok {
				call, _ = ex.Tuple.(*ssa.Call)
				idx = ex.Index
			} else {
				call, _ = v.(*ssa.Call)
			}
			if call == nil || call.Call.IsInvoke() {
				return listInfo{}, false
			}
			h := call.Call.StaticCallee()
			if h == nil || !prog.InModule(h) || h.Blocks == nil {
				return listInfo{}, false
			}
			rets := an.Returns(h)
			if len(rets) != 1 || idx >= len(rets[0].Results) {
				return listInfo{}, false
			}
			mk, ok := sliceRootExact(an.Result(rets[0], idx)).(*ssa.MakeSlice)
			if !ok {
				return listInfo{}, false
			}
			sub := Subst{}
			for i, q := range h.Params {
				if i < len(call.Call.Args) {
					sub[q] = call.Call.Args[i]
				}
			}
			return listInfo{mk, h, sub}, true
		}
		lenOfReqs := func(n ssa.Value, sub Subst) bool {
			call, ok := n.(*ssa.Call)
			return ok && isBuiltin(call, "len") && isReqList(call.Call.Args[0], sub)
		}
		if !batch {
			if obj, sub, ok := helperAlloc(dataArg, Subst{}); ok {
				collect(obj, "", sub, 0)
			} else {
				c.R.Unknown(rule, Fn(H), c.Pos(K), "the rules data passed to the service is not a fresh object built from the request: "+an.Term(dataArg))
				continue
			}
		}
		checkArg := func(v ssa.Value, want string) {
			if !batch {
				if gp, base := getterPath(v); gp != want || base != reqP {
					bad = true
					c.R.Fail(rule, Fn(H)+":"+want, c.Pos(K), "the "+want+" passed to the service is not the request's: "+an.Term(v), want+" <- req.Get"+want+"()", nil)
				}
				return
			}
			li, ok := resolveList(v)
			if !ok || !lenOfReqs(li.mk.Len, li.sub) {
				bad = true
				c.R.Fail(rule5, Fn(H)+":"+want, c.Pos(K), "the per-request "+want+" list is not made with one slot per request", "make(_, len(requests))", nil)
				return
			}
			okFill := false
			var fillStore *ssa.Store
			for _, b := range li.fn.Blocks {
				for _, ins := range b.Instrs {
					st, ok := ins.(*ssa.Store)
					if !ok {
						continue
					}
					ia, ok := st.Addr.(*ssa.IndexAddr)
					if !ok || sliceRootExact(ia.X) != ssa.Value(li.mk) {
						continue
					}
					// the slot index is the induction variable of a full-range loop over the request list
					var L *Loop
					for _, l := range FindLoops(li.fn) {
						if l.FullRange && l.Idx == ia.Index && l.BoundLen != nil && isReqList(l.BoundLen, li.sub) {
							L = l
						}
					}
					if L == nil {
						bad = true
						c.R.Fail(rule5, Fn(H)+":"+want, c.Pos(st), "position i of the "+want+" list is not filled at the index of a full-range loop over the requests", want+"[i] <- requests[i]", nil)
						continue
					}
					if want == "data" {
						if obj, sub, ok := helperAlloc(st.Val, li.sub); ok {
							collect(obj, "", sub, 0)
							okFill, fillStore = true, st
							fillLoops = append(fillLoops, L)
							continue
						}
					} else {
						gp, base := getterPathS(st.Val, li.sub)
						if gp == want && isReq(base, li.sub, 0) {
							okFill, fillStore = true, st
							fillLoops = append(fillLoops, L)
							continue
						}
					}
					bad = true
					c.R.Fail(rule5, Fn(H)+":"+want, c.Pos(st), "position i of the "+want+" list is not filled from request i", want+"[i] <- requests[i]", nil)
				}
			}
			if !okFill {
				bad = true
				c.R.Fail(rule5, Fn(H)+":"+want, c.Pos(K), "the "+want+" list is not filled position by position from the requests", want+"[i] <- requests[i]", nil)
				return
			}
			// every iteration fills the slot and the loop runs to completion
			for _, l := range fillLoops {
				if l.Body[fillStore.Block()] {
					if l.IterationSkips(func(i ssa.Instruction) bool { return i == ssa.Instruction(fillStore) }) || len(l.BreakEdges()) > 0 {
						bad = true
						c.R.Fail(rule5, Fn(H)+":"+want+":fill", c.Pos(fillStore), "the loop that copies the requests can skip a position or stop early", "every request copied", nil)
					}
				}
			}
		}
		checkArg(args[2], "Account")
		checkArg(args[3], "PublicKey")
		if batch {
			checkArg(dataArg, "data")
		}
		if dataType == "" {
			bad = true
			c.R.Unknown(rule, Fn(H), c.Pos(K), "no rules-data object built from the request was found for this handler")
			continue
		}
		// expected: getter path == field path, with an optional leading "Data." for the nested wire message
		var keys []string
		for k := range got {
			keys = append(keys, k)
		}
		sort.Strings(keys)
		var canon []string
		for _, k := range keys {
			gp := got[k]
			if gp != k && gp != "Data."+k {
				bad = true
				c.R.Fail(rule, Fn(H)+":"+k, c.Pos(K), fmt.Sprintf("rules data field %s is filled from the request's %s", k, gp), k+" <- "+k, nil)
			}
			canon = append(canon, k+"<-"+gp)
		}
		// all fields of the data type are filled
		if dt := c.P.LookupType(pkgRules, dataType); dt != nil {
			st := dt.Underlying().(*types.Struct)
			for i := 0; i < st.NumFields(); i++ {
				f := st.Field(i)
				if pt, ok := f.Type().(*types.Pointer); ok && namedIs(pt.Elem(), pkgRules, "Checkpoint") {
					for _, sub := range []string{"Epoch", "Root"} {
						if got[f.Name()+"."+sub] == "" {
							bad = true
							c.R.Fail(rule, Fn(H)+":"+f.Name()+"."+sub, c.Pos(K), "rules data field "+f.Name()+"."+sub+" is never filled", "every field copied from the request", nil)
						}
					}
					continue
				}
				if got[f.Name()] == "" {
					bad = true
					c.R.Fail(rule, Fn(H)+":"+f.Name(), c.Pos(K), "rules data field "+f.Name()+" is never filled", "every field copied from the request", nil)
				}
			}
		}
		tbl := strings.Join(canon, " ")
		if prev, ok := tables[dataType]; ok && prev != tbl {
			bad = true
			c.R.Fail(rule, Fn(H)+":sibling", c.Pos(K), "the single and batch handlers for "+dataType+" map the request differently: "+prev+" vs "+tbl, "sibling handlers agree", nil)
		}
		tables[dataType] = tbl
		lenIsReqs := func(n ssa.Value) bool { return lenOfReqs(n, Subst{}) }
		var reqList ssa.Value
		if batch {
			// response list: one slot per request, created before the service call
			okResp := false
			isRespList := func(mk *ssa.MakeSlice) bool {
				if sl, ok := mk.Type().(*types.Slice); ok {
					if pt, ok := sl.Elem().(*types.Pointer); ok && namedIs(pt.Elem(), pkgPB, "SignResponse") {
						return true
					}
				}
				return false
			}
			for _, b := range H.Blocks {
				for _, ins := range b.Instrs {
					if mk, ok := ins.(*ssa.MakeSlice); ok && (lenIs(mk.Len, reqList) || lenIsReqs(mk.Len)) && isRespList(mk) {
						okResp = true
					}
					// a constructor helper given len(requests)
					if call, ok := ins.(*ssa.Call); ok {
						cal := call.Call.StaticCallee()
						if cal == nil || !prog.InModule(cal) || cal.Blocks == nil || call.Call.IsInvoke() {
							continue
						}
						for ai, a := range call.Call.Args {
							if ai >= len(cal.Params) || !(lenIs(a, reqList) || lenIsReqs(a)) {
								continue
							}
							for _, b2 := range cal.Blocks {
								for _, i2 := range b2.Instrs {
									if mk, ok := i2.(*ssa.MakeSlice); ok && mk.Len == ssa.Value(cal.Params[ai]) && isRespList(mk) {
										okResp = true
									}
								}
							}
						}
					}
				}
			}
			if !okResp {
				bad = true
				c.R.Fail(rule5, Fn(H)+":responses", c.Pos(K), "the response list is not made with one entry per request", "Responses = make(_, len(requests))", nil)
			}
		}
		if !bad {
			c.R.OK(rule, Fn(H), c.Pos(K), dataType+": "+tbl)
			if batch {
				c.R.OK(rule5, Fn(H), c.Pos(K), "account, key, data and response lists have one slot per request and are filled at the loop's own index")
			}
		}
	}
	c.R.Floor(rule, "signer handlers", n, 5)
}

// ServicePositions: C08.O5 (service side) - the batch services return result / signature lists with one entry per request.
func (c *Ctx) ServicePositions(prop string) {
	rule := "C08.O5 one-entry-per-request/service"
	sg := c.Signer(prop + ".anchors")
	if !sg.OK() {
		return
	}
	for _, name := range []string{"SignBeaconAttestations", "Multisign"} {
		E := sg.Endpoints[name]
		var dataP *ssa.Parameter
		for _, p := range E.Params {
			if sl, ok := p.Type().(*types.Slice); ok {
				if pt, ok := sl.Elem().(*types.Pointer); ok {
					if n, ok := pt.Elem().(*types.Named); ok && n.Obj().Pkg().Path() == pkgRules {
						dataP = p
					}
				}
			}
		}
		if dataP == nil {
			c.R.Unknown(rule, Fn(E), c.P.FuncPos(E), "no data list parameter")
			continue
		}
		bad := false
		for _, ret := range an.Returns(E) {
			// results: make(len(data)) unless the path is below len(data) == 0
			r0 := sliceRootExact(an.Result(ret, 0))
			if sl, ok := r0.(*ssa.Slice); ok {
				r0 = sl.X
			}
			mk, ok := r0.(*ssa.MakeSlice)
			if _, isArr := r0.(*ssa.Alloc); !ok && !isArr {
				bad = true
				c.R.Fail(rule, Fn(E), c.Pos(ret), "the result list returned is not a list made in this function", "results := make(_, len(data))", nil)
				continue
			}
			if ok && lenIs(mk.Len, dataP) {
				// signatures, when returned, are also len(data)
				if !isNilConst(an.Result(ret, 1)) {
					m2, ok := sliceRootExact(an.Result(ret, 1)).(*ssa.MakeSlice)
					if !ok || !lenIs(m2.Len, dataP) {
						bad = true
						c.R.Fail(rule, Fn(E), c.Pos(ret), "the signature list does not have one entry per request", "signatures := make(_, len(data))", nil)
					}
				}
				continue
			}
			// otherwise only on the empty-request path
			target := ssa.Instruction(ret)
			if x, path := an.Cut(an.CutQuery{From: an.Entry(E), Target: func(i ssa.Instruction) bool { return i == target },
				AcceptEdge: func(b *ssa.BasicBlock, i int, a *an.Atom) bool {
					return a != nil && a.Op == "==" && ((lenIs(a.LV, dataP) && an.IsConstInt(a.RV, 0)) || (lenIs(a.RV, dataP) && an.IsConstInt(a.LV, 0)))
				}}); x != nil {
				bad = true
				c.R.Fail(rule, Fn(E), c.Pos(ret), "a result list whose length is not the number of requests is returned for a non-empty request", "len(results) == len(data) whenever len(data) >= 1", an.PathString(c.Pos, path))
			}
		}
		if !bad {
			c.R.OK(rule, Fn(E), c.P.FuncPos(E), "every return for a non-empty request carries results (and signatures) made with len(data)")
		}
	}
}

func init() {
	register(&Spec{
		ID: "C08",
		Run: func(c *Ctx) {
			c.HandlerToRules("C08")
			c.SigningRootProvenance("C08")
			c.ServicePositions("C08")
			c.BatchIdentifiers("C08")
			c.RequestMessageScoped("C08")
			c.ReplyRequestScoped("C16") // ... and handed back in a response object of its own
			c.ScatterIndexDiscipline("C08")
			c.LosslessSplit("C08")
			c.FirstSlashOnly("C08")
			c.ScatterPartition("C08")
			c.RulerPositions("C08")
			c.MetadataImmutable("C01")
			c.RequestBytesReadOnly("C08")
			c.HandlerSignature("C08")
			c.SuccessNeedsEverything("C08") // position i of the signature list is the signature made for request i (C06.O2/O3)
			c.SignIffApproved("C08", nil)
			c.ForkJoinRules("C08")
		},
		Explanation: "Provenance and position, not cryptography: every rules-data field is filled from the same-named field of the request (sibling handlers agree); every field of the hashed container comes from the same-named field of the checked data of the same position; the signing root is HashTreeRoot{DataRoot, Domain} over that root and that data's domain; Sign receives it and the account resolved for that position; lists have one slot per request and are accessed only at the loop's / worker's own index; the signature of position i is copied to response i. See DESIGN.md §5 C08.",
		Trusted:     append([]string{"BLS correctness and SSZ hashing", "the extent size computed for util.Scatter is positive (not decided; with e <= 0 the helper does not return)"}, commonTrusted...),
	})
}
