package rules

import (
	"fmt"
	"go/token"
	"go/types"
	"strings"

	"dirkcheck/internal/an"
	"dirkcheck/internal/prog"

	"golang.org/x/tools/go/ssa"
)

// sessionFieldOf: v is a load of field f of a session object; returns f and the session value.
func (p *Proc) sessionFieldOf(v ssa.Value) (string, ssa.Value) {
	owner, f, base := an.FieldOf(v)
	if owner == nil || namedOf(owner) != p.Session {
		return "", nil
	}
	return f, base
}

// ContributionRules: C13 O1, O2, O3 (participant side), O4.
func (c *Ctx) ContributionRules(prop string) {
	p := c.Proc(prop + ".anchors")
	if !p.OK() {
		return
	}
	pkg := p.Impl.Obj().Pkg().Path()
	rule1 := "C13.O1 verify-before-accept"
	rule2 := "C13.O2 vector-length"
	V := p.Verify
	// parameter roles of the verify helper by type: id uint64, threshold uint32, share SecretKey, vector []PublicKey
	var vID, vThr, vShare, vVec = -1, -1, -1, -1
	for i, prm := range V.Params {
		switch t := prm.Type().(type) {
		case *types.Basic:
			if t.Kind() == types.Uint64 {
				vID = i
			}
			if t.Kind() == types.Uint32 {
				vThr = i
			}
		case *types.Slice:
			vVec = i
		case *types.Named:
			if t.Obj().Name() == "SecretKey" {
				vShare = i
			}
		}
	}
	if vID < 0 || vShare < 0 || vVec < 0 {
		c.R.Anchor(rule1, "verify:params", "the contribution check does not take (id, share, vector)")
		return
	}
	// ---- O2: the check only succeeds for vectors of exactly threshold entries
	verifyHasLen := false
	if vThr >= 0 {
		lenAtom := func(a *an.Atom) bool {
			if a == nil || a.Op != "==" {
				return false
			}
			isLen := func(v ssa.Value) bool {
				for {
					if cv, ok := v.(*ssa.Convert); ok {
						v = cv.X
						continue
					}
					break
				}
				call, ok := v.(*ssa.Call)
				return ok && isBuiltin(call, "len") && call.Call.Args[0] == ssa.Value(V.Params[vVec])
			}
			isThr := func(v ssa.Value) bool {
				for {
					if cv, ok := v.(*ssa.Convert); ok {
						v = cv.X
						continue
					}
					break
				}
				return v == ssa.Value(V.Params[vThr])
			}
			return (isLen(a.LV) && isThr(a.RV)) || (isLen(a.RV) && isThr(a.LV))
		}
		bad := false
		ntrue := 0
		for _, ret := range an.Returns(V) {
			v := an.Result(ret, 0)
			if k, ok := v.(*ssa.Const); ok && an.Term(k) == "false" {
				continue
			}
			ntrue++
			target := ssa.Instruction(ret)
			if x, path := an.Cut(an.CutQuery{From: an.Entry(V), Target: func(i ssa.Instruction) bool { return i == target },
				AcceptEdge: func(b *ssa.BasicBlock, i int, a *an.Atom) bool { return lenAtom(a) }}); x != nil {
				bad = true
				_ = path
			}
		}
		if !bad && ntrue > 0 {
			verifyHasLen = true
			c.R.OK(rule2, Fn(V), c.P.FuncPos(V), "every accepting return is cut by [len(vector) == threshold]")
		}
	}
	// ---- O1: received shares / vectors are stored only below the check on the same values
	mapFlds := sessionMapFields(p.Session)
	nrecv := 0
	for _, fn := range c.P.ModuleFuncs() {
		if prog.PkgPathOf(fn) != pkg || fn.Blocks == nil {
			continue
		}
		for _, b := range fn.Blocks {
			for _, ins := range b.Instrs {
				mu, ok := ins.(*ssa.MapUpdate)
				if !ok {
					continue
				}
				f, sess := p.sessionFieldOf(mu.Map)
				isShared := false
				for _, mf := range mapFlds {
					if mf == f {
						isShared = true
					}
				}
				if !isShared {
					continue
				}
				// received: a parameter of a protocol method, or a result of the sender service
				received := false
				switch v := mu.Value.(type) {
				case *ssa.Parameter:
					received = true
				case *ssa.Extract:
					if call, ok := v.Tuple.(*ssa.Call); ok && call.Call.IsInvoke() && namedIs(call.Call.Value.Type(), pkgSender, "Service") {
						received = true
					}
				}
				if !received {
					// own contribution: must not come from a parameter at all
					if dependsOnParam(mu.Value, 0) {
						c.R.Unknown(rule1, Fn(fn)+":"+f, c.Pos(mu), "cannot classify the stored contribution as own or received: "+an.Term(mu.Value))
					}
					continue
				}
				target := ssa.Instruction(mu)
				isVec := strings.Contains(strings.ToLower(f), "vvec") || isSliceType(mu.Value.Type())
				// the store may sit in a helper (a method of the session, a per-peer helper): the check is looked for on every call
				// chain from a protocol method, with the stored value and the session resolved through the chain
				isRoot := func(g *ssa.Function) bool {
					for _, m := range p.Methods {
						if m == g {
							return true
						}
					}
					return false
				}
				nrecv += len(c.Chains(fn, target, isRoot, 4))
				checkFor := func(needLenOnly bool) func(ch []Frame) AtomPred {
					return func(ch []Frame) AtomPred {
						last := ch[len(ch)-1].Sub
						wantVal := last.Res(mu.Value)
						sessVal := last.Res(sess)
						// a recording helper shared by received and own contributions: on a chain where the value recorded is the
						// instance's own (computed, not a parameter of a protocol method nor a reply of the sender) nothing is to check
						if len(ch) > 1 {
							own := true
							switch rv := wantVal.(type) {
							case *ssa.Parameter:
								own = false
							case *ssa.Extract:
								if call, ok := rv.Tuple.(*ssa.Call); ok && call.Call.IsInvoke() && namedIs(call.Call.Value.Type(), pkgSender, "Service") {
									own = false
								}
							}
							if own && !dependsOnParam(wantVal, 0) {
								return nil
							}
						}
						sameSess := func(base ssa.Value, s2 Subst) bool { return base != nil && s2.Res(base) == sessVal }
						return func(a *an.Atom, s2 Subst) bool {
							if a == nil {
								return false
							}
							if a.Op == "true" && (!needLenOnly || verifyHasLen) {
								call, ok := s2.Res(a.LV).(*ssa.Call)
								if ok && call.Call.StaticCallee() == V {
									args := call.Call.Args
									okVal := false
									if isVec && s2.Res(args[vVec]) == wantVal {
										okVal = true
									}
									if !isVec && s2.Res(args[vShare]) == wantVal {
										okVal = true
									}
									if okVal {
										// checked against the instance's own id and the session threshold
										idf, s1 := p.sessionFieldOf(s2.Res(args[vID]))
										okSess := (needLenOnly || idf == "id") && (needLenOnly || sameSess(s1, s2))
										if vThr >= 0 {
											tf, st2 := p.sessionFieldOf(s2.Res(args[vThr]))
											okSess = okSess && tf == "threshold" && sameSess(st2, s2)
										}
										if okSess {
											return true
										}
									}
								}
							}
							if needLenOnly && a.Op == "==" {
								strip := func(v ssa.Value) ssa.Value {
									for {
										if cv, ok := v.(*ssa.Convert); ok {
											v = cv.X
											continue
										}
										return s2.Res(v)
									}
								}
								l, r := strip(a.LV), strip(a.RV)
								for _, side := range [][2]ssa.Value{{l, r}, {r, l}} {
									call, ok := side[0].(*ssa.Call)
									if ok && isBuiltin(call, "len") && s2.Res(call.Call.Args[0]) == wantVal {
										if tf, st2 := p.sessionFieldOf(side[1]); tf == "threshold" && sameSess(st2, s2) {
											return true
										}
									}
								}
							}
							return false
						}
					}
				}
				okChk, wit := c.InterCutCh(fn, target, isRoot, checkFor(false))
				if isVec {
					// O2: the vector recorded has exactly session.threshold entries: through the check (if it tests the length itself) or a local test
					okLen, ywit := c.InterCutCh(fn, target, isRoot, checkFor(true))
					if !okLen {
						c.R.Fail(rule2, Fn(fn)+":"+f, c.Pos(mu), "a received verification vector is recorded without its length having been tested against the session threshold: a longer vector makes commit index past the threshold-sized aggregate (crash), a shorter one yields accounts that fail only at the initiator's final check", "record only below [len(vector) == session.threshold] (in the contribution check or next to it)", ywit)
					} else {
						c.R.OK(rule2, Fn(fn)+":"+f, c.Pos(mu), "recorded only below [len(vector) == session.threshold]")
					}
				}
				if !okChk {
					c.R.Fail(rule1, Fn(fn)+":"+f, c.Pos(mu), "a received "+f+" entry is recorded in the session without having passed the contribution check (against this instance's id and the session threshold)", "store only below [verifyContribution(session.id, session.threshold, share, vector) == true] for the same share and vector", wit)
				} else {
					c.R.OK(rule1, Fn(fn)+":"+f, c.Pos(mu), "recorded only below the contribution check of the same share/vector against session.id and session.threshold")
				}
			}
		}
	}
	c.R.Floor(rule1, "stores of received contributions", nrecv, 4)
	// share and vector of one check come from one message: both arguments of each verify call are results of the same call / parameters of the same function
	for _, fn := range c.P.ModuleFuncs() {
		if prog.PkgPathOf(fn) != pkg {
			continue
		}
		for _, ci := range Calls(fn, func(ci ssa.CallInstruction) bool { return ci.Common().StaticCallee() == V }) {
			a := ci.Common().Args
			okPair := false
			_, p1 := a[vShare].(*ssa.Parameter)
			_, p2 := a[vVec].(*ssa.Parameter)
			if p1 && p2 {
				okPair = true
			}
			e1, ok1 := a[vShare].(*ssa.Extract)
			e2, ok2 := a[vVec].(*ssa.Extract)
			if ok1 && ok2 && e1.Tuple == e2.Tuple {
				okPair = true
			}
			// the instance checking the shares it computed itself against its own vector (a list made in this function):
			// nothing received is involved
			if !okPair && locallyMadeList(a[vVec], 0) {
				okPair = true
			}
			if !okPair {
				c.R.Fail(rule1, Fn(fn)+":pair", c.Pos(ci), "share and verification vector given to the contribution check do not come from one and the same message", "check(share, vector) of one contribution", nil)
			}
		}
	}
	// ---- aggregate vector has session.threshold entries
	{
		F := p.Methods["OnCommit"]
		found := false
		var aggBlocks []*ssa.BasicBlock
		for _, g := range c.StaticReach(F, 2) {
			if g == F || (g.Blocks != nil && prog.PkgPathOf(g) == pkg) {
				aggBlocks = append(aggBlocks, g.Blocks...)
			}
		}
		for _, b := range aggBlocks {
			for _, ins := range b.Instrs {
				mk, ok := ins.(*ssa.MakeSlice)
				if !ok || !strings.Contains(an.TypeStr(mk.Type()), "PublicKey") {
					continue
				}
				l := mk.Len
				for {
					if cv, ok := l.(*ssa.Convert); ok {
						l = cv.X
						continue
					}
					break
				}
				if f, _ := p.sessionFieldOf(l); f == "threshold" {
					found = true
				}
			}
		}
		if !found {
			c.R.Fail(rule2, Fn(F)+":aggregate", c.P.FuncPos(F), "the aggregate verification vector is not sized by the session threshold", "make([]PublicKey, session.threshold)", nil)
		} else {
			c.R.OK(rule2, Fn(F)+":aggregate", c.P.FuncPos(F), "aggregate vector = make(session.threshold); stored vectors have exactly threshold entries, so aggregate[i] is in range")
		}
	}
	// ---- O3 participant side: the account is written only in commit, below both completeness tests
	rule3 := "C13.O3 commit-needs-all"
	nimp := 0
	for _, fn := range c.P.ModuleFuncs() {
		if prog.PkgPathOf(fn) != pkg || fn.Blocks == nil {
			continue
		}
		for _, ci := range Calls(fn, func(ci ssa.CallInstruction) bool {
			cc := ci.Common()
			return cc.IsInvoke() && (cc.Method.Name() == "ImportDistributedAccount" || cc.Method.Name() == "CreateDistributedAccount")
		}) {
			nimp++
			// fn must be reachable (statically) only from OnCommit
			callers := 0
			for _, other := range c.P.ModuleFuncs() {
				if prog.IsTestish(prog.PkgPathOf(other)) {
					continue
				}
				for _, c2 := range Calls(other, func(x ssa.CallInstruction) bool { return x.Common().StaticCallee() == fn }) {
					callers++
					if other != p.Methods["OnCommit"] {
						c.R.Fail(rule3, Fn(other), c.Pos(c2), "a distributed account is written outside the commit step", "account stored only by commit", nil)
						continue
					}
					// below both completeness tests (checked for success returns by C17.O4; here for the store call)
					lcs := Calls(other, func(x ssa.CallInstruction) bool { return p.isLookup(x.Common().StaticCallee()) })
					var gen ssa.Value
					if len(lcs) == 1 {
						for _, r := range *lcs[0].Value().Referrers() {
							if ex, ok := r.(*ssa.Extract); ok && ex.Index == 0 {
								gen = ex
							}
						}
					}
					listFld := sessionParticipantsField(p.Session)
					for _, mf := range mapFlds {
						mf := mf
						target := c2.(ssa.Instruction)
						x, path := an.Cut(an.CutQuery{From: an.Entry(other), Target: func(i ssa.Instruction) bool { return i == target },
							AcceptEdge: c.WithSummaries(func(a *an.Atom, sub Subst) bool {
								if a == nil || a.Op != "==" {
									return false
								}
								isLenOf := func(v ssa.Value, f string) bool {
									call, ok := v.(*ssa.Call)
									if !ok || !isBuiltin(call, "len") {
										return false
									}
									ff, base := p.sessionFieldOf(call.Call.Args[0])
									return ff == f && sub.Res(base) == gen
								}
								return (isLenOf(a.LV, mf) && isLenOf(a.RV, listFld)) || (isLenOf(a.RV, mf) && isLenOf(a.LV, listFld))
							})})
						if x != nil {
							c.R.Fail(rule3, Fn(other)+":"+mf, c.Pos(c2), "the account can be written although not every listed participant has contributed ("+mf+")", "store only below [len("+mf+") == len(participants)]", an.PathString(c.Pos, path))
						} else {
							c.R.OK(rule3, Fn(other)+":"+mf, c.Pos(c2), "account written only below [len("+mf+") == len(participants)]")
						}
					}
				}
			}
			if callers == 0 && fn != p.Methods["OnCommit"] {
				c.R.Unknown(rule3, Fn(fn), c.Pos(ci), "the function writing the distributed account has no caller")
			}
		}
	}
	c.R.Floor(rule3, "distributed account writes", nimp, 1)
	// ---- O3 initiator side: commit messages only after every prepare and execute succeeded
	c.initiatorOrder(prop, p)
	// ---- O4 handler-errors
	rule4 := "C13.O4 handler-errors"
	for _, H := range c.handlersIn(rule4, "/handlers/receiver") {
		for _, ci := range Calls(H, func(ci ssa.CallInstruction) bool {
			return ci.Common().IsInvoke() && namedIs(ci.Common().Value.Type(), pkgProcess, "Service") && ci.Common().Method.Name() == "OnContribute"
		}) {
			// every Deserialize error is fatal before the call
			nd := 0
			bad := false
			for _, d := range Calls(H, func(d ssa.CallInstruction) bool {
				f := d.Common().StaticCallee()
				return f != nil && f.Name() == "Deserialize" && errResultIndex2(d.Common().Signature()) >= 0
			}) {
				nd++
				errs := map[ssa.Value]bool{}
				for _, e := range errValuesOfCall(d) {
					errs[e] = true
				}
				target := ci.(ssa.Instruction)
				if x, path := an.Cut(an.CutQuery{From: an.After(d), Target: func(i ssa.Instruction) bool { return i == target },
					AcceptEdge: func(b *ssa.BasicBlock, i int, a *an.Atom) bool { return errNilAtom(a, errs) }}); x != nil {
					bad = true
					c.R.Fail(rule4, Fn(H), c.Pos(d), "an undecodable share or vector entry is passed on to the process service", "decode errors return before OnContribute", an.PathString(c.Pos, path))
				}
			}
			// decode helpers: a module helper that decodes and returns a nil error only past the nil-error edge of each of its
			// Deserialize calls counts as a decode step of the handler
			isDeser := func(d ssa.CallInstruction) bool {
				f := d.Common().StaticCallee()
				return f != nil && f.Name() == "Deserialize" && errResultIndex2(d.Common().Signature()) >= 0
			}
			isHelperCall := func(d ssa.CallInstruction) bool {
				f := d.Common().StaticCallee()
				return f != nil && prog.InModule(f) && f.Blocks != nil && !d.Common().IsInvoke() && errResultIndex(f) >= 0
			}
			// decodeHelper: the number of Deserialize calls P (and the decode helpers it calls) performs, each of which must
			// lie before P's nil-error returns only through its own nil-error edge; ok=false reports a failure
			var decodeHelper func(P *ssa.Function, depth int) (int, bool)
			decodeHelper = func(P *ssa.Function, depth int) (int, bool) {
				n, okP := 0, true
				var steps []ssa.CallInstruction
				for _, d := range Calls(P, isDeser) {
					steps = append(steps, d)
					n++
				}
				if depth < 2 {
					for _, d := range Calls(P, isHelperCall) {
						m, okQ := decodeHelper(d.Common().StaticCallee(), depth+1)
						if m == 0 {
							continue
						}
						if !okQ {
							okP = false
						}
						steps = append(steps, d)
						n += m
					}
				}
				for _, d := range steps {
					errs := map[ssa.Value]bool{}
					for _, e := range errValuesOfCall(d) {
						errs[e] = true
					}
					if x, path := an.Cut(an.CutQuery{From: an.After(d), Target: func(i ssa.Instruction) bool { return isNilReturn(i, P) },
						AcceptEdge: func(b *ssa.BasicBlock, i int, a *an.Atom) bool { return errNilAtom(a, errs) }}); x != nil {
						okP = false
						bad = true
						c.R.Fail(rule4, Fn(P), c.Pos(d), "a decode helper can report success although an entry could not be decoded", "nil error only past the nil-error edge of every Deserialize", an.PathString(c.Pos, path))
					}
				}
				return n, okP
			}
			for _, hc := range Calls(H, isHelperCall) {
				P := hc.Common().StaticCallee()
				m, okP := decodeHelper(P, 0)
				if m == 0 || !okP {
					continue
				}
				errs := map[ssa.Value]bool{}
				for _, e := range errValuesOfCall(hc) {
					errs[e] = true
				}
				target := ci.(ssa.Instruction)
				if !an.Reachable(an.After(hc), target) {
					continue
				}
				nd += m
				if x, path := an.Cut(an.CutQuery{From: an.After(hc), Target: func(i ssa.Instruction) bool { return i == target },
					AcceptEdge: func(b *ssa.BasicBlock, i int, a *an.Atom) bool { return errNilAtom(a, errs) }}); x != nil {
					bad = true
					c.R.Fail(rule4, Fn(H), c.Pos(hc), "an undecodable share or vector entry is passed on to the process service", "decode errors return before OnContribute", an.PathString(c.Pos, path))
				}
			}
			if nd < 2 {
				c.R.Fail(rule4, Fn(H), c.Pos(ci), "share and vector are not both decoded with error checking", "Deserialize(share), Deserialize(vector[i])", nil)
			} else if !bad {
				c.R.OK(rule4, Fn(H), c.Pos(ci), fmt.Sprintf("%d decode steps; OnContribute only past their nil-error edges", nd))
			}
		}
	}
	// ---- O4, second half: a failure reported by the process service is a failure of the message. Every handler answers
	// success (nil error) only past the nil-error edge of each process-service call it made: the initiator ends a generation
	// with an error exactly when some prepare / execute / commit message comes back as an error, and it is the refusal of a
	// second Prepare ("in progress") that keeps a new generation off the state a failed one left behind.
	nprop := 0
	for _, H := range c.handlersIn(rule4, "/handlers/receiver") {
		for _, ci := range Calls(H, func(ci ssa.CallInstruction) bool {
			return ci.Common().IsInvoke() && namedIs(ci.Common().Value.Type(), pkgProcess, "Service") && errResultIndex2(ci.Common().Signature()) >= 0
		}) {
			nprop++
			errs := map[ssa.Value]bool{}
			for _, e := range errValuesOfCall(ci) {
				errs[e] = true
			}
			key := Fn(H) + ":" + ci.Common().Method.Name() + ":error-propagated"
			if len(errs) == 0 {
				c.R.Fail(rule4, key, c.Pos(ci), "the error of the process service is dropped", "success only below [err == nil]", nil)
				continue
			}
			if x, path := an.Cut(an.CutQuery{From: an.After(ci.(ssa.Instruction)), Target: func(i ssa.Instruction) bool { return isNilReturn(i, H) },
				AcceptEdge: func(b *ssa.BasicBlock, i int, a *an.Atom) bool { return errNilAtom(a, errs) }}); x != nil {
				c.R.Fail(rule4, key, c.Pos(x), "the handler can answer success although the process service reported a failure", "success only below [err == nil] of "+ci.Common().Method.Name(), an.PathString(c.Pos, path))
			} else {
				c.R.OK(rule4, key, c.Pos(ci), "success is answered only below the nil-error edge of "+ci.Common().Method.Name())
			}
			// and what is answered on the failing side is an error: the value returned there is the process error itself or
			// built by a constructor that cannot yield nil (an error mapped through a table without a default can)
			ek := errResultIndex(H)
			for _, ret := range an.Returns(H) {
				if ek < 0 || isNilReturn(ret, H) || !an.Reachable(an.After(ci.(ssa.Instruction)), ret) {
					continue
				}
				target := ssa.Instruction(ret)
				if x, _ := an.Cut(an.CutQuery{From: an.After(ci.(ssa.Instruction)), Target: func(i ssa.Instruction) bool { return i == target },
					AcceptEdge: func(b *ssa.BasicBlock, i int, a *an.Atom) bool { return errNilAtom(a, errs) }}); x == nil {
					continue // only reached on the succeeding side
				}
				if why := nonNilError(an.Result(ret, ek), errs, 0); why != "" {
					c.R.Fail(rule4, Fn(H)+":"+ci.Common().Method.Name()+":error-is-error", c.Pos(ret), "on the failing side of "+ci.Common().Method.Name()+" the handler returns a value that can be nil, i.e. success: "+why, "the process error itself, or errors.New / fmt.Errorf / Wrap of it / status.Error with a non-OK code", nil)
				}
			}
		}
	}
	c.R.Floor(rule4, "process-service calls in the receiver handlers", nprop, 5)
	_ = token.ADD
}

// nonNilError: "" when v cannot be nil given that the values in nonNil are non-nil errors; else the reason.
func nonNilError(v ssa.Value, nonNil map[ssa.Value]bool, depth int) string {
	if depth > 4 {
		return "a value chain too long to follow"
	}
	v = unwrapErr(v)
	if nonNil[v] {
		return ""
	}
	switch x := v.(type) {
	case *ssa.Const:
		if x.Value == nil {
			return "nil"
		}
	case *ssa.MakeInterface:
		if _, isPtr := x.X.Type().Underlying().(*types.Pointer); !isPtr {
			return "" // a concrete non-pointer error value
		}
		if _, isAlloc := x.X.(*ssa.Alloc); isAlloc {
			return ""
		}
	case *ssa.Phi:
		for _, e := range x.Edges {
			if why := nonNilError(e, nonNil, depth+1); why != "" {
				return why
			}
		}
		return ""
	case *ssa.Call:
		f := x.Call.StaticCallee()
		if f == nil {
			return "the result of a dynamic call"
		}
		switch f.String() {
		case "errors.New", "fmt.Errorf", "github.com/pkg/errors.New", "github.com/pkg/errors.Errorf":
			return ""
		case "github.com/pkg/errors.Wrap", "github.com/pkg/errors.Wrapf", "github.com/pkg/errors.WithMessage", "github.com/pkg/errors.WithStack":
			return nonNilError(x.Call.Args[0], nonNil, depth+1) // Wrap(nil) is nil
		case "google.golang.org/grpc/status.Error", "google.golang.org/grpc/status.Errorf":
			if k, ok := x.Call.Args[0].(*ssa.Const); ok && !an.IsConstInt(k, 0) {
				return ""
			}
			return "status.Error with a code that is not a non-OK constant (codes.OK yields a nil error): " + an.Term(x.Call.Args[0])
		}
		if prog.InModule(f) && f.Blocks != nil && !x.Call.IsInvoke() {
			// a module helper: every return must be non-nil, its error parameters standing for the non-nil arguments
			nn := map[ssa.Value]bool{}
			for i, p := range f.Params {
				if i < len(x.Call.Args) && nonNilError(x.Call.Args[i], nonNil, depth+1) == "" && isErrorType(p.Type()) {
					nn[p] = true
				}
			}
			k := errResultIndex(f)
			if k < 0 {
				return "the result of " + prog.ShortFunc(f)
			}
			for _, ret := range an.Returns(f) {
				if why := nonNilError(an.Result(ret, k), nn, depth+1); why != "" {
					return "in " + prog.ShortFunc(f) + ": " + why
				}
			}
			return ""
		}
		return "the result of " + f.String()
	}
	return "a value that is not known to be non-nil: " + an.Term(v)
}

func isSliceType(t types.Type) bool {
	_, ok := t.(*types.Slice)
	return ok
}

func dependsOnParam(v ssa.Value, d int) bool {
	if d > 8 || v == nil {
		return false
	}
	switch x := v.(type) {
	case *ssa.Parameter:
		// the session parameter itself (a pointer to the session) is not "received" data
		if _, isPtr := x.Type().(*types.Pointer); isPtr {
			return false
		}
		return true
	case *ssa.UnOp:
		return dependsOnParam(x.X, d+1)
	case *ssa.Lookup:
		return dependsOnParam(x.X, d+1)
	case *ssa.Extract:
		return dependsOnParam(x.Tuple, d+1)
	case *ssa.Phi:
		for _, e := range x.Edges {
			if dependsOnParam(e, d+1) {
				return true
			}
		}
	}
	return false
}

// initiatorOrder: in the distributed generation driver, no commit message is sent unless every prepare and every
// execute message succeeded.
func (c *Ctx) initiatorOrder(prop string, p *Proc) {
	rule := "C13.O3 commit-needs-all/initiator"
	pkg := p.Impl.Obj().Pkg().Path()
	nd := 0
	for _, fn := range c.P.ModuleFuncs() {
		if prog.PkgPathOf(fn) != pkg || fn.Blocks == nil || fn.Parent() != nil {
			continue
		}
		isSenderCall := func(ci ssa.CallInstruction, m string) bool {
			return ci.Common().IsInvoke() && namedIs(ci.Common().Value.Type(), pkgSender, "Service") && ci.Common().Method.Name() == m
		}
		// a package helper that sends prepare / execute messages for the driver: it sends no commit, returns an error, and
		// returns nil only past the nil-error edge of each prepare / execute message it sent
		peHelper := func(g *ssa.Function) (isHelper bool, valid bool) {
			if g == nil || g == fn || g.Blocks == nil || prog.PkgPathOf(g) != pkg || errResultIndex(g) < 0 {
				return false, false
			}
			for _, gf := range WithClosures(g) {
				if len(Calls(gf, func(x ssa.CallInstruction) bool { return isSenderCall(x, "Commit") })) > 0 {
					return false, false
				}
			}
			pcs := Calls(g, func(x ssa.CallInstruction) bool { return isSenderCall(x, "Prepare") || isSenderCall(x, "Execute") })
			if len(pcs) == 0 {
				return false, false
			}
			valid = true
			for _, pc := range pcs {
				errs := map[ssa.Value]bool{}
				for _, e := range errValuesOfCall(pc) {
					errs[e] = true
				}
				if x, _ := an.Cut(an.CutQuery{From: an.After(pc), Target: func(i ssa.Instruction) bool { return isNilReturn(i, g) },
					AcceptEdge: func(b *ssa.BasicBlock, i int, a *an.Atom) bool { return errNilAtom(a, errs) }}); x != nil {
					valid = false
				}
			}
			return true, valid
		}
		isPEStep := func(ci ssa.CallInstruction) bool {
			if isSenderCall(ci, "Prepare") || isSenderCall(ci, "Execute") {
				return true
			}
			if ci.Common().IsInvoke() {
				return false
			}
			h, _ := peHelper(ci.Common().StaticCallee())
			return h
		}
		// commit sites: invokes of sender.Commit in fn or its closures; the instruction in fn that starts them
		var commitStarts []ssa.Instruction
		for _, f := range WithClosures(fn) {
			for _, ci := range Calls(f, func(ci ssa.CallInstruction) bool { return isSenderCall(ci, "Commit") }) {
				if f == fn {
					commitStarts = append(commitStarts, ci)
					continue
				}
				// the closure creation / go statement in fn
				for _, b := range fn.Blocks {
					for _, ins := range b.Instrs {
						if mc, ok := ins.(*ssa.MakeClosure); ok && mc.Fn == f {
							commitStarts = append(commitStarts, mc)
						}
					}
				}
			}
		}
		// calls of package helpers that (themselves or in their closures) send commit messages start commits as well
		for _, ci := range Calls(fn, func(ci ssa.CallInstruction) bool {
			g := ci.Common().StaticCallee()
			if g == nil || g == fn || g.Blocks == nil || ci.Common().IsInvoke() || prog.PkgPathOf(g) != pkg {
				return false
			}
			// a callee that sends prepare/execute itself is a driver of its own (judged separately), not a commit helper
			if len(Calls(g, func(x ssa.CallInstruction) bool { return isSenderCall(x, "Prepare") || isSenderCall(x, "Execute") })) > 0 {
				return false
			}
			for _, gf := range WithClosures(g) {
				if len(Calls(gf, func(x ssa.CallInstruction) bool { return isSenderCall(x, "Commit") })) > 0 {
					return true
				}
			}
			return false
		}) {
			commitStarts = append(commitStarts, ci.(ssa.Instruction))
		}
		if len(commitStarts) == 0 {
			continue
		}
		// a function that only sends commits on behalf of a package caller is a helper of that caller's driver
		npe := len(Calls(fn, isPEStep))
		if npe == 0 {
			helper := false
			for _, cs := range c.staticCallers()[fn] {
				if cs.Parent() != nil && prog.PkgPathOf(cs.Parent()) == pkg {
					helper = true
				}
			}
			if helper {
				continue
			}
		}
		nd++
		bad := false
		npre := 0
		for _, m := range []string{"Prepare", "Execute", "helper"} {
			for _, pc := range Calls(fn, func(ci ssa.CallInstruction) bool {
				if m != "helper" {
					return isSenderCall(ci, m)
				}
				return !ci.Common().IsInvoke() && isPEStep(ci)
			}) {
				npre++
				if m == "helper" {
					npre++ // stands for the prepare and execute messages it sends
					if _, valid := peHelper(pc.Common().StaticCallee()); !valid {
						bad = true
						c.R.Fail(rule, Fn(pc.Common().StaticCallee()), c.Pos(pc), "the helper sending prepare / execute messages can report success although a message failed", "nil only past [err == nil] of every prepare and execute", nil)
					}
				}
				errs := map[ssa.Value]bool{}
				for _, e := range errValuesOfCall(pc) {
					errs[e] = true
				}
				for _, cs := range commitStarts {
					target := cs
					if x, path := an.Cut(an.CutQuery{From: an.After(pc), Target: func(i ssa.Instruction) bool { return i == target },
						AcceptEdge: func(b *ssa.BasicBlock, i int, a *an.Atom) bool { return errNilAtom(a, errs) }}); x != nil {
						bad = true
						c.R.Fail(rule, Fn(fn)+":"+m, c.Pos(pc), "commit messages can be sent although a "+strings.ToLower(m)+" message failed: participants whose exchange is incomplete or invalid would be told to store the account", "commit only past [err == nil] of every prepare and execute", an.PathString(c.Pos, path))
					}
				}
			}
		}
		if npre < 2 {
			c.R.Fail(rule, Fn(fn), c.P.FuncPos(fn), "the generation driver does not send both prepare and execute before commit", "prepare*, execute*, then commit*", nil)
		} else if !bad {
			c.R.OK(rule, Fn(fn), c.P.FuncPos(fn), "commit messages are started only past the nil-error edge of every prepare and execute message")
		}
	}
	c.R.Floor(rule, "generation drivers sending commit", nd, 1)
}

// ThresholdRules: C12 O1-O4.
func (c *Ctx) ThresholdRules(prop string) {
	p := c.Proc(prop + ".anchors")
	if !p.OK() {
		return
	}
	rule1 := "C12.O1 threshold-bounds"
	F := p.Methods["OnGenerate"]
	// parameters: signingThreshold, numParticipants = the two uint32 parameters (in that order)
	var u32 []*ssa.Parameter
	for _, prm := range F.Params {
		if b, ok := prm.Type().(*types.Basic); ok && b.Kind() == types.Uint32 {
			u32 = append(u32, prm)
		}
	}
	if len(u32) != 2 {
		c.R.Anchor(rule1, "OnGenerate:params", "expected (threshold, participants) uint32 parameters")
		return
	}
	// which is which: the one compared with 0 / divided by 2 is n; infer from use as the threshold argument of Prepare
	var t, n ssa.Value
	for _, f := range c.StaticReach(F, 3) {
		for _, ci := range Calls(f, func(ci ssa.CallInstruction) bool {
			return ci.Common().IsInvoke() && namedIs(ci.Common().Value.Type(), pkgSender, "Service") && ci.Common().Method.Name() == "Prepare"
		}) {
			for _, a := range ci.Common().Args {
				if b, ok := a.Type().(*types.Basic); ok && b.Kind() == types.Uint32 {
					// a is a parameter of f; map it back to F's parameter through the chain of static calls that leads from F to f
					var up func(g *ssa.Function, v ssa.Value, depth int)
					up = func(g *ssa.Function, v ssa.Value, depth int) {
						if g == F {
							for _, prm := range u32 {
								if ssa.Value(prm) == v {
									t = v
								}
							}
							return
						}
						if depth > 4 {
							return
						}
						for i, prm := range g.Params {
							if ssa.Value(prm) != v {
								continue
							}
							for _, call := range c.staticCallers()[g] {
								if i < len(call.Common().Args) && !prog.IsTestish(prog.PkgPathOf(call.Parent())) {
									up(call.Parent(), call.Common().Args[i], depth+1)
								}
							}
						}
					}
					up(f, a, 0)
				}
			}
		}
	}
	for _, prm := range u32 {
		if ssa.Value(prm) != t {
			n = prm
		}
	}
	if t == nil || n == nil {
		c.R.Anchor(rule1, "OnGenerate:roles", "cannot infer which parameter is the threshold (the one sent in prepare messages)")
		return
	}
	isHalfNS := func(v ssa.Value, sub Subst) bool {
		b, ok := v.(*ssa.BinOp)
		return ok && b.Op == token.QUO && sub.Res(b.X) == n && an.IsConstInt(b.Y, 2)
	}
	isHalfN := func(v ssa.Value) bool { return isHalfNS(v, nil) }
	_ = isHalfN
	type clause struct {
		name string
		acc  func(a *an.Atom) bool
	}
	clauses := []clause{
		{"participants != 0", func(a *an.Atom) bool {
			return a != nil && ((a.Op == "!=" && ((a.LV == n && an.IsConstInt(a.RV, 0)) || (a.RV == n && an.IsConstInt(a.LV, 0)))) || (a.Op == "<" && an.IsConstInt(a.LV, 0) && a.RV == n))
		}},
		{"threshold <= participants", func(a *an.Atom) bool { return a != nil && a.Op == "<=" && a.LV == t && a.RV == n }},
		{"participants/2 < threshold", nil},
	}
	halfClause := func(a *an.Atom, sub Subst) bool {
		return a != nil && a.Op == "<" && isHalfNS(a.LV, sub) && sub.Res(a.RV) == t
	}
	// sinks: calls that start a generation (module callees that reach sender.Prepare or an account creator)
	nsink := 0
	for _, ci := range Calls(F, func(ci ssa.CallInstruction) bool {
		f := ci.Common().StaticCallee()
		if f == nil || !prog.InModule(f) || f.Blocks == nil {
			return false
		}
		for _, g := range c.StaticReach(f, 3) {
			for range Calls(g, func(x ssa.CallInstruction) bool {
				cc := x.Common()
				if !cc.IsInvoke() {
					return false
				}
				return (namedIs(cc.Value.Type(), pkgSender, "Service") && cc.Method.Name() == "Prepare") || cc.Method.Name() == "CreateAccount"
			}) {
				return true
			}
		}
		return false
	}) {
		nsink++
		for _, cl := range clauses {
			cl := cl
			target := ci.(ssa.Instruction)
			x, path := an.Cut(an.CutQuery{From: an.Entry(F), Target: func(i ssa.Instruction) bool { return i == target },
				AcceptEdge: c.WithSummaries(func(a *an.Atom, sub Subst) bool {
					if cl.acc == nil {
						return halfClause(a, sub)
					}
					return cl.acc(resolveAtom(a, sub))
				})})
			if x != nil {
				c.R.Fail(rule1, Fn(F)+":"+cl.name+"@"+CalleeName(ci), c.Pos(ci), "a generation can be started without ["+cl.name+"]: with threshold <= participants/2 two disjoint quorums exist and conflicting duties can both be signed", "generation only below ["+cl.name+"]", an.PathString(c.Pos, path))
			} else {
				c.R.OK(rule1, Fn(F)+":"+cl.name+"@"+CalleeName(ci), c.Pos(ci), "generation only below ["+cl.name+"]")
			}
		}
	}
	c.R.Floor(rule1, "generation start sites", nsink, 2)
	// ---- O3 threshold flow
	rule3 := "C12.O3 threshold-flow"
	{
		okFlow := true
		// (a) prepare handler passes the request threshold to OnPrepare; OnPrepare stores its threshold parameter in the session
		P := p.Methods["OnPrepare"]
		stored := false
		isProto := func(g *ssa.Function) bool {
			for _, m := range p.Methods {
				if m == g {
					return true
				}
			}
			return false
		}
		// (a)+(b) every store to session.threshold initialises a fresh session object with the threshold parameter of prepare
		// (directly, or in a constructor reached only from prepare); nothing else writes the field
		for _, fn := range c.P.ModuleFuncs() {
			if prog.PkgPathOf(fn) != p.Impl.Obj().Pkg().Path() {
				continue
			}
			for _, b := range fn.Blocks {
				for _, ins := range b.Instrs {
					st, ok := ins.(*ssa.Store)
					if !ok {
						continue
					}
					fa, ok := st.Addr.(*ssa.FieldAddr)
					if !ok || namedOf(fa.X.Type()) != p.Session || fieldNameOf(fa) != "threshold" {
						continue
					}
					if _, fresh := fa.X.(*ssa.Alloc); !fresh {
						okFlow = false
						c.R.Fail(rule3, Fn(fn), c.Pos(st), "the threshold of an existing session is changed", "threshold fixed at prepare", nil)
						continue
					}
					for _, ch := range c.Chains(fn, st, isProto, 4) {
						if ch[0].Fn != P {
							okFlow = false
							c.R.Fail(rule3, Fn(fn), c.Pos(st), "the session threshold is changed after prepare (reached from "+Fn(ch[0].Fn)+")", "threshold fixed at prepare", nil)
							continue
						}
						v := ch[len(ch)-1].Sub.Res(st.Val)
						if prm, ok := v.(*ssa.Parameter); ok && prm.Parent() == P {
							stored = true
						} else {
							okFlow = false
							c.R.Fail(rule3, Fn(fn), c.Pos(st), "the session threshold is not the threshold received in the prepare message: "+an.Term(v), "session.threshold = threshold parameter", nil)
						}
					}
				}
			}
		}
		if !stored {
			okFlow = false
			c.R.Fail(rule3, Fn(P), c.P.FuncPos(P), "prepare does not record the threshold in the session", "session.threshold = threshold parameter", nil)
		}
		// (c) the account is imported with session.threshold
		for _, fn := range c.P.ModuleFuncs() {
			if prog.PkgPathOf(fn) != p.Impl.Obj().Pkg().Path() {
				continue
			}
			for _, ci := range Calls(fn, func(ci ssa.CallInstruction) bool {
				return ci.Common().IsInvoke() && ci.Common().Method.Name() == "ImportDistributedAccount"
			}) {
				var thr ssa.Value
				for _, a := range ci.Common().Args {
					if b, ok := a.Type().(*types.Basic); ok && b.Kind() == types.Uint32 {
						thr = a
					}
				}
				okT := false
				if prm, ok := thr.(*ssa.Parameter); ok {
					idx := -1
					for i, pp := range fn.Params {
						if pp == prm {
							idx = i
						}
					}
					for _, call := range Calls(p.Methods["OnCommit"], func(x ssa.CallInstruction) bool { return x.Common().StaticCallee() == fn }) {
						if f, _ := p.sessionFieldOf(call.Common().Args[idx]); f == "threshold" {
							okT = true
						}
					}
				} else if f, _ := p.sessionFieldOf(thr); f == "threshold" {
					okT = true
				}
				if !okT {
					okFlow = false
					c.R.Fail(rule3, Fn(fn), c.Pos(ci), "the account is stored with a threshold other than the session's", "ImportDistributedAccount(..., session.threshold, ...)", nil)
				}
			}
		}
		if okFlow {
			c.R.OK(rule3, "threshold", "-", "checked threshold -> prepare message -> session.threshold (never changed) -> polynomial degree / contribution check -> ImportDistributedAccount")
		}
	}
	// ---- O4 usable at once
	rule4 := "C12.O4 usable-at-once"
	nadd := 0
	for _, fn := range c.P.ModuleFuncs() {
		if prog.PkgPathOf(fn) != p.Impl.Obj().Pkg().Path() || fn.Blocks == nil {
			continue
		}
		for _, ci := range Calls(fn, func(ci ssa.CallInstruction) bool {
			cc := ci.Common()
			return cc.IsInvoke() && (cc.Method.Name() == "ImportDistributedAccount" || cc.Method.Name() == "CreateAccount") && strings.HasPrefix(an.TypeStr(cc.Value.Type()), pkgWTypes)
		}) {
			nadd++
			var acct ssa.Value
			for _, r := range *ci.Value().Referrers() {
				if ex, ok := r.(*ssa.Extract); ok && ex.Index == 0 {
					acct = ex
				}
			}
			errs := map[ssa.Value]bool{}
			for _, e := range errValuesOfCall(ci) {
				errs[e] = true
			}
			var isAddOf func(i ssa.Instruction, acct ssa.Value, depth int) bool
			isAddOf = func(i ssa.Instruction, acct ssa.Value, depth int) bool {
				x, ok := i.(ssa.CallInstruction)
				if !ok {
					return false
				}
				if x.Common().IsInvoke() {
					if !namedIs(x.Common().Value.Type(), pkgFetcher, "Service") || x.Common().Method.Name() != "AddAccount" {
						return false
					}
					for _, a := range x.Common().Args {
						if a == acct {
							return true
						}
					}
					return false
				}
				// a package helper that is given the account and passes AddAccount(account) on every path to its return
				h := x.Common().StaticCallee()
				if h == nil || depth > 1 || h.Blocks == nil || prog.PkgPathOf(h) != p.Impl.Obj().Pkg().Path() {
					return false
				}
				if _, isDefer := i.(*ssa.Defer); isDefer {
					return false
				}
				if _, isGo := i.(*ssa.Go); isGo {
					return false
				}
				for ai, a := range x.Common().Args {
					if a != acct || ai >= len(h.Params) {
						continue
					}
					hp := h.Params[ai]
					y, _ := an.Cut(an.CutQuery{From: an.Entry(h), Target: func(j ssa.Instruction) bool { _, ok := j.(*ssa.Return); return ok },
						AcceptInstr: func(j ssa.Instruction) bool { return isAddOf(j, hp, depth+1) }})
					if y == nil {
						return true
					}
				}
				return false
			}
			isAdd := func(i ssa.Instruction) bool { return isAddOf(i, acct, 0) }
			// every nil-error return after a successful creation passes AddAccount(account)
			k := errResultIndex(fn)
			bad := false
			for _, ret := range an.Returns(fn) {
				if k >= 0 && !isNilConst(unwrapErr(an.Result(ret, k))) {
					continue
				}
				if !an.Reachable(an.After(ci), ret) {
					continue
				}
				target := ssa.Instruction(ret)
				if x, path := an.Cut(an.CutQuery{From: an.After(ci), Target: func(i ssa.Instruction) bool { return i == target }, AcceptInstr: isAdd}); x != nil {
					bad = true
					c.R.Fail(rule4, Fn(fn), c.Pos(ret), "an account can be created successfully without being added to the in-memory account cache: it would be unusable for signing and listing until restart", "fetcher.AddAccount(wallet, account) on every success path", an.PathString(c.Pos, path))
				}
			}
			// once the account exists in the store it reaches the cache whatever the function then reports: an error return
			// after a successful creation (a cancelled request, a later step failing) must also have passed AddAccount
			for _, ret := range an.Returns(fn) {
				if k < 0 || isNilConst(unwrapErr(an.Result(ret, k))) || !an.Reachable(an.After(ci), ret) {
					continue
				}
				target := ssa.Instruction(ret)
				if x, path := an.Cut(an.CutQuery{From: an.After(ci), Target: func(i ssa.Instruction) bool { return i == target }, AcceptInstr: isAdd,
					AcceptEdge: func(b *ssa.BasicBlock, i int, a *an.Atom) bool {
						// the creation itself failed: nothing was created
						if a == nil || a.Op != "!=" {
							return false
						}
						return (errs[a.LV] && isNilConst(a.RV)) || (errs[a.RV] && isNilConst(a.LV))
					}}); x != nil {
					bad = true
					c.R.Fail(rule4, Fn(fn)+":error-path", c.Pos(ret), "the function can give up after the account was created in the store but before it was added to the in-memory account cache: the account exists, cannot be created again, and is missing from listings and unusable until restart", "after a successful creation every path passes fetcher.AddAccount", an.PathString(c.Pos, path))
				}
			}
			if !bad {
				c.R.OK(rule4, Fn(fn), c.Pos(ci), "every path after a successful creation passes fetcher.AddAccount(wallet, created account)")
			}
		}
	}
	c.R.Floor(rule4, "account creation sites in the process service", nadd, 2)
}

func init() {
	register(&Spec{
		ID: "C13",
		Run: func(c *Ctx) {
			c.MessagesJoined("C13")
			c.ContributionRules("C13")
			c.StoredBeforeSuccess("C13")
			c.SessionLifecycle("C13")
			c.ConstIndexGuarded("C13") // no contribution makes an instance crash
			c.ParticipantsAsSent("C13")
			c.AlignedLists("C13")
			c.IdentifierPure("C16")
		},
		Explanation: "A received share or verification vector enters the session only below the contribution check applied to that very share and vector, this instance's id and the session threshold; the check accepts only vectors of exactly threshold entries (so the aggregate, sized by the threshold, is never indexed out of range); the account is written only by commit, below one share and one vector per listed participant; the initiator starts commit messages only past the nil-error edge of every prepare and execute; undecodable contributions return before the process service. See DESIGN.md §5 C13.",
		Trusted:     append([]string{"herumi BLS share/vector consistency check", "partial failure during the commit phase is outside the statement"}, commonTrusted...),
	})
	register(&Spec{
		ID: "C12",
		Run: func(c *Ctx) {
			c.ThresholdRules("C12")
			c.StoredBeforeSuccess("C12")
			c.VerifiedBeforeSuccess("C12")
			c.OverlayRules("C12")
			// the account is stored under a passphrase the unlocker can still present: the configured default is never overwritten
			c.ImmutableSliceConfig("C12.O4 usable-at-once/config-bytes", pkgProcess, "process service")
			c.ImmutableAfterConstruction("C09.O5 config.immutable", pkgUnlocker, "unlocker passphrase") // the new account unlocks with the passphrases as configured
			c.ParticipantsAsSent("C12")                                                                 // every participant records the participant list the initiator sent
			c.ParticipantCount("C12")
			c.PolynomialFresh("C12")
			c.FirstSlashOnly("C12")
			c.LosslessSplit("C07")                     // "under the requested name": nothing on the way cuts a tail off the name
			c.OneInstance("C12", "fetcher", "process") // the cache the new account is added to is the one the signer and the lister read
			c.ImportUnderSessionLock("C12")
			c.ContributionRules("C13") // the account an instance stores is built from every participant's verified contribution, under the session lock
			c.SessionLifecycle("C13")
			c.IdentifierPure("C16")
		},
		Explanation: "Claimed clauses only: a generation starts only below [n != 0], [t <= n] and [n/2 < t]; the threshold checked is the one sent in prepare, recorded in the session (never changed) and stored with the account; distributed generation reports success only past error-free, non-empty commit replies, pairwise key equality over all participants and a successful recover+verify of every window of t confirmation signatures against the returned key; every created account is added to the in-memory cache, whose lookups and listing consult the overlay; every coefficient of the contributed polynomial is drawn by its own SetByCSPRNG call and only read afterwards. See DESIGN.md §5 C12.",
		Trusted:     append([]string{"Shamir/BLS mathematics inside herumi (share consistency, threshold recovery) is not decided"}, commonTrusted...),
	})
}

// StoredBeforeSuccess (C12.O5): the functions that create accounts report success only if the wallet's create/import call
// succeeded, and commit reports success only if that function did.
func (c *Ctx) StoredBeforeSuccess(prop string) {
	rule := "C12.O5 stored-before-success"
	p := c.Proc(prop + ".anchors")
	if !p.OK() {
		return
	}
	isCreate := func(ci ssa.CallInstruction) bool {
		cc := ci.Common()
		return cc.IsInvoke() && (cc.Method.Name() == "ImportDistributedAccount" || cc.Method.Name() == "CreateAccount") && strings.HasPrefix(an.TypeStr(cc.Value.Type()), pkgWTypes)
	}
	creators := map[*ssa.Function]bool{}
	n := 0
	for _, fn := range c.P.ModuleFuncs() {
		if prog.PkgPathOf(fn) != p.Impl.Obj().Pkg().Path() || fn.Blocks == nil || fn.Parent() != nil {
			continue
		}
		if len(Calls(fn, isCreate)) == 0 || errResultIndex(fn) < 0 {
			continue
		}
		n++
		esc, commits := NilErrorNeeds(fn, isCreate)
		for _, e := range esc {
			c.R.Fail(rule, Fn(fn), c.Pos(e.Ret), "the function "+e.Why+" although the wallet's account creation/import did not succeed (e.g. a deferred closure overwriting the named error result)", "nil error only below [create/import err == nil]", an.PathString(c.Pos, e.Path))
		}
		if len(esc) == 0 && len(commits) > 0 {
			creators[fn] = true
			c.R.OK(rule, Fn(fn), c.P.FuncPos(fn), "nil error only below [create/import err == nil]")
		}
	}
	c.R.Floor(rule, "account-creating functions", n, 2)
	// callers: success only if the creator succeeded
	for _, name := range []string{"OnCommit", "OnGenerate"} {
		F := p.Methods[name]
		isCreatorCall := func(ci ssa.CallInstruction) bool {
			f := ci.Common().StaticCallee()
			return f != nil && creators[f]
		}
		if len(Calls(F, isCreatorCall)) == 0 {
			continue
		}
		// only the success returns that are reachable after the creator call matter
		k := errResultIndex(F)
		bad := false
		for _, cc := range Calls(F, isCreatorCall) {
			errs := map[ssa.Value]bool{}
			for _, e := range errValuesOfCall(cc) {
				errs[e] = true
			}
			for _, ret := range an.Returns(F) {
				if !isNilConst(unwrapErr(an.Result(ret, k))) && !errs[unwrapErr(an.Result(ret, k))] {
					continue
				}
				if errs[unwrapErr(an.Result(ret, k))] {
					continue // returns the creator's own verdict
				}
				if !an.Reachable(an.After(cc), ret) {
					continue
				}
				target := ssa.Instruction(ret)
				if x, path := an.Cut(an.CutQuery{From: an.After(cc), Target: func(i ssa.Instruction) bool { return i == target },
					AcceptEdge: func(b *ssa.BasicBlock, i int, a *an.Atom) bool { return errNilAtom(a, errs) }}); x != nil {
					bad = true
					c.R.Fail(rule, Fn(F)+":"+CalleeName(cc), c.Pos(ret), name+" can report success although storing the account failed", "success only below [store err == nil]", an.PathString(c.Pos, path))
				}
			}
		}
		if !bad {
			c.R.OK(rule, Fn(F), c.P.FuncPos(F), name+" reports success only below the nil-error edge of the account-storing call")
		}
	}
}

// locallyMadeList: the slice value is a make of this function, or grows from one by appends (through phis).
func locallyMadeList(v ssa.Value, d int) bool {
	if d > 8 {
		return false
	}
	switch x := v.(type) {
	case *ssa.MakeSlice:
		return true
	case *ssa.Slice:
		return locallyMadeList(x.X, d+1)
	case *ssa.Call:
		if isBuiltin(x, "append") {
			return locallyMadeList(x.Call.Args[0], d+1)
		}
	case *ssa.Phi:
		seenMake := false
		for _, e := range x.Edges {
			if e == ssa.Value(x) {
				continue
			}
			if call, ok := e.(*ssa.Call); ok && isBuiltin(call, "append") {
				// the append of the loop: its first argument is this list again (or the body's view of it)
				if in, isPhi := call.Call.Args[0].(*ssa.Phi); isPhi && (in == x || d < 6) {
					if in != x && !locallyMadeList(in, d+3) {
						return false
					}
					seenMake = true
					continue
				}
			}
			if !locallyMadeList(e, d+1) {
				return false
			}
			seenMake = true
		}
		return seenMake
	}
	return false
}
