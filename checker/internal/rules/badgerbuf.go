package rules

import (
	"go/token"
	"go/types"

	"dirkcheck/internal/an"
	"dirkcheck/internal/prog"

	"golang.org/x/tools/go/ssa"
)

// BadgerBufferDiscipline (C11.O6 store.value-copied): badger hands out byte slices that are only valid for a short time - the
// argument of the callback given to (*Item).Value is valid only inside the callback, the result of (*Item).Key only until the
// iterator advances. A record read from the store is faithful only if those bytes are copied before they are kept: the rule
// lists every such slice in production code and requires that all its uses are copies or reads (copy source, append source,
// len, indexing, string conversion, re-slicing under the same restriction, or a module callee whose parameter obeys the same
// restriction); storing it, returning it, putting it in a map or an interface is a violation.
func (c *Ctx) BadgerBufferDiscipline(prop string) {
	rule := "C11.O6 store.value-copied"
	n := 0
	for _, fn := range c.P.ModuleFuncs() {
		if prog.IsTestish(prog.PkgPathOf(fn)) {
			continue
		}
		for _, ci := range Calls(fn, func(ci ssa.CallInstruction) bool {
			return IsCallTo(ci, "(*"+pkgBadger+".Item).Value") || IsCallTo(ci, "(*"+pkgBadger+".Item).Key")
		}) {
			n++
			if IsCallTo(ci, "(*"+pkgBadger+".Item).Key") {
				if v := ci.Value(); v != nil {
					if bad := transientEscapes(v, 0, map[ssa.Value]bool{}); bad != nil {
						c.R.Fail(rule, Fn(fn)+":key", c.Pos(bad), "the key bytes handed out by the iterator (valid only until it advances) are kept without being copied", "copy(dst, item.Key()) / item.KeyCopy", nil)
					} else {
						c.R.OK(rule, Fn(fn)+":key", c.Pos(ci), "item.Key() is only copied or read")
					}
				}
				continue
			}
			// the callback
			args := ci.Common().Args
			cbv := args[len(args)-1]
			// the callback may be a function literal kept in a local of the enclosing function and captured here
			for hop := 0; hop < 3; hop++ {
				if u, isU := cbv.(*ssa.UnOp); isU && u.Op == token.MUL {
					if inner, okc := an.ResolveCell(u.X); okc {
						cbv = inner
						continue
					}
				}
				if fv, isFV := cbv.(*ssa.FreeVar); isFV {
					if b := an.FreeVarBinding(fv); b != nil {
						cbv = b
						continue
					}
				}
				break
			}
			mc, ok := cbv.(*ssa.MakeClosure)
			var cb *ssa.Function
			if ok {
				cb = mc.Fn.(*ssa.Function)
			} else if f, isFn := cbv.(*ssa.Function); isFn {
				cb = f
			}
			if cb == nil || len(cb.Params) == 0 {
				c.R.Unknown(rule, Fn(fn), c.Pos(ci), "the callback given to item.Value is not a function literal")
				continue
			}
			val := cb.Params[len(cb.Params)-1]
			if bad := transientEscapes(val, 0, map[ssa.Value]bool{}); bad != nil {
				c.R.Fail(rule, Fn(cb), c.Pos(bad), "the value bytes badger passes to the item.Value callback (valid only inside the callback; the buffer is reused for later items) are kept without being copied: a later read overwrites the record seen by the caller", "value := make([]byte, len(v)); copy(value, v)  (or item.ValueCopy)", nil)
			} else {
				c.R.OK(rule, Fn(cb), c.Pos(ci), "the callback only copies or reads the transient value bytes")
			}
		}
	}
	// the copying accessors are reads as well (and need no obligation)
	for _, fn := range c.P.ModuleFuncs() {
		if prog.IsTestish(prog.PkgPathOf(fn)) {
			continue
		}
		n += len(Calls(fn, func(ci ssa.CallInstruction) bool {
			return IsCallTo(ci, "(*"+pkgBadger+".Item).ValueCopy") || IsCallTo(ci, "(*"+pkgBadger+".Item).KeyCopy")
		}))
	}
	c.R.Floor(rule, "reads of badger items (Value callbacks, Key calls, copying accessors)", n, 2) // one value read and one key read at least (Fetch and FetchAll may share the value reader)
}

// transientEscapes returns an instruction through which the transient byte slice v is retained, or nil if every use is a
// copy or a read.
func transientEscapes(v ssa.Value, depth int, seen map[ssa.Value]bool) ssa.Instruction {
	if seen[v] || v.Referrers() == nil {
		return nil
	}
	seen[v] = true
	for _, r := range *v.Referrers() {
		switch x := r.(type) {
		case *ssa.DebugRef:
		case *ssa.Slice:
			if x.X != v {
				continue
			}
			if bad := transientEscapes(x, depth, seen); bad != nil {
				return bad
			}
		case *ssa.IndexAddr:
			// element address: loads are reads; stores write INTO the transient buffer (not a retention)
		case *ssa.Index:
		case *ssa.Lookup:
		case *ssa.Convert:
			// string(v) copies; []byte->named byte slice keeps the buffer
			if b, ok := x.Type().Underlying().(*types.Basic); ok && b.Info()&types.IsString != 0 {
				continue
			}
			if bad := transientEscapes(x, depth, seen); bad != nil {
				return bad
			}
		case *ssa.ChangeType:
			if bad := transientEscapes(x, depth, seen); bad != nil {
				return bad
			}
		case *ssa.BinOp:
			if x.Op == token.EQL || x.Op == token.NEQ {
				continue // comparison with nil
			}
			return x
		case *ssa.Call:
			if bi, ok := x.Call.Value.(*ssa.Builtin); ok {
				switch bi.Name() {
				case "len", "cap":
					continue
				case "copy":
					if len(x.Call.Args) == 2 && x.Call.Args[1] == v && x.Call.Args[0] != v {
						continue
					}
					if len(x.Call.Args) == 2 && x.Call.Args[0] == v {
						continue // writing into the buffer
					}
					return x
				case "append":
					// append(dst, v...) copies the elements of v; append(v, ...) keeps v
					if len(x.Call.Args) == 2 && x.Call.Args[1] == v && x.Call.Args[0] != v {
						continue
					}
					return x
				}
				return x
			}
			callee := x.Call.StaticCallee()
			if callee == nil || x.Call.IsInvoke() {
				// dynamic callee: a decoder reading the bytes is the common case, but retention cannot be excluded
				if x.Call.IsInvoke() && (x.Call.Method.Name() == "Decode" || x.Call.Method.Name() == "Unmarshal") {
					continue
				}
				return x
			}
			if !prog.InModule(callee) {
				switch callee.String() {
				case "bytes.Equal", "bytes.Compare", "bytes.HasPrefix", "encoding/hex.EncodeToString", "fmt.Sprintf", "bytes.NewBuffer", "bytes.NewReader":
					continue
				}
				if callee.Pkg != nil && (callee.Pkg.Pkg.Path() == "encoding/binary" || callee.Pkg.Pkg.Path() == "github.com/rs/zerolog") {
					continue
				}
				return x
			}
			if depth >= 2 || callee.Blocks == nil {
				return x
			}
			for ai, a := range x.Call.Args {
				if a == v && ai < len(callee.Params) {
					if bad := transientEscapes(callee.Params[ai], depth+1, seen); bad != nil {
						return x
					}
				}
			}
		case *ssa.UnOp:
			// load through? v is a slice value, not an address
		default:
			// Store, MapUpdate, Return, MakeInterface, Send, Phi, MakeClosure, Go/Defer ...
			return r
		}
	}
	return nil
}
