package rules

import (
	"fmt"
	"go/types"
	"regexp"
	regexpsyntax "regexp/syntax"
	"sort"
	"strings"

	"dirkcheck/internal/an"
	"dirkcheck/internal/prog"

	"golang.org/x/tools/go/ssa"
)

const (
	pkgAccountMgr = mod + "/services/accountmanager"
	pkgWalletMgr  = mod + "/services/walletmanager"
	pkgLister     = mod + "/services/lister"
	pkgProcess    = mod + "/services/process"
	pkgSender     = mod + "/services/sender"
)

// ---------------------------------------------------------------- O1 check.semantics

func isCallToName(v ssa.Value, full string) (*ssa.Call, bool) {
	call, ok := v.(*ssa.Call)
	if !ok {
		return nil, false
	}
	f := call.Call.StaticCallee()
	if f == nil || f.String() != full {
		return nil, false
	}
	return call, true
}

// CheckSemantics: C07.O1.
func (c *Ctx) CheckSemantics(prop string) {
	rule := "C07.O1 check.semantics"
	impl := c.Role(rule, pkgChecker, "Service")
	if impl == nil {
		return
	}
	F := c.Method(rule, impl, "Check")
	if F == nil {
		return
	}
	if len(F.Params) != 5 {
		c.R.Anchor(rule, "params:Check", "unexpected signature")
		return
	}
	creds, acct, oper := ssa.Value(F.Params[2]), ssa.Value(F.Params[3]), ssa.Value(F.Params[4])
	// names: WalletAndAccountNames(account)
	var namesCall *ssa.Call
	for _, ci := range Calls(F, func(ci ssa.CallInstruction) bool {
		f := ci.Common().StaticCallee()
		return f != nil && f.Name() == "WalletAndAccountNames" && len(ci.Common().Args) == 1 && ci.Common().Args[0] == acct
	}) {
		namesCall, _ = ci.(*ssa.Call)
	}
	if namesCall == nil {
		c.R.Fail(rule, Fn(F)+":names", c.P.FuncPos(F), "the account string under test is not split into wallet and account names", "WalletAndAccountNames(account)", nil)
		return
	}
	nameOf := func(v ssa.Value) int { // 0 wallet, 1 account, -1 neither
		if ex, ok := v.(*ssa.Extract); ok && ex.Tuple == ssa.Value(namesCall) && ex.Index < 2 {
			return ex.Index
		}
		return -1
	}
	// loops
	var outer *Loop
	var pathsVal ssa.Value
	for _, l := range FindLoops(F) {
		if !l.FullRange || l.BoundLen == nil {
			continue
		}
		if ex, ok := l.BoundLen.(*ssa.Extract); ok && ex.Index == 0 {
			if lk, ok := ex.Tuple.(*ssa.Lookup); ok && lk.CommaOk {
				owner, f, base := an.FieldOf(lk.Index)
				if owner != nil && f == "Client" && base == creds {
					outer, pathsVal = l, ex
				}
			}
		}
	}
	if outer == nil {
		c.R.Fail(rule, Fn(F)+":entries", c.P.FuncPos(F), "no forward full-range loop over the permission entries of credentials.Client found", "for _, path := range access[credentials.Client]", nil)
		return
	}
	isPathElem := func(v ssa.Value) bool {
		root, idx, ok := elemLoad(v)
		return ok && root == pathsVal && idx == outer.Idx
	}
	pathT := namedOf(pathsVal.Type().(*types.Slice).Elem())
	if pathT == nil {
		c.R.Anchor(rule, "type:path", "permission entry type not found")
		return
	}
	// field roles of the entry type: which regexp field is wallet / account (by flow at construction), which is the operations list
	roles := c.pathFieldRoles(pathT)
	opsField := ""
	st := pathT.Underlying().(*types.Struct)
	for i := 0; i < st.NumFields(); i++ {
		if sl, ok := st.Field(i).Type().(*types.Slice); ok {
			if b, ok := sl.Elem().(*types.Basic); ok && b.Kind() == types.String {
				opsField = st.Field(i).Name()
			}
		}
	}
	if roles[0] == "" || roles[1] == "" || opsField == "" {
		c.R.Anchor(rule, "roles:path", fmt.Sprintf("cannot infer the roles of the permission entry fields: wallet=%q account=%q operations=%q", roles[0], roles[1], opsField))
		return
	}
	// the scan of the matching entry's items: a forward full-range loop over entry.operations, in Check itself or in a helper
	// that is handed the entry (as receiver or argument) from inside the entry scan
	type opsLoop struct {
		l     *Loop
		fn    *ssa.Function
		entry ssa.Value // the value denoting the entry in fn
	}
	var itemScans []opsLoop
	findOps := func(fn *ssa.Function, isEntry func(ssa.Value) bool) {
		for _, l := range FindLoops(fn) {
			if !l.FullRange || l.BoundLen == nil || l == outer {
				continue
			}
			owner, f, base := an.FieldOf(l.BoundLen)
			if owner != nil && f == opsField && isEntry(base) && (fn != F || outer.Body[l.Header]) {
				itemScans = append(itemScans, opsLoop{l, fn, base})
			}
		}
	}
	findOps(F, isPathElem)
	for _, ci := range Calls(F, func(ci ssa.CallInstruction) bool {
		g := ci.Common().StaticCallee()
		return g != nil && prog.InModule(g) && g.Blocks != nil && !ci.Common().IsInvoke() && outer.Body[ci.Block()]
	}) {
		g := ci.Common().StaticCallee()
		for ai, a := range ci.Common().Args {
			if ai < len(g.Params) && isPathElem(a) {
				hp := g.Params[ai]
				findOps(g, func(v ssa.Value) bool { return v == ssa.Value(hp) })
			}
		}
	}
	if len(itemScans) != 1 {
		c.R.Fail(rule, Fn(F)+":operations", c.P.FuncPos(F), fmt.Sprintf("expected exactly one forward full-range loop over the operations of the matching entry, found %d", len(itemScans)), "for i := range path.operations", nil)
		return
	}
	inner := itemScans[0]
	// item: the element of entry.operations at the item scan's own index (values of helper frames resolved through sub)
	isOpElem := func(v ssa.Value, sub Subst) bool {
		u, ok := sub.Res(v).(*ssa.UnOp)
		if !ok {
			return false
		}
		ia, ok := u.X.(*ssa.IndexAddr)
		if !ok || ia.Index != inner.l.Idx {
			return false
		}
		owner, f, base := an.FieldOf(ia.X)
		return owner != nil && f == opsField && (isPathElem(sub.Res(base)) || (inner.fn != F && base == inner.entry))
	}
	isOper := func(v ssa.Value, sub Subst) bool { return an.StripConv(sub.Res(v)) == oper }
	isAnti := func(v ssa.Value, sub Subst) bool {
		v = sub.Res(v)
		for _, sh := range evalString(v, 0) {
			if len(sh) != 2 || sh[0].Const != "~" {
				return false
			}
		}
		switch x := v.(type) {
		case *ssa.Call:
			if len(x.Call.Args) != 2 {
				return false
			}
			args := varargValues(x.Call.Args[1])
			return len(args) == 1 && isOper(args[0], sub)
		case *ssa.BinOp:
			k, ok := x.X.(*ssa.Const)
			return ok && an.Term(k) == `"~"` && isOper(x.Y, sub)
		}
		return false
	}
	isConstStr := func(v ssa.Value, s string) bool { return an.Term(v) == fmt.Sprintf("%q", s) }
	foldAtom := func(a *an.Atom, sub Subst, pos bool, test func(other ssa.Value) bool) bool {
		if a == nil || (a.Op == "true") != pos || (a.Op != "true" && a.Op != "false") {
			return false
		}
		call, ok := isCallToName(sub.Res(a.LV), "strings.EqualFold")
		if !ok {
			return false
		}
		x, y := call.Call.Args[0], call.Call.Args[1]
		return (isOpElem(x, sub) && test(y)) || (isOpElem(y, sub) && test(x))
	}
	matchAtom := func(a *an.Atom, sub Subst, which int) bool {
		if a == nil || a.Op != "true" {
			return false
		}
		call, ok := isCallToName(sub.Res(a.LV), "(*regexp.Regexp).MatchString")
		if !ok {
			return false
		}
		owner, f, base := an.FieldOf(call.Call.Args[0])
		return owner != nil && f == roles[which] && isPathElem(sub.Res(base)) && nameOf(sub.Res(call.Call.Args[1])) == which
	}
	type clause struct {
		name string
		from func() an.Point
		acc  AtomPred
	}
	entry := func() an.Point { return an.Entry(F) }
	outerBody := func() an.Point { return an.Point{Block: outer.BodyFirst, Idx: 0} }
	clauses := []clause{
		{"credentials present", entry, func(a *an.Atom, sub Subst) bool {
			return a != nil && a.Op == "!=" && ((a.LV == creds && isNilConst(a.RV)) || (a.RV == creds && isNilConst(a.LV)))
		}},
		{"client name non-empty", entry, func(a *an.Atom, sub Subst) bool {
			if a == nil || a.Op != "!=" {
				return false
			}
			for _, side := range [][2]ssa.Value{{a.LV, a.RV}, {a.RV, a.LV}} {
				owner, f, base := an.FieldOf(side[0])
				if owner != nil && f == "Client" && base == creds && isEmptyString(side[1]) {
					return true
				}
			}
			return false
		}},
		{"client has entries", entry, func(a *an.Atom, sub Subst) bool {
			if a == nil || a.Op != "true" {
				return false
			}
			ex, ok := a.LV.(*ssa.Extract)
			return ok && ex.Index == 1 && ex.Tuple == pathsVal.(*ssa.Extract).Tuple
		}},
		{"wallet pattern matches the wallet name", outerBody, func(a *an.Atom, sub Subst) bool { return matchAtom(a, sub, 0) }},
		{"account pattern matches the account name", outerBody, func(a *an.Atom, sub Subst) bool { return matchAtom(a, sub, 1) }},
		{"this item is not 'none'", outerBody, func(a *an.Atom, sub Subst) bool {
			return foldAtom(a, sub, false, func(o ssa.Value) bool { return isConstStr(o, "none") })
		}},
		{"this item is not '~operation'", outerBody, func(a *an.Atom, sub Subst) bool {
			return foldAtom(a, sub, false, func(o ssa.Value) bool { return isAnti(o, sub) })
		}},
		{"this item is 'all' or the operation", outerBody, func(a *an.Atom, sub Subst) bool {
			return foldAtom(a, sub, true, func(o ssa.Value) bool { return isConstStr(o, "all") || isOper(o, sub) })
		}},
	}
	ntrue := 0
	for _, ret := range an.Returns(F) {
		v := an.Result(ret, 0)
		k, isConst := v.(*ssa.Const)
		if !isConst {
			c.R.Unknown(rule, Fn(F)+":result", c.Pos(ret), "Check returns a computed value: "+an.Term(v))
			continue
		}
		if an.Term(k) != "true" {
			continue
		}
		ntrue++
		target := ssa.Instruction(ret)
		for _, cl := range clauses {
			cl := cl
			x, path := an.Cut(an.CutQuery{From: cl.from(), Target: func(i ssa.Instruction) bool { return i == target },
				AcceptEdge: c.WithSummaries(cl.acc)})
			// when starting inside the entry scan, the target must be reachable from there at all (else the clause is vacuous)
			if cl.from().Block != F.Blocks[0] && !an.Reachable(cl.from(), target) {
				c.R.Fail(rule, Fn(F)+":"+cl.name, c.Pos(ret), "permission is granted outside the scan of the matching entry's items", "grant only inside the item scan", nil)
				continue
			}
			if x != nil {
				c.R.Fail(rule, Fn(F)+":"+cl.name, c.Pos(ret), "Check can answer 'allowed' without: "+cl.name, "allowed only if: "+cl.name, an.PathString(c.Pos, path))
			} else {
				c.R.OK(rule, Fn(F)+":"+cl.name, c.Pos(ret), "'allowed' is cut by ["+cl.name+"]")
			}
		}
	}
	c.R.Floor(rule, "'allowed' returns of Check", ntrue, 1)
	// refusals inside the entry scan only for a deny item (so an entry whose first relevant item allows is not refused)
	for _, ret := range an.Returns(F) {
		if an.Term(an.Result(ret, 0)) != "false" {
			continue
		}
		if !an.Reachable(outerBody(), ret) || isAfterLoop(outer, ret) {
			continue // before the scan, or the default after it
		}
		target := ssa.Instruction(ret)
		x, path := an.Cut(an.CutQuery{From: outerBody(), Target: func(i ssa.Instruction) bool { return i == target },
			AcceptEdge: c.WithSummaries(func(a *an.Atom, sub Subst) bool {
				return foldAtom(a, sub, true, func(o ssa.Value) bool { return isConstStr(o, "none") }) || foldAtom(a, sub, true, func(o ssa.Value) bool { return isAnti(o, sub) })
			})})
		if x != nil {
			c.R.Fail(rule, Fn(F)+":refusal", c.Pos(ret), "a matching entry can be refused although the item is neither 'none' nor '~operation'", "refusals inside the scan only below a deny item", an.PathString(c.Pos, path))
		} else {
			c.R.OK(rule, Fn(F)+":refusal", c.Pos(ret), "refusal inside the scan only below ['none'] or ['~operation']")
		}
	}
}

func reachesFromBody(l *Loop, ret *ssa.Return) bool {
	return an.Reachable(an.Point{Block: l.BodyFirst, Idx: 0}, ret)
}

// isAfterLoop: ret is only reachable through the loop's exit edge (i.e. it is the default after the scan).
func isAfterLoop(l *Loop, ret *ssa.Return) bool {
	hdr, exitB := l.Header, l.Exit
	x, _ := an.Cut(an.CutQuery{From: an.Entry(ret.Parent()), Target: func(i ssa.Instruction) bool { return i == ssa.Instruction(ret) },
		AcceptEdge: func(b *ssa.BasicBlock, i int, a *an.Atom) bool { return b == hdr && b.Succs[i] == exitB }})
	return x == nil
}

// pathFieldRoles: [walletField, accountField] of the permission entry type, inferred from where it is built:
// field <- compile(WalletAndAccountNames(path)#k).
func (c *Ctx) pathFieldRoles(pathT *types.Named) [2]string {
	var roles [2]string
	pkg := pathT.Obj().Pkg().Path()
	for _, fn := range c.P.ModuleFuncs() {
		if prog.PkgPathOf(fn) != pkg {
			continue
		}
		for _, b := range fn.Blocks {
			for _, ins := range b.Instrs {
				st, ok := ins.(*ssa.Store)
				if !ok {
					continue
				}
				fa, ok := st.Addr.(*ssa.FieldAddr)
				if !ok || namedOf(fa.X.Type()) != pathT {
					continue
				}
				ex, ok := st.Val.(*ssa.Extract)
				if !ok || ex.Index != 0 {
					continue
				}
				call, ok := ex.Tuple.(*ssa.Call)
				if !ok || len(call.Call.Args) != 1 {
					continue
				}
				nx, ok := call.Call.Args[0].(*ssa.Extract)
				if !ok {
					continue
				}
				nc, ok := nx.Tuple.(*ssa.Call)
				if !ok || nc.Call.StaticCallee() == nil || nc.Call.StaticCallee().Name() != "WalletAndAccountNames" || nx.Index > 1 {
					continue
				}
				roles[nx.Index] = fieldNameOf(fa)
			}
		}
	}
	return roles
}

// ---------------------------------------------------------------- O2 regex.whole-name

var constWholeRe = regexp.MustCompile(`^(\(\?[imsU]*\))?\^\((\?:)?(.*)\)\$$`)

var okPrefixRe = regexp.MustCompile(`^(\(\?[imsU]*\))?\^\((\?:)?$`)

// RegexWholeName: C07.O2 - every pattern compiled for a permission entry is (?i)^( <pattern> )$.
func (c *Ctx) RegexWholeName(prop string) {
	rule := "C07.O2 regex.whole-name"
	impl := c.Role(rule, pkgChecker, "Service")
	if impl == nil {
		return
	}
	pkg := impl.Obj().Pkg().Path()
	n := 0
	for _, fn := range c.P.ModuleFuncs() {
		if prog.PkgPathOf(fn) != pkg {
			continue
		}
		for _, ci := range Calls(fn, func(ci ssa.CallInstruction) bool {
			return IsCallTo(ci, "regexp.Compile") || IsCallTo(ci, "regexp.MustCompile") || IsCallTo(ci, "regexp.CompilePOSIX")
		}) {
			n++
			shapes := evalString(ci.Common().Args[0], 0)
			var bad []string
			for _, sh := range shapes {
				if why := wholeNameShape(sh); why != "" {
					bad = append(bad, sh.String()+" ("+why+")")
				}
			}
			var all []string
			for _, sh := range shapes {
				all = append(all, sh.String())
			}
			sort.Strings(all)
			if len(bad) > 0 {
				sort.Strings(bad)
				c.R.Fail(rule, Fn(fn), c.Pos(ci), "a permission pattern can be compiled in a form that does not bind the configured expression as a whole, case-insensitively: "+strings.Join(bad, "; "), "(?i)^(?:<pattern>)$ for every configured pattern (anchors must enclose all alternatives)", nil)
			} else {
				c.R.OK(rule, Fn(fn), c.Pos(ci), "compiled shapes: "+strings.Join(all, " | "))
			}
		}
	}
	c.R.Floor(rule, "regexp compilations in the permission checker", n, 1)
}

// wholeNameShape validates one abstract pattern: prefix literal (?flags)^( or ^(?: , exactly one argument token, suffix )$, with the i flag in force.
func wholeNameShape(sh strShape) string {
	// merge adjacent literal tokens
	var toks []strTok
	for _, t := range sh {
		if !t.Arg && !t.Taint && len(toks) > 0 && !toks[len(toks)-1].Arg && !toks[len(toks)-1].Taint {
			toks[len(toks)-1].Const += t.Const
			continue
		}
		toks = append(toks, t)
	}
	if len(toks) == 1 && !toks[0].Arg && !toks[0].Taint {
		// a fully constant pattern (the built-in "everything" default): judged as written - flags, anchored group, a valid
		// expression inside, end anchor
		m := constWholeRe.FindStringSubmatch(toks[0].Const)
		if m == nil {
			return "constant pattern is not of the form (?i)^(<expr>)$"
		}
		if _, err := regexpsyntax.Parse(m[3], regexpsyntax.Perl); err != nil {
			return "constant pattern does not enclose a valid expression"
		}
		if !strings.Contains(m[1], "i") && !strings.HasPrefix(m[3], "(?i)") {
			return "case-insensitive flag missing"
		}
		return ""
	}
	if len(toks) != 3 || toks[0].Arg || toks[0].Taint || !(toks[1].Arg || toks[1].Taint) || toks[2].Arg || toks[2].Taint {
		return "not of the form literal-prefix <pattern> literal-suffix"
	}
	m := okPrefixRe.FindStringSubmatch(toks[0].Const)
	if m == nil {
		return "prefix " + fmt.Sprintf("%q", toks[0].Const) + " does not open an anchored group"
	}
	if toks[2].Const != ")$" {
		return "suffix " + fmt.Sprintf("%q", toks[2].Const) + " does not close the group before the end anchor"
	}
	ci := strings.Contains(m[1], "i")
	if !ci && !toks[1].Taint && strings.HasPrefix(toks[1].Const, "(?i)") {
		ci = true
	}
	if !ci {
		return "case-insensitive flag missing"
	}
	return ""
}

// ---------------------------------------------------------------- O3 authorise-before-act

// authHelpers returns the module functions returning core.Result whose every SUCCEEDED return lies below a positive
// answer of checker.Check (directly or through another such helper).
func (c *Ctx) authHelpers() map[*ssa.Function]bool {
	if m, ok := c.memo["authHelpers"].(map[*ssa.Function]bool); ok {
		return m
	}
	succ, _ := c.EnumConst("C07.O3 authorise-before-act", pkgCore, "ResultSucceeded")
	auth := map[*ssa.Function]bool{}
	var cands []*ssa.Function
	for _, fn := range c.P.ModuleFuncs() {
		if prog.IsTestish(prog.PkgPathOf(fn)) || fn.Blocks == nil {
			continue
		}
		res := fn.Signature.Results()
		for i := 0; i < res.Len(); i++ {
			if namedIs(res.At(i).Type(), pkgCore, "Result") {
				cands = append(cands, fn)
				break
			}
		}
	}
	for changed := true; changed; {
		changed = false
		for _, fn := range cands {
			if auth[fn] {
				continue
			}
			rets := succeededReturns(fn, succ)
			if len(rets) == 0 {
				continue
			}
			ok := true
			for _, ret := range rets {
				target := ssa.Instruction(ret)
				if x, _ := an.Cut(an.CutQuery{From: an.Entry(fn), Target: func(i ssa.Instruction) bool { return i == target },
					AcceptEdge: func(b *ssa.BasicBlock, i int, a *an.Atom) bool { return c.authAtom(a, auth, succ) }}); x != nil {
					ok = false
				}
			}
			if ok {
				auth[fn] = true
				changed = true
			}
		}
	}
	c.memo["authHelpers"] = auth
	return auth
}

// boolAuthHelper: f is a module function with a single bool result every `true` of which implies a positive permission
// check: each returned value is the constant false, the checker's answer itself, the answer of another such helper, or the
// constant true below an edge that establishes a positive check.
func (c *Ctx) boolAuthHelper(f *ssa.Function, auth map[*ssa.Function]bool, succ int64, depth int) bool {
	if f == nil || depth > 2 || !prog.InModule(f) || f.Blocks == nil || f.Signature.Results().Len() != 1 {
		return false
	}
	if b, ok := f.Signature.Results().At(0).Type().Underlying().(*types.Basic); !ok || b.Kind() != types.Bool {
		return false
	}
	var okVal func(v ssa.Value, at ssa.Instruction, d int) bool
	okVal = func(v ssa.Value, at ssa.Instruction, d int) bool {
		if d > 4 {
			return false
		}
		switch x := v.(type) {
		case *ssa.Const:
			if an.Term(x) == "false" {
				return true
			}
			hit, _ := an.Cut(an.CutQuery{From: an.Entry(f), Target: func(i ssa.Instruction) bool { return i == at },
				AcceptEdge: func(b *ssa.BasicBlock, i int, a *an.Atom) bool { return c.authAtom(a, auth, succ) }})
			return hit == nil
		case *ssa.Call:
			if x.Call.IsInvoke() && namedIs(x.Call.Value.Type(), pkgChecker, "Service") && x.Call.Method.Name() == "Check" {
				return true
			}
			return !x.Call.IsInvoke() && c.boolAuthHelper(x.Call.StaticCallee(), auth, succ, depth+1)
		case *ssa.Phi:
			for i, e := range x.Edges {
				pred := x.Block().Preds[i]
				if !okVal(e, pred.Instrs[len(pred.Instrs)-1], d+1) {
					return false
				}
			}
			return true
		}
		return false
	}
	rets := an.Returns(f)
	if len(rets) == 0 {
		return false
	}
	for _, ret := range rets {
		if !okVal(an.Result(ret, 0), ret, 0) {
			return false
		}
	}
	return true
}

// authAtom: the edge establishes that the permission check answered yes.
func (c *Ctx) authAtom(a *an.Atom, auth map[*ssa.Function]bool, succ int64) bool {
	if a == nil {
		return false
	}
	if a.Op == "true" {
		if call, ok := a.LV.(*ssa.Call); ok && call.Call.IsInvoke() && namedIs(call.Call.Value.Type(), pkgChecker, "Service") && call.Call.Method.Name() == "Check" {
			return true
		}
	}
	if a.Op == "true" {
		// a boolean access helper: `mayAccess(...)` is true only when the permission check answered yes
		if call, ok := a.LV.(*ssa.Call); ok && !call.Call.IsInvoke() && c.boolAuthHelper(call.Call.StaticCallee(), auth, succ, 0) {
			return true
		}
	}
	if a.Op == "==" {
		for _, side := range [][2]ssa.Value{{a.LV, a.RV}, {a.RV, a.LV}} {
			if !an.IsConstInt(side[1], succ) {
				continue
			}
			v := side[0]
			if ex, ok := v.(*ssa.Extract); ok {
				v = ex.Tuple
			}
			if call, ok := v.(*ssa.Call); ok && auth[call.Call.StaticCallee()] {
				return true
			}
		}
	}
	return false
}

// primitiveSink classifies ci as an action that must only happen for an authorised client.
func primitiveSink(ci ssa.CallInstruction) string {
	cc := ci.Common()
	if cc.IsInvoke() {
		t := cc.Value.Type()
		m := cc.Method.Name()
		switch {
		case namedIs(t, pkgRuler, "Service") && m == "RunRules":
			return "rules evaluation"
		case namedIs(t, pkgUnlocker, "Service"):
			return "unlock with stored passphrases"
		case namedIs(t, pkgWTypes, "AccountSigner") && m == "Sign":
			return "signing"
		case namedIs(t, pkgWTypes, "AccountLocker") && (m == "Lock" || m == "Unlock"):
			return "account " + strings.ToLower(m)
		case namedIs(t, pkgWTypes, "WalletLocker") && (m == "Lock" || m == "Unlock"):
			return "wallet " + strings.ToLower(m)
		case namedIs(t, pkgWTypes, "WalletAccountCreator"), namedIs(t, pkgWTypes, "WalletDistributedAccountImporter"), namedIs(t, pkgWTypes, "WalletDistributedAccountCreator"):
			return "account creation"
		case namedIs(t, pkgSender, "Service"):
			return "key-generation message to peers"
		case namedIs(t, pkgProcess, "Service") && m == "OnGenerate":
			return ""
		}
	}
	return ""
}

// AuthoriseBeforeAct: C07.O3.
func (c *Ctx) AuthoriseBeforeAct(prop string) {
	rule := "C07.O3 authorise-before-act"
	succ, ok := c.EnumConst(rule, pkgCore, "ResultSucceeded")
	if !ok {
		return
	}
	auth := c.authHelpers()
	c.R.Count("auth_helpers", len(auth))
	// entry points: production implementations' methods invoked by the client-facing handlers
	type ep struct {
		fn   *ssa.Function
		name string
	}
	var eps []ep
	seen := map[*ssa.Function]bool{}
	for _, frag := range []string{"/handlers/signer", "/handlers/accountmanager", "/handlers/walletmanager", "/handlers/lister"} {
		for _, H := range c.handlersIn(rule, frag) {
			for _, ci := range Calls(H, func(ci ssa.CallInstruction) bool {
				cc := ci.Common()
				if !cc.IsInvoke() {
					return false
				}
				n := namedOf(cc.Value.Type())
				return n != nil && n.Obj().Pkg() != nil && strings.HasPrefix(n.Obj().Pkg().Path(), mod+"/services/") && n.Obj().Name() == "Service"
			}) {
				cc := ci.Common()
				n := namedOf(cc.Value.Type())
				impl := c.Role(rule, n.Obj().Pkg().Path(), "Service")
				if impl == nil {
					continue
				}
				m := c.P.Method(impl, cc.Method.Name())
				if m != nil && m.Blocks != nil && !seen[m] {
					seen[m] = true
					eps = append(eps, ep{m, Fn(m)})
				}
			}
		}
	}
	sort.Slice(eps, func(i, j int) bool { return eps[i].name < eps[j].name })
	c.R.Floor(rule, "client-facing service entry points", len(eps), 11)
	// safe(H): all sinks inside H are authorised inside H. Computed on demand with memo.
	safe := map[*ssa.Function]int{} // 0 unknown, 1 safe, 2 unsafe, 3 in progress
	type finding struct {
		fn   *ssa.Function
		ins  ssa.Instruction
		what string
		path []an.Step
	}
	var findings []finding
	var isSafe func(fn *ssa.Function, record bool) bool
	isSafe = func(fn *ssa.Function, record bool) bool {
		if st := safe[fn]; st == 1 {
			return true
		} else if st == 2 && !record {
			return false
		} else if st == 3 {
			return true // recursion: assume safe
		}
		safe[fn] = 3
		okAll := true
		for _, f := range WithClosures(fn) {
			batchWorker := f != fn
			for _, b := range f.Blocks {
				for _, ins := range b.Instrs {
					ci, isCall := ins.(ssa.CallInstruction)
					if !isCall {
						continue
					}
					what := primitiveSink(ci)
					if what == "" {
						if cal := ci.Common().StaticCallee(); cal != nil && prog.InModule(cal) && cal.Blocks != nil && !prog.IsTestish(prog.PkgPathOf(cal)) && cal != fn {
							// service-layer helpers only (same package family)
							if strings.HasPrefix(prog.PkgPathOf(cal), mod+"/services/") && !isSafe(cal, false) {
								what = "call to " + Fn(cal) + " (which acts without checking)"
							}
						}
					}
					if what == "" {
						continue
					}
					// in scatter workers of the batch endpoints the signing sink is governed by C06.O1/O4 (position-wise); skip signing there
					if batchWorker && what == "signing" {
						continue
					}
					if cal := ci.Common().StaticCallee(); batchWorker && cal != nil && c.isSignHelper(cal) {
						continue // the signing helper (identified by its AccountSigner.Sign invoke, not by name)
					}
					target := ins
					x, path := an.Cut(an.CutQuery{From: an.Entry(f), Target: func(i ssa.Instruction) bool { return i == target },
						AcceptEdge: func(b *ssa.BasicBlock, i int, a *an.Atom) bool { return c.authAtom(a, auth, succ) }})
					if x != nil && f == fn && c.batchGateCovers(fn, ins) {
						x = nil
					}
					if x != nil {
						okAll = false
						if record {
							findings = append(findings, finding{f, ins, what, path})
						}
					}
				}
			}
		}
		if okAll {
			safe[fn] = 1
		} else {
			safe[fn] = 2
		}
		return okAll
	}
	for _, e := range eps {
		before := len(findings)
		if isSafe(e.fn, true) {
			c.R.OK(rule, e.name, c.P.FuncPos(e.fn), "every action (rules evaluation, unlock, signing, lock/unlock, creation, peer messages) lies below a positive permission check")
		} else {
			for _, f := range findings[before:] {
				c.R.Fail(rule, e.name+":"+f.what, c.Pos(f.ins), "the operation performs '"+f.what+"' on a path on which the client's permission was not (successfully) checked", "every action below [checker.Check(...) == true] for the resolved account", an.PathString(c.Pos, f.path))
			}
		}
	}
}

// isSignHelper: fn is one of the signer package's functions that invoke AccountSigner.Sign.
func (c *Ctx) isSignHelper(fn *ssa.Function) bool {
	sg := c.Signer("C07.O3 authorise-before-act")
	return sg != nil && sg.SignFns[fn]
}

// batchGateCovers: in the batch signer endpoints RunRules is preceded by the scan that returns on any failed pre-check
// (validated by C06.O4); accept RunRules there when that obligation form applies.
func (c *Ctx) batchGateCovers(fn *ssa.Function, ins ssa.Instruction) bool {
	sg := c.Signer("C07.O3 authorise-before-act")
	if !sg.OK() {
		return false
	}
	for _, name := range []string{"SignBeaconAttestations", "Multisign"} {
		if sg.Endpoints[name] == fn && sg.RunRules[fn] != nil && ssa.Instruction(sg.RunRules[fn].(ssa.Instruction)) == ins {
			return true
		}
	}
	return false
}

// ---------------------------------------------------------------- O4 resolved-name

// nameTaint: does the string value depend (through formatting / concatenation only) on a string parameter of fn?
func nameTaint(v ssa.Value, fn *ssa.Function, depth int) (tainted bool, resolved bool) {
	if depth > 10 {
		return true, false
	}
	switch x := v.(type) {
	case *ssa.Parameter:
		return true, false
	case *ssa.Const:
		return false, false
	case *ssa.MakeInterface:
		return nameTaint(x.X, fn, depth+1)
	case *ssa.Phi:
		t, r := false, true
		for _, e := range x.Edges {
			t2, r2 := nameTaint(e, fn, depth+1)
			t = t || t2
			r = r && r2
		}
		return t, r
	case *ssa.BinOp:
		t1, r1 := nameTaint(x.X, fn, depth+1)
		t2, r2 := nameTaint(x.Y, fn, depth+1)
		return t1 || t2, r1 || r2
	case *ssa.Call:
		if x.Call.IsInvoke() && x.Call.Method.Name() == "Name" && (namedIs(x.Call.Value.Type(), pkgWTypes, "Wallet") || namedIs(x.Call.Value.Type(), pkgWTypes, "Account")) {
			return false, true
		}
		if f := x.Call.StaticCallee(); f != nil && f.String() == "fmt.Sprintf" {
			t, r := false, false
			for _, a := range varargValues(x.Call.Args[1]) {
				t2, r2 := nameTaint(a, fn, depth+1)
				t = t || t2
				r = r || r2
			}
			return t, r
		}
		return true, false
	case *ssa.Extract:
		return true, false
	}
	return true, false
}

// nameTaintS is nameTaint with helper parameters resolved to the arguments of the call chain.
func nameTaintS(v ssa.Value, sub Subst, depth int) (tainted bool, resolved bool) {
	if depth > 10 {
		return true, false
	}
	switch x := v.(type) {
	case *ssa.Parameter:
		if r := sub.Res(x); r != ssa.Value(x) {
			return nameTaintS(r, sub, depth+1)
		}
		return true, false
	case *ssa.Const:
		return false, false
	case *ssa.MakeInterface:
		return nameTaintS(x.X, sub, depth+1)
	case *ssa.Phi:
		t, r := false, true
		for _, e := range x.Edges {
			t2, r2 := nameTaintS(e, sub, depth+1)
			t = t || t2
			r = r && r2
		}
		return t, r
	case *ssa.BinOp:
		t1, r1 := nameTaintS(x.X, sub, depth+1)
		t2, r2 := nameTaintS(x.Y, sub, depth+1)
		return t1 || t2, r1 || r2
	case *ssa.Call:
		if x.Call.IsInvoke() && x.Call.Method.Name() == "Name" && (namedIs(x.Call.Value.Type(), pkgWTypes, "Wallet") || namedIs(x.Call.Value.Type(), pkgWTypes, "Account")) {
			return false, true
		}
		if f := x.Call.StaticCallee(); f != nil && f.String() == "fmt.Sprintf" {
			t, r := false, false
			for _, a := range varargValues(x.Call.Args[1]) {
				t2, r2 := nameTaintS(a, sub, depth+1)
				t = t || t2
				r = r || r2
			}
			return t, r
		}
		// a module helper that assembles the name from its arguments (e.g. qualifiedName(wallet, account))
		if rvs, ok := HelperResults(x); ok && len(rvs) > 0 && depth < 6 {
			t, r := false, true
			for _, rv := range rvs {
				ns := Subst{}
				for a, b := range rv.Sub {
					ns[a] = sub.Res(b)
				}
				t2, r2 := nameTaintS(rv.Val, ns, depth+2)
				t = t || t2
				r = r && r2
			}
			return t, r
		}
		return true, false
	}
	return true, false
}

// ResolvedName: C07.O4 - the name given to the permission check is built from the resolved wallet/account objects.
func (c *Ctx) ResolvedName(prop string) {
	rule := "C07.O4 resolved-name"
	auth := c.authHelpers()
	createG := c.Global(rule, pkgRuler, "ActionCreateAccount")
	n := 0
	_ = auth
	// every invoke of the permission check in the services: the account name it is given, resolved through the helper
	// parameters of every static call chain that leads to it
	for _, fn := range c.P.ModuleFuncs() {
		if prog.IsTestish(prog.PkgPathOf(fn)) || !strings.HasPrefix(prog.PkgPathOf(fn), mod+"/services/") {
			continue
		}
		for _, chk := range invokesIface(fn, pkgChecker, "Service", "Check") {
			nameArg, opArg := chk.Common().Args[2], chk.Common().Args[3]
			for _, ch := range c.Chains(fn, chk.(ssa.Instruction), nil, 3) {
				sub := ch[len(ch)-1].Sub
				_, isParam := nameArg.(*ssa.Parameter)
				if isParam && len(ch) == 1 && len(c.staticCallers()[fn]) == 0 && fn.Parent() == nil {
					// an exported entry that checks the name it was given (e.g. the checker's own users pass resolved names): judged at its callers
				}
				n++
				where := ch[0].Fn
				tainted, resolved := nameTaintS(nameArg, sub, 0)
				isCreate := createG != nil && isLoadOfGlobal(sub.Res(opArg), createG)
				key := Fn(where)
				if where != fn {
					key = Fn(where) + " via " + Fn(fn)
				}
				switch {
				case isCreate:
					c.R.OK(rule, key+":create", c.Pos(chk), "create checks the requested name (the account does not exist yet) - table entry")
				case tainted:
					c.R.Fail(rule, Fn(fn), c.Pos(chk), "the permission check is applied to a name taken from the request ("+an.Term(sub.Res(nameArg))+") instead of the names of the wallet/account that were actually resolved; a request addressed by public key or by an alias is judged under the wrong name", "Check(wallet.Name() + \"/\" + account.Name()) of the resolved objects", nil)
				case !resolved:
					c.R.Unknown(rule, key, c.Pos(chk), "cannot establish where the checked name comes from: "+an.Term(sub.Res(nameArg)))
				default:
					c.R.OK(rule, key, c.Pos(chk), "checked name is built from Name() of the resolved wallet/account")
				}
			}
		}
	}
	c.R.Floor(rule, "permission checks (per call chain)", n, 6)
}

func init() {
	register(&Spec{
		ID: "C07",
		Run: func(c *Ctx) {
			c.CheckSemantics("C07")
			c.RegexWholeName("C07")
			c.AuthoriseBeforeAct("C07")
			c.ResolvedName("C07")
			c.LosslessSplit("C07")
			c.FirstSlashOnly("C07")
			c.CreatedIsChecked("C07")
			c.IdentitySource("C19")           // the name the decision is taken under is this request's authenticated name (a fresh object per call)
			c.CredentialsRequestScoped("C19") // every decision is taken under the request's own authenticated name
			c.ConfigOrderPreserved("C07")
			c.DispatchTable("C07")
			c.PreCheckRules("C07")
			c.ImmutableAfterConstruction("C09.O5 config.immutable", pkgChecker, "permission table")
		},
		Explanation: "The permission decision is decided structurally: Check answers 'allowed' only past the edges [credentials present], [client known], [wallet and account patterns match the names split from the account under test], [this item is not a deny], [this item allows], scanning entries and items forward and in full; patterns are compiled as (?i)^(?:pattern)$; every client-facing operation performs its actions only below a positive check of the name of the resolved wallet/account, with the operation constant its rules are run under. See DESIGN.md §5 C07.",
		Trusted:     append([]string{"regexp semantics", "the order in which main turns the configuration into the entry list"}, commonTrusted...),
	})
}
