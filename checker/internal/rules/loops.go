package rules

import (
	"dirkcheck/internal/prog"
	"go/token"

	"dirkcheck/internal/an"

	"golang.org/x/tools/go/ssa"
)

// Loop is a recognised counted loop (P10).
type Loop struct {
	Header    *ssa.BasicBlock
	Cond      *ssa.BinOp
	Idx       ssa.Value // the induction value as seen in the body
	Phi       *ssa.Phi
	Bound     ssa.Value // the loop bound value
	BoundLen  ssa.Value // if Bound is len(X): root of X, else nil
	FullRange bool      // starts at index 0, step 1, runs while idx < bound
	BodyFirst *ssa.BasicBlock
	Exit      *ssa.BasicBlock
	Body      map[*ssa.BasicBlock]bool
}

// FindLoops recognises `for i := range X`, `for i := 0; i < n; i++` and `for i := off; i < off+n; i++` loops.
func FindLoops(fn *ssa.Function) []*Loop {
	var out []*Loop
	for _, b := range fn.Blocks {
		if len(b.Instrs) == 0 {
			continue
		}
		iff, ok := b.Instrs[len(b.Instrs)-1].(*ssa.If)
		if !ok {
			continue
		}
		cond, ok := iff.Cond.(*ssa.BinOp)
		if !ok || cond.Op != token.LSS {
			continue
		}
		l := &Loop{Header: b, Cond: cond, BodyFirst: b.Succs[0], Exit: b.Succs[1]}
		// shape 1 (range): idx = phi + 1, phi = [-1, idx]
		if add, ok := cond.X.(*ssa.BinOp); ok && add.Op == token.ADD && an.IsConstInt(add.Y, 1) {
			if phi, ok := add.X.(*ssa.Phi); ok && phi.Block() == b && len(phi.Edges) >= 2 {
				init, back := phiInitBack(phi, add)
				if back && init != nil && an.IsConstInt(init, -1) {
					l.Idx, l.Phi, l.FullRange = add, phi, true
				}
			}
		}
		// shape 2 (3-clause): idx = phi [init, idx+1]
		if l.Idx == nil {
			if phi, ok := cond.X.(*ssa.Phi); ok && phi.Block() == b && len(phi.Edges) >= 2 {
				var init ssa.Value
				okBack := false
				ninit := 0
				for _, e := range phi.Edges {
					if add, ok := e.(*ssa.BinOp); ok && add.Op == token.ADD && add.X == ssa.Value(phi) && an.IsConstInt(add.Y, 1) {
						okBack = true
					} else {
						if init != nil && init != e {
							ninit++
						}
						init = e
					}
				}
				if okBack && init != nil && ninit == 0 {
					l.Idx, l.Phi = phi, phi
					l.FullRange = an.IsConstInt(init, 0)
				}
			}
		}
		if l.Idx == nil {
			continue
		}
		l.Bound = cond.Y
		if call, ok := cond.Y.(*ssa.Call); ok {
			if bi, ok := call.Call.Value.(*ssa.Builtin); ok && bi.Name() == "len" && len(call.Call.Args) == 1 {
				l.BoundLen = sliceRootExact(call.Call.Args[0])
			}
		}
		// body = blocks reachable from BodyFirst without passing Header
		l.Body = map[*ssa.BasicBlock]bool{}
		var st []*ssa.BasicBlock
		st = append(st, l.BodyFirst)
		for len(st) > 0 {
			x := st[len(st)-1]
			st = st[:len(st)-1]
			if x == b || l.Body[x] {
				continue
			}
			l.Body[x] = true
			st = append(st, x.Succs...)
		}
		// the body must come back to the header (it is a loop)
		back := false
		for x := range l.Body {
			for _, s := range x.Succs {
				if s == b {
					back = true
				}
			}
		}
		if !back {
			continue
		}
		// exclude the exit continuation from Body: blocks reachable from Exit without header are not body
		// (they are in Body only if reachable from BodyFirst via break; handled by callers using Breaks()).
		out = append(out, l)
	}
	return out
}

func phiInitBack(phi *ssa.Phi, back ssa.Value) (init ssa.Value, hasBack bool) {
	for _, e := range phi.Edges {
		if e == back {
			hasBack = true
		} else {
			if init != nil && init != e {
				return nil, false // more than one entry value
			}
			init = e
		}
	}
	return
}

// InBodyProper reports whether block x belongs to the loop body in the strict sense:
// reachable from BodyFirst without the header AND able to reach the header again.
func (l *Loop) InBodyProper(x *ssa.BasicBlock) bool {
	if !l.Body[x] {
		return false
	}
	seen := map[*ssa.BasicBlock]bool{}
	var st []*ssa.BasicBlock
	st = append(st, x)
	for len(st) > 0 {
		y := st[len(st)-1]
		st = st[:len(st)-1]
		if y == l.Header {
			return true
		}
		if seen[y] {
			continue
		}
		seen[y] = true
		st = append(st, y.Succs...)
	}
	return false
}

// BreakEdges returns edges that leave the body proper to a non-header block that cannot come back (break / return paths).
func (l *Loop) BreakEdges() [][2]*ssa.BasicBlock {
	var out [][2]*ssa.BasicBlock
	for x := range l.Body {
		if !l.InBodyProper(x) {
			continue
		}
		for _, s := range x.Succs {
			if s != l.Header && !l.InBodyProper(s) {
				out = append(out, [2]*ssa.BasicBlock{x, s})
			}
		}
	}
	return out
}

// IterationSkips reports whether an iteration can go from the body start back to the header
// (i.e. continue to the next iteration) without executing an instruction satisfying must.
func (l *Loop) IterationSkips(must func(ssa.Instruction) bool) bool {
	hdr := l.Header
	ins, _ := an.Cut(an.CutQuery{
		From:        an.Point{Block: l.BodyFirst, Idx: 0},
		Target:      func(i ssa.Instruction) bool { return i.Block() == hdr && i == hdr.Instrs[0] },
		AcceptInstr: must,
	})
	return ins != nil
}

// BlanketOverwrite recognises `for i := range S { S[i] = c }` (full range, single unconditional store of
// a constant accepted by okConst) and returns the loop, or nil.
func BlanketOverwrite(l *Loop, root ssa.Value, okConst func(*ssa.Const) bool) bool {
	return BlanketOverwriteVal(l, root, func(v ssa.Value) bool {
		c, ok := v.(*ssa.Const)
		return ok && okConst(c)
	})
}

// BlanketOverwriteVal is BlanketOverwrite with a predicate on the stored value (which may be a parameter).
func BlanketOverwriteVal(l *Loop, root ssa.Value, okVal func(ssa.Value) bool) bool {
	if !l.FullRange || l.BoundLen == nil || l.BoundLen != root {
		return false
	}
	// body proper must be a straight line back to the header with no breaks
	if len(l.BreakEdges()) != 0 {
		return false
	}
	found := false
	skip := l.IterationSkips(func(ins ssa.Instruction) bool {
		st, ok := ins.(*ssa.Store)
		if !ok {
			return false
		}
		ia, ok := st.Addr.(*ssa.IndexAddr)
		if !ok || sliceRoot(ia.X) != root || ia.Index != l.Idx {
			return false
		}
		if !okVal(st.Val) {
			return false
		}
		found = true
		return true
	})
	return found && !skip
}

// BlanketCall reports whether ci hands the slice `root` to a module helper that, on every path to its return, overwrites
// every element of that slice with a value accepted by okConst (a constant in the helper, or a parameter whose argument
// at ci is such a constant).
func BlanketCall(ci ssa.CallInstruction, root ssa.Value, okConst func(*ssa.Const) bool) bool {
	callee := ci.Common().StaticCallee()
	if callee == nil || callee.Blocks == nil || !prog.InModule(callee) || ci.Common().IsInvoke() {
		return false
	}
	for ai, a := range ci.Common().Args {
		if sliceRootExact(a) != root || ai >= len(callee.Params) {
			continue
		}
		p := callee.Params[ai]
		okVal := func(v ssa.Value) bool {
			if k, ok := v.(*ssa.Const); ok {
				return okConst(k)
			}
			if q, ok := v.(*ssa.Parameter); ok {
				for j, qq := range callee.Params {
					if qq == q && j < len(ci.Common().Args) {
						if k, ok := ci.Common().Args[j].(*ssa.Const); ok {
							return okConst(k)
						}
					}
				}
			}
			return false
		}
		exits := map[[2]*ssa.BasicBlock]bool{}
		for _, l := range FindLoops(callee) {
			if BlanketOverwriteVal(l, ssa.Value(p), okVal) {
				exits[[2]*ssa.BasicBlock{l.Header, l.Exit}] = true
			}
		}
		if len(exits) == 0 {
			continue
		}
		x, _ := an.Cut(an.CutQuery{From: an.Entry(callee), Target: func(i ssa.Instruction) bool { _, ok := i.(*ssa.Return); return ok },
			AcceptEdge: func(b *ssa.BasicBlock, i int, a *an.Atom) bool { return exits[[2]*ssa.BasicBlock{b, b.Succs[i]}] }})
		if x == nil {
			return true
		}
	}
	return false
}
