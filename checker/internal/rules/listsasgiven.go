package rules

import (
	"go/types"

	"dirkcheck/internal/an"
	"dirkcheck/internal/prog"

	"golang.org/x/tools/go/ssa"
)

// ListsAsGiven (C18.O8 config.lists-as-given): what a service is configured with reaches it whole. The functional options of a
// service package assign their argument to a field of the package's `parameters` struct; for the list- and map-typed fields
// (the fetcher's stores, the peers, the passphrases, the permissions) every store into the field stores a parameter of the
// option (directly, or as the closure's captured variable) - never the result of a function that filters, deduplicates,
// sorts or truncates the list on the way. A store that is dropped at start-up makes its wallets unknown, and the listing
// answers SUCCEEDED without accounts the client may see.
func (c *Ctx) ListsAsGiven(prop string) {
	rule := "C18.O8 config.lists-as-given"
	n := 0
	type found struct {
		key, fn, pos, term    string
		given, deflt, fromArg bool
	}
	var all []found
	for _, fn := range c.P.ModuleFuncs() {
		p := prog.PkgPathOf(fn)
		if prog.IsTestish(p) || fn.Blocks == nil {
			continue
		}
		for _, b := range fn.Blocks {
			for _, ins := range b.Instrs {
				st, ok := ins.(*ssa.Store)
				if !ok {
					continue
				}
				fa, ok := st.Addr.(*ssa.FieldAddr)
				if !ok {
					continue
				}
				owner := namedOf(fa.X.Type())
				if owner == nil || owner.Obj().Name() != "parameters" || owner.Obj().Pkg() == nil || !prog.IsModulePath(owner.Obj().Pkg().Path()) {
					continue
				}
				switch st.Val.Type().Underlying().(type) {
				case *types.Slice, *types.Map:
				default:
					continue
				}
				n++
				key := owner.Obj().Pkg().Path()[len(mod)+1:] + ".parameters." + fieldNameOf(fa)
				v := st.Val
				// a conversion between a named list type and its underlying type is the same list
				for {
					if ct, isCT := v.(*ssa.ChangeType); isCT {
						v = ct.X
						continue
					}
					break
				}
				okVal := false
				isDefault := false
				switch x := v.(type) {
				case *ssa.Parameter, *ssa.FreeVar:
					okVal = true
				case *ssa.UnOp:
					// a captured variable's cell
					if _, isFV := x.X.(*ssa.FreeVar); isFV {
						okVal = true
					}
					if inner, ok := an.ResolveCell(x.X); ok {
						if _, isP := inner.(*ssa.Parameter); isP {
							okVal = true
						}
					}
				case *ssa.Const, *ssa.MakeSlice, *ssa.MakeMap:
					// a default (empty) value
					okVal = true
				case *ssa.Call:
					// a defensive copy of the whole argument: append(<empty>, arg...) or slices.Clone(arg) / maps.Clone(arg)
					isArg := func(a ssa.Value) bool {
						switch y := a.(type) {
						case *ssa.Parameter, *ssa.FreeVar:
							return true
						case *ssa.UnOp:
							if _, isFV := y.X.(*ssa.FreeVar); isFV {
								return true
							}
							if inner, ok := an.ResolveCell(y.X); ok {
								_, isP := inner.(*ssa.Parameter)
								return isP
							}
						}
						return false
					}
					if isBuiltin(x, "append") && len(x.Call.Args) == 2 && isArg(x.Call.Args[1]) {
						switch e := x.Call.Args[0].(type) {
						case *ssa.Const:
							okVal = e.Value == nil
						case *ssa.MakeSlice:
							okVal = an.IsConstInt(e.Len, 0)
						case *ssa.Slice:
							if al, isLit := e.X.(*ssa.Alloc); isLit {
								if arr, isArr := derefT(al.Type()).Underlying().(*types.Array); isArr && arr.Len() == 0 {
									okVal = true
								}
							}
						}
					}
					if f := x.Call.StaticCallee(); f != nil && f.Pkg != nil && (f.Pkg.Pkg.Path() == "slices" || f.Pkg.Pkg.Path() == "maps") && f.Name() == "Clone" && len(x.Call.Args) == 1 && isArg(x.Call.Args[0]) {
						okVal = true
					}
				case *ssa.Slice:
					// a literal default: the whole of a local array
					if _, isLit := x.X.(*ssa.Alloc); isLit && x.Low == nil && x.High == nil {
						okVal = true
					}
				}
				switch v.(type) {
				case *ssa.Const, *ssa.MakeSlice, *ssa.MakeMap:
					isDefault = true
				}
				// a value cut out of the option's argument marks the field as configured too (and is not as-given)
				fromArg := false
				if sl, isSl := v.(*ssa.Slice); isSl && !okVal {
					w := sl.X
					for {
						if s2, ok := w.(*ssa.Slice); ok {
							w = s2.X
							continue
						}
						break
					}
					switch y := w.(type) {
					case *ssa.Parameter, *ssa.FreeVar:
						fromArg = true
					case *ssa.UnOp:
						if _, isFV := y.X.(*ssa.FreeVar); isFV {
							fromArg = true
						}
					}
				}
				all = append(all, found{key: key, fn: Fn(fn), pos: c.Pos(st), term: an.Term(st.Val), given: okVal && !isDefault, deflt: isDefault, fromArg: fromArg})
			}
		}
	}
	// a field is a configured list when some option assigns it its own argument; only those are judged (fields the
	// constructor derives from the configuration - compiled patterns, indexes - are computed by design)
	configured := map[string]bool{}
	for _, f := range all {
		if f.given || f.fromArg {
			configured[f.key] = true
		}
	}
	for _, f := range all {
		if !configured[f.key] {
			continue
		}
		if f.given || f.deflt {
			c.R.OK(rule, f.key+"@"+f.fn, f.pos, "assigned the option's own argument (or a literal default)")
		} else {
			c.R.Fail(rule, f.key+"@"+f.fn, f.pos, "a configured list is replaced by a computed one ("+f.term+") before the service sees it: entries can be dropped, merged or reordered without any error", "parameters.<list> = the option's argument, as given", nil)
		}
	}
	c.R.Floor(rule, "stores into list-typed fields of service parameters", n, 5)
}
