package rules

import (
	"fmt"
	"go/constant"
	"go/token"
	"go/types"
	"sort"
	"strings"

	"dirkcheck/internal/an"
	"dirkcheck/internal/prog"

	"golang.org/x/tools/go/ssa"
)

// layoutEntry is one field of the binary record layout.
type layoutEntry struct {
	Field  string
	Lo, Hi int64
	Endian string
}

func constIntOf(v ssa.Value) (int64, bool) {
	k, ok := v.(*ssa.Const)
	if !ok || k.Value == nil || k.Value.Kind() != constant.Int {
		return 0, false
	}
	return constant.Int64Val(k.Value)
}

// sliceBounds: v = slice X[lo:hi] with constant bounds.
func sliceBounds(v ssa.Value) (x ssa.Value, lo, hi int64, ok bool) {
	sl, isSl := v.(*ssa.Slice)
	if !isSl || sl.Low == nil || sl.High == nil {
		return nil, 0, 0, false
	}
	l, ok1 := constIntOf(sl.Low)
	h, ok2 := constIntOf(sl.High)
	return sl.X, l, h, ok1 && ok2
}

func endianOf(ci ssa.CallInstruction) (endian, method string) {
	f := ci.Common().StaticCallee()
	if f == nil {
		return "", ""
	}
	n := f.String()
	switch {
	case strings.Contains(n, "encoding/binary.littleEndian"):
		return "little", f.Name()
	case strings.Contains(n, "encoding/binary.bigEndian"):
		return "big", f.Name()
	}
	return "", ""
}

// evalIntEnv evaluates an integer expression over constants and parameters bound to constants (helper calls with constant
// arguments: `offset := 1 + index*8`).
func evalIntEnv(v ssa.Value, env map[*ssa.Parameter]int64, d int) (int64, bool) {
	if d > 8 {
		return 0, false
	}
	switch x := v.(type) {
	case *ssa.Const:
		return constIntOf(x)
	case *ssa.Parameter:
		k, ok := env[x]
		return k, ok
	case *ssa.Convert:
		return evalIntEnv(x.X, env, d+1)
	case *ssa.ChangeType:
		return evalIntEnv(x.X, env, d+1)
	case *ssa.BinOp:
		a, ok1 := evalIntEnv(x.X, env, d+1)
		b, ok2 := evalIntEnv(x.Y, env, d+1)
		if !ok1 || !ok2 {
			return 0, false
		}
		switch x.Op {
		case token.ADD:
			return a + b, true
		case token.SUB:
			return a - b, true
		case token.MUL:
			return a * b, true
		}
	}
	return 0, false
}

// constEnv binds the parameters of a static callee to the constant arguments of one call.
func constEnv(call *ssa.Call) map[*ssa.Parameter]int64 {
	env := map[*ssa.Parameter]int64{}
	f := call.Call.StaticCallee()
	for i, p := range f.Params {
		if i < len(call.Call.Args) {
			if k, ok := evalIntEnv(call.Call.Args[i], nil, 0); ok {
				env[p] = k
			}
		}
	}
	return env
}

func moduleHelperCall(v ssa.Value) (*ssa.Call, *ssa.Function) {
	call, ok := v.(*ssa.Call)
	if !ok || call.Call.IsInvoke() {
		return nil, nil
	}
	f := call.Call.StaticCallee()
	if f == nil || !prog.InModule(f) || f.Blocks == nil {
		return nil, nil
	}
	return call, f
}

// EncodeDecodeAgreement: C11.O1 and O2 for one state type.
func (c *Ctx) EncodeDecodeAgreement(prop string, s *Slashing, state *types.Named, legacy map[string]bool) {
	rule := "C11.O1 encode/decode"
	rule2 := "C11.O2 legacy-schema"
	name := state.Obj().Name()
	// encoder: method returning []byte ; decoder: method (data []byte) error
	var enc, dec *ssa.Function
	ptr := types.NewPointer(state)
	ms := c.P.SSA.MethodSets.MethodSet(ptr)
	for i := 0; i < ms.Len(); i++ {
		fn := c.P.SSA.MethodValue(ms.At(i))
		if fn == nil || fn.Blocks == nil {
			continue
		}
		sig := fn.Signature
		if sig.Params().Len() == 0 && sig.Results().Len() == 1 {
			if sl, ok := sig.Results().At(0).Type().(*types.Slice); ok && types.Identical(sl.Elem(), types.Typ[types.Byte]) {
				enc = fn
			}
		}
		if sig.Params().Len() == 1 && sig.Results().Len() == 1 && isErrorType(sig.Results().At(0).Type()) {
			if sl, ok := sig.Params().At(0).Type().(*types.Slice); ok && types.Identical(sl.Elem(), types.Typ[types.Byte]) {
				dec = fn
			}
		}
	}
	if enc == nil || dec == nil {
		c.R.Anchor(rule, "codec:"+name, "encoder or decoder method not found")
		return
	}
	// ---- encoder layout
	var encLen, encVersion int64 = -1, -1
	var encLayout []layoutEntry
	var buf ssa.Value
	for _, ret := range an.Returns(enc) {
		buf = an.Result(ret, 0)
	}
	// make([]byte, N) is lowered to new [N]byte; slice[:N]
	if sl, ok := buf.(*ssa.Slice); ok {
		if a, ok := sl.X.(*ssa.Alloc); ok {
			if at, ok := a.Type().(*types.Pointer).Elem().Underlying().(*types.Array); ok {
				encLen = at.Len()
			}
		}
	} else if mk, ok := buf.(*ssa.MakeSlice); ok {
		encLen, _ = constIntOf(mk.Len)
	} else if call, h := moduleHelperCall(buf); h != nil {
		// the buffer comes from a constructor helper: `make([]byte, size)` with the version byte stored at [0]
		env := constEnv(call)
		for _, ret := range an.Returns(h) {
			if mk, ok := an.Result(ret, 0).(*ssa.MakeSlice); ok {
				if n, ok := evalIntEnv(mk.Len, env, 0); ok {
					encLen = n
				}
				for _, r := range *mk.Referrers() {
					if ia, ok := r.(*ssa.IndexAddr); ok {
						if idx, ok := constIntOf(ia.Index); ok && idx == 0 {
							for _, r2 := range *ia.Referrers() {
								if st, ok := r2.(*ssa.Store); ok && st.Addr == ssa.Value(ia) {
									encVersion, _ = constIntOf(st.Val)
								}
							}
						}
					}
				}
			}
		}
	}
	for _, b := range enc.Blocks {
		for _, ins := range b.Instrs {
			switch x := ins.(type) {
			case *ssa.Store:
				if ia, ok := x.Addr.(*ssa.IndexAddr); ok && ia.X == buf {
					if idx, ok := constIntOf(ia.Index); ok && idx == 0 {
						encVersion, _ = constIntOf(x.Val)
					} else {
						c.R.Unknown(rule, Fn(enc), c.Pos(x), "the encoder writes an individual byte other than the version byte")
					}
				}
			case *ssa.Call:
				if hc, h := moduleHelperCall(x); h != nil && ssa.Value(x) != buf {
					// a field writer helper: put(buf, <constant position>, state.Field)
					env := constEnv(hc)
					var bufP *ssa.Parameter
					for i, p := range h.Params {
						if i < len(hc.Call.Args) && hc.Call.Args[i] == buf {
							bufP = p
						}
					}
					if bufP == nil {
						continue
					}
					for _, hb := range h.Blocks {
						for _, hins := range hb.Instrs {
							pc, ok := hins.(*ssa.Call)
							if !ok {
								continue
							}
							endian, m := endianOf(pc)
							if endian == "" || !strings.HasPrefix(m, "PutUint") {
								continue
							}
							sl, isSl := pc.Call.Args[1].(*ssa.Slice)
							if !isSl || sl.X != ssa.Value(bufP) || sl.Low == nil || sl.High == nil {
								c.R.Unknown(rule, Fn(h), c.Pos(pc), "the field writer helper writes to a range that is not a slice of its buffer parameter")
								continue
							}
							lo, ok1 := evalIntEnv(sl.Low, env, 0)
							hi, ok2 := evalIntEnv(sl.High, env, 0)
							if !ok1 || !ok2 {
								c.R.Unknown(rule, Fn(h), c.Pos(pc), "the field writer helper's range does not evaluate to constants at this call")
								continue
							}
							fld := ""
							if cv, ok := pc.Call.Args[2].(*ssa.Convert); ok {
								for i, p := range h.Params {
									if ssa.Value(p) == cv.X && i < len(hc.Call.Args) {
										_, fld = s.stateField(hc.Call.Args[i])
									}
								}
							}
							if fld == "" {
								c.R.Fail(rule, Fn(enc), c.Pos(x), "the encoder writes something other than a state field through "+prog.ShortFunc(h), "put(buf, position, state.Field)", nil)
								continue
							}
							if m != "PutUint64" || hi-lo != 8 {
								c.R.Fail(rule, Fn(enc)+":"+fld, c.Pos(x), fmt.Sprintf("field %s is written with %s into %d bytes", fld, m, hi-lo), "8 bytes per int64 field", nil)
							}
							encLayout = append(encLayout, layoutEntry{fld, lo, hi, endian})
						}
					}
					continue
				}
				endian, m := endianOf(x)
				if endian == "" || !strings.HasPrefix(m, "PutUint") {
					continue
				}
				args := x.Call.Args
				xb, lo, hi, ok := sliceBounds(args[1])
				if !ok || xb != buf {
					c.R.Unknown(rule, Fn(enc), c.Pos(x), "the encoder writes to a range that is not a constant slice of its buffer")
					continue
				}
				cv, ok := args[2].(*ssa.Convert)
				var fld string
				if ok {
					_, fld = s.stateField(cv.X)
				}
				if fld == "" {
					c.R.Fail(rule, Fn(enc), c.Pos(x), "the encoder writes something other than a state field: "+an.Term(args[2]), "PutUint64(buf[a:b], uint64(state.Field))", nil)
					continue
				}
				if m != "PutUint64" || hi-lo != 8 {
					c.R.Fail(rule, Fn(enc)+":"+fld, c.Pos(x), fmt.Sprintf("field %s is written with %s into %d bytes", fld, m, hi-lo), "8 bytes per int64 field", nil)
				}
				encLayout = append(encLayout, layoutEntry{fld, lo, hi, endian})
			}
		}
	}
	// ---- decoder layout (version arm)
	var decLen, decVersion int64 = -1, -1
	var decLayout []layoutEntry
	data := ssa.Value(dec.Params[1])
	for _, b := range dec.Blocks {
		for i := range b.Succs {
			a := an.EdgeAtom(b, i)
			if a == nil {
				continue
			}
			// data[0] == V
			if a.Op == "==" {
				for _, side := range [][2]ssa.Value{{a.LV, a.RV}, {a.RV, a.LV}} {
					if root, idx, ok := elemLoadAny(side[0]); ok && root == data {
						if iv, ok := constIntOf(idx); ok && iv == 0 {
							if v, ok := constIntOf(side[1]); ok {
								decVersion = v
							}
						}
					}
					if lenIs(side[0], data) {
						if v, ok := constIntOf(side[1]); ok && v > 0 {
							decLen = v
						}
					}
				}
			}
		}
		for _, ins := range b.Instrs {
			st, ok := ins.(*ssa.Store)
			if !ok {
				continue
			}
			fa, ok := st.Addr.(*ssa.FieldAddr)
			if !ok || namedOf(fa.X.Type()) != state {
				continue
			}
			fld := fieldNameOf(fa)
			if hc, h := moduleHelperCall(st.Val); h != nil {
				// a field reader helper: get(data, <constant position>) = int64(Uint64(data[a:b]))
				env := constEnv(hc)
				var dataP *ssa.Parameter
				for i, p := range h.Params {
					if i < len(hc.Call.Args) && hc.Call.Args[i] == data {
						dataP = p
					}
				}
				okH := dataP != nil
				var lo, hi int64
				endian := ""
				for _, ret := range an.Returns(h) {
					cv, ok := an.Result(ret, 0).(*ssa.Convert)
					var rc *ssa.Call
					if ok {
						rc, _ = cv.X.(*ssa.Call)
					}
					if rc == nil {
						okH = false
						continue
					}
					e, m := endianOf(rc)
					sl, isSl := rc.Call.Args[1].(*ssa.Slice)
					if e == "" || m != "Uint64" || !isSl || sl.X != ssa.Value(dataP) || sl.Low == nil || sl.High == nil {
						okH = false
						continue
					}
					l, ok1 := evalIntEnv(sl.Low, env, 0)
					hh, ok2 := evalIntEnv(sl.High, env, 0)
					if !ok1 || !ok2 {
						okH = false
						continue
					}
					lo, hi, endian = l, hh, e
				}
				if !okH || endian == "" {
					c.R.Fail(rule, Fn(dec)+":"+fld, c.Pos(st), "the decoder reads "+fld+" through a helper in an unrecognised way: "+an.Term(st.Val), "int64(binary.<order>.Uint64(data[a:b]))", nil)
					continue
				}
				decLayout = append(decLayout, layoutEntry{fld, lo, hi, endian})
				target := ssa.Instruction(st)
				if x, path := an.Cut(an.CutQuery{From: an.Entry(dec), Target: func(i ssa.Instruction) bool { return i == target },
					AcceptEdge: func(b *ssa.BasicBlock, i int, a *an.Atom) bool {
						return a != nil && a.Op == "==" && ((lenIs(a.LV, data) && isIntConst(a.RV)) || (lenIs(a.RV, data) && isIntConst(a.LV)))
					}}); x != nil {
					c.R.Fail(rule, Fn(dec)+":"+fld, c.Pos(st), "the record is sliced without its length having been checked (a short record panics)", "length test before slicing", an.PathString(c.Pos, path))
				}
				continue
			}
			cv, ok := st.Val.(*ssa.Convert)
			var call *ssa.Call
			if ok {
				call, _ = cv.X.(*ssa.Call)
			}
			if call == nil {
				c.R.Fail(rule, Fn(dec)+":"+fld, c.Pos(st), "the decoder assigns "+fld+" from something other than the record bytes: "+an.Term(st.Val), "int64(Uint64(data[a:b]))", nil)
				continue
			}
			endian, m := endianOf(call)
			xb, lo, hi, okb := sliceBounds(call.Call.Args[1])
			if endian == "" || m != "Uint64" || !okb || xb != data {
				c.R.Fail(rule, Fn(dec)+":"+fld, c.Pos(st), "the decoder reads "+fld+" in an unrecognised way: "+an.Term(st.Val), "int64(binary.<order>.Uint64(data[a:b]))", nil)
				continue
			}
			decLayout = append(decLayout, layoutEntry{fld, lo, hi, endian})
			// the store is only reached with the length test passed
			target := ssa.Instruction(st)
			if x, path := an.Cut(an.CutQuery{From: an.Entry(dec), Target: func(i ssa.Instruction) bool { return i == target },
				AcceptEdge: func(b *ssa.BasicBlock, i int, a *an.Atom) bool {
					return a != nil && a.Op == "==" && ((lenIs(a.LV, data) && isIntConst(a.RV)) || (lenIs(a.RV, data) && isIntConst(a.LV)))
				}}); x != nil {
				c.R.Fail(rule, Fn(dec)+":"+fld, c.Pos(st), "the record is sliced without its length having been checked (a short record panics)", "length test before slicing", an.PathString(c.Pos, path))
			}
		}
	}
	key := func(l []layoutEntry) string {
		sort.Slice(l, func(i, j int) bool { return l[i].Lo < l[j].Lo })
		var parts []string
		for _, e := range l {
			parts = append(parts, fmt.Sprintf("%s@[%d:%d]%s", e.Field, e.Lo, e.Hi, e.Endian))
		}
		return strings.Join(parts, " ")
	}
	ek, dk := key(encLayout), key(decLayout)
	st := state.Underlying().(*types.Struct)
	switch {
	case encVersion < 0 || encVersion != decVersion:
		c.R.Fail(rule, name+":version", c.P.FuncPos(enc), fmt.Sprintf("encoder writes version %d, decoder's binary arm expects %d", encVersion, decVersion), "same version byte", nil)
	case encLen != decLen:
		c.R.Fail(rule, name+":length", c.P.FuncPos(enc), fmt.Sprintf("encoder produces %d bytes, decoder requires %d", encLen, decLen), "same record length", nil)
	case ek != dk:
		c.R.Fail(rule, name+":layout", c.P.FuncPos(enc), "encoder and decoder disagree on the record layout: encoder "+ek+" ; decoder "+dk, "inverse layouts (offsets, widths, byte order, field order)", nil)
	case len(encLayout) != st.NumFields():
		c.R.Fail(rule, name+":fields", c.P.FuncPos(enc), fmt.Sprintf("the record carries %d of the %d state fields", len(encLayout), st.NumFields()), "every field encoded", nil)
	default:
		// ranges disjoint and covering [1, N)
		pos := int64(1)
		okCover := true
		for _, e := range encLayout {
			if e.Lo != pos {
				okCover = false
			}
			pos = e.Hi
		}
		if !okCover || pos != encLen {
			c.R.Fail(rule, name+":layout", c.P.FuncPos(enc), "the field ranges overlap or do not cover the record: "+ek, "consecutive 8-byte ranges after the version byte", nil)
		} else {
			c.R.OK(rule, name, c.P.FuncPos(enc), fmt.Sprintf("version %d, %d bytes, layout %s - encoder and decoder are inverse", encVersion, encLen, ek))
		}
	}
	// ---- O2 legacy: the non-binary arm gob-decodes into the receiver; the struct keeps its gob field names
	gobOK := false
	for _, ci := range Calls(dec, func(ci ssa.CallInstruction) bool { return IsCallTo(ci, "(*encoding/gob.Decoder).Decode") }) {
		mi, ok := ci.Common().Args[1].(*ssa.MakeInterface)
		if ok && mi.X == ssa.Value(dec.Params[0]) {
			gobOK = true
			// reached when the version byte is not the binary one, and its error is returned
			if rets := an.Returns(dec); len(rets) > 0 {
				esc, _ := NilErrorNeeds(dec, func(x ssa.CallInstruction) bool { return x == ci })
				_ = esc
			}
		}
	}
	if !gobOK {
		// the legacy arm in a helper handed the receiver: decodeLegacy(data, s) = gob.NewDecoder(...).Decode(s)
		for _, hcI := range Calls(dec, func(ci ssa.CallInstruction) bool { _, h := moduleHelperCall(ci.Value()); return h != nil }) {
			hc, h := moduleHelperCall(hcI.Value())
			for i, p := range h.Params {
				if i >= len(hc.Call.Args) {
					continue
				}
				arg := hc.Call.Args[i]
				if mi, ok := arg.(*ssa.MakeInterface); ok {
					arg = mi.X
				}
				if arg != ssa.Value(dec.Params[0]) {
					continue
				}
				for _, ci := range Calls(h, func(ci ssa.CallInstruction) bool { return IsCallTo(ci, "(*encoding/gob.Decoder).Decode") }) {
					a1 := ci.Common().Args[1]
					if mi, ok := a1.(*ssa.MakeInterface); ok {
						a1 = mi.X
					}
					if a1 == ssa.Value(p) {
						gobOK = true
					}
				}
			}
		}
	}
	if !gobOK {
		c.R.Fail(rule2, Fn(dec), c.P.FuncPos(dec), "records that do not start with the binary version byte are no longer decoded with gob into the receiver: records written by older releases are rejected or misread", "default arm: gob.NewDecoder(...).Decode(s)", nil)
	} else {
		missing := []string{}
		have := map[string]bool{}
		for i := 0; i < st.NumFields(); i++ {
			f := st.Field(i)
			if b, ok := f.Type().(*types.Basic); ok && b.Kind() == types.Int64 && f.Exported() {
				have[f.Name()] = true
			}
		}
		for n := range legacy {
			if !have[n] {
				missing = append(missing, n)
			}
		}
		sort.Strings(missing)
		if len(missing) > 0 {
			c.R.Fail(rule2, name+":fields", c.P.FuncPos(dec), "gob matches fields by name: the legacy field(s) "+strings.Join(missing, ",")+" (exported int64) no longer exist, so old records decode to zero", "exported int64 fields "+strings.Join(sortedBoolKeys(legacy), ","), nil)
		} else {
			c.R.OK(rule2, name, c.P.FuncPos(dec), "default arm gob-decodes into the receiver; legacy field names "+strings.Join(sortedBoolKeys(legacy), ",")+" are exported int64 fields")
		}
	}
}

func isIntConst(v ssa.Value) bool { _, ok := constIntOf(v); return ok }

func sortedBoolKeys(m map[string]bool) []string {
	var out []string
	for k := range m {
		out = append(out, k)
	}
	sort.Strings(out)
	return out
}

// ExportRules: C11.O3 export exhaustive + O4 (-1 convention on the export side).
func (c *Ctx) ExportRules(prop string, s *Slashing) {
	rule := "C11.O3 export-exhaustive"
	F := s.ExportFn
	spT := c.P.LookupType(pkgRules, "SlashingProtection")
	if spT == nil {
		c.R.Anchor(rule, "type:SlashingProtection", "not found")
		return
	}
	// action globals used by key builders
	var actions []*ssa.Global
	seen := map[*ssa.Global]bool{}
	for _, kind := range []string{"att", "prop"} {
		st := s.AttState
		if kind == "prop" {
			st = s.PropState
		}
		for _, fh := range c.fetchHelpers(s, st) {
			if _, g, why := c.fetchKey(s, fh); why == "" && !seen[g] {
				seen[g] = true
				actions = append(actions, g)
			}
		}
	}
	if len(actions) < 2 {
		c.R.Anchor(rule, "actions", "could not determine the action values used by the record keys")
		return
	}
	// scope: the export function and the package helpers it calls (a per-record helper may hold the arms)
	scope := []*ssa.Function{F}
	for _, g := range c.StaticReach(F, 2) {
		if g != F && g.Blocks != nil && prog.PkgPathOf(g) == prog.PkgPathOf(F) && g != s.StoreFetchAll && g != s.StoreFetch && g.Signature.Recv() == nil || (g != F && g.Blocks != nil && g.Signature.Recv() != nil && namedOf(g.Signature.Recv().Type()) == namedOf(F.Signature.Recv().Type()) && g != F) {
			scope = append(scope, g)
		}
	}
	var scopeBlocks []*ssa.BasicBlock
	for _, g := range scope {
		scopeBlocks = append(scopeBlocks, g.Blocks...)
	}
	// arms: edges with atom key[48] == G[0]
	armOf := map[*ssa.Global]*ssa.BasicBlock{}
	for _, b := range scopeBlocks {
		for i := range b.Succs {
			a := an.EdgeAtom(b, i)
			if a == nil || a.Op != "==" {
				continue
			}
			for _, side := range [][2]ssa.Value{{a.LV, a.RV}, {a.RV, a.LV}} {
				root, idx, ok := elemLoadAny(side[1])
				if !ok {
					continue
				}
				iv, _ := constIntOf(idx)
				for _, g := range actions {
					if isLoadOfGlobal(root, g) && iv == 0 {
						// the other side: byte 48 of the record key
						if _, kidx, ok := elemLoadAny(side[0]); ok {
							if kv, ok := constIntOf(kidx); ok && kv == 48 {
								armOf[g] = b.Succs[i]
							}
						} else if ix, ok := side[0].(*ssa.Index); ok {
							if kv, ok := constIntOf(ix.Index); ok && kv == 48 {
								armOf[g] = b.Succs[i]
							}
						}
					}
				}
			}
		}
	}
	for _, g := range actions {
		if armOf[g] == nil {
			c.R.Fail(rule, Fn(F)+":"+g.Name(), c.P.FuncPos(F), "records stored under action "+g.Name()+" are not exported (no arm for that action byte)", "an export arm for every action used by the record keys", nil)
		}
	}
	// field copies: result field <- state field of the decoded state; table must be the expected one
	want := map[string]string{
		"HighestAttestedSourceEpoch": "att:" + s.AttSourceField,
		"HighestAttestedTargetEpoch": "att:" + s.AttTargetField,
		"HighestProposedSlot":        "prop:" + s.PropSlotField,
	}
	got := map[string]string{}
	inits := map[string]int64{}
	for _, b := range scopeBlocks {
		for _, ins := range b.Instrs {
			st, ok := ins.(*ssa.Store)
			if !ok {
				continue
			}
			fa, ok := st.Addr.(*ssa.FieldAddr)
			if !ok || namedOf(fa.X.Type()) != spT {
				continue
			}
			f := fieldNameOf(fa)
			if k, ok := constIntOf(st.Val); ok {
				inits[f] = k
				continue
			}
			if kind, sf := s.stateField(st.Val); kind != "" {
				got[f] = kind + ":" + sf
			}
		}
	}
	bad := false
	for f, w := range want {
		if got[f] != w {
			bad = true
			c.R.Fail(rule, Fn(F)+":"+f, c.P.FuncPos(F), fmt.Sprintf("exported %s is taken from %q, expected %q (by the request->state flow of the rules)", f, got[f], w), "each exported value from the state field of the same meaning", nil)
		}
		if v, ok := inits[f]; !ok || v != -1 {
			bad = true
			c.R.Fail("C11.O4 none-is-minus-one/export", Fn(F)+":"+f, c.P.FuncPos(F), "a key's exported "+f+" does not start as -1 ('none')", "-1 unless a record exists", nil)
		}
	}
	// unknown action byte -> error
	unknownErr := false
	for _, ret := range an.Returns(F) {
		if !isNilConst(unwrapErr(an.Result(ret, 1))) {
			t := an.Term(an.Result(ret, 1))
			if strings.Contains(t, "unknown") || strings.Contains(t, "Errorf") {
				unknownErr = true
			}
		}
	}
	// structural form: a default arm exists that returns an error: the block reached when all action comparisons fail
	if len(armOf) == len(actions) && !bad {
		// from entry to any nil-error return: must not be reachable via the all-arms-false path with a record in hand:
		// i.e. every iteration of the record loop passes one of the arms or returns
		var loop *rangeIterLoop
		for _, l := range findRangeIterLoops(F) {
			loop = l
		}
		okDefault := false
		arms := map[*ssa.BasicBlock]bool{}
		var H *ssa.Function
		oneH := true
		for _, b := range armOf {
			arms[b] = true
			if H != nil && H != b.Parent() {
				oneH = false
			}
			H = b.Parent()
		}
		if loop != nil && oneH && H != F {
			// the arms live in a per-record helper: it returns a nil error only through an arm, and every iteration of the
			// record loop passes the nil-error edge of a call of that helper (or leaves the loop)
			k := errResultIndex(H)
			okH := k >= 0
			for _, ret := range an.Returns(H) {
				if !okH {
					break
				}
				// a return that yields a freshly created error is a failure; every other return may be a success and must
				// lie below an arm
				if call, ok := an.Result(ret, k).(*ssa.Call); ok {
					if f := call.Call.StaticCallee(); f != nil {
						switch f.String() {
						case "fmt.Errorf", "errors.New", "github.com/pkg/errors.New", "github.com/pkg/errors.Errorf":
							continue
						}
					}
				}
				target := ssa.Instruction(ret)
				if x, _ := an.Cut(an.CutQuery{From: an.Entry(H), Target: func(i ssa.Instruction) bool { return i == target },
					AcceptEdge: func(b *ssa.BasicBlock, i int, a *an.Atom) bool { return arms[b.Succs[i]] }}); x != nil {
					okH = false
				}
			}
			errs := map[ssa.Value]bool{}
			for _, ci := range Calls(F, func(ci ssa.CallInstruction) bool { return ci.Common().StaticCallee() == H }) {
				for _, e := range errValuesOfCall(ci) {
					errs[e] = true
				}
			}
			hdr := loop.Header
			x, _ := an.Cut(an.CutQuery{From: an.Point{Block: loop.Body, Idx: 0}, Target: func(i ssa.Instruction) bool { return i == hdr.Instrs[0] },
				AcceptEdge: func(b *ssa.BasicBlock, i int, a *an.Atom) bool { return errNilAtom(a, errs) }})
			okDefault = okH && x == nil && len(errs) > 0
		} else if loop != nil && oneH {
			hdr := loop.Header
			x, _ := an.Cut(an.CutQuery{From: an.Point{Block: loop.Body, Idx: 0}, Target: func(i ssa.Instruction) bool { return i == hdr.Instrs[0] },
				AcceptEdge: func(b *ssa.BasicBlock, i int, a *an.Atom) bool { return arms[b.Succs[i]] }})
			okDefault = x == nil
		}
		if !okDefault {
			c.R.Fail(rule, Fn(F)+":default", c.P.FuncPos(F), "a record with an unknown action byte is skipped silently instead of failing the export", "unknown action byte => error", nil)
		} else {
			var names []string
			for _, g := range actions {
				names = append(names, g.Name())
			}
			sort.Strings(names)
			c.R.OK(rule, Fn(F), c.P.FuncPos(F), "arms for "+strings.Join(names, ", ")+"; unknown bytes fail; each exported value from the state field of the same meaning; -1 unless a record exists")
		}
	}
	_ = unknownErr
	_ = prog.InModule
}

// InterchangeInverse: C11.O5 - the command-level export and import map the same interchange fields to the same record
// fields, with the EIP-3076 JSON names (frozen table: the names are the external format).
func (c *Ctx) InterchangeInverse(prop string) {
	rule := "C11.O5 export/import-inverse"
	wantTags := map[string]map[string]string{
		"SlashingProtectionProposal":    {"Slot": "slot"},
		"SlashingProtectionAttestation": {"SourceEpoch": "source_epoch", "TargetEpoch": "target_epoch"},
		"SlashingProtectionData":        {"PublicKey": "pubkey", "SignedBlocks": "signed_blocks", "SignedAttestations": "signed_attestations"},
		"SlashingProtectionMetadata":    {"InterchangeFormatVersion": "interchange_format_version", "GenesisValidatorsRoot": "genesis_validators_root"},
		"SlashingProtection":            {"Metadata": "metadata", "Data": "data"},
	}
	mainPkg := c.P.ByPath[mod]
	if mainPkg == nil {
		c.R.Anchor(rule, "package main", "not loaded")
		return
	}
	badTags := 0
	for tn, fields := range wantTags {
		obj := mainPkg.Types.Scope().Lookup(tn)
		if obj == nil {
			badTags++
			c.R.Fail(rule, "type:"+tn, "-", "interchange type "+tn+" not found", "EIP-3076 structure", nil)
			continue
		}
		st, ok := obj.Type().Underlying().(*types.Struct)
		if !ok {
			continue
		}
		for i := 0; i < st.NumFields(); i++ {
			want, tracked := fields[st.Field(i).Name()]
			if !tracked {
				continue
			}
			tag := st.Tag(i)
			name := ""
			if j := strings.Index(tag, `json:"`); j >= 0 {
				name = tag[j+6:]
				if k := strings.IndexAny(name, `",`); k >= 0 {
					name = name[:k]
				}
			}
			if name != want {
				badTags++
				c.R.Fail(rule, "tag:"+tn+"."+st.Field(i).Name(), c.P.Pos(st.Field(i).Pos()), fmt.Sprintf("JSON name is %q, the interchange format requires %q", name, want), "EIP-3076 field names", nil)
			}
		}
	}
	if badTags == 0 {
		c.R.OK(rule, "json-tags", "-", "interchange structs carry the EIP-3076 field names")
	}
	// export table: json struct field <- "%d" of record field, guarded by != -1
	exp := map[string]string{}
	imp := map[string]string{}
	var expFn *ssa.Function
	for _, fn := range c.P.ModuleFuncs() {
		if prog.PkgPathOf(fn) != mod || fn.Blocks == nil {
			continue
		}
		for _, b := range fn.Blocks {
			for _, ins := range b.Instrs {
				st, ok := ins.(*ssa.Store)
				if !ok {
					continue
				}
				fa, ok := st.Addr.(*ssa.FieldAddr)
				if !ok {
					continue
				}
				owner := namedOf(fa.X.Type())
				if owner != nil && owner.Obj().Pkg().Path() == mod && strings.HasPrefix(owner.Obj().Name(), "SlashingProtection") {
					// export side
					if call, ok := st.Val.(*ssa.Call); ok && call.Call.StaticCallee() != nil && call.Call.StaticCallee().String() == "fmt.Sprintf" {
						format := an.Term(call.Call.Args[0])
						args := varargValues(call.Call.Args[1])
						if len(args) == 1 {
							if _, f := isSPFieldLoad(an.StripConv(args[0])); f != "" {
								exp[owner.Obj().Name()+"."+fieldNameOf(fa)] = f + ":" + format
								expFn = fn
								// the omission guard: this store only below [record field != -1] of the guarding field
							}
						}
					}
					// strconv.FormatInt(record.f, 10) is the same decimal rendering as Sprintf("%d", record.f)
					if call, ok := st.Val.(*ssa.Call); ok && call.Call.StaticCallee() != nil && call.Call.StaticCallee().String() == "strconv.FormatInt" && len(call.Call.Args) == 2 {
						if _, f := isSPFieldLoad(an.StripConv(call.Call.Args[0])); f != "" && an.IsConstInt(call.Call.Args[1], 10) {
							exp[owner.Obj().Name()+"."+fieldNameOf(fa)] = f + `:"%d"`
							expFn = fn
						}
					}
				}
				if obj, fld, st2 := spFieldStore(ins); st2 != nil && obj != nil {
					if jf, base := importSourceOf(st2.Val, nil, 0); jf != "" {
						imp[jf] = fld + ":" + base
					}
				}
			}
		}
	}
	want := map[string]string{
		"SlashingProtectionProposal.Slot":           "HighestProposedSlot",
		"SlashingProtectionAttestation.SourceEpoch": "HighestAttestedSourceEpoch",
		"SlashingProtectionAttestation.TargetEpoch": "HighestAttestedTargetEpoch",
	}
	bad := false
	for jf, rf := range want {
		e, i := exp[jf], imp[jf]
		if e != rf+`:"%d"` {
			bad = true
			c.R.Fail(rule, "export:"+jf, "-", fmt.Sprintf("export writes %s from %q, expected decimal %s", jf, e, rf), "export "+jf+" = decimal "+rf, nil)
		}
		if i != rf+":10" {
			bad = true
			c.R.Fail(rule, "import:"+jf, "-", fmt.Sprintf("import reads %s into %q, expected base-10 %s", jf, i, rf), "import "+rf+" = base-10 "+jf, nil)
		}
	}
	if !bad {
		c.R.OK(rule, "tables", "-", "export and import are inverse: slot<->HighestProposedSlot, source_epoch<->HighestAttestedSourceEpoch, target_epoch<->HighestAttestedTargetEpoch (decimal)")
	}
	// omission exactly for -1: in the export, the blocks entry is emitted below [slot != -1], the attestation entry below [source != -1]
	rule4 := "C11.O4 none-is-minus-one/interchange"
	if expFn != nil {
		for jf, rf := range want {
			guardField := rf
			if strings.HasPrefix(jf, "SlashingProtectionAttestation") {
				guardField = "HighestAttestedSourceEpoch"
			}
			for _, b := range expFn.Blocks {
				for _, ins := range b.Instrs {
					st, ok := ins.(*ssa.Store)
					if !ok {
						continue
					}
					fa, ok := st.Addr.(*ssa.FieldAddr)
					if !ok || namedOf(fa.X.Type()) == nil || namedOf(fa.X.Type()).Obj().Name()+"."+fieldNameOf(fa) != jf {
						continue
					}
					target := ssa.Instruction(st)
					x, path := an.Cut(an.CutQuery{From: an.Entry(expFn), Target: func(i ssa.Instruction) bool { return i == target },
						AcceptEdge: func(b *ssa.BasicBlock, i int, a *an.Atom) bool {
							if a == nil || a.Op != "!=" {
								return false
							}
							for _, side := range [][2]ssa.Value{{a.LV, a.RV}, {a.RV, a.LV}} {
								if _, f := isSPFieldLoad(side[0]); f == guardField && an.IsConstInt(side[1], -1) {
									return true
								}
							}
							return false
						}})
					if x != nil {
						c.R.Fail(rule4, Fn(expFn)+":"+jf, c.Pos(st), "the export can emit "+jf+" for a key that has no such record (-1)", "emit only below ["+guardField+" != -1]", an.PathString(c.Pos, path))
					} else {
						c.R.OK(rule4, Fn(expFn)+":"+jf, c.Pos(st), "emitted only below ["+guardField+" != -1]")
					}
				}
			}
		}
	}
}

// importSourceOf: v (stored into a protection record field) is the result of a base-N decimal parse of an interchange struct
// field - directly, as the non-record operand of max(record.f, v), after an integer conversion, or as the success result of a
// module helper that parses its parameter. Returns "Struct.Field" and the base, or "".
func importSourceOf(v ssa.Value, sub Subst, depth int) (string, string) {
	if depth > 4 || v == nil {
		return "", ""
	}
	v = an.StripConv(sub.Res(v))
	if cv, ok := v.(*ssa.Convert); ok {
		// an integer conversion of the parse result (its range is C10.O4's concern)
		return importSourceOf(cv.X, sub, depth+1)
	}
	if call, ok := v.(*ssa.Call); ok && isBuiltin(call, "max") && len(call.Call.Args) == 2 {
		a0, a1 := call.Call.Args[0], call.Call.Args[1]
		if o, _ := isSPFieldLoad(a0); o != nil {
			return importSourceOf(a1, sub, depth+1)
		}
		if o, _ := isSPFieldLoad(a1); o != nil {
			return importSourceOf(a0, sub, depth+1)
		}
		return "", ""
	}
	if ex, ok := v.(*ssa.Extract); ok && ex.Index == 0 {
		if call, ok := ex.Tuple.(*ssa.Call); ok && call.Call.StaticCallee() != nil && strings.HasPrefix(call.Call.StaticCallee().String(), "strconv.Parse") {
			o2, f2, _ := an.FieldOf(sub.Res(call.Call.Args[0]))
			if n2 := namedOf(o2); n2 != nil {
				return n2.Obj().Name() + "." + f2, an.Term(call.Call.Args[1])
			}
			return "", ""
		}
	}
	if rvs, ok := HelperSuccessResults(v); ok && len(rvs) > 0 {
		jf, base := "", ""
		for _, rv := range rvs {
			ns := Subst{}
			for a, b := range rv.Sub {
				ns[a] = sub.Res(b)
			}
			j, b := importSourceOf(rv.Val, ns, depth+1)
			if j == "" || (jf != "" && (j != jf || b != base)) {
				return "", ""
			}
			jf, base = j, b
		}
		return jf, base
	}
	return "", ""
}

func init() {
	register(&Spec{
		ID: "C11",
		Run: func(c *Ctx) {
			s := c.Slashing("C11.anchors")
			if !s.OK() {
				return
			}
			c.EncodeDecodeAgreement("C11", s, s.AttState, map[string]bool{"SourceEpoch": true, "TargetEpoch": true})
			c.EncodeDecodeAgreement("C11", s, s.PropState, map[string]bool{"Slot": true})
			c.ExportRules("C11", s)
			c.InterchangeInverse("C11")
			c.FetchHelperRules("C11", s, "att")
			c.FetchHelperRules("C11", s, "prop")
			c.rulesLevelImport("C11", s)
			c.SigningRootProvenance("C11") // the records that are exported are kept under the key the signature is made with
			c.SyncOption("C11")
			c.StoreCommit("C11", s)
			c.WhoWrites("C11")
			c.BadgerBufferDiscipline("C11")
			c.DecodeFreshTarget("C11")
			if sl := c.Slashing("C11.anchors"); sl.OK() {
				// the record that is exported holds only what was signed
				c.StateStoreDiscipline("C11", sl, "att")
				c.StateStoreDiscipline("C11", sl, "prop")
			}
			c.SameStore("C11")
			c.ImportRules("C10") // the round trip ends in the import command
		},
		Explanation: "Writer/reader agreement decided structurally: for both record types the encoder and decoder have inverse layouts (version byte, length, offsets, widths, byte order, field order, every field present); the non-binary arm gob-decodes into the receiver and the legacy field names still exist; the export has an arm for every action byte used by the record keys, fails on unknown bytes, copies each value from the state field of the same meaning and starts from -1; the command-level export and import tables are inverse with the EIP-3076 names and omit/skip exactly -1; restart retention = synchronous committed writes (C03 group). See DESIGN.md §5 C11.",
		Trusted:     append([]string{"gob wire compatibility across Go releases", "decisions of a re-imported instance equal the original's because the watermark triple is equal and the rules are a function of it (C01/C02); not checked by running both"}, commonTrusted...),
	})
}
