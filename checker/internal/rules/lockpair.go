package rules

import (
	"dirkcheck/internal/an"
	"dirkcheck/internal/prog"

	"golang.org/x/tools/go/ssa"
)

// LockReleased (C20.O5 lock.released): every sync.Mutex / sync.RWMutex acquired by a module function is released by
// that function on every path to a return (directly or by a deferred call registered on the way). A path that
// returns with the lock held wedges every later request that needs it - for a read lock, as soon as a writer queues.
// Exempt, by name and reason: the locker implementation, whose contract is to hand the lock to the caller
// (its typestate is the subject of C04.O1 and C15).
func (c *Ctx) LockReleased(prop string) {
	rule := "C20.O5 lock.released"
	isSync := func(ci ssa.CallInstruction, names ...string) bool {
		f := ci.Common().StaticCallee()
		if f == nil || f.Pkg == nil || f.Pkg.Pkg.Path() != "sync" || f.Signature.Recv() == nil {
			return false
		}
		for _, n := range names {
			if f.Name() == n {
				return true
			}
		}
		return false
	}
	lockerPkgs := map[string]bool{}
	if r := c.Ruler(prop + ".anchors"); r != nil && r.LockerImpl != nil {
		lockerPkgs[r.LockerImpl.Obj().Pkg().Path()] = true
	}
	sameMutex := func(a, b ssa.Value) bool {
		if a == b {
			return true
		}
		fa, ok1 := a.(*ssa.FieldAddr)
		fb, ok2 := b.(*ssa.FieldAddr)
		if ok1 && ok2 && fa.Field == fb.Field {
			if fa.X == fb.X {
				return true
			}
			return an.Term(fa.X) == an.Term(fb.X)
		}
		return an.Term(a) == an.Term(b)
	}
	n, nexempt := 0, 0
	for _, fn := range c.P.ModuleFuncs() {
		if prog.IsTestish(prog.PkgPathOf(fn)) || fn.Blocks == nil {
			continue
		}
		for _, ci := range Calls(fn, func(ci ssa.CallInstruction) bool { return isSync(ci, "Lock", "RLock") }) {
			if _, isDefer := ci.(*ssa.Defer); isDefer {
				continue
			}
			if _, isGo := ci.(*ssa.Go); isGo {
				continue
			}
			if lockerPkgs[prog.PkgPathOf(fn)] {
				nexempt++
				continue
			}
			n++
			mu := ci.Common().Args[0]
			want := "Unlock"
			if ci.Common().StaticCallee().Name() == "RLock" {
				want = "RUnlock"
			}
			releases := func(i ssa.Instruction) bool {
				rc, ok := i.(ssa.CallInstruction)
				if !ok {
					return false
				}
				if isSync(rc, want) && sameMutex(rc.Common().Args[0], mu) {
					return true
				}
				// defer func() { ...; mu.Unlock() }()
				if d, ok := i.(*ssa.Defer); ok {
					if mc, ok := d.Call.Value.(*ssa.MakeClosure); ok {
						for _, ic := range Calls(mc.Fn.(*ssa.Function), func(x ssa.CallInstruction) bool { return isSync(x, want) }) {
							if sameMutex(ic.Common().Args[0], mu) {
								return true
							}
						}
					}
				}
				return false
			}
			// a matching deferred release registered before the acquisition also covers it
			covered := false
			for _, b := range fn.Blocks {
				for _, ins := range b.Instrs {
					if d, ok := ins.(*ssa.Defer); ok && releases(d) && an.Reachable(an.After(d), ci.(ssa.Instruction)) && !an.Reachable(an.After(ci.(ssa.Instruction)), d) {
						covered = true
					}
				}
			}
			if covered {
				c.R.OK(rule, Fn(fn), c.Pos(ci), "released by a deferred call registered before the acquisition")
				continue
			}
			x, path := an.Cut(an.CutQuery{From: an.After(ci.(ssa.Instruction)), Target: func(i ssa.Instruction) bool { _, ok := i.(*ssa.Return); return ok }, AcceptInstr: releases})
			if x != nil {
				c.R.Fail(rule, Fn(fn)+":"+an.Term(mu), c.Pos(ci), "a path returns with the "+ci.Common().StaticCallee().Name()+" still held: every later request needing this lock (for a read lock: as soon as a writer queues) waits forever", want+" on every path to a return, or deferred", an.PathString(c.Pos, path))
			} else {
				c.R.OK(rule, Fn(fn)+":"+an.Term(mu), c.Pos(ci), "released on every path to a return")
			}
		}
	}
	c.R.Floor(rule, "mutex acquisitions in the module", n, 10)
	if nexempt > 0 {
		c.R.Notes = append(c.R.Notes, "C20.O5: acquisitions inside the locker implementation are exempt (its contract is to return holding the lock; see C04.O1/C15)")
	}
}
