package rules

import (
	"fmt"
	"go/token"
	"go/types"
	"sort"
	"strings"

	"dirkcheck/internal/an"
	"dirkcheck/internal/prog"

	"golang.org/x/tools/go/ssa"
)

const (
	pkgLocker = mod + "/services/locker"
)

// Ruler gathers anchors around the rule runner.
type Ruler struct {
	Impl       *types.Named
	RunRules   *ssa.Function
	LockerImpl *types.Named
	// invokes of locker methods in RunRules
	PreLock, PostLock []ssa.CallInstruction
	Locks             []ssa.CallInstruction
	Unlocks           []ssa.CallInstruction // defers
	// Dispatch: the call(s) in RunRules after which rules are evaluated (static calls to module functions that reach rules.Service invokes)
	Dispatch []ssa.CallInstruction
	// RuleInvokes: every invoke of a rules.Service method reachable (statically, incl. closures) from RunRules
	RuleInvokes []ssa.CallInstruction
	Stateful    map[string]bool // rules.Service method names that reach a store write
	ActionParam *ssa.Parameter
	DataParam   *ssa.Parameter
	// the lock section: RunRules itself, or a package helper RunRules calls with the request list, which takes the
	// locks and returns the function that releases them (`unlock := s.lock(rulesData); defer unlock()`)
	LockFn   *ssa.Function
	LockCall *ssa.Call     // the call of the helper in RunRules (nil when the section is inline)
	LockData ssa.Value     // the request list in LockFn's frame
	UnlockFn *ssa.Function // helper form: the closure returned by LockFn
	ok       bool
}

// GateEntry is the instruction of RunRules at which the lock section begins.
func (r *Ruler) GateEntry() ssa.Instruction {
	if r.LockCall != nil {
		return r.LockCall
	}
	return r.PreLock[0].(ssa.Instruction)
}

// GateDone is the instruction of RunRules after which all key locks are held.
func (r *Ruler) GateDone() ssa.Instruction {
	if r.LockCall != nil {
		return r.LockCall
	}
	return r.PostLock[0].(ssa.Instruction)
}

func (c *Ctx) Ruler(rule string) *Ruler {
	if r, ok := c.memo["ruler"].(*Ruler); ok {
		return r
	}
	r := &Ruler{}
	c.memo["ruler"] = r
	r.Impl = c.Role(rule, pkgRuler, "Service")
	r.LockerImpl = c.Role(rule, pkgLocker, "Service")
	if r.Impl == nil || r.LockerImpl == nil {
		return r
	}
	r.RunRules = c.Method(rule, r.Impl, "RunRules")
	if r.RunRules == nil {
		return r
	}
	for _, p := range r.RunRules.Params {
		if b, ok := p.Type().(*types.Basic); ok && b.Kind() == types.String {
			r.ActionParam = p
		}
		if sl, ok := p.Type().(*types.Slice); ok {
			if pt, ok := sl.Elem().(*types.Pointer); ok && namedIs(pt.Elem(), pkgRuler, "RulesData") {
				r.DataParam = p
			}
		}
	}
	if r.ActionParam == nil || r.DataParam == nil {
		c.R.Anchor(rule, "params:RunRules", "RunRules has no (action string, rulesData []*RulesData) parameters")
		return r
	}
	collect := func(fn *ssa.Function) int {
		n := 0
		for _, b := range fn.Blocks {
			for _, ins := range b.Instrs {
				ci, ok := ins.(ssa.CallInstruction)
				if !ok {
					continue
				}
				switch {
				case IsInvokeOf(ci, pkgLocker, "Service", "PreLock"):
					r.PreLock = append(r.PreLock, ci)
				case IsInvokeOf(ci, pkgLocker, "Service", "PostLock"):
					r.PostLock = append(r.PostLock, ci)
				case IsInvokeOf(ci, pkgLocker, "Service", "Lock"):
					r.Locks = append(r.Locks, ci)
				case IsInvokeOf(ci, pkgLocker, "Service", "Unlock"):
					r.Unlocks = append(r.Unlocks, ci)
				default:
					continue
				}
				n++
			}
		}
		return n
	}
	r.LockFn, r.LockData = r.RunRules, r.DataParam
	if collect(r.RunRules) == 0 {
		// the lock section may live in a package helper that is given the request list and returns the release function
		for _, ci := range Calls(r.RunRules, func(ci ssa.CallInstruction) bool {
			h := ci.Common().StaticCallee()
			return h != nil && h.Blocks != nil && !ci.Common().IsInvoke() && prog.PkgPathOf(h) == prog.PkgPathOf(r.RunRules)
		}) {
			call, ok := ci.(*ssa.Call)
			if !ok || r.LockCall != nil {
				continue
			}
			h := call.Call.StaticCallee()
			if len(invokesIface(h, pkgLocker, "Service", "PreLock", "Lock", "PostLock")) == 0 {
				continue
			}
			var hd ssa.Value
			for k, a := range call.Call.Args {
				if a == ssa.Value(r.DataParam) && k < len(h.Params) {
					hd = h.Params[k]
				}
			}
			if hd == nil {
				continue
			}
			r.LockFn, r.LockCall, r.LockData = h, call, hd
			collect(h)
			for _, cl := range h.AnonFuncs {
				if collect(cl) > 0 {
					r.UnlockFn = cl
				}
			}
		}
	}
	// rule invokes reachable from RunRules
	reach := c.StaticReach(r.RunRules, 6)
	for _, fn := range reach {
		for _, ci := range Calls(fn, func(ci ssa.CallInstruction) bool {
			return ci.Common().IsInvoke() && namedIs(ci.Common().Value.Type(), pkgRules, "Service")
		}) {
			r.RuleInvokes = append(r.RuleInvokes, ci)
		}
	}
	// dispatch calls in RunRules: static calls to module functions from which a rule invoke is statically reachable
	for _, ci := range Calls(r.RunRules, func(ci ssa.CallInstruction) bool {
		f := ci.Common().StaticCallee()
		if f == nil || !prog.InModule(f) {
			return false
		}
		for _, g := range c.StaticReach(f, 6) {
			for _, ri := range r.RuleInvokes {
				if ri.Parent() == g {
					return true
				}
			}
		}
		return false
	}) {
		r.Dispatch = append(r.Dispatch, ci)
	}
	// direct rule invokes in RunRules itself count as dispatch points too
	for _, ri := range r.RuleInvokes {
		if ri.Parent() == r.RunRules {
			r.Dispatch = append(r.Dispatch, ri)
		}
	}
	// stateful rules methods
	s := c.Slashing(rule)
	if !s.OK() {
		return r
	}
	r.Stateful = map[string]bool{}
	it := c.P.LookupType(pkgRules, "Service").Underlying().(*types.Interface)
	for i := 0; i < it.NumMethods(); i++ {
		m := it.Method(i).Name()
		fn := c.P.Method(s.RulesImpl, m)
		if fn == nil {
			continue
		}
		for _, g := range c.StaticReach(fn, 8) {
			if g == s.StoreStore || g == s.StoreBatch {
				r.Stateful[m] = true
			}
		}
	}
	r.ok = len(r.Dispatch) > 0
	if !r.ok {
		c.R.Anchor(rule, "dispatch:RunRules", "no dispatch to the rules service found below RunRules")
	}
	return r
}

func (r *Ruler) OK() bool { return r != nil && r.ok }

// actionGlobalAtom: atom "action == *G" for a string global G of the ruler package; returns G.
func actionEq(a *an.Atom, action ssa.Value) *ssa.Global {
	if a == nil || a.Op != "==" {
		return nil
	}
	for _, side := range [][2]ssa.Value{{a.LV, a.RV}, {a.RV, a.LV}} {
		if !isActionValue(side[0], action) {
			continue
		}
		if u, ok := side[1].(*ssa.UnOp); ok && u.Op == token.MUL {
			if g, ok := u.X.(*ssa.Global); ok {
				return g
			}
		}
	}
	return nil
}

func actionNe(a *an.Atom, action ssa.Value, g *ssa.Global) bool {
	if a == nil || a.Op != "!=" {
		return false
	}
	for _, side := range [][2]ssa.Value{{a.LV, a.RV}, {a.RV, a.LV}} {
		if isActionValue(side[0], action) && isLoadOfGlobal(side[1], g) {
			return true
		}
	}
	return false
}

// isActionValue: v is the action parameter (possibly through a closure cell).
func isActionValue(v ssa.Value, action ssa.Value) bool {
	if v == action {
		return true
	}
	if u, ok := v.(*ssa.UnOp); ok && u.Op == token.MUL {
		if inner, ok := an.ResolveCell(u.X); ok {
			return isActionValue(inner, action)
		}
	}
	return false
}

// actionGuards returns the set of action globals G such that site is only reachable below [action == G], looking
// through the chain of (static) callers / enclosing functions up to RunRules. Nil means "unguarded".
func (c *Ctx) actionGuards(r *Ruler, site ssa.Instruction, depth int) map[*ssa.Global]bool {
	fn := site.Parent()
	// which string value is "the action" in fn: a parameter fed from RunRules' action, or the captured cell
	action := c.actionValueIn(r, fn)
	out := map[*ssa.Global]bool{}
	if action != nil {
		// candidate globals: all appearing in == atoms with action in fn
		cands := map[*ssa.Global]bool{}
		for _, b := range fn.Blocks {
			for i := range b.Succs {
				if g := actionEq(an.EdgeAtom(b, i), action); g != nil {
					cands[g] = true
				}
			}
		}
		for g := range cands {
			g := g
			if x, _ := an.Cut(an.CutQuery{From: an.Entry(fn), Target: func(i ssa.Instruction) bool { return i == site },
				AcceptEdge: func(b *ssa.BasicBlock, i int, a *an.Atom) bool { return actionEq(a, action) == g }}); x == nil {
				out[g] = true
			}
		}
	}
	if len(out) > 0 || fn == r.RunRules || depth > 5 {
		return out
	}
	// go up: closure -> MakeClosure site in parent; function -> its static call sites in module
	var upSites []ssa.Instruction
	if fn.Parent() != nil {
		for _, b := range fn.Parent().Blocks {
			for _, ins := range b.Instrs {
				if mc, ok := ins.(*ssa.MakeClosure); ok && mc.Fn == fn {
					upSites = append(upSites, mc)
				}
			}
		}
	} else {
		for _, caller := range c.StaticReach(r.RunRules, 6) {
			for _, ci := range Calls(caller, func(ci ssa.CallInstruction) bool { return ci.Common().StaticCallee() == fn }) {
				upSites = append(upSites, ci)
			}
		}
	}
	if len(upSites) == 0 {
		return out
	}
	var inter map[*ssa.Global]bool
	for _, us := range upSites {
		g := c.actionGuards(r, us, depth+1)
		if inter == nil {
			inter = g
		} else {
			for k := range inter {
				if !g[k] {
					delete(inter, k)
				}
			}
		}
	}
	return inter
}

// actionValueIn finds the value in fn that carries RunRules' action parameter.
func (c *Ctx) actionValueIn(r *Ruler, fn *ssa.Function) ssa.Value {
	if fn == r.RunRules {
		return r.ActionParam
	}
	if fn.Parent() != nil {
		// closure: a free variable cell bound to the parent's action value
		pa := c.actionValueIn(r, fn.Parent())
		if pa == nil {
			return nil
		}
		// any load of a freevar resolving to pa: represent by pa itself (isActionValue resolves cells)
		return pa
	}
	// a function called from the RunRules family with the action passed as an argument
	for _, caller := range c.StaticReach(r.RunRules, 6) {
		for _, ci := range Calls(caller, func(ci ssa.CallInstruction) bool { return ci.Common().StaticCallee() == fn }) {
			ca := c.actionValueIn(r, caller)
			if ca == nil {
				continue
			}
			for i, a := range ci.Common().Args {
				if isActionValue(a, ca) && i < len(fn.Params) {
					return fn.Params[i]
				}
			}
		}
	}
	return nil
}

// RulerLocking: C04 O1-O3, O5 and C01.O13 inside RunRules.
func (c *Ctx) RulerLocking(prop string) {
	r := c.Ruler(prop + ".anchors")
	if !r.OK() {
		return
	}
	F := r.RunRules
	LF := r.LockFn
	data := r.LockData
	// ---------- O2 lock.covers-stateful
	rule2 := "C04.O2 lock.covers-stateful"
	statefulGlobals := map[*ssa.Global][]string{}
	nst := 0
	for _, ri := range r.RuleInvokes {
		m := ri.Common().Method.Name()
		if !r.Stateful[m] {
			continue
		}
		nst++
		gs := c.actionGuards(r, ri, 0)
		if len(gs) == 0 {
			c.R.Fail(rule2, "invoke "+m+" in "+Fn(ri.Parent()), c.Pos(ri), "a rule that reads and writes slashing-protection state is evaluated without being tied to an action value, so the lock condition cannot cover it", "stateful rules only below [action == <action constant>]", nil)
			continue
		}
		for g := range gs {
			statefulGlobals[g] = append(statefulGlobals[g], m)
		}
		var names []string
		for g := range gs {
			names = append(names, g.Name())
		}
		sort.Strings(names)
		c.R.OK(rule2, "invoke "+m+" in "+Fn(ri.Parent()), c.Pos(ri), "only below [action == "+strings.Join(names, "|")+"]")
	}
	c.R.Floor(rule2, "invokes of stateful rules below RunRules", nst, 3)
	if len(r.PreLock) != 1 || len(r.PostLock) != 1 || len(r.Locks) < 1 || len(r.Unlocks) < 1 {
		c.R.Fail("C04.O1 lock.all-keys", Fn(F), c.P.FuncPos(F), fmt.Sprintf("expected one PreLock, one PostLock, Lock and deferred Unlock in RunRules; found %d/%d/%d/%d", len(r.PreLock), len(r.PostLock), len(r.Locks), len(r.Unlocks)), "PreLock; for each request Lock + defer Unlock; PostLock", nil)
		return
	}
	post := r.PostLock[0].(ssa.Instruction)
	gateDone := r.GateDone()
	var gl []*ssa.Global
	for g := range statefulGlobals {
		gl = append(gl, g)
	}
	sort.Slice(gl, func(i, j int) bool { return gl[i].Name() < gl[j].Name() })
	for _, g := range gl {
		g := g
		for _, d := range r.Dispatch {
			d := d
			x, path := an.Cut(an.CutQuery{From: an.Entry(F), Target: func(i ssa.Instruction) bool { return i == d.(ssa.Instruction) },
				AcceptEdge:  c.WithSummaries(func(a *an.Atom, sub Subst) bool { return actionNe(resolveAtom(a, sub), r.ActionParam, g) }),
				AcceptInstr: func(i ssa.Instruction) bool { return i == gateDone }})
			want := "every path to rule evaluation either took the key locks or has [action != " + g.Name() + "]"
			if x != nil {
				c.R.Fail(rule2, "RunRules:"+g.Name(), c.Pos(d), "rules for action "+g.Name()+" (stateful: "+strings.Join(statefulGlobals[g], ",")+") can be evaluated without the per-key locks", want, an.PathString(c.Pos, path))
			} else {
				c.R.OK(rule2, "RunRules:"+g.Name(), c.Pos(d), want)
			}
		}
		if w := c.globalWrittenOutsideInit(g); len(w) > 0 {
			c.R.Fail(rule2, "global:"+g.Name(), c.Pos(w[0]), "the action constant is reassigned at run time", "action values are only initialised", nil)
		}
	}
	// ---------- O1 lock.all-keys, O3 unlock.deferred, O5 key agreement (lock side)
	rule1 := "C04.O1 lock.all-keys"
	rule3 := "C04.O3 unlock.deferred"
	var L *Loop
	lock := r.Locks[0]
	// the key expression and the loop over the request list it is computed in (the lock loop itself, or - when the keys are
	// collected first - the full-range loop over the requests that appends one key per request to the list the lock loop ranges over)
	var keyExpr ssa.Value
	var keyIdx ssa.Value
	for _, l := range FindLoops(LF) {
		if !l.FullRange || !l.Body[lock.Block()] {
			continue
		}
		if l.BoundLen == data {
			L, keyExpr, keyIdx = l, lock.Common().Args[0], l.Idx
			continue
		}
		if elem, src, ok := appendedPerIteration(LF, l.BoundLen, data); ok {
			// the lock argument must be the element of that list at the lock loop's own index
			if root, idx, isElem := elemLoad(lock.Common().Args[0]); isElem && root == l.BoundLen && idx == l.Idx {
				L, keyExpr, keyIdx = l, elem, src.Idx
			}
		}
	}
	if len(r.Locks) != 1 || L == nil {
		c.R.Fail(rule1, Fn(F), c.Pos(lock), "the key lock is not taken inside a full-range loop over the request list", "for i := range rulesData { Lock(key of rulesData[i]) }", nil)
		return
	}
	keyOK, keyWhy := lockKeyFrom(keyExpr, data, keyIdx)
	switch {
	case !keyOK:
		c.R.Fail("C04.O5 key-agreement", Fn(F)+":lock", c.Pos(lock), "the lock key is not the public key of the request at the loop's own index: "+keyWhy, "lockKey = copy of rulesData[i].PubKey", nil)
	case L.IterationSkips(func(i ssa.Instruction) bool { return i == lock.(ssa.Instruction) }) || len(L.BreakEdges()) > 0:
		c.R.Fail(rule1, Fn(F), c.Pos(lock), "an iteration of the locking loop can skip the Lock or leave the loop early", "every request's key is locked", nil)
	default:
		c.R.OK(rule1, Fn(F), c.Pos(lock), "Lock(copy of rulesData[i].PubKey) for every i of a full-range loop")
		c.R.OK("C04.O5 key-agreement", Fn(F)+":lock", c.Pos(lock), "lock key = rulesData[i].PubKey")
	}
	// PostLock only after the loop completed; Lock only after PreLock
	{
		hdr, exitB := L.Header, L.Exit
		if x, path := an.Cut(an.CutQuery{From: an.After(r.PreLock[0]), Target: func(i ssa.Instruction) bool { return i == post },
			AcceptEdge: func(b *ssa.BasicBlock, i int, a *an.Atom) bool { return b == hdr && b.Succs[i] == exitB }}); x != nil {
			c.R.Fail(rule1, Fn(F)+":postlock", c.Pos(post), "PostLock is reachable before every key was locked", "PostLock only after the locking loop completed", an.PathString(c.Pos, path))
		}
	}
	// unlock deferred in the same iteration with the same key
	okUnlock := false
	if r.LockCall != nil {
		okUnlock = c.unlockClosureOK(rule3, r, L, lock)
	}
	for _, u := range r.Unlocks {
		if r.LockCall != nil {
			break
		}
		if _, isDefer := u.(*ssa.Defer); !isDefer {
			c.R.Fail(rule3, Fn(F), c.Pos(u), "Unlock is called directly instead of being deferred: the lock does not cover rule evaluation", "defer Unlock(lockKey)", nil)
			continue
		}
		if !L.Body[u.Block()] {
			c.R.Fail(rule3, Fn(F), c.Pos(u), "the deferred Unlock is not registered in the locking loop", "defer Unlock(lockKey) next to Lock(lockKey)", nil)
			continue
		}
		if !sameCellLoad(u.Common().Args[0], lock.Common().Args[0]) {
			c.R.Fail(rule3, Fn(F), c.Pos(u), "the deferred Unlock does not use the key that was locked", "Unlock(lockKey) with the same key as Lock", nil)
			continue
		}
		if L.IterationSkips(func(i ssa.Instruction) bool { return i == u.(ssa.Instruction) }) {
			c.R.Fail(rule3, Fn(F), c.Pos(u), "an iteration can lock a key without registering its Unlock", "every Lock has its deferred Unlock", nil)
			continue
		}
		// no path from the Lock to the defer that leaves the function (lock leak) : the defer follows in the same block run
		if x, _ := an.Cut(an.CutQuery{From: an.After(lock), Target: func(i ssa.Instruction) bool { _, ok := i.(*ssa.Return); return ok },
			AcceptInstr: func(i ssa.Instruction) bool { return i == u.(ssa.Instruction) }}); x != nil {
			c.R.Fail(rule3, Fn(F), c.Pos(u), "the function can return between Lock and the registration of its Unlock", "defer Unlock immediately after Lock", nil)
			continue
		}
		okUnlock = true
	}
	if okUnlock {
		c.R.OK(rule3, Fn(F), c.Pos(r.Unlocks[0]), "every Lock is followed by defer Unlock of the same key; locks are held until RunRules returns")
	}
	// dispatch happens after the lock section and is a plain call whose result is returned
	for _, d := range r.Dispatch {
		if _, ok := d.(*ssa.Call); !ok {
			c.R.Fail(rule3, Fn(F)+":dispatch", c.Pos(d), "rule evaluation is started with go/defer: it can outlive the locks", "plain call", nil)
		}
	}
	// ---------- C01.O13 dedupe
	c.rulerDedupe(r, L, statefulGlobals)
}

// unlockClosureOK validates the helper form of the lock section: the helper's only return hands back a closure over the
// list of keys it locked (one key appended per iteration of the locking loop, the very key passed to Lock); the closure
// unlocks every element of that list (a full-range loop without skips, Unlock called or deferred there); and RunRules
// defers the returned function at once, before anything that can return or evaluate rules.
func (c *Ctx) unlockClosureOK(rule string, r *Ruler, L *Loop, lock ssa.CallInstruction) bool {
	H, U := r.LockFn, r.UnlockFn
	fail := func(pos ssa.Instruction, found, want string) bool {
		c.R.Fail(rule, Fn(H), c.Pos(pos), found, want, nil)
		return false
	}
	if U == nil {
		return fail(lock.(ssa.Instruction), "the lock helper does not return a function that releases the keys", "return func() { for each locked key: Unlock(key) }")
	}
	rets := an.Returns(H)
	if len(rets) != 1 || len(rets[0].Results) != 1 {
		return fail(lock.(ssa.Instruction), "the lock helper has more than one exit or result", "one return of the release function, after PostLock")
	}
	mc, ok := an.Result(rets[0], 0).(*ssa.MakeClosure)
	if !ok || mc.Fn != ssa.Value(U) {
		return fail(rets[0], "the lock helper does not return its release closure", "return func() { ... Unlock ... }")
	}
	// the captured key list: appended once per iteration of the locking loop with the locked key
	var listCell ssa.Value
	var uLoop *Loop
	var unlock ssa.CallInstruction
	for _, u := range r.Unlocks {
		if u.Parent() == U {
			unlock = u
		}
	}
	if unlock == nil {
		return fail(rets[0], "the release closure does not call Unlock", "Unlock of every locked key")
	}
	for _, l := range FindLoops(U) {
		if l.FullRange && l.Body[unlock.Block()] {
			uLoop = l
		}
	}
	if uLoop == nil {
		return fail(unlock.(ssa.Instruction), "the release closure does not unlock inside a full-range loop over the locked keys", "for _, key := range lockedKeys { Unlock(key) }")
	}
	root, idx, isElem := elemLoad(unlock.Common().Args[0])
	if !isElem || idx != uLoop.Idx || root != uLoop.BoundLen {
		return fail(unlock.(ssa.Instruction), "the key unlocked is not the element of the locked-key list at the loop's own index", "Unlock(lockedKeys[j])")
	}
	if uLoop.IterationSkips(func(i ssa.Instruction) bool { return i == unlock.(ssa.Instruction) }) || len(uLoop.BreakEdges()) > 0 {
		return fail(unlock.(ssa.Instruction), "the release closure can skip a key or stop early", "every locked key is unlocked")
	}
	// the list in the closure is the captured cell of the helper's list
	if u, isLoad := root.(*ssa.UnOp); isLoad {
		if fv, isFV := u.X.(*ssa.FreeVar); isFV {
			for k, f := range U.FreeVars {
				if f == fv && k < len(mc.Bindings) {
					listCell = mc.Bindings[k]
				}
			}
		}
	}
	if listCell == nil {
		return fail(unlock.(ssa.Instruction), "the list the release closure ranges over is not a variable of the lock helper", "the list of keys built while locking")
	}
	// in H: the cell holds a list to which the locked key is appended in every iteration of the locking loop, and nothing else
	nApp := 0
	for _, ref := range *listCell.Referrers() {
		st, isStore := ref.(*ssa.Store)
		if !isStore || st.Addr != listCell {
			continue
		}
		app, isApp := st.Val.(*ssa.Call)
		if isApp && isBuiltin(app, "append") && len(app.Call.Args) == 2 {
			// append(list, key): variadic packing creates a one-element slice of the key
			if !L.Body[st.Block()] || L.IterationSkips(func(i ssa.Instruction) bool { return i == ssa.Instruction(st) }) {
				return fail(st, "a locked key may not be recorded for release", "lockedKeys = append(lockedKeys, key) next to every Lock(key)")
			}
			if !appendsValue(app, lock.Common().Args[0]) {
				return fail(st, "the key recorded for release is not the key that was locked", "append(lockedKeys, lockKey) with the key passed to Lock")
			}
			nApp++
			continue
		}
		if mk, isMk := st.Val.(*ssa.MakeSlice); isMk {
			if k, isC := mk.Len.(*ssa.Const); isC && k.Int64() == 0 && !L.Body[st.Block()] {
				continue // initial empty list
			}
		}
		return fail(st, "the list of locked keys is assigned something other than an append of the locked key", "only lockedKeys = append(lockedKeys, key)")
	}
	if nApp != 1 {
		return fail(lock.(ssa.Instruction), fmt.Sprintf("expected one append of the locked key per iteration, found %d", nApp), "lockedKeys = append(lockedKeys, key)")
	}
	// in RunRules: `defer <result of the helper>()` follows the call before any return or rule evaluation
	F := r.RunRules
	var dfr *ssa.Defer
	for _, ref := range *r.LockCall.Referrers() {
		if d, isDefer := ref.(*ssa.Defer); isDefer && d.Call.Value == ssa.Value(r.LockCall) {
			dfr = d
		}
	}
	if dfr == nil {
		c.R.Fail(rule, Fn(F), c.Pos(r.LockCall), "the release function returned by the lock helper is not deferred by RunRules", "unlock := lock(rulesData); defer unlock()", nil)
		return false
	}
	if x, path := an.Cut(an.CutQuery{From: an.After(r.LockCall), Target: func(i ssa.Instruction) bool {
		if _, isRet := i.(*ssa.Return); isRet {
			return true
		}
		for _, d := range r.Dispatch {
			if i == d.(ssa.Instruction) {
				return true
			}
		}
		return false
	}, AcceptInstr: func(i ssa.Instruction) bool { return i == ssa.Instruction(dfr) }}); x != nil {
		c.R.Fail(rule, Fn(F), c.Pos(x), "RunRules can return or evaluate rules after taking the locks without having deferred their release", "defer unlock() immediately after the lock helper", an.PathString(c.Pos, path))
		return false
	}
	return true
}

// appendsValue: app is append(list, v) for the given value (go/ssa packs the variadic argument into a one-element array).
func appendsValue(app *ssa.Call, v ssa.Value) bool {
	sl, ok := app.Call.Args[1].(*ssa.Slice)
	if !ok {
		return false
	}
	arr, ok := sl.X.(*ssa.Alloc)
	if !ok {
		return false
	}
	n, okv := 0, false
	for _, ref := range *arr.Referrers() {
		ia, ok := ref.(*ssa.IndexAddr)
		if !ok {
			continue
		}
		for _, r2 := range *ia.Referrers() {
			if st, ok := r2.(*ssa.Store); ok && st.Addr == ssa.Value(ia) {
				n++
				if st.Val == v || sameCellLoad(st.Val, v) {
					okv = true
				}
			}
		}
	}
	return n == 1 && okv
}

// appendedPerIteration recognises a list built as `list := make(_, 0, n); for i := range data { ...; list = append(list, e) }`:
// listVal is the value of the list after the loop (the header phi), the loop is a full-range loop over data without break
// edges, and every iteration that reaches the next one has performed the single append. It returns the appended element
// expression e (a value of the loop body, i.e. "e at iteration i") and the loop: list[j] is then e of iteration j, and
// len(list) == len(data) once the loop has completed.
func appendedPerIteration(fn *ssa.Function, listVal ssa.Value, data ssa.Value) (ssa.Value, *Loop, bool) {
	phi, ok := listVal.(*ssa.Phi)
	if !ok || len(phi.Edges) != 2 {
		return nil, nil, false
	}
	var mk *ssa.MakeSlice
	var app *ssa.Call
	for _, e := range phi.Edges {
		switch x := e.(type) {
		case *ssa.MakeSlice:
			mk = x
		case *ssa.Call:
			if isBuiltin(x, "append") {
				app = x
			}
		}
	}
	if mk == nil || app == nil || !an.IsConstInt(mk.Len, 0) || app.Call.Args[0] != ssa.Value(phi) {
		return nil, nil, false
	}
	elems := varargValuesT(app.Call.Args[1])
	if len(elems) != 1 {
		return nil, nil, false
	}
	for _, l := range FindLoops(fn) {
		if !l.FullRange || l.BoundLen != data || l.Header != phi.Block() || !l.Body[app.Block()] {
			continue
		}
		if len(l.BreakEdges()) > 0 {
			// leaving the loop early is fine only if it leaves the function (a return): the list is then not used
			early := false
			for _, e := range l.BreakEdges() {
				if x, _ := an.Cut(an.CutQuery{From: an.Point{Block: e[1], Idx: 0}, Target: func(i ssa.Instruction) bool {
					for _, r := range *phi.Referrers() {
						if r == i && i != ssa.Instruction(app) {
							return true
						}
					}
					return false
				}}); x != nil {
					early = true
				}
			}
			if early {
				continue
			}
		}
		if l.IterationSkips(func(i ssa.Instruction) bool { return i == ssa.Instruction(app) }) {
			continue
		}
		return elems[0], l, true
	}
	return nil, nil, false
}

// lockKeyFrom checks that v (a [48]byte value) is a local array that received exactly copy(arr[:], rulesData[idx].PubKey):
// either the load of such an array, or the result of a module helper that builds such an array from its parameter and is
// given rulesData[idx].PubKey.
func lockKeyFrom(v ssa.Value, data ssa.Value, idx ssa.Value) (bool, string) {
	src, why := arrayCopySource(v, 0)
	if why != "" {
		return false, why
	}
	owner, f, base := an.FieldOf(src)
	if owner == nil || f != "PubKey" {
		return false, "copied from " + an.Term(src)
	}
	root, i2, ok := elemLoad(base)
	if !ok || root != data || i2 != idx {
		return false, "copied from " + an.Term(src)
	}
	return true, ""
}

// arrayCopySource: v is an array value whose only initialisation is one copy(arr[:], src); returns src in the frame of v.
func arrayCopySource(v ssa.Value, depth int) (ssa.Value, string) {
	if call, ok := v.(*ssa.Call); ok && depth < 2 {
		callee := call.Call.StaticCallee()
		if callee == nil || callee.Blocks == nil || !prog.InModule(callee) || call.Call.IsInvoke() {
			return nil, "key is the result of an unknown call"
		}
		rets := an.Returns(callee)
		if len(rets) != 1 || len(rets[0].Results) != 1 {
			return nil, "the key helper has more than one return"
		}
		src, why := arrayCopySource(an.Result(rets[0], 0), depth+1)
		if why != "" {
			return nil, why
		}
		q, ok := src.(*ssa.Parameter)
		if !ok {
			return nil, "the key helper does not copy from its own parameter"
		}
		for i, qq := range callee.Params {
			if qq == q && i < len(call.Call.Args) {
				return call.Call.Args[i], ""
			}
		}
		return nil, "the key helper does not copy from its own parameter"
	}
	u, ok := v.(*ssa.UnOp)
	if !ok || u.Op != token.MUL {
		return nil, "key is not a load of a local array"
	}
	arr, ok := u.X.(*ssa.Alloc)
	if !ok {
		return nil, "key is not a load of a local array"
	}
	n := 0
	var src ssa.Value
	for _, r := range *arr.Referrers() {
		switch x := r.(type) {
		case *ssa.Slice:
			for _, r2 := range *x.Referrers() {
				call, ok := r2.(*ssa.Call)
				if !ok || !isBuiltin(call, "copy") || call.Call.Args[0] != ssa.Value(x) {
					if _, isDbg := r2.(*ssa.DebugRef); isDbg {
						continue
					}
					return nil, "the key array is used other than as a copy destination"
				}
				n++
				src = call.Call.Args[1]
			}
		case *ssa.UnOp:
		case *ssa.Store:
			return nil, "the key array is assigned directly"
		case *ssa.IndexAddr:
			return nil, "key bytes are written individually"
		}
	}
	if n != 1 || src == nil {
		return nil, fmt.Sprintf("%d copies into the key", n)
	}
	return src, ""
}

func sameCellLoad(a, b ssa.Value) bool {
	if _, isCall := a.(*ssa.Call); isCall && a == b {
		return true // one and the same computed value
	}
	ua, ok1 := a.(*ssa.UnOp)
	ub, ok2 := b.(*ssa.UnOp)
	return ok1 && ok2 && ua.Op == token.MUL && ub.Op == token.MUL && ua.X == ub.X
}

// rulerDedupe: C01.O13 - before the lock loop, a full-range loop refuses a repeated key.  The scan may be written in
// RunRules itself or in a helper that RunRules calls with the request list and whose result decides whether RunRules goes on.
func (c *Ctx) rulerDedupe(r *Ruler, lockLoop *Loop, stateful map[*ssa.Global][]string) {
	rule := "C01.O13 dedupe"
	F := r.RunRules
	pre := r.GateEntry()
	why := "no full-range loop over the request list with a seen-set lookup found before the locks are taken"
	// scanLoop finds the dedupe loop of fn over its list value `data`
	scanLoop := func(fn *ssa.Function, data ssa.Value, exclude *Loop) (*Loop, *ssa.Lookup, ssa.Value) {
		for _, l := range FindLoops(fn) {
			if !l.FullRange || l.BoundLen != data || l == exclude {
				continue
			}
			l := l
			// lookup with comma-ok and a map update on the same map with a key copied from data[idx].PubKey
			var lk *ssa.Lookup
			var upd *ssa.MapUpdate
			for b := range l.Body {
				if !l.InBodyProper(b) {
					continue
				}
				for _, ins := range b.Instrs {
					if x, ok := ins.(*ssa.Lookup); ok && x.CommaOk {
						lk = x
					}
					if x, ok := ins.(*ssa.MapUpdate); ok {
						upd = x
					}
				}
			}
			if lk == nil || upd == nil {
				continue
			}
			if lk.X != upd.Map {
				why = "lookup and update use different maps"
				continue
			}
			if _, ok := lk.X.(*ssa.MakeMap); !ok {
				why = "the seen-set is not a fresh map"
				continue
			}
			if ok, w := lockKeyFrom(lk.Index, data, l.Idx); !ok {
				why = "the looked-up key is not the request's public key: " + w
				continue
			}
			if !sameCellLoad(lk.Index, upd.Key) && lk.Index != upd.Key {
				why = "the key recorded is not the key looked up"
				continue
			}
			var okVal ssa.Value
			for _, ref := range *lk.Referrers() {
				if ex, ok := ref.(*ssa.Extract); ok && ex.Index == 1 {
					okVal = ex
				}
			}
			if okVal == nil {
				why = "the presence flag of the lookup is ignored"
				continue
			}
			// every iteration performs the lookup and (unless it leaves) the update
			if l.IterationSkips(func(i ssa.Instruction) bool { return i == ssa.Instruction(upd) }) {
				why = "an iteration can continue without recording its key"
				continue
			}
			// from the lookup, the update (and hence the next iteration) is reachable only through the !exists edge
			if x, _ := an.Cut(an.CutQuery{From: an.After(lk), Target: func(i ssa.Instruction) bool { return i == ssa.Instruction(upd) || i == l.Header.Instrs[0] },
				AcceptEdge: func(b *ssa.BasicBlock, i int, a *an.Atom) bool {
					return a != nil && a.Op == "false" && a.LV == okVal
				}}); x != nil {
				why = "a repeated key does not stop the request"
				continue
			}
			return l, lk, okVal
		}
		return nil, nil, nil
	}
	if found, _, _ := scanLoop(F, ssa.Value(r.DataParam), lockLoop); found != nil {
		// the dedupe loop completes before PreLock on all paths
		hdr, exitB := found.Header, found.Exit
		if x, path := an.Cut(an.CutQuery{From: an.Entry(F), Target: func(i ssa.Instruction) bool { return i == pre },
			AcceptEdge: func(b *ssa.BasicBlock, i int, a *an.Atom) bool { return b == hdr && b.Succs[i] == exitB }}); x != nil {
			c.R.Fail(rule, Fn(F), c.Pos(pre), "the locks can be taken without the duplicate-key scan having completed", "duplicate scan completes before PreLock", an.PathString(c.Pos, path))
			return
		}
		c.R.OK(rule, Fn(F), c.Pos(found.Header.Instrs[0]), "a repeated 48-byte key in one request list is refused before any lock is taken or rule evaluated")
		return
	}
	// a helper called with the request list
	for _, ci := range Calls(F, func(ci ssa.CallInstruction) bool {
		f := ci.Common().StaticCallee()
		return f != nil && prog.InModule(f) && f.Blocks != nil && !ci.Common().IsInvoke()
	}) {
		call, isCall := ci.(*ssa.Call)
		if !isCall {
			continue
		}
		H := ci.Common().StaticCallee()
		var hp *ssa.Parameter
		for i, a := range ci.Common().Args {
			if a == ssa.Value(r.DataParam) && i < len(H.Params) {
				hp = H.Params[i]
			}
		}
		if hp == nil || H.Signature.Results().Len() != 1 {
			continue
		}
		found, lk, okVal := scanLoop(H, ssa.Value(hp), nil)
		if found == nil {
			continue
		}
		// classify H's returns: those reachable once a repeated key was seen (below the exists edge), and the others
		dupReach := func(target ssa.Instruction) bool {
			x, _ := an.Cut(an.CutQuery{From: an.After(lk), Target: func(i ssa.Instruction) bool { return i == target },
				AcceptEdge: func(b *ssa.BasicBlock, i int, a *an.Atom) bool { return a != nil && a.Op == "false" && a.LV == okVal }})
			return x != nil
		}
		var cleanK *ssa.Const
		okShape := true
		var dupVals []ssa.Value
		hdr, exitB := found.Header, found.Exit
		for _, ret := range an.Returns(H) {
			v := an.Result(ret, 0)
			if dupReach(ret) {
				dupVals = append(dupVals, v)
			}
			// a return not preceded by the completed scan is not a clean return either
			x, _ := an.Cut(an.CutQuery{From: an.Entry(H), Target: func(i ssa.Instruction) bool { return i == ssa.Instruction(ret) },
				AcceptEdge: func(b *ssa.BasicBlock, i int, a *an.Atom) bool { return b == hdr && b.Succs[i] == exitB }})
			if x == nil {
				// reachable only after the scan completed: the clean result
				k, ok := v.(*ssa.Const)
				if !ok || (cleanK != nil && an.Term(cleanK) != an.Term(k)) {
					okShape = false
					continue
				}
				cleanK = k
			} else if !dupReach(ret) {
				dupVals = append(dupVals, v) // early return for another reason: must not look clean either
			}
		}
		if !okShape || cleanK == nil {
			why = "the duplicate-scan helper " + Fn(H) + " does not report completion of the scan by one constant result"
			continue
		}
		// results after a repeated key (or any early return) differ from the clean constant
		distinct := true
		for _, v := range dupVals {
			switch x := v.(type) {
			case *ssa.Const:
				if an.Term(x) == an.Term(cleanK) {
					distinct = false
				}
			default:
				// the loop's own index (>= 0) against a negative clean constant
				kv, isInt := constIntOf(cleanK)
				if !(isInt && kv < 0 && (v == found.Idx || v == ssa.Value(found.Phi))) {
					// a non-nil error value
					if call, ok := v.(*ssa.Call); ok && isNilConst(cleanK) {
						if f := call.Call.StaticCallee(); f != nil {
							switch f.String() {
							case "fmt.Errorf", "errors.New", "github.com/pkg/errors.New", "github.com/pkg/errors.Errorf":
								continue
							}
						}
					}
					distinct = false
				}
			}
		}
		if !distinct {
			why = "the duplicate-scan helper " + Fn(H) + " can report a repeated key with the same result as a clean scan"
			continue
		}
		// RunRules takes the locks only below [helper(...) == clean constant]
		x, path := an.Cut(an.CutQuery{From: an.Entry(F), Target: func(i ssa.Instruction) bool { return i == pre },
			AcceptEdge: func(b *ssa.BasicBlock, i int, a *an.Atom) bool {
				if a == nil {
					return false
				}
				if a.Op == "==" {
					for _, side := range [][2]ssa.Value{{a.LV, a.RV}, {a.RV, a.LV}} {
						if k, ok := side[1].(*ssa.Const); ok && side[0] == ssa.Value(call) && an.Term(k) == an.Term(cleanK) {
							return true
						}
					}
				}
				if (a.Op == "true" || a.Op == "false") && a.LV == ssa.Value(call) {
					return an.Term(cleanK) == a.Op
				}
				return false
			}})
		if x != nil {
			c.R.Fail(rule, Fn(F), c.Pos(pre), "the locks can be taken although the duplicate-key scan ("+Fn(H)+") did not report a clean list", "locks only below ["+Fn(H)+"(...) == "+an.Term(cleanK)+"]", an.PathString(c.Pos, path))
			return
		}
		c.R.OK(rule, Fn(F), c.Pos(ci), "a repeated 48-byte key in one request list is refused ("+Fn(H)+") before any lock is taken or rule evaluated")
		return
	}
	c.R.Fail(rule, Fn(F), c.P.FuncPos(F), why, "for i := range rulesData { if seen[key_i] { refuse }; seen[key_i] = true } before any lock or rule", nil)
}

// GateTypestate: C15.O1 - PreLock ... Lock* ... PostLock with nothing blocking in between, and nobody else uses the locker.
func (c *Ctx) GateTypestate(prop string) {
	r := c.Ruler(prop + ".anchors")
	if !r.OK() {
		return
	}
	rule := "C15.O1 gate.typestate"
	F := r.LockFn
	// forward dataflow over a set of states per block: 1 = before the gate, 2 = inside, 4 = after, 8 = inside with the release deferred
	g := c.ModGraph()
	forbidden := map[*ssa.Function]bool{r.RunRules: true}
	for _, m := range []string{"PreLock", "PostLock", "Lock", "Unlock"} {
		if f := c.P.Method(r.LockerImpl, m); f != nil {
			forbidden[f] = true
		}
	}
	reachesLocker := func(ci ssa.CallInstruction) (bool, string) {
		var roots []*ssa.Function
		if f := ci.Common().StaticCallee(); f != nil {
			roots = append(roots, f)
		} else {
			roots = append(roots, c.P.Callees(ci)...)
		}
		var mroots []*ssa.Function
		for _, f := range roots {
			if forbidden[f] {
				return true, Fn(f)
			}
			if prog.InModule(f) {
				mroots = append(mroots, f)
			}
		}
		pred := g.Reach(mroots, nil)
		for f := range forbidden {
			if _, ok := pred[f]; ok {
				return true, strings.Join(PathTo(pred, f), " -> ")
			}
		}
		return false, ""
	}
	in := map[*ssa.BasicBlock]uint8{F.Blocks[0]: 1}
	work := []*ssa.BasicBlock{F.Blocks[0]}
	type viol struct {
		ins ssa.Instruction
		msg string
	}
	var viols []viol
	seenV := map[ssa.Instruction]bool{}
	report := func(i ssa.Instruction, m string) {
		if !seenV[i] {
			seenV[i] = true
			viols = append(viols, viol{i, m})
		}
	}
	for len(work) > 0 {
		b := work[len(work)-1]
		work = work[:len(work)-1]
		st := in[b]
		for _, ins := range b.Instrs {
			inside := st&(2|8) != 0
			switch x := ins.(type) {
			case ssa.CallInstruction:
				switch {
				case IsInvokeOf(x, pkgLocker, "Service", "PreLock"):
					if st&^1 != 0 {
						report(ins, "PreLock can be called while the gate is held or after it was released (self-deadlock on the gate)")
					}
					if _, plain := x.(*ssa.Call); !plain {
						report(ins, "PreLock is deferred or asynchronous: key locks are requested outside the gate")
					}
					st = 2
					continue
				case IsInvokeOf(x, pkgLocker, "Service", "PostLock"):
					if _, isDefer := x.(*ssa.Defer); isDefer {
						if st&^2 != 0 {
							report(ins, "deferred PostLock registered without the gate being held")
						}
						st = 8
						continue
					}
					if _, isGo := x.(*ssa.Go); isGo {
						report(ins, "PostLock in a goroutine")
					}
					if st&^2 != 0 {
						report(ins, "PostLock can be called without the gate being held (or twice)")
					}
					st = 4
					continue
				case IsInvokeOf(x, pkgLocker, "Service", "Lock"):
					if st&^(2|8) != 0 {
						report(ins, "a key lock can be requested outside the gate (PreLock..PostLock): two batches naming shared keys in opposite orders can deadlock")
					}
					if _, plain := x.(*ssa.Call); !plain {
						report(ins, "key lock requested in a goroutine or deferred: it is taken outside the gate")
					}
					continue
				case IsInvokeOf(x, pkgLocker, "Service", "Unlock"):
					continue
				}
				if inside {
					if bi, isB := x.Common().Value.(*ssa.Builtin); isB {
						_ = bi
						continue
					}
					if bad, via := reachesLocker(x); bad {
						report(ins, "call to "+CalleeName(x)+" while the locker-wide gate is held can re-enter the locker ("+via+")")
					}
				}
			case *ssa.Return:
				if st&2 != 0 {
					report(ins, "RunRules can return with the locker-wide gate still held: every later request blocks forever")
				}
			case *ssa.Panic:
				if st&2 != 0 {
					report(ins, "panic with the gate held")
				}
			case *ssa.Send, *ssa.Select:
				if inside {
					report(ins, "channel operation while the gate is held (may wait for a goroutine that needs the gate)")
				}
			case *ssa.UnOp:
				if x.Op == token.ARROW && inside {
					report(ins, "channel receive while the gate is held (may wait for a goroutine that needs the gate)")
				}
			}
		}
		for _, s := range b.Succs {
			if in[s]|st != in[s] {
				in[s] |= st
				work = append(work, s)
			}
		}
	}
	if len(viols) == 0 {
		c.R.OK(rule, Fn(F), c.P.FuncPos(F), "on every path: PreLock; Lock* ; PostLock (or its deferral); inside the gate no return, no channel operation and no call that can re-enter the locker")
	}
	for _, v := range viols {
		c.R.Fail(rule, Fn(F)+":"+shortMsg(v.msg), c.Pos(v.ins), v.msg, "PreLock -> Lock* -> PostLock, nothing else inside", nil)
	}
	// who may call the locker
	ruleW := "C15.O1 gate.who-may-call"
	n := 0
	lockerMethods := map[*ssa.Function]bool{}
	for _, m := range []string{"PreLock", "PostLock", "Lock", "Unlock"} {
		if f := c.P.Method(r.LockerImpl, m); f != nil {
			lockerMethods[f] = true
		}
	}
	prodFns := c.P.Production()
	for _, fn := range c.P.ModuleFuncs() {
		if prog.IsTestish(prog.PkgPathOf(fn)) || !prodFns[fn] {
			continue
		}
		for _, ci := range Calls(fn, func(ci ssa.CallInstruction) bool {
			if ci.Common().IsInvoke() && namedIs(ci.Common().Value.Type(), pkgLocker, "Service") {
				return true
			}
			return lockerMethods[ci.Common().StaticCallee()]
		}) {
			n++
			if fn != F && (r.UnlockFn == nil || fn != r.UnlockFn) {
				c.R.Fail(ruleW, Fn(fn), c.Pos(ci), "the locker is used outside RunRules ("+CalleeName(ci)+"): key locks taken there are not ordered by the gate", "only RunRules calls the locker", nil)
			}
		}
	}
	c.R.Floor(ruleW, "locker call sites in production code", n, 4)
	if n >= 4 {
		c.R.OK(ruleW, "production", c.P.FuncPos(F), fmt.Sprintf("all %d locker call sites are in RunRules", n))
	}
}

func shortMsg(m string) string {
	if len(m) > 40 {
		return m[:40]
	}
	return m
}

// RulerOrigins: C06.O5 (ruler part) - the rule runner produces no APPROVED of its own: every verdict it returns is
// a rules-service result or a non-approving constant.
func (c *Ctx) RulerOrigins(prop string) {
	r := c.Ruler(prop + ".anchors")
	s := c.Slashing(prop + ".anchors")
	if !r.OK() || !s.OK() {
		return
	}
	rule := "C06.O5 ruler.no-own-approval"
	var origins []Origin
	for _, ret := range an.Returns(r.RunRules) {
		origins = append(origins, ElemOrigins(an.Result(ret, 0), ret)...)
	}
	nconst, ninv, bad := 0, 0, 0
	seen := map[ssa.Instruction]bool{}
	for _, o := range origins {
		if seen[o.Site] {
			continue
		}
		seen[o.Site] = true
		switch o.Kind {
		case "const":
			nconst++
			if o.Const == s.APPROVED {
				bad++
				c.R.Fail(rule, Fn(o.Fn), c.Pos(o.Site), "the rule runner itself produces APPROVED (not the rules service)", "only rules-service results or FAILED/UNKNOWN", nil)
			}
		case "opaque":
			call, ok := o.Val.(*ssa.Call)
			if ok && call.Call.IsInvoke() && namedIs(call.Call.Value.Type(), pkgRules, "Service") {
				ninv++
				continue
			}
			bad++
			c.R.Unknown(rule, Fn(o.Fn)+":"+an.Term(o.Val), c.Pos(o.Site), "a verdict returned by the rule runner comes from a value that is neither a constant nor a rules-service result: "+an.Term(o.Val))
		}
	}
	c.R.Floor(rule, "rules-service results among the verdict origins", ninv, 9)
	if bad == 0 {
		c.R.OK(rule, Fn(r.RunRules), c.P.FuncPos(r.RunRules), fmt.Sprintf("verdict origins: %d rules-service invokes, %d non-approving constants", ninv, nconst))
	}
}
