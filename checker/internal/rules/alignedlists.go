package rules

import (
	"strings"

	"dirkcheck/internal/an"
	"dirkcheck/internal/prog"

	"golang.org/x/tools/go/ssa"
)

// AlignedLists (C20.O7 lists.aligned): in the gRPC handlers and the gRPC sender (the code that converts between wire lists and
// internal lists), a list made in the function and indexed with the induction variable of a full-range loop over another list
// was made with that other list's length - or the two lengths were compared equal on the way. Otherwise a longer input indexes
// past the end (a panic nothing recovers) and a shorter one leaves zero-valued entries that later code takes for data.
func (c *Ctx) AlignedLists(prop string) {
	rule := "C20.O7 lists.aligned"
	inScope := func(p string) bool {
		return strings.Contains(p, "/services/api/grpc/handlers") || strings.HasSuffix(p, "/services/sender/grpc")
	}
	n, bad := 0, 0
	for _, fn := range c.P.ModuleFuncs() {
		p := prog.PkgPathOf(fn)
		if prog.IsTestish(p) || fn.Blocks == nil || !inScope(p) {
			continue
		}
		loops := FindLoops(fn)
		for _, b := range fn.Blocks {
			for _, ins := range b.Instrs {
				ia, ok := ins.(*ssa.IndexAddr)
				if !ok {
					continue
				}
				mk, ok := sliceRootExact(ia.X).(*ssa.MakeSlice)
				if !ok {
					continue
				}
				var L *Loop
				for _, l := range loops {
					if l.FullRange && l.Idx == ia.Index && l.BoundLen != nil && l.Body[b] {
						L = l
					}
				}
				if L == nil || L.BoundLen == ssa.Value(mk) {
					continue
				}
				n++
				srcTerm := an.Term(L.BoundLen)
				okLen := false
				var madeOf ssa.Value
				if lc, isLen := mk.Len.(*ssa.Call); isLen && isBuiltin(lc, "len") {
					madeOf = lc.Call.Args[0]
					if sliceRootExact(madeOf) == L.BoundLen || an.Term(madeOf) == srcTerm {
						okLen = true
					}
				}
				if !okLen && madeOf != nil {
					// lengths compared equal on every path to the access
					target := ssa.Instruction(ia)
					mt := an.Term(madeOf)
					x, _ := an.Cut(an.CutQuery{From: an.Entry(fn), Target: func(i ssa.Instruction) bool { return i == target },
						AcceptEdge: func(bb *ssa.BasicBlock, i int, a *an.Atom) bool {
							if a == nil || a.Op != "==" {
								return false
							}
							l1, ok1 := a.LV.(*ssa.Call)
							l2, ok2 := a.RV.(*ssa.Call)
							if !ok1 || !ok2 || !isBuiltin(l1, "len") || !isBuiltin(l2, "len") {
								return false
							}
							t1, t2 := an.Term(l1.Call.Args[0]), an.Term(l2.Call.Args[0])
							return (t1 == mt && t2 == srcTerm) || (t2 == mt && t1 == srcTerm)
						}})
					okLen = x == nil
				}
				if !okLen {
					bad++
					c.R.Fail(rule, Fn(fn), c.Pos(ia), "a list made with length "+an.Term(mk.Len)+" is indexed with the position in a loop over "+srcTerm+": if the two lengths differ the access runs past the end (a panic that kills the process) or entries stay zero-valued", "make(len(x)) for the list ranged over, or compare the lengths first", nil)
				}
			}
		}
	}
	c.R.Count("lists_indexed_by_a_loop_over_another_list", n)
	if bad == 0 {
		c.R.OK(rule, "handlers and sender", "-", "every list indexed by the position in a loop over another list was made with that list's length")
	}
}
