package rules

import (
	"go/constant"
	"sort"
	"strings"

	"dirkcheck/internal/prog"

	"golang.org/x/tools/go/ssa"
)

// FilesUntouched (C03.O8 store.files-untouched): the slashing-protection database is a directory of files that badger owns:
// its value log is also its write-ahead log, and records approved since the last orderly shutdown exist nowhere else. Nothing
// in Dirk renames, removes, truncates, rewrites or creates files except through badger: the calls of file-system mutating
// functions of package os (and io/ioutil) in production code are exactly a reasoned table - the interchange file the export
// command writes and the log file. A "recovery" step that sets a damaged value log aside, or a clean-up that removes a
// directory, is reported wherever it is written.
func (c *Ctx) FilesUntouched(prop string) {
	rule := "C03.O8 store.files-untouched"
	mut := map[string]bool{"Rename": true, "Remove": true, "RemoveAll": true, "Truncate": true, "WriteFile": true, "Create": true, "CreateTemp": true,
		"OpenFile": true, "Chmod": true, "Chown": true, "Link": true, "Symlink": true, "Mkdir": true, "MkdirAll": true, "MkdirTemp": true}
	// accepted by WHAT is written, not by where: the path is the value of one of these configuration keys (read through
	// viper.GetString, possibly resolved by a module path helper, possibly handed down as a parameter)
	allowedKeys := map[string]string{
		"slashing-protection-file": "the interchange file the export command was asked to write",
		"log-file":                 "the configured log file",
	}
	n := 0
	var seen []string
	for _, fn := range c.P.ModuleFuncs() {
		p := prog.PkgPathOf(fn)
		if prog.IsTestish(p) || fn.Blocks == nil || strings.Contains(p, "/testing") || strings.Contains(p, "/mock") {
			continue
		}
		for _, ci := range Calls(fn, func(ci ssa.CallInstruction) bool {
			f := ci.Common().StaticCallee()
			if f == nil || f.Pkg == nil {
				return false
			}
			pp := f.Pkg.Pkg.Path()
			if pp != "os" && pp != "io/ioutil" {
				return false
			}
			if f.Signature.Recv() != nil {
				return f.Name() == "Truncate" || f.Name() == "Chmod"
			}
			return mut[f.Name()]
		}) {
			outer := fn
			for outer.Parent() != nil {
				outer = outer.Parent()
			}
			f := ci.Common().StaticCallee()
			key := outer.String() + ":" + f.Pkg.Pkg.Path() + "." + f.Name()
			n++
			cfg := ""
			if len(ci.Common().Args) > 0 {
				cfg = c.configKeyOf(ci.Common().Args[0], 0)
			}
			if why, ok := allowedKeys[cfg]; ok && f.Signature.Recv() == nil && (f.Name() == "WriteFile" || f.Name() == "OpenFile" || f.Name() == "Create") {
				seen = append(seen, cfg)
				c.R.OK(rule, key, c.Pos(ci), "accepted: "+why+" (path = configuration key "+cfg+")")
			} else {
				c.R.Fail(rule, key, c.Pos(ci), "production code changes the file system directly ("+f.Pkg.Pkg.Path()+"."+f.Name()+"): files of the slashing-protection database are badger's alone - setting a value log aside, removing or recreating a directory loses records that were acknowledged", "file-system mutations only: the export's interchange file, the log file", nil)
			}
		}
	}
	sort.Strings(seen)
	c.R.Floor(rule, "file-system mutating calls in production code (the accepted table must be seen)", len(uniq(seen)), 2)
	_ = n
}

// configKeyOf: the value is viper.GetString("<key>") - directly, through a module helper that resolves a path it is given,
// or as a parameter every static caller fills that way: the key, else "".
func (c *Ctx) configKeyOf(v ssa.Value, d int) string {
	if d > 4 {
		return ""
	}
	switch x := v.(type) {
	case *ssa.Call:
		f := x.Call.StaticCallee()
		if f == nil {
			return ""
		}
		if f.Pkg != nil && f.Pkg.Pkg.Path() == "github.com/spf13/viper" && f.Name() == "GetString" && len(x.Call.Args) == 1 {
			if k, ok := x.Call.Args[0].(*ssa.Const); ok && k.Value != nil && k.Value.Kind() == constant.String {
				return constant.StringVal(k.Value)
			}
			return ""
		}
		if prog.InModule(f) && len(x.Call.Args) == 1 && !x.Call.IsInvoke() {
			return c.configKeyOf(x.Call.Args[0], d+1) // a path helper (util.ResolvePath)
		}
	case *ssa.Parameter:
		fn := x.Parent()
		idx := -1
		for i, q := range fn.Params {
			if q == x {
				idx = i
			}
		}
		key := ""
		sites := c.staticCallers()[fn]
		if idx < 0 || len(sites) == 0 {
			return ""
		}
		for _, s := range sites {
			if idx >= len(s.Common().Args) {
				return ""
			}
			k := c.configKeyOf(s.Common().Args[idx], d+1)
			if k == "" || (key != "" && k != key) {
				return ""
			}
			key = k
		}
		return key
	case *ssa.Phi:
		key := ""
		for _, e := range x.Edges {
			k := c.configKeyOf(e, d+1)
			if k == "" || (key != "" && k != key) {
				return ""
			}
			key = k
		}
		return key
	}
	return ""
}
