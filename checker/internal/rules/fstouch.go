package rules

import (
	"sort"
	"strings"

	"dirkcheck/internal/prog"

	"golang.org/x/tools/go/ssa"
)

// FilesUntouched (C03.O8 store.files-untouched): the slashing-protection database is a directory of files that badger owns:
// its value log is also its write-ahead log, and records approved since the last orderly shutdown exist nowhere else. Nothing
// in Dirk renames, removes, truncates, rewrites or creates files except through badger: the calls of file-system mutating
// functions of package os (and io/ioutil) in production code are exactly a reasoned table - the interchange file the export
// command writes and the log file. A "recovery" step that sets a damaged value log aside, or a clean-up that removes a
// directory, is reported wherever it is written.
func (c *Ctx) FilesUntouched(prop string) {
	rule := "C03.O8 store.files-untouched"
	mut := map[string]bool{"Rename": true, "Remove": true, "RemoveAll": true, "Truncate": true, "WriteFile": true, "Create": true, "CreateTemp": true,
		"OpenFile": true, "Chmod": true, "Chown": true, "Link": true, "Symlink": true, "Mkdir": true, "MkdirAll": true, "MkdirTemp": true}
	allowed := map[string]string{
		"github.com/attestantio/dirk.exportSlashingProtection:os.WriteFile": "the interchange file the export command was asked to write",
		"github.com/attestantio/dirk.initLogging:os.OpenFile":               "the configured log file, opened for appending",
	}
	n := 0
	var seen []string
	for _, fn := range c.P.ModuleFuncs() {
		p := prog.PkgPathOf(fn)
		if prog.IsTestish(p) || fn.Blocks == nil || strings.Contains(p, "/testing") || strings.Contains(p, "/mock") {
			continue
		}
		for _, ci := range Calls(fn, func(ci ssa.CallInstruction) bool {
			f := ci.Common().StaticCallee()
			if f == nil || f.Pkg == nil {
				return false
			}
			pp := f.Pkg.Pkg.Path()
			if pp != "os" && pp != "io/ioutil" {
				return false
			}
			if f.Signature.Recv() != nil {
				return f.Name() == "Truncate" || f.Name() == "Chmod"
			}
			return mut[f.Name()]
		}) {
			outer := fn
			for outer.Parent() != nil {
				outer = outer.Parent()
			}
			f := ci.Common().StaticCallee()
			key := outer.String() + ":" + f.Pkg.Pkg.Path() + "." + f.Name()
			n++
			if why, ok := allowed[key]; ok {
				seen = append(seen, key)
				c.R.OK(rule, key, c.Pos(ci), "accepted: "+why)
			} else {
				c.R.Fail(rule, key, c.Pos(ci), "production code changes the file system directly ("+f.Pkg.Pkg.Path()+"."+f.Name()+"): files of the slashing-protection database are badger's alone - setting a value log aside, removing or recreating a directory loses records that were acknowledged", "file-system mutations only: the export's interchange file, the log file", nil)
			}
		}
	}
	sort.Strings(seen)
	c.R.Floor(rule, "file-system mutating calls in production code (the accepted table must be seen)", len(seen), 2)
	_ = n
}
