package rules

import (
	"fmt"
	"go/types"

	"dirkcheck/internal/an"
	"dirkcheck/internal/prog"

	"golang.org/x/tools/go/ssa"
)

// elemLoad decomposes v = X[idx] (load).
func elemLoad(v ssa.Value) (root ssa.Value, idx ssa.Value, ok bool) {
	u, isU := v.(*ssa.UnOp)
	if !isU {
		return nil, nil, false
	}
	ia, isIA := u.X.(*ssa.IndexAddr)
	if !isIA {
		return nil, nil, false
	}
	return sliceRootExact(ia.X), ia.Index, true
}

// pubKeyLoadOf reports whether v is a load of field PubKey of metadata value m.
func pubKeyLoadOf(v ssa.Value, m ssa.Value) bool {
	owner, f, base := an.FieldOf(v)
	if owner == nil || f != "PubKey" {
		return false
	}
	n, ok := owner.(*types.Named)
	if !ok || n.Obj().Name() != "ReqMetadata" || n.Obj().Pkg().Path() != pkgRules {
		return false
	}
	return sameValue(base, m) || base == m
}

// storeHelper describes a validated recorder helper.
type storeHelper struct {
	Fn      *ssa.Function
	Batch   bool
	Action  *ssa.Global
	PKParam int // index in Fn.Params of the pubkey(s) parameter
	STParam int // index of the state(s) parameter
	// PKViaMeta: the batch helper is handed the request metadata list itself and keys entry i by metadata[i].PubKey
	PKViaMeta bool
}

// StoreHelperRules validates the helpers that write watermark records (C01.O8 record.value, O9 key) for one kind.
func (c *Ctx) StoreHelperRules(prop string, s *Slashing, kind string) map[*ssa.Function]*storeHelper {
	prop = homeProp(kind)
	rule := prop + ".O8 record.value"
	ruleKey := prop + ".O9 key"
	state := s.AttState
	if kind == "prop" {
		state = s.PropState
	}
	out := map[*ssa.Function]*storeHelper{}
	isStatePtr := func(t types.Type) bool {
		p, ok := t.(*types.Pointer)
		return ok && types.Identical(p.Elem(), state)
	}
	encodeOf := func(v ssa.Value) (recv ssa.Value, ok bool) {
		call, isCall := v.(*ssa.Call)
		if !isCall {
			return nil, false
		}
		f := call.Call.StaticCallee()
		if f == nil || f.Signature.Recv() == nil || !isStatePtr(f.Signature.Recv().Type()) || len(call.Call.Args) != 1 {
			return nil, false
		}
		return call.Call.Args[0], true
	}
	paramIdx := func(fn *ssa.Function, v ssa.Value) int {
		for i, p := range fn.Params {
			if ssa.Value(p) == v {
				return i
			}
		}
		return -1
	}
	for _, fn := range c.P.ModuleFuncs() {
		if prog.PkgPathOf(fn) != s.Pkg.Pkg.Path() || fn.Blocks == nil || fn == s.ImportFn {
			continue
		}
		// only helpers that take the state (or a slice of it) as a parameter
		hasState := false
		for _, p := range fn.Params {
			if isStatePtr(p.Type()) {
				hasState = true
			}
			if sl, ok := p.Type().(*types.Slice); ok && isStatePtr(sl.Elem()) {
				hasState = true
			}
		}
		if !hasState {
			continue
		}
		wrappers := c.storeWrappers(s)
		for _, ci := range Calls(fn, func(ci ssa.CallInstruction) bool {
			f := ci.Common().StaticCallee()
			return f == s.StoreStore || f == s.StoreBatch || wrappers[f] != nil
		}) {
			args := ci.Common().Args
			h := &storeHelper{Fn: fn}
			if w := wrappers[ci.Common().StaticCallee()]; w != nil {
				// store(ctx, pubKey, action, value) wrapper: key = pubKey || action inside, the error handed back
				pk := args[w.pk]
				g := globalOfLoad(args[w.action])
				if g == nil {
					c.R.Fail(ruleKey, Fn(fn), c.Pos(ci), "database key: the action handed to the store wrapper is not a package-level action value: "+an.Term(args[w.action]), "key = pubKey || action", nil)
					continue
				}
				h.PKParam = paramIdx(fn, pk)
				if h.PKParam < 0 {
					c.R.Fail(ruleKey, Fn(fn), c.Pos(ci), "the key prefix is not the helper's public-key parameter: "+an.Term(pk), "key = pubKey parameter || action", nil)
					continue
				}
				recv, ok := encodeOf(args[w.val])
				if !ok {
					c.R.Fail(rule, Fn(fn), c.Pos(ci), "the value written is not the encoding of a state object: "+an.Term(args[w.val]), "value = state.Encode()", nil)
					continue
				}
				h.STParam = paramIdx(fn, recv)
				if h.STParam < 0 {
					c.R.Fail(rule, Fn(fn), c.Pos(ci), "the state encoded is not the helper's state parameter: "+an.Term(recv), "value = Encode() of the state parameter", nil)
					continue
				}
				h.Action = g
				c.R.OK(ruleKey, Fn(fn), c.Pos(ci), "key = pubKey parameter || "+g.Name()+" (through "+Fn(ci.Common().StaticCallee())+")")
				c.R.OK(rule, Fn(fn), c.Pos(ci), "value = Encode() of the state parameter")
				out[fn] = h
				continue
			}
			if ci.Common().StaticCallee() == s.StoreStore {
				pk, g, why := keyBuild(fn, args[2])
				if why != "" {
					c.R.Fail(ruleKey, Fn(fn), c.Pos(ci), "database key: "+why, "key = pubKey || action", nil)
					continue
				}
				h.PKParam = paramIdx(fn, pk)
				if h.PKParam < 0 {
					c.R.Fail(ruleKey, Fn(fn), c.Pos(ci), "the key prefix is not the helper's public-key parameter: "+an.Term(pk), "key = pubKey parameter || action", nil)
					continue
				}
				recv, ok := encodeOf(args[3])
				if !ok {
					c.R.Fail(rule, Fn(fn), c.Pos(ci), "the value written is not the encoding of a state object: "+an.Term(args[3]), "value = state.Encode()", nil)
					continue
				}
				h.STParam = paramIdx(fn, recv)
				if h.STParam < 0 {
					c.R.Fail(rule, Fn(fn), c.Pos(ci), "the state encoded is not the helper's state parameter: "+an.Term(recv), "value = Encode() of the state parameter", nil)
					continue
				}
				h.Action = g
				c.R.OK(ruleKey, Fn(fn), c.Pos(ci), "key = pubKey parameter || "+g.Name())
				c.R.OK(rule, Fn(fn), c.Pos(ci), "value = Encode() of the state parameter")
				out[fn] = h
				continue
			}
			// batch
			h.Batch = true
			keysMk, ok1 := sliceRootExact(args[2]).(*ssa.MakeSlice)
			valsMk, ok2 := sliceRootExact(args[3]).(*ssa.MakeSlice)
			if !ok1 || !ok2 {
				// append form: keys, values start empty and grow by exactly one entry per iteration of one full-range loop
				if h2, why := c.appendFormRecorder(s, fn, ci, encodeOf, paramIdx); h2 != nil {
					h2.Fn, h2.Batch = fn, true
					c.R.OK(ruleKey, Fn(fn), c.Pos(ci), "keys = append(keys, pubKey_i || "+h2.Action.Name()+") once per entry")
					c.R.OK(rule, Fn(fn), c.Pos(ci), "values = append(values, states[i].Encode()) once per entry")
					out[fn] = h2
				} else if why != "" {
					c.R.Fail(rule, Fn(fn), c.Pos(ci), why, "for every i: keys[i] = pubKeys[i] || action, values[i] = states[i].Encode()", nil)
				} else {
					c.R.Unknown(rule, Fn(fn), c.Pos(ci), "keys/values passed to the batch store are not freshly made slices")
				}
				continue
			}
			// find the full-range loop filling both
			var good *Loop
			var pkRoot, stRoot ssa.Value
			var g *ssa.Global
			whyAll := "no full-range loop found that builds keys[i] and values[i]"
			for _, l := range FindLoops(fn) {
				if !l.FullRange || l.BoundLen == nil {
					continue
				}
				l := l
				// the loop range must have the length of keys: BoundLen is keys, or keys was made with len(BoundLen)
				okRange := l.BoundLen == ssa.Value(keysMk) || lenIs(keysMk.Len, l.BoundLen)
				if !okRange {
					continue
				}
				// in the body: keys[idx] = make(...)
				var elemMk *ssa.MakeSlice
				var elemCall *ssa.Call
				var valStore *ssa.Store
				for b := range l.Body {
					for _, ins := range b.Instrs {
						st, ok := ins.(*ssa.Store)
						if !ok {
							continue
						}
						ia, ok := st.Addr.(*ssa.IndexAddr)
						if !ok || ia.Index != l.Idx {
							continue
						}
						if sliceRootExact(ia.X) == ssa.Value(keysMk) {
							elemMk, _ = st.Val.(*ssa.MakeSlice)
							elemCall, _ = st.Val.(*ssa.Call)
						}
						if sliceRootExact(ia.X) == ssa.Value(valsMk) {
							valStore = st
						}
					}
				}
				if (elemMk == nil && elemCall == nil) || valStore == nil {
					whyAll = "the loop does not assign both keys[i] and values[i] at its own index"
					continue
				}
				isKey := func(v ssa.Value) bool {
					if sliceRootExact(v) == ssa.Value(elemMk) {
						return true
					}
					r, idx, ok := elemLoad(v)
					return ok && r == ssa.Value(keysMk) && idx == l.Idx
				}
				inKey := func(v ssa.Value) bool {
					if sl, ok := v.(*ssa.Slice); ok {
						return isKey(sl.X)
					}
					return isKey(v)
				}
				var pk ssa.Value
				var gg *ssa.Global
				var why string
				if elemMk != nil {
					pk, gg, why = keyBuildOf(fn, elemMk, isKey, inKey)
				} else {
					// keys[i] = helper(pubKeys[i], action)
					pk, gg, why = keyBuild(fn, elemCall)
				}
				if why != "" {
					whyAll = "database key: " + why
					continue
				}
				r, idx, ok := elemLoad(pk)
				if !ok || idx != l.Idx {
					whyAll = "keys[i] is not built from the i-th public key"
					continue
				}
				recv, ok := encodeOf(valStore.Val)
				if !ok {
					whyAll = "values[i] is not the encoding of a state"
					continue
				}
				r2, idx2, ok := elemLoad(recv)
				if !ok || idx2 != l.Idx {
					whyAll = "values[i] is not the encoding of the i-th state"
					continue
				}
				// every iteration performs both stores
				if l.IterationSkips(func(i ssa.Instruction) bool { return i == ssa.Instruction(valStore) }) || len(l.BreakEdges()) > 0 {
					whyAll = "an iteration can skip the assignment of values[i] or leave the loop early"
					continue
				}
				good, pkRoot, stRoot, g = l, r, r2, gg
			}
			if good == nil {
				c.R.Fail(rule, Fn(fn), c.Pos(ci), whyAll, "for every i: keys[i] = pubKeys[i] || action, values[i] = states[i].Encode()", nil)
				continue
			}
			h.PKParam, h.STParam, h.Action = paramIdx(fn, pkRoot), paramIdx(fn, stRoot), g
			if h.PKParam < 0 || h.STParam < 0 {
				c.R.Fail(rule, Fn(fn), c.Pos(ci), "keys/values are not built from the helper's parameters", "built from the pubKeys and states parameters", nil)
				continue
			}
			if !lenIs(keysMk.Len, fn.Params[h.PKParam]) || !lenIs(valsMk.Len, fn.Params[h.STParam]) {
				c.R.Fail(rule, Fn(fn), c.Pos(ci), "keys/values are not made with the lengths of pubKeys/states", "make(len(pubKeys)) / make(len(states))", nil)
				continue
			}
			// the batch store is reached only after the loop completed
			hdr, exitB := good.Header, good.Exit
			if x, path := an.Cut(an.CutQuery{From: an.Entry(fn), Target: func(i ssa.Instruction) bool { return i == ci.(ssa.Instruction) },
				AcceptEdge: func(b *ssa.BasicBlock, i int, a *an.Atom) bool { return b == hdr && b.Succs[i] == exitB }}); x != nil {
				c.R.Fail(rule, Fn(fn), c.Pos(ci), "the batch store is reachable before every key/value was built", "BatchStore only after the full-range loop", an.PathString(c.Pos, path))
				continue
			}
			c.R.OK(ruleKey, Fn(fn), c.Pos(ci), "keys[i] = pubKeys[i] || "+g.Name()+" for every i")
			c.R.OK(rule, Fn(fn), c.Pos(ci), "values[i] = states[i].Encode() for every i")
			out[fn] = h
		}
	}
	return out
}

// appendFormRecorder validates `keys = append(keys, key_i); values = append(values, states[i].Encode())` inside one full-range
// loop over the states (or keys) parameter, with keys and values starting as empty makes, both appends on every iteration and
// no early exit: entry i of both lists then belongs to iteration i. key_i = pubKey_i || action with pubKey_i = pubKeys[i] or
// metadata[i].PubKey. Returns the helper description, or ("", reason) / (nil, "") when the shape is another one.
func (c *Ctx) appendFormRecorder(s *Slashing, fn *ssa.Function, ci ssa.CallInstruction, encodeOf func(ssa.Value) (ssa.Value, bool), paramIdx func(*ssa.Function, ssa.Value) int) (*storeHelper, string) {
	args := ci.Common().Args
	kPhi, ok1 := args[2].(*ssa.Phi)
	vPhi, ok2 := args[3].(*ssa.Phi)
	if !ok1 || !ok2 || kPhi.Block() != vPhi.Block() {
		return nil, ""
	}
	var L *Loop
	for _, l := range FindLoops(fn) {
		if l.Header == kPhi.Block() && l.FullRange && l.BoundLen != nil {
			L = l
		}
	}
	if L == nil {
		return nil, ""
	}
	grow := func(phi *ssa.Phi) (*ssa.Call, bool) {
		var app *ssa.Call
		empty := false
		for _, e := range phi.Edges {
			switch x := e.(type) {
			case *ssa.MakeSlice:
				if an.IsConstInt(x.Len, 0) {
					empty = true
				}
			case *ssa.Call:
				if isBuiltin(x, "append") && x.Call.Args[0] == ssa.Value(phi) {
					app = x
				}
			}
		}
		return app, empty && app != nil && len(phi.Edges) == 2
	}
	kApp, okK := grow(kPhi)
	vApp, okV := grow(vPhi)
	if !okK || !okV {
		return nil, "keys / values are not lists that start empty and grow by append in the loop"
	}
	kEl, vEl := varargValues(kApp.Call.Args[1]), varargValues(vApp.Call.Args[1])
	if len(kEl) != 1 || len(vEl) != 1 {
		return nil, "an iteration appends more than one key or value"
	}
	for _, app := range []*ssa.Call{kApp, vApp} {
		a := app
		if L.IterationSkips(func(i ssa.Instruction) bool { return i == ssa.Instruction(a) }) {
			return nil, "an iteration can skip the append of its key or value"
		}
	}
	if len(L.BreakEdges()) > 0 {
		return nil, "the loop building keys and values can be left early"
	}
	// the batch store is reached only through the loop's exit
	hdr, exitB := L.Header, L.Exit
	if x, _ := an.Cut(an.CutQuery{From: an.Entry(fn), Target: func(i ssa.Instruction) bool { return i == ci.(ssa.Instruction) },
		AcceptEdge: func(b *ssa.BasicBlock, i int, a *an.Atom) bool { return b == hdr && b.Succs[i] == exitB }}); x != nil {
		return nil, "the batch store is reachable before every key/value was built"
	}
	// value: states[idx].Encode() (the range value of the loop counts as states[idx])
	recv, ok := encodeOf(vEl[0])
	if !ok {
		return nil, "the value appended is not the encoding of a state"
	}
	stRoot, idx, ok := elemLoad(recv)
	if !ok || idx != L.Idx {
		return nil, "the value appended is not the encoding of the i-th state"
	}
	// key: a fresh slice built from pubKey_i || action
	elemMk, ok := sliceRootExact(kEl[0]).(*ssa.MakeSlice)
	if !ok {
		return nil, "the key appended is not a freshly made slice"
	}
	isKey := func(v ssa.Value) bool { return sliceRootExact(v) == ssa.Value(elemMk) }
	inKey := func(v ssa.Value) bool {
		if sl, ok := v.(*ssa.Slice); ok {
			return isKey(sl.X)
		}
		return isKey(v)
	}
	pk, g, why := keyBuildOf(fn, elemMk, isKey, inKey)
	if why != "" {
		return nil, "database key: " + why
	}
	h := &storeHelper{Action: g}
	if r, i2, ok := elemLoad(pk); ok && i2 == L.Idx {
		h.PKParam = paramIdx(fn, r)
	} else if owner, f, base := an.FieldOf(pk); owner != nil && f == "PubKey" {
		r, i2, ok := elemLoad(base)
		if !ok || i2 != L.Idx {
			return nil, "the key is not built from the i-th entry's public key"
		}
		h.PKParam, h.PKViaMeta = paramIdx(fn, r), true
	} else {
		return nil, "the key is not built from the i-th public key"
	}
	h.STParam = paramIdx(fn, stRoot)
	if h.PKParam < 0 || h.STParam < 0 {
		return nil, "keys/values are not built from the helper's parameters"
	}
	if L.BoundLen != ssa.Value(fn.Params[h.STParam]) && L.BoundLen != ssa.Value(fn.Params[h.PKParam]) {
		return nil, "the loop does not run over the states or the keys parameter"
	}
	return h, ""
}

// lenIs reports whether n is len(x) for the given slice value (parameter or root).
func lenIs(n ssa.Value, x ssa.Value) bool {
	call, ok := n.(*ssa.Call)
	if !ok || !isBuiltin(call, "len") {
		return false
	}
	return sliceRootExact(call.Call.Args[0]) == x
}

// EntryAlignment (C01.O4 state.provenance + O8/O9 at the entry level): the state that is checked is the one fetched
// for the request's own public key, and the one recorded under that same key.
func (c *Ctx) EntryAlignment(prop string, s *Slashing, kind string) {
	prop = homeProp(kind)
	rule := prop + ".O4 state.provenance"
	state := s.AttState
	reqT := s.AttReq
	if kind == "prop" {
		state, reqT = s.PropState, s.PropReq
	}
	fhs := map[*ssa.Function]bool{}
	for _, f := range c.fetchHelpers(s, state) {
		fhs[f] = true
	}
	shs := c.StoreHelperRules(prop, s, kind)
	action := c.FetchHelperRules(prop, s, kind)
	for _, h := range shs {
		if action != nil && h.Action != action {
			c.R.Fail(prop+".O9 key", Fn(h.Fn)+":action", c.P.FuncPos(h.Fn), fmt.Sprintf("records are written under action %s but read under %s", h.Action.Name(), action.Name()), "fetch and store use the same action value", nil)
		}
	}
	isStatePtr := func(t types.Type) bool {
		p, ok := t.(*types.Pointer)
		return ok && types.Identical(p.Elem(), state)
	}
	entries := []*ssa.Function{s.Propose}
	if kind == "att" {
		entries = []*ssa.Function{s.Attest}
	}
	for _, E := range entries {
		metaP, reqP := E.Params[2], E.Params[3]
		_ = reqT
		// the state value used by the guards
		var stateVal ssa.Value
		// (a) a call in E passing (meta, req, state) to the approval function
		var checkCall ssa.CallInstruction
		var checkCalls []ssa.CallInstruction
		for _, ci := range Calls(E, func(ci ssa.CallInstruction) bool {
			f := ci.Common().StaticCallee()
			return f != nil && prog.InModule(f) && !fhs[f] && shs[f] == nil
		}) {
			for _, a := range ci.Common().Args {
				if isStatePtr(a.Type()) {
					if stateVal != nil && stateVal != a {
						c.R.Unknown(rule, Fn(E)+":check-args", c.Pos(ci), "the entry passes different state objects to its check helpers")
					}
					checkCall = ci
					checkCalls = append(checkCalls, ci)
					stateVal = a
				}
			}
		}
		if checkCall != nil {
			// every check helper works on this entry's own metadata and request: an argument of metadata/request type is the
			// entry's parameter itself, and any other argument that is a field load is rooted at one of them (or at the state)
			for _, cc := range checkCalls {
				for _, a := range cc.Common().Args {
					bad := ""
					switch {
					case types.Identical(a.Type(), metaP.Type()):
						if a != ssa.Value(metaP) {
							bad = "metadata"
						}
					case types.Identical(a.Type(), reqP.Type()):
						if a != ssa.Value(reqP) {
							bad = "request"
						}
					default:
						root := a
						for {
							if cv, ok := root.(*ssa.Convert); ok {
								root = cv.X
								continue
							}
							owner, _, base := an.FieldOf(root)
							if owner == nil {
								break
							}
							root = base
						}
						if root != a {
							// a field load: must be rooted at the entry's request, metadata or the state
							if root != ssa.Value(metaP) && root != ssa.Value(reqP) && root != stateVal {
								bad = "field argument " + an.Term(a)
							}
						}
					}
					if bad != "" {
						c.R.Fail(rule, Fn(E)+":check-args", c.Pos(cc), "the check is not applied to the entry's own metadata and request ("+bad+")", "check helpers receive this entry's metadata/request (or fields of them) and the fetched state", nil)
					}
				}
			}
		} else {
			// (b) guards are local: all state field accesses in E must share one base value
			bases := map[ssa.Value]bool{}
			for _, b := range E.Blocks {
				for _, ins := range b.Instrs {
					if fa, ok := ins.(*ssa.FieldAddr); ok && isStatePtr(fa.X.Type()) {
						bases[fa.X] = true
					}
				}
			}
			if len(bases) != 1 {
				c.R.Unknown(rule, Fn(E), c.P.FuncPos(E), fmt.Sprintf("expected one state object in the entry, found %d", len(bases)))
				continue
			}
			for b := range bases {
				stateVal = b
			}
		}
		// state provenance: Extract#0 of fetch helper applied to metadata.PubKey
		okProv := false
		if ex, ok := stateVal.(*ssa.Extract); ok && ex.Index == 0 {
			if call, ok := ex.Tuple.(*ssa.Call); ok && fhs[call.Call.StaticCallee()] {
				for _, a := range call.Call.Args {
					if pubKeyLoadOf(a, metaP) {
						okProv = true
					}
				}
			}
		}
		if !okProv {
			c.R.Fail(rule, Fn(E), c.P.FuncPos(E), "the state that is checked is not the record fetched for this request's public key: "+an.Term(stateVal), "state = fetch(metadata.PubKey)", nil)
		} else {
			c.R.OK(rule, Fn(E), c.P.FuncPos(E), "state = fetch(metadata.PubKey)")
		}
		// recorder calls: same state, same key
		nrec := 0
		for _, ci := range Calls(E, func(ci ssa.CallInstruction) bool { return shs[ci.Common().StaticCallee()] != nil }) {
			h := shs[ci.Common().StaticCallee()]
			nrec++
			args := ci.Common().Args
			if args[h.STParam] != stateVal {
				c.R.Fail(prop+".O8 record.value", Fn(E), c.Pos(ci), "the state recorded is not the state that was checked and updated", "store(metadata.PubKey, the checked state)", nil)
			} else if !pubKeyLoadOf(args[h.PKParam], metaP) {
				c.R.Fail(prop+".O9 key", Fn(E), c.Pos(ci), "the record is written under a key other than the request's public key: "+an.Term(args[h.PKParam]), "store(metadata.PubKey, state)", nil)
			} else {
				c.R.OK(prop+".O8 record.value", Fn(E), c.Pos(ci), "the checked state is recorded under metadata.PubKey")
			}
		}
		c.R.Floor(prop+".O8 record.value", "validated recorder calls in "+Fn(E), nrec, 1)
	}
	if kind == "att" {
		c.batchAlignment(prop, s, fhs, shs)
	}
}

// batchAlignment: the batch entry checks req[i] against the state fetched for metadata[i].PubKey, for every i.
func (c *Ctx) batchAlignment(prop string, s *Slashing, fhs map[*ssa.Function]bool, shs map[*ssa.Function]*storeHelper) {
	prop = "C01"
	rule := prop + ".O4 state.provenance"
	E := s.AttestB
	metaP, reqP := ssa.Value(E.Params[2]), ssa.Value(E.Params[3])
	isStatePtr := func(t types.Type) bool {
		p, ok := t.(*types.Pointer)
		return ok && types.Identical(p.Elem(), s.AttState)
	}
	// the check call inside a loop
	var K ssa.CallInstruction
	var kMeta, kReq, kState ssa.Value
	for _, ci := range Calls(E, func(ci ssa.CallInstruction) bool {
		f := ci.Common().StaticCallee()
		if f == nil || !prog.InModule(f) || fhs[f] || shs[f] != nil {
			return false
		}
		// the check yields a verdict (a state updater called with the same objects does not)
		res := f.Signature.Results()
		return res.Len() == 1 && namedIs(res.At(0).Type(), pkgRules, "Result")
	}) {
		for _, a := range ci.Common().Args {
			if isStatePtr(a.Type()) {
				K, kState = ci, a
			}
		}
		if K == ci {
			for _, a := range ci.Common().Args {
				if r, _, ok := elemLoad(a); ok && r == metaP {
					kMeta = a
				}
				if r, _, ok := elemLoad(a); ok && r == reqP {
					kReq = a
				}
			}
		}
	}
	if K == nil || kMeta == nil || kReq == nil {
		c.R.Unknown(rule, Fn(E), c.P.FuncPos(E), "cannot find the per-entry check call check(metadata[i], req[i], states[i]) in the batch entry")
		return
	}
	_, iM, _ := elemLoad(kMeta)
	_, iR, _ := elemLoad(kReq)
	stRoot, iS, okS := elemLoad(kState)
	if !okS || iM != iR || iM != iS {
		c.R.Fail(rule, Fn(E)+":index", c.Pos(K), "metadata, request and state passed to the check do not use one and the same index", "check(metadata[i], req[i], states[i])", nil)
		return
	}
	var L *Loop
	for _, l := range FindLoops(E) {
		if l.Idx == iM && l.FullRange && (l.BoundLen == metaP || l.BoundLen == reqP) {
			L = l
		}
	}
	if L == nil {
		c.R.Fail(rule, Fn(E)+":index", c.Pos(K), "the check is not inside a full-range loop over the requests", "for i := range req { check(metadata[i], req[i], states[i]) }", nil)
		return
	}
	// result stored at res[i]
	okRes := false
	var resStore *ssa.Store
	for _, r := range *K.Value().Referrers() {
		if st, ok := r.(*ssa.Store); ok {
			if ia, ok := st.Addr.(*ssa.IndexAddr); ok && ia.Index == L.Idx {
				okRes = true
				resStore = st
			}
		}
	}
	if !okRes || L.IterationSkips(func(i ssa.Instruction) bool { return i == ssa.Instruction(resStore) }) || len(L.BreakEdges()) > 0 {
		c.R.Fail(rule, Fn(E)+":index", c.Pos(K), "the verdict of entry i is not stored at position i for every i", "res[i] = check(...) for every i", nil)
		return
	}
	// lengths agree: len(req) == len(metadata) dominates
	if x, path := an.Cut(an.CutQuery{From: an.Entry(E), Target: func(i ssa.Instruction) bool { return i == K.(ssa.Instruction) },
		AcceptEdge: func(b *ssa.BasicBlock, i int, a *an.Atom) bool {
			if a == nil || a.Op != "==" {
				return false
			}
			return (lenIs(a.LV, reqP) && lenIs(a.RV, metaP)) || (lenIs(a.LV, metaP) && lenIs(a.RV, reqP))
		}}); x != nil {
		c.R.Fail(rule, Fn(E)+":lengths", c.Pos(K), "requests and metadata may differ in length when the check loop runs", "len(req) == len(metadata) before the loop", an.PathString(c.Pos, path))
		return
	}
	// states = FHB(ctx, pubKeys)#0, or states filled by the entry's own loop
	ex, ok := stRoot.(*ssa.Extract)
	var fhbCall *ssa.Call
	if ok && ex.Index == 0 {
		fhbCall, _ = ex.Tuple.(*ssa.Call)
	}
	var pkMk *ssa.MakeSlice
	if stMk, ok := stRoot.(*ssa.MakeSlice); ok && fhbCall == nil {
		// inline form: for i := range metadata { states[i] = fetch(metadata[i].PubKey) }, any error leaves the entry
		if !lenIs(stMk.Len, metaP) && !lenIs(stMk.Len, reqP) {
			c.R.Fail(rule, Fn(E)+":states", c.Pos(K), "the states list is not make(len(metadata))", "states := make(len(metadata))", nil)
			return
		}
		if why := c.inlineFetchOK(E, stMk, metaP, reqP, K, fhs); why != "" {
			c.R.Fail(rule, Fn(E)+":states", c.Pos(K), why, "states[i] = fetch(metadata[i].PubKey) for every i, any error leaves the entry", nil)
			return
		}
		for _, ci := range Calls(E, func(ci ssa.CallInstruction) bool { return shs[ci.Common().StaticCallee()] != nil }) {
			h := shs[ci.Common().StaticCallee()]
			if h.Batch {
				if mk, ok := sliceRootExact(ci.Common().Args[h.PKParam]).(*ssa.MakeSlice); ok {
					pkMk = mk
				}
			}
		}
		if pkMk != nil {
			if !lenIs(pkMk.Len, metaP) || !c.pubKeysFilled(E, pkMk, metaP) {
				c.R.Fail(rule, Fn(E)+":pubkeys", c.Pos(K), "pubKeys[i] is not metadata[i].PubKey for every i", "for i := range metadata { pubKeys[i] = metadata[i].PubKey }", nil)
				return
			}
		}
	} else {
		if fhbCall == nil || fhbCall.Call.StaticCallee() == nil {
			c.R.Fail(rule, Fn(E)+":states", c.Pos(K), "the states are not the result of the batch fetch helper", "states = fetchAll(pubKeys)", nil)
			return
		}
		FHB := fhbCall.Call.StaticCallee()
		var pkVal ssa.Value
		for _, a := range fhbCall.Call.Args {
			if sl, ok := a.Type().(*types.Slice); ok {
				if _, ok := sl.Elem().(*types.Slice); ok {
					pkVal = sliceRootExact(a)
				}
			}
		}
		var ok bool
		pkMk, ok = pkVal.(*ssa.MakeSlice)
		if !ok || !lenIs(pkMk.Len, metaP) {
			c.R.Fail(rule, Fn(E)+":pubkeys", c.Pos(fhbCall), "the public-key list is not make([][]byte, len(metadata))", "pubKeys := make(len(metadata))", nil)
			return
		}
		// pubKeys[j] = metadata[j].PubKey in a full-range loop; no other store
		if !c.pubKeysFilled(E, pkMk, metaP) {
			c.R.Fail(rule, Fn(E)+":pubkeys", c.Pos(fhbCall), "pubKeys[i] is not metadata[i].PubKey for every i", "for i := range metadata { pubKeys[i] = metadata[i].PubKey }", nil)
			return
		}
		// FHB: states[i] = FH(ctx, pubKeys[i])#0 for every i, error -> return
		if why := c.batchFetchOK(FHB, fhs); why != "" {
			c.R.Fail(rule, Fn(FHB), c.P.FuncPos(FHB), why, "states[i] = fetch(pubKeys[i]) for every i, any error returned", nil)
			return
		}
	}
	c.R.OK(rule, Fn(E), c.Pos(K), "for every i: check(metadata[i], req[i], states[i]) with states[i] = fetch(metadata[i].PubKey), verdict stored at res[i]")
	// recorder: RB(ctx, pubKeys, states) with the same values
	nrec := 0
	for _, ci := range Calls(E, func(ci ssa.CallInstruction) bool { return shs[ci.Common().StaticCallee()] != nil }) {
		h := shs[ci.Common().StaticCallee()]
		nrec++
		args := ci.Common().Args
		okPK := pkMk != nil && sliceRootExact(args[h.PKParam]) == ssa.Value(pkMk)
		if h.PKViaMeta {
			okPK = sliceRootExact(args[h.PKParam]) == metaP // the helper keys entry i by metadata[i].PubKey itself
		}
		if !h.Batch || sliceRootExact(args[h.STParam]) != stRoot || !okPK {
			c.R.Fail(prop+".O8 record.value", Fn(E), c.Pos(ci), "the states recorded are not the checked states under the same public keys", "storeAll(pubKeys, states)", nil)
		} else {
			c.R.OK(prop+".O8 record.value", Fn(E), c.Pos(ci), "the checked states are recorded under the same public keys")
		}
	}
	c.R.Floor(prop+".O8 record.value", "validated recorder calls in "+Fn(E), nrec, 1)
}

// pubKeysFilled: pubKeys[j] = metadata[j].PubKey in a full-range loop over the metadata, and no other store into the list.
func (c *Ctx) pubKeysFilled(E *ssa.Function, pkMk *ssa.MakeSlice, metaP ssa.Value) bool {
	// an early exit of the filling loop is harmless when the list is consumed only through the loop's regular exit
	completes := func(l *Loop) bool {
		if len(l.BreakEdges()) == 0 {
			return true
		}
		hdr, exitB := l.Header, l.Exit
		for _, r := range *pkMk.Referrers() {
			ci, ok := r.(ssa.CallInstruction)
			if !ok {
				if sl, isSl := r.(*ssa.Slice); isSl {
					_ = sl
					return false
				}
				continue
			}
			if _, isB := ci.Common().Value.(*ssa.Builtin); isB {
				continue
			}
			target := ci.(ssa.Instruction)
			if x, _ := an.Cut(an.CutQuery{From: an.Entry(E), Target: func(i ssa.Instruction) bool { return i == target },
				AcceptEdge: func(b *ssa.BasicBlock, i int, a *an.Atom) bool { return b == hdr && b.Succs[i] == exitB }}); x != nil {
				return false
			}
		}
		return true
	}
	okFill := false
	nStores := 0
	for _, b := range E.Blocks {
		for _, ins := range b.Instrs {
			st, ok := ins.(*ssa.Store)
			if !ok {
				continue
			}
			ia, ok := st.Addr.(*ssa.IndexAddr)
			if !ok || sliceRoot(ia.X) != ssa.Value(pkMk) {
				continue
			}
			nStores++
			for _, l := range FindLoops(E) {
				if l.Idx != ia.Index || !l.FullRange || (l.BoundLen != metaP && l.BoundLen != ssa.Value(pkMk)) {
					continue
				}
				// value = metadata[idx].PubKey
				owner, f, base := an.FieldOf(st.Val)
				if owner == nil || f != "PubKey" {
					continue
				}
				r, idx, ok := elemLoad(base)
				if ok && r == metaP && idx == l.Idx && !l.IterationSkips(func(i ssa.Instruction) bool { return i == ssa.Instruction(st) }) && completes(l) {
					okFill = true
				}
			}
		}
	}
	return okFill && nStores == 1
}

// inlineFetchOK validates a batch entry that fills its states list itself: one full-range loop over the
// metadata stores fetch(metadata[i].PubKey)#0 at states[i], a failed fetch never reaches the next iteration,
// and the check call K is reached only through the loop's exit.
func (c *Ctx) inlineFetchOK(E *ssa.Function, states *ssa.MakeSlice, metaP, reqP ssa.Value, K ssa.CallInstruction, fhs map[*ssa.Function]bool) string {
	var stores []*ssa.Store
	for _, b := range E.Blocks {
		for _, ins := range b.Instrs {
			if st, ok := ins.(*ssa.Store); ok {
				if ia, ok := st.Addr.(*ssa.IndexAddr); ok && sliceRoot(ia.X) == ssa.Value(states) {
					stores = append(stores, st)
				}
			}
		}
	}
	if len(stores) != 1 {
		return fmt.Sprintf("the states list is written at %d places, not one", len(stores))
	}
	st := stores[0]
	ia := st.Addr.(*ssa.IndexAddr)
	ex, ok := st.Val.(*ssa.Extract)
	if !ok || ex.Index != 0 {
		return "states[i] is not the result of the fetch helper"
	}
	fhCall, ok := ex.Tuple.(*ssa.Call)
	if !ok || !fhs[fhCall.Call.StaticCallee()] {
		return "states[i] is not the result of the fetch helper"
	}
	for _, l := range FindLoops(E) {
		if l.Idx != ia.Index || !l.FullRange || (l.BoundLen != metaP && l.BoundLen != reqP && l.BoundLen != ssa.Value(states)) {
			continue
		}
		if !l.Body[fhCall.Block()] {
			continue
		}
		okArg := false
		for _, a := range fhCall.Call.Args {
			if owner, f, base := an.FieldOf(a); owner != nil && f == "PubKey" {
				if r, idx, ok := elemLoad(base); ok && r == metaP && idx == l.Idx {
					okArg = true
				}
			}
		}
		if !okArg {
			return "the state stored at states[i] is not fetched under metadata[i].PubKey"
		}
		if l.IterationSkips(func(i ssa.Instruction) bool { return i == ssa.Instruction(st) }) {
			return "an iteration can skip the fetch"
		}
		errs := map[ssa.Value]bool{}
		for _, e := range errValuesOfCall(fhCall) {
			errs[e] = true
		}
		hdr := l.Header
		if x, _ := an.Cut(an.CutQuery{From: an.After(fhCall), Target: func(i ssa.Instruction) bool { return i == hdr.Instrs[0] },
			AcceptEdge: func(b *ssa.BasicBlock, i int, a *an.Atom) bool { return errNilAtom(a, errs) }}); x != nil {
			return "a failed fetch does not stop the batch"
		}
		// early exits (the error path) are covered by the next test: the checks are reached through the regular exit only
		exitB := l.Exit
		if x, _ := an.Cut(an.CutQuery{From: an.Entry(E), Target: func(i ssa.Instruction) bool { return i == K.(ssa.Instruction) },
			AcceptEdge: func(b *ssa.BasicBlock, i int, a *an.Atom) bool { return b == hdr && b.Succs[i] == exitB }}); x != nil {
			return "the checks can run before every state was fetched"
		}
		return ""
	}
	return "no full-range loop over the metadata fetching every state"
}

// batchFetchOK validates the batch fetch helper.
func (c *Ctx) batchFetchOK(fn *ssa.Function, fhs map[*ssa.Function]bool) string {
	if fn.Blocks == nil {
		return "no body"
	}
	var pkP ssa.Value
	for _, p := range fn.Params {
		if sl, ok := p.Type().(*types.Slice); ok {
			if _, ok := sl.Elem().(*types.Slice); ok {
				pkP = p
			}
		}
	}
	if pkP == nil {
		return "no public-key list parameter"
	}
	var states *ssa.MakeSlice
	for _, ret := range an.Returns(fn) {
		if isNilConst(unwrapErr(an.Result(ret, 1))) {
			mk, ok := sliceRootExact(an.Result(ret, 0)).(*ssa.MakeSlice)
			if !ok {
				return "the states returned are not a freshly made slice"
			}
			states = mk
		}
	}
	if states == nil || !lenIs(states.Len, pkP) {
		return "states is not make(len(pubKeys))"
	}
	for _, l := range FindLoops(fn) {
		if !l.FullRange || (l.BoundLen != pkP && l.BoundLen != ssa.Value(states)) {
			continue
		}
		var fhCall *ssa.Call
		var st *ssa.Store
		for b := range l.Body {
			for _, ins := range b.Instrs {
				if call, ok := ins.(*ssa.Call); ok && fhs[call.Call.StaticCallee()] {
					fhCall = call
				}
				if s2, ok := ins.(*ssa.Store); ok {
					if ia, ok := s2.Addr.(*ssa.IndexAddr); ok && sliceRootExact(ia.X) == ssa.Value(states) && ia.Index == l.Idx {
						st = s2
					}
				}
			}
		}
		if fhCall == nil || st == nil {
			continue
		}
		okArg := false
		for _, a := range fhCall.Call.Args {
			if r, idx, ok := elemLoad(a); ok && r == pkP && idx == l.Idx {
				okArg = true
			}
		}
		ex, ok := st.Val.(*ssa.Extract)
		if !okArg || !ok || ex.Tuple != ssa.Value(fhCall) || ex.Index != 0 {
			return "states[i] is not fetch(pubKeys[i])"
		}
		if l.IterationSkips(func(i ssa.Instruction) bool { return i == ssa.Instruction(st) }) {
			return "an iteration can skip the fetch"
		}
		// the error of the fetch leaves the function: header reachable from the call only via err == nil
		errs := map[ssa.Value]bool{}
		for _, e := range errValuesOfCall(fhCall) {
			errs[e] = true
		}
		hdr := l.Header
		if x, _ := an.Cut(an.CutQuery{From: an.After(fhCall), Target: func(i ssa.Instruction) bool { return i == hdr.Instrs[0] },
			AcceptEdge: func(b *ssa.BasicBlock, i int, a *an.Atom) bool { return errNilAtom(a, errs) }}); x != nil {
			return "a failed fetch does not stop the batch"
		}
		// nil-error return only after the loop exit
		exitB := l.Exit
		for _, ret := range an.Returns(fn) {
			if !isNilConst(unwrapErr(an.Result(ret, 1))) {
				continue
			}
			target := ssa.Instruction(ret)
			if x, _ := an.Cut(an.CutQuery{From: an.Entry(fn), Target: func(i ssa.Instruction) bool { return i == target },
				AcceptEdge: func(b *ssa.BasicBlock, i int, a *an.Atom) bool { return b == hdr && b.Succs[i] == exitB }}); x != nil {
				return "success is returned before every state was fetched"
			}
		}
		return ""
	}
	return "no full-range loop fetching every state"
}

// storeWrapper describes a package helper `store(ctx, pubKey, action, value) error` that is nothing but
// `return s.store.Store(ctx, pubKey || action, value)`: the positions of its public-key, action and value parameters.
type storeWrapper struct{ pk, action, val int }

func globalOfLoad(v ssa.Value) *ssa.Global {
	if u, ok := v.(*ssa.UnOp); ok {
		if g, ok := u.X.(*ssa.Global); ok {
			return g
		}
	}
	return nil
}

func (c *Ctx) storeWrappers(s *Slashing) map[*ssa.Function]*storeWrapper {
	if m, ok := c.memo["storeWrappers"].(map[*ssa.Function]*storeWrapper); ok {
		return m
	}
	m := map[*ssa.Function]*storeWrapper{}
	c.memo["storeWrappers"] = m
	for _, fn := range c.P.ModuleFuncs() {
		if prog.PkgPathOf(fn) != s.Pkg.Pkg.Path() || fn.Blocks == nil || len(fn.Blocks) != 1 {
			continue
		}
		calls := Calls(fn, func(ci ssa.CallInstruction) bool { return ci.Common().StaticCallee() == s.StoreStore })
		if len(calls) != 1 {
			continue
		}
		call, ok := calls[0].(*ssa.Call)
		if !ok {
			continue
		}
		rets := an.Returns(fn)
		if len(rets) != 1 || len(rets[0].Results) != 1 || an.Result(rets[0], 0) != ssa.Value(call) {
			continue
		}
		pidx := func(v ssa.Value) int {
			for i, p := range fn.Params {
				if ssa.Value(p) == v {
					return i
				}
			}
			return -1
		}
		pre, suf, why := keyBuildVal(fn, call.Call.Args[2], 0)
		if why != "" {
			continue
		}
		w := &storeWrapper{pk: pidx(pre), action: pidx(suf), val: pidx(call.Call.Args[3])}
		if w.pk < 0 || w.action < 0 || w.val < 0 {
			continue
		}
		m[fn] = w
	}
	return m
}
