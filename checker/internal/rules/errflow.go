package rules

import (
	"go/types"

	"dirkcheck/internal/an"

	"golang.org/x/tools/go/ssa"
)

// errResultIndex returns the index of the (last) error result of fn, or -1.
func errResultIndex(fn *ssa.Function) int {
	res := fn.Signature.Results()
	for i := res.Len() - 1; i >= 0; i-- {
		if isErrorType(res.At(i).Type()) {
			return i
		}
	}
	return -1
}

func isErrorType(t types.Type) bool {
	n, ok := t.(*types.Named)
	return ok && n.Obj().Pkg() == nil && n.Obj().Name() == "error"
}

// errOfCall returns the SSA value holding the error result of call ci (the call itself or an Extract), if any.
func errValuesOfCall(ci ssa.CallInstruction) []ssa.Value {
	v := ci.Value()
	if v == nil {
		return nil
	}
	sig := ci.Common().Signature()
	n := sig.Results().Len()
	if n == 1 && isErrorType(sig.Results().At(0).Type()) {
		return []ssa.Value{v}
	}
	var out []ssa.Value
	if refs := v.Referrers(); refs != nil {
		for _, r := range *refs {
			if ex, ok := r.(*ssa.Extract); ok && isErrorType(sig.Results().At(ex.Index).Type()) {
				out = append(out, ex)
			}
		}
	}
	return out
}

// isNilConst reports whether v is the nil constant.
func isNilConst(v ssa.Value) bool {
	c, ok := v.(*ssa.Const)
	return ok && c.Value == nil
}

// errNilAtom reports whether atom a states "e == nil" for some e in errs (through named-result cells too).
func errNilAtom(a *an.Atom, errs map[ssa.Value]bool) bool {
	if a == nil || a.Op != "==" {
		return false
	}
	return (isNilConst(a.LV) && errs[unwrapErr(a.RV)]) || (isNilConst(a.RV) && errs[unwrapErr(a.LV)])
}

// errNonNilAtom reports whether atom a states "e != nil" for e == v.
func errNonNilAtom(a *an.Atom, v ssa.Value) bool {
	if a == nil || a.Op != "!=" {
		return false
	}
	return (isNilConst(a.LV) && unwrapErr(a.RV) == v) || (isNilConst(a.RV) && unwrapErr(a.LV) == v)
}

func unwrapErr(v ssa.Value) ssa.Value {
	return an.StripConv(v)
}

// neverNil reports whether error value v is syntactically never nil (errors.New / fmt.Errorf / New-style constructors),
// or is Wrap(e, ...) where e is `inner` known non-nil via nonNil.
func neverNilError(v ssa.Value, nonNil func(ssa.Value) bool, depth int) bool {
	if depth > 4 {
		return false
	}
	v = unwrapErr(v)
	if nonNil(v) {
		return true
	}
	switch x := v.(type) {
	case *ssa.Call:
		f := x.Call.StaticCallee()
		if f == nil {
			return false
		}
		switch f.String() {
		case "errors.New", "fmt.Errorf", "github.com/pkg/errors.New", "github.com/pkg/errors.Errorf":
			return true
		case "github.com/pkg/errors.Wrap", "github.com/pkg/errors.Wrapf", "github.com/pkg/errors.WithStack", "github.com/pkg/errors.WithMessage":
			return len(x.Call.Args) > 0 && neverNilError(x.Call.Args[0], nonNil, depth+1)
		}
	case *ssa.UnOp:
		// load of a package-level sentinel error (var ErrX = errors.New(...))
		if g, ok := x.X.(*ssa.Global); ok && isErrorType(g.Type().(*types.Pointer).Elem()) {
			return true // sentinel globals are initialised non-nil and never reassigned (checked by C17 where it matters)
		}
	}
	return false
}

// NilErrorNeeds checks that every path on which fn returns a nil error passes the "e == nil" edge of one of
// the calls selected by isCommit (or returns the commit call's own error). It returns the offending
// return instructions with witness paths.
type nilEscape struct {
	Ret  *ssa.Return
	Path []an.Step
	Why  string
}

func NilErrorNeeds(fn *ssa.Function, isCommit func(ssa.CallInstruction) bool) (escapes []nilEscape, commits []ssa.CallInstruction) {
	k := errResultIndex(fn)
	if k < 0 {
		return nil, nil
	}
	errs := map[ssa.Value]bool{}
	for _, b := range fn.Blocks {
		for _, ins := range b.Instrs {
			if ci, ok := ins.(ssa.CallInstruction); ok && isCommit(ci) {
				commits = append(commits, ci)
				for _, e := range errValuesOfCall(ci) {
					errs[e] = true
				}
			}
		}
	}
	for _, ret := range an.Returns(fn) {
		{
			if k >= len(ret.Results) {
				continue
			}
			v := unwrapErr(an.Result(ret, k))
			if errs[v] {
				continue // returns the commit's own verdict
			}
			// for phi-merged results evaluate each incoming edge separately
			type cand struct {
				v    ssa.Value
				site ssa.Instruction
			}
			var cands []cand
			if phi, ok := v.(*ssa.Phi); ok {
				for i, e := range phi.Edges {
					pred := phi.Block().Preds[i]
					cands = append(cands, cand{unwrapErr(e), pred.Instrs[len(pred.Instrs)-1]})
				}
			} else {
				cands = append(cands, cand{v, ret})
			}
			for _, cd := range cands {
				if errs[cd.v] {
					continue
				}
				vv := cd.v
				target := cd.site
				q := an.CutQuery{
					From:   an.Entry(fn),
					Target: func(i ssa.Instruction) bool { return i == target },
					AcceptEdge: func(b *ssa.BasicBlock, i int, a *an.Atom) bool {
						if errNilAtom(a, errs) {
							return true
						}
						if !isNilConst(vv) {
							// value known non-nil on this edge
							if errNonNilAtom(a, vv) {
								return true
							}
						}
						return false
					},
				}
				if !isNilConst(vv) {
					// syntactically non-nil values need no path condition; Wrap(e) is non-nil where e is
					if neverNilError(vv, func(ssa.Value) bool { return false }, 0) {
						continue
					}
					// Wrap(e): accept edges establishing e != nil
					if call, ok := vv.(*ssa.Call); ok && len(call.Call.Args) > 0 {
						inner := unwrapErr(call.Call.Args[0])
						if f := call.Call.StaticCallee(); f != nil {
							switch f.String() {
							case "github.com/pkg/errors.Wrap", "github.com/pkg/errors.Wrapf", "github.com/pkg/errors.WithStack", "github.com/pkg/errors.WithMessage":
								prev := q.AcceptEdge
								q.AcceptEdge = func(b *ssa.BasicBlock, i int, a *an.Atom) bool {
									return prev(b, i, a) || errNonNilAtom(a, inner)
								}
							}
						}
					}
				}
				if ins, path := an.Cut(q); ins != nil {
					why := "returns a nil error"
					if !isNilConst(vv) {
						why = "returns an error value that may be nil"
					}
					escapes = append(escapes, nilEscape{Ret: ret, Path: path, Why: why})
				}
			}
		}
	}
	return escapes, commits
}
