package rules

import (
	"go/types"

	"dirkcheck/internal/prog"

	"golang.org/x/tools/go/ssa"
)

// AccountUnlockNeedsPassphrase (C06.O6 unlock.account-needs-passphrase): a locked account whose passphrase Dirk does not know
// yields no signature. The unlocker opens an account only with the passphrases it was configured with: on the paths of
// UnlockAccount (the method and the package functions it calls, through function values too) no unlock attempt is made with
// a nil or empty passphrase - neither an invoke of AccountLocker.Unlock nor a call of a function value of that shape. (The
// wallet libraries keep the decrypted key of an account that was unlocked once; an attempt without passphrase re-opens an
// account the operator locked again. Wallets are different: an unencrypted wallet is opened with nil on purpose.)
func (c *Ctx) AccountUnlockNeedsPassphrase(prop string) {
	rule := "C06.O6 unlock.account-needs-passphrase"
	impl := c.Role(rule, pkgUnlocker, "Service")
	if impl == nil {
		return
	}
	root := c.P.Method(impl, "UnlockAccount")
	if root == nil || root.Blocks == nil {
		c.R.Unknown(rule, "UnlockAccount", "-", "method not found")
		return
	}
	unit := map[*ssa.Function]bool{}
	var collect func(f *ssa.Function, d int)
	collect = func(f *ssa.Function, d int) {
		if f == nil || unit[f] || f.Blocks == nil || d > 3 || prog.PkgPathOf(f) != impl.Obj().Pkg().Path() {
			return
		}
		unit[f] = true
		for _, g := range WithClosures(f) {
			unit[g] = true
			for _, ci := range Calls(g, func(ssa.CallInstruction) bool { return true }) {
				if cal := ci.Common().StaticCallee(); cal != nil && !ci.Common().IsInvoke() {
					collect(cal, d+1)
				}
			}
		}
	}
	collect(root, 0)
	isBytes := func(t types.Type) bool {
		sl, ok := t.Underlying().(*types.Slice)
		if !ok {
			return false
		}
		b, ok := sl.Elem().Underlying().(*types.Basic)
		return ok && b.Kind() == types.Byte
	}
	emptyPass := func(v ssa.Value) bool {
		switch x := v.(type) {
		case *ssa.Const:
			return x.Value == nil
		case *ssa.MakeSlice:
			k, ok := x.Len.(*ssa.Const)
			return ok && k.Value != nil && k.Int64() == 0
		case *ssa.Slice:
			if al, ok := x.X.(*ssa.Alloc); ok {
				if arr, ok := derefT(al.Type()).Underlying().(*types.Array); ok && arr.Len() == 0 {
					return true
				}
			}
		}
		return false
	}
	n, bad := 0, 0
	for f := range unit {
		for _, b := range f.Blocks {
			for _, ins := range b.Instrs {
				ci, ok := ins.(ssa.CallInstruction)
				if !ok {
					continue
				}
				cc := ci.Common()
				unlockLike := false
				var pass ssa.Value
				if cc.IsInvoke() && cc.Method.Name() == "Unlock" && len(cc.Args) == 2 && isBytes(cc.Args[1].Type()) {
					unlockLike, pass = true, cc.Args[1]
				} else if !cc.IsInvoke() && cc.StaticCallee() == nil {
					// a function value of the shape func(context.Context, []byte) error
					if sig, ok := cc.Value.Type().Underlying().(*types.Signature); ok && sig.Params().Len() == 2 && isBytes(sig.Params().At(1).Type()) && len(cc.Args) == 2 {
						unlockLike, pass = true, cc.Args[1]
					}
				}
				if !unlockLike {
					continue
				}
				n++
				if emptyPass(pass) {
					bad++
					c.R.Fail(rule, Fn(f), c.Pos(ins), "on the way of UnlockAccount an unlock is attempted without a passphrase: an account that was unlocked once and locked again is re-opened although no configured passphrase fits", "accounts are opened only with configured passphrases", nil)
				}
			}
		}
	}
	c.R.Floor(rule, "unlock attempts on the paths of UnlockAccount", n, 1)
	if bad == 0 {
		c.R.OK(rule, Fn(root), c.P.FuncPos(root), "every unlock attempt on the paths of UnlockAccount carries a passphrase value")
	}
}
