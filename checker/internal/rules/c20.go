package rules

import (
	"fmt"
	"go/types"
	"sort"
	"strings"

	"dirkcheck/internal/an"
	"dirkcheck/internal/prog"

	"golang.org/x/tools/go/ssa"
)

// clientHandlers returns the handler methods of the client-facing services and the DKG receiver.
func (c *Ctx) clientHandlers(rule string) []*ssa.Function {
	return c.HandlerMethods(rule)
}

// EmptyBatchGuard: C20.O2 (handler side) - the batch services answer an empty batch with a one-element list, so a batch
// handler must not call them with zero requests (its response loop would index an empty response list).
func (c *Ctx) EmptyBatchGuard(prop string) {
	rule := "C20.O2 positions/empty-batch"
	n := 0
	for _, H := range c.handlersIn(rule, "/handlers/signer") {
		for _, K := range Calls(H, func(ci ssa.CallInstruction) bool {
			if !ci.Common().IsInvoke() || !namedIs(ci.Common().Value.Type(), pkgSigner, "Service") {
				return false
			}
			_, isSlice := ci.Common().Signature().Results().At(0).Type().(*types.Slice)
			return isSlice
		}) {
			n++
			reqP := ssa.Value(H.Params[2])
			target := K.(ssa.Instruction)
			x, path := an.Cut(an.CutQuery{From: an.Entry(H), Target: func(i ssa.Instruction) bool { return i == target },
				AcceptEdge: func(b *ssa.BasicBlock, i int, a *an.Atom) bool {
					if a == nil {
						return false
					}
					isLenReq := func(v ssa.Value) bool {
						call, ok := v.(*ssa.Call)
						if !ok || !isBuiltin(call, "len") {
							return false
						}
						p, base := getterPath(call.Call.Args[0])
						return p == "Requests" && base == reqP
					}
					if a.Op == "!=" && ((isLenReq(a.LV) && an.IsConstInt(a.RV, 0)) || (isLenReq(a.RV) && an.IsConstInt(a.LV, 0))) {
						return true
					}
					if a.Op == "<" && an.IsConstInt(a.LV, 0) && isLenReq(a.RV) {
						return true
					}
					return false
				}})
			// the response loop indexes Responses by the result index: is the response list sized by the request count?
			if x != nil {
				c.R.Fail(rule, Fn(H), c.Pos(K), "the batch service can be called with zero requests; it answers with a one-element result list and the handler's response loop then indexes its empty response list (index out of range, process crash)", "service call only below [len(requests) != 0]", an.PathString(c.Pos, path))
			} else {
				c.R.OK(rule, Fn(H), c.Pos(K), "batch service called only below [len(requests) != 0]")
			}
			// the response loop ranges over the results and indexes Responses[i]: lengths agree for non-empty batches by C08.O5
		}
	}
	c.R.Floor(rule, "batch signer handlers", n, 2)
	// RunRules and the batch rule return one verdict per entry for non-empty input
	rule2 := "C20.O2 positions/verdict-lists"
	r := c.Ruler(prop + ".anchors")
	s := c.Slashing(prop + ".anchors")
	if !r.OK() || !s.OK() {
		return
	}
	check := func(fn *ssa.Function, in ssa.Value, what string) {
		bad := false
		for _, ret := range an.Returns(fn) {
			v := an.Result(ret, 0)
			okLen := false
			// isLen(v): v equals len(<the entry list>) in the current frame
			type lenPred func(ssa.Value) bool
			var walk func(x ssa.Value, in ssa.Value, isLen lenPred, d int) bool
			walk = func(x ssa.Value, in ssa.Value, isLen lenPred, d int) bool {
				if d > 6 {
					return false
				}
				root := sliceRootExact(x)
				if sl, ok := root.(*ssa.Slice); ok {
					root = sl.X
				}
				switch y := root.(type) {
				case *ssa.MakeSlice:
					return isLen(y.Len)
				case *ssa.Call:
					if y.Call.IsInvoke() {
						return true // interface result: the implementation is checked separately
					}
					cal := y.Call.StaticCallee()
					if cal != nil && prog.InModule(cal) && cal.Blocks != nil {
						for i, a := range y.Call.Args {
							if i >= len(cal.Params) {
								continue
							}
							p := cal.Params[i]
							var inner lenPred
							var innerIn ssa.Value
							switch {
							case in != nil && sliceRootExact(a) == in:
								innerIn = p
								inner = func(v ssa.Value) bool { return lenIs(v, p) }
							case isLen(a):
								// the length itself is passed
								inner = func(v ssa.Value) bool { return v == ssa.Value(p) }
							default:
								continue
							}
							for _, r2 := range an.Returns(cal) {
								if !walk(an.Result(r2, 0), innerIn, inner, d+1) {
									return false
								}
							}
							return true
						}
					}
				case *ssa.Phi:
					for _, e := range y.Edges {
						if !walk(e, in, isLen, d+1) {
							return false
						}
					}
					return true
				}
				return false
			}
			okLen = walk(v, in, func(n ssa.Value) bool { return lenIs(n, in) }, 0)
			if okLen {
				continue
			}
			// allowed only below len(in) == 0
			target := ssa.Instruction(ret)
			if x, path := an.Cut(an.CutQuery{From: an.Entry(fn), Target: func(i ssa.Instruction) bool { return i == target },
				AcceptEdge: func(b *ssa.BasicBlock, i int, a *an.Atom) bool {
					return a != nil && a.Op == "==" && ((lenIs(a.LV, in) && an.IsConstInt(a.RV, 0)) || (lenIs(a.RV, in) && an.IsConstInt(a.LV, 0)))
				}}); x != nil {
				bad = true
				c.R.Fail(rule2, Fn(fn), c.Pos(ret), what+" can return a verdict list whose length is not the number of entries it was given; callers index it by position", "len(verdicts) == len(entries) for non-empty input", an.PathString(c.Pos, path))
			}
		}
		if !bad {
			c.R.OK(rule2, Fn(fn), c.P.FuncPos(fn), what+" returns one verdict per entry for non-empty input")
		}
	}
	check(r.RunRules, r.DataParam, "RunRules")
	check(s.AttestB, s.AttestB.Params[3], "the batch attestation rule")
}

// ExplicitPanics: C20.O3 - the explicit panic / fatal-exit sites reachable from a handler are exactly the reasoned table.
func (c *Ctx) ExplicitPanics(prop string) {
	rule := "C20.O3 explicit-panics"
	g := c.ModGraph()
	hs := c.clientHandlers(rule)
	pred := g.Reach(hs, nil)
	c.R.Count("functions_reachable_from_handlers", len(pred))
	c.R.Floor(rule, "module functions reachable from the gRPC handlers", len(pred), 100)
	r := c.Ruler(rule)
	allowed := map[string]string{}
	if r.OK() {
		if f := c.P.Method(r.LockerImpl, "Unlock"); f != nil {
			allowed[f.String()] = "unlock of a key that was never locked: excluded by C15.O1/O2 (Unlock is only deferred right after Lock of the same key)"
		}
	}
	if sp := c.P.Package(mod + "/util"); sp != nil && sp.Func("BLSID") != nil {
		allowed[sp.Func("BLSID").String()] = "BLS id from a fixed-width little-endian buffer: the library rejects only malformed lengths"
	}
	var found []string
	bad := false
	for f := range pred {
		if !prog.InModule(f) || prog.IsTestish(prog.PkgPathOf(f)) {
			continue
		}
		for _, b := range f.Blocks {
			for _, ins := range b.Instrs {
				what := ""
				switch x := ins.(type) {
				case *ssa.Panic:
					if !x.Pos().IsValid() {
						continue // synthetic (e.g. blocking select matched no case)
					}
					what = "panic"
				case ssa.CallInstruction:
					if cal := x.Common().StaticCallee(); cal != nil {
						n := cal.String()
						if n == "os.Exit" || strings.HasSuffix(n, ".Fatal") || strings.HasSuffix(n, ".Fatalf") || strings.HasSuffix(n, ".Fatalln") || n == "(*github.com/rs/zerolog.Logger).Fatal" || n == "(*github.com/rs/zerolog.Logger).Panic" || n == "log.Panic" || n == "log.Panicf" {
							what = "call to " + n
						}
					}
				}
				if what == "" {
					continue
				}
				if what == "panic" {
					// a panic on the failing side of a comma-ok type assertion stands for the implicit panic of the unchecked
					// assertion `v.(T)` (not decided either way: see the trusted list)
					target := ins
					if x, _ := an.Cut(an.CutQuery{From: an.Entry(f), Target: func(i ssa.Instruction) bool { return i == target },
						AcceptEdge: func(b *ssa.BasicBlock, i int, a *an.Atom) bool {
							if a == nil || a.Op != "false" {
								return false
							}
							ex, ok := a.LV.(*ssa.Extract)
							if !ok || ex.Index != 1 {
								return false
							}
							_, isTA := ex.Tuple.(*ssa.TypeAssert)
							return isTA
						}}); x == nil {
						c.R.OK(rule, Fn(f)+":assertion", c.Pos(ins), "panic only on the failing side of a comma-ok type assertion (the explicit form of an unchecked assertion)")
						continue
					}
				}
				if why, ok := allowed[f.String()]; ok && what == "panic" {
					found = append(found, Fn(f))
					c.R.OK(rule, Fn(f), c.Pos(ins), "table entry: "+why)
					continue
				}
				bad = true
				c.R.Fail(rule, Fn(f)+":"+what, c.Pos(ins), "an explicit "+what+" is reachable from a request handler ("+strings.Join(PathTo(pred, f), " -> ")+"): a request that reaches it stops the daemon for every client (there is no recovery interceptor)", "no explicit panic / fatal exit on request paths beyond the reasoned table", nil)
			}
		}
	}
	sort.Strings(found)
	if !bad {
		c.R.OK(rule, "census", "-", fmt.Sprintf("explicit panics reachable from handlers: %v (all table entries); no os.Exit / Fatal", found))
	}
	// the locker's panic: only below the not-present edge
	if r.OK() {
		if f := c.P.Method(r.LockerImpl, "Unlock"); f != nil {
			for _, b := range f.Blocks {
				for _, ins := range b.Instrs {
					if p, ok := ins.(*ssa.Panic); ok && p.Pos().IsValid() {
						target := ins
						if x, _ := an.Cut(an.CutQuery{From: an.Entry(f), Target: func(i ssa.Instruction) bool { return i == target },
							AcceptEdge: func(b *ssa.BasicBlock, i int, a *an.Atom) bool { return a != nil && a.Op == "false" }}); x != nil {
							c.R.Fail(rule, Fn(f)+":unconditional", c.Pos(ins), "the locker's Unlock panics on a path other than 'key never locked'", "panic only when the key is unknown", nil)
						}
					}
				}
			}
		}
	}
}

func init() {
	register(&Spec{
		ID: "C20",
		Run: func(c *Ctx) {
			c.ValidateBeforeUse("C20")
			c.EmptyBatchGuard("C20")
			c.HandlerToRules("C20")
			c.ServicePositions("C20")
			c.ScatterIndexDiscipline("C20")
			c.LockReleased("C20")
			c.ConstIndexGuarded("C20")
			c.DivisionGuarded("C20")
			c.MetricLabelArity("C20")
			c.AssertionsGuarded("C20")
			c.AlignedLists("C20")
			c.ForkJoinRules("C03") // the fork helper returns (and closes its channels) only after every worker reported: a send on a closed channel kills the process
			c.ExplicitPanics("C20")
			c.ResultBeforeErrorCheck("C20")
			c.GateTypestate("C20")
			c.LockerInternals("C20")
			c.ContributionRules("C20")
		},
		Explanation: "Three exact clause families (necessary conditions of 'no request crashes the daemon'), nothing more: (O1) every field of the request data that the rules or the signing code dereference or slice without a local guard is established non-nil on every path to RunRules - by a dominating test in the service (directly or through its validation helper, for every batch position) or by construction in every handler; (O2) lists are made with one slot per request, accessed only at the loop's/worker's own index, verdict lists have one entry per input for non-empty input and the batch handlers call the service only below [len(requests) != 0]; (O3) the explicit panic / fatal-exit sites reachable from a handler are exactly a reasoned table; (O8) every integer division / remainder in production code has a divisor shown non-zero by a path guard or a small sign analysis; (O9) every WithLabelValues call on a prometheus vector passes as many values as the vector was declared with. See DESIGN.md §5 C20.",
		Trusted:     append([]string{"NOT decided: nil interface values and non-comma-ok assertions in general, arithmetic index bounds, panics inside dependencies, resource exhaustion by very large batches, the capacity argument that makes Domain[0:4] safe for 1-3 byte domains"}, commonTrusted...),
	})
}
