package rules

import (
	"fmt"
	"go/types"

	"dirkcheck/internal/an"
	"dirkcheck/internal/prog"

	"golang.org/x/tools/go/ssa"
)

// BatchIdentifiers (C08.O9 batch.identifiers-own-position): in the batch endpoints of the signer the account of position i
// is looked up, checked and unlocked by the pre-check from a name and a public key. Both must be the ones the request carries
// at position i, or absent: each is the zero value or `<list>[i]` with i the worker loop's own index - joined by phis, but
// never carried over from an earlier iteration (a value that survives the iteration addresses another entry's account: the
// key wins over the name in the lookup, the batch then holds one key twice and is refused as a whole, or a signature comes
// back under another account's key). A module helper `f(…, i)` every result of which is the zero value or `<list>[i]` of
// its own index parameter counts as such a value.
func (c *Ctx) BatchIdentifiers(prop string) {
	rule := "C08.O9 batch.identifiers-own-position"
	sg := c.Signer(prop + ".anchors")
	if !sg.OK() {
		return
	}
	n := 0
	for _, name := range []string{"SignBeaconAttestations", "Multisign"} {
		E := sg.Endpoints[name]
		for _, W := range sg.Unit(E) {
			for _, K := range Calls(W, func(ci ssa.CallInstruction) bool { return ci.Common().StaticCallee() == sg.PreCheck }) {
				l, ok := scatterLoopIdx(W)
				if !ok {
					c.R.Unknown(rule, Fn(W), c.Pos(K), "the batch pre-check is not inside a scatter worker loop `for i := offset; i < offset+entries; i++`")
					continue
				}
				for _, a := range K.Common().Args {
					kind := ""
					if b, ok := a.Type().Underlying().(*types.Basic); ok && b.Kind() == types.String {
						kind = "account name"
					}
					if sl, ok := a.Type().Underlying().(*types.Slice); ok {
						if b, ok := sl.Elem().Underlying().(*types.Basic); ok && b.Kind() == types.Byte {
							kind = "public key"
						}
					}
					if kind == "" {
						continue
					}
					// the operation constant is a string too: a load of a package-level variable is not an identifier
					if u, ok := a.(*ssa.UnOp); ok {
						if _, isG := u.X.(*ssa.Global); isG {
							continue
						}
					}
					if v := sg.InEndpoint(E, a); v != a {
						if u, ok := v.(*ssa.UnOp); ok {
							if _, isG := u.X.(*ssa.Global); isG {
								continue
							}
						}
					}
					n++
					if why := ownPosition(a, l.Idx, map[ssa.Value]bool{}, 0); why != "" {
						c.R.Fail(rule, Fn(W)+":"+kind, c.Pos(K), "the "+kind+" handed to the pre-check of position i is not the request's own: "+why, kind+" = zero value or <list>[i] of the worker loop's index, nothing carried between iterations", nil)
					} else {
						c.R.OK(rule, Fn(W)+":"+kind, c.Pos(K), "the "+kind+" of position i is the zero value or <list>[i]")
					}
				}
			}
		}
	}
	c.R.Floor(rule, "identifier arguments of batch pre-checks", n, 4)
	_ = fmt.Sprint
}

// ownPosition: "" when v is built only from zero values and <list>[idx]; else the reason.
func ownPosition(v ssa.Value, idx ssa.Value, onPath map[ssa.Value]bool, depth int) string {
	if depth > 8 {
		return "a value chain too long to follow"
	}
	switch x := v.(type) {
	case *ssa.Const:
		if x.Value == nil || an.Term(x) == `""` {
			return ""
		}
		return "a constant: " + an.Term(x)
	case *ssa.Phi:
		if onPath[x] {
			return "a value carried over from an earlier iteration of the loop"
		}
		onPath[x] = true
		defer delete(onPath, x)
		for _, e := range x.Edges {
			if why := ownPosition(e, idx, onPath, depth+1); why != "" {
				return why
			}
		}
		return ""
	case *ssa.UnOp:
		if _, i, ok := elemLoadAny(x); ok {
			if i == idx {
				return ""
			}
			return "an element at another index: " + an.Term(x)
		}
		// a local cell: everything stored into it
		if al, ok := x.X.(*ssa.Alloc); ok {
			for _, r := range *al.Referrers() {
				if st, ok := r.(*ssa.Store); ok && st.Addr == ssa.Value(al) {
					if why := ownPosition(st.Val, idx, onPath, depth+1); why != "" {
						return why
					}
				}
			}
			if cellCapturedAndWritten(al) {
				return "a variable that closures write"
			}
			return ""
		}
		if _, isFV := x.X.(*ssa.FreeVar); isFV {
			return "a variable shared between workers (captured from the enclosing function)"
		}
		return "an unrecognised value: " + an.Term(x)
	case *ssa.Call:
		f := x.Call.StaticCallee()
		if f == nil || x.Call.IsInvoke() || !prog.InModule(f) || f.Blocks == nil {
			return "the result of " + CalleeName(x)
		}
		// accessor helper f(..., i): every result is the zero value or <list>[i] of the parameter that receives the index
		var ip *ssa.Parameter
		for k, p := range f.Params {
			if k < len(x.Call.Args) && x.Call.Args[k] == idx {
				ip = p
			}
		}
		if ip == nil {
			return "the result of " + prog.ShortFunc(f) + ", which is not handed the loop index"
		}
		for _, ret := range an.Returns(f) {
			if why := ownPosition(an.Result(ret, 0), ip, map[ssa.Value]bool{}, depth+1); why != "" {
				return "in " + prog.ShortFunc(f) + ": " + why
			}
		}
		return ""
	}
	return "an unrecognised value: " + an.Term(v)
}

// cellCapturedAndWritten: the local cell is captured by a closure that stores into it.
func cellCapturedAndWritten(al *ssa.Alloc) bool {
	for _, r := range *al.Referrers() {
		mc, ok := r.(*ssa.MakeClosure)
		if !ok {
			continue
		}
		fn := mc.Fn.(*ssa.Function)
		for k, b := range mc.Bindings {
			if b != ssa.Value(al) || k >= len(fn.FreeVars) {
				continue
			}
			for _, r2 := range *fn.FreeVars[k].Referrers() {
				if st, ok := r2.(*ssa.Store); ok && st.Addr == ssa.Value(fn.FreeVars[k]) {
					return true
				}
			}
		}
	}
	return false
}
