package rules

import (
	"fmt"
	"sort"
	"strings"

	"dirkcheck/internal/an"
	"dirkcheck/internal/prog"

	"golang.org/x/tools/go/ssa"
)

// NoRecursiveLock (C15.O4 no-recursive-lock): no module function acquires a sync.Mutex / sync.RWMutex that it already holds,
// directly or through the module functions it calls while holding it. For a write lock that is a self-deadlock; for a read
// lock it is one as soon as a writer queues between the two acquisitions (Go's RWMutex blocks new readers behind a waiting
// writer), after which every request that needs the lock parks for good.
//
// A mutex is identified as a field of the method's receiver (followed through calls that pass the same receiver on) or as a
// package-level variable. "Held" at a call = reachable from the acquisition without passing the matching release (a deferred
// release holds to the end of the function). Calls through interfaces and function values are not followed (the rule can miss
// a recursion through them; it cannot raise an alarm because of them).
func (c *Ctx) NoRecursiveLock(prop string) {
	rule := "C15.O4 no-recursive-lock"
	isSync := func(ci ssa.CallInstruction, names ...string) bool {
		f := ci.Common().StaticCallee()
		if f == nil || f.Pkg == nil || f.Pkg.Pkg.Path() != "sync" || f.Signature.Recv() == nil {
			return false
		}
		for _, n := range names {
			if f.Name() == n {
				return true
			}
		}
		return false
	}
	// mutex key relative to fn: "recv.<field>" or "global:<name>"
	keyOf := func(fn *ssa.Function, mu ssa.Value) string {
		switch x := mu.(type) {
		case *ssa.FieldAddr:
			if len(fn.Params) > 0 && fn.Signature.Recv() != nil && x.X == ssa.Value(fn.Params[0]) {
				return "recv." + fieldNameOf(x)
			}
			if g, ok := x.X.(*ssa.Global); ok {
				return "global:" + g.String() + "." + fieldNameOf(x)
			}
		case *ssa.Global:
			return "global:" + x.String()
		}
		return ""
	}
	acq := map[*ssa.Function]map[string]bool{}
	var acquires func(fn *ssa.Function, depth int) map[string]bool
	acquires = func(fn *ssa.Function, depth int) map[string]bool {
		if m, ok := acq[fn]; ok {
			return m
		}
		m := map[string]bool{}
		acq[fn] = m // recursion guard
		if fn.Blocks == nil || depth > 8 {
			return m
		}
		for _, b := range fn.Blocks {
			for _, ins := range b.Instrs {
				ci, ok := ins.(ssa.CallInstruction)
				if !ok {
					continue
				}
				if _, isGo := ins.(*ssa.Go); isGo {
					continue
				}
				if _, isDefer := ins.(*ssa.Defer); isDefer && !isSync(ci, "Lock", "RLock") {
					// deferred module calls run while whatever is deferred-released later may still be held; followed like calls
				}
				if isSync(ci, "Lock", "RLock") {
					if k := keyOf(fn, ci.Common().Args[0]); k != "" {
						m[k] = true
					}
					continue
				}
				g := ci.Common().StaticCallee()
				if g == nil || ci.Common().IsInvoke() || !prog.InModule(g) || g.Blocks == nil || prog.IsTestish(prog.PkgPathOf(g)) {
					continue
				}
				sameRecv := g.Signature.Recv() != nil && fn.Signature.Recv() != nil && len(ci.Common().Args) > 0 && len(fn.Params) > 0 && ci.Common().Args[0] == ssa.Value(fn.Params[0])
				for k := range acquires(g, depth+1) {
					if strings.HasPrefix(k, "global:") || sameRecv {
						m[k] = true
					}
				}
			}
		}
		return m
	}
	n := 0
	for _, fn := range c.P.ModuleFuncs() {
		if prog.IsTestish(prog.PkgPathOf(fn)) || fn.Blocks == nil {
			continue
		}
		for _, L := range Calls(fn, func(ci ssa.CallInstruction) bool { return isSync(ci, "Lock", "RLock") }) {
			if _, isDefer := L.(*ssa.Defer); isDefer {
				continue
			}
			if _, isGo := L.(*ssa.Go); isGo {
				continue
			}
			k := keyOf(fn, L.Common().Args[0])
			if k == "" {
				continue
			}
			n++
			want := "Unlock"
			if L.Common().StaticCallee().Name() == "RLock" {
				want = "RUnlock"
			}
			release := func(i ssa.Instruction) bool {
				rc, ok := i.(ssa.CallInstruction)
				if !ok {
					return false
				}
				if _, isDefer := i.(*ssa.Defer); isDefer {
					return false
				}
				return isSync(rc, want) && keyOf(fn, rc.Common().Args[0]) == k
			}
			var bad []string
			for _, b := range fn.Blocks {
				for _, ins := range b.Instrs {
					ci, ok := ins.(ssa.CallInstruction)
					if !ok || ins == L.(ssa.Instruction) {
						continue
					}
					if _, isGo := ins.(*ssa.Go); isGo {
						continue
					}
					if _, isDefer := ins.(*ssa.Defer); isDefer {
						continue
					}
					why := ""
					if isSync(ci, "Lock", "RLock") {
						if keyOf(fn, ci.Common().Args[0]) == k {
							why = "it is acquired again (" + ci.Common().StaticCallee().Name() + ")"
						}
					} else if g := ci.Common().StaticCallee(); g != nil && !ci.Common().IsInvoke() && prog.InModule(g) && g.Blocks != nil {
						sameRecv := g.Signature.Recv() != nil && fn.Signature.Recv() != nil && len(ci.Common().Args) > 0 && len(fn.Params) > 0 && ci.Common().Args[0] == ssa.Value(fn.Params[0])
						if acquires(g, 0)[k] && (strings.HasPrefix(k, "global:") || sameRecv) {
							why = prog.ShortFunc(g) + " is called, which acquires it again"
						}
					}
					if why == "" {
						continue
					}
					target := ins
					if x, _ := an.Cut(an.CutQuery{From: an.After(L.(ssa.Instruction)), Target: func(i ssa.Instruction) bool { return i == target }, AcceptInstr: release}); x != nil {
						bad = append(bad, c.Pos(ins)+": "+why)
					}
				}
			}
			sort.Strings(bad)
			name := strings.TrimPrefix(k, "recv.")
			if len(bad) > 0 {
				c.R.Fail(rule, Fn(fn)+":"+name, c.Pos(L), "while "+name+" is held ("+L.Common().StaticCallee().Name()+") "+strings.Join(bad, "; ")+": a self-deadlock (for read locks: as soon as a writer queues in between)", "a mutex is released before the function, or anything it calls, acquires it again", nil)
			} else {
				c.R.OK(rule, Fn(fn)+":"+name, c.Pos(L), "nothing that runs while "+name+" is held acquires it again")
			}
		}
	}
	c.R.Floor(rule, "mutex acquisitions on receiver fields or package variables", n, 10)
	_ = fmt.Sprint
}

// ImportUnderSessionLock (C12.O7 import.under-session-lock): a wallet keeps one index of its accounts; importing an account
// reads the index, adds the entry and writes the whole index back. Two imports into one wallet that overlap on an instance
// lose one entry: the generation reports success everywhere, yet that instance cannot find its share under the name. On the
// pinned design the process service's session mutex is what serialises them: every call of the wallet's distributed-account
// importer in the process service is made with a mutex field of the service held - in the calling function itself (every
// path from its entry passes the Lock, no non-deferred Unlock in between), or in each of its package callers.
func (c *Ctx) ImportUnderSessionLock(prop string) {
	rule := "C12.O7 import.under-session-lock"
	p := c.Proc(prop + ".anchors")
	if !p.OK() {
		return
	}
	pkg := p.Impl.Obj().Pkg().Path()
	isSyncCall := func(ins ssa.Instruction, names ...string) (ssa.Value, bool) {
		ci, ok := ins.(ssa.CallInstruction)
		if !ok {
			return nil, false
		}
		if _, isDefer := ins.(*ssa.Defer); isDefer {
			return nil, false
		}
		f := ci.Common().StaticCallee()
		if f == nil || f.Pkg == nil || f.Pkg.Pkg.Path() != "sync" || f.Signature.Recv() == nil {
			return nil, false
		}
		for _, n := range names {
			if f.Name() == n {
				return ci.Common().Args[0], true
			}
		}
		return nil, false
	}
	recvMutex := func(fn *ssa.Function, mu ssa.Value) string {
		fa, ok := mu.(*ssa.FieldAddr)
		if !ok || fn.Signature.Recv() == nil || len(fn.Params) == 0 || fa.X != ssa.Value(fn.Params[0]) {
			return ""
		}
		return fieldNameOf(fa)
	}
	// held(fn, ins): the name of a receiver mutex that is held on every path reaching ins, or ""
	held := func(fn *ssa.Function, ins ssa.Instruction) string {
		fields := map[string]bool{}
		for _, b := range fn.Blocks {
			for _, i := range b.Instrs {
				if mu, ok := isSyncCall(i, "Lock"); ok {
					if f := recvMutex(fn, mu); f != "" {
						fields[f] = true
					}
				}
			}
		}
		var names []string
		for f := range fields {
			names = append(names, f)
		}
		sort.Strings(names)
		for _, f := range names {
			isLock := func(i ssa.Instruction) bool {
				mu, ok := isSyncCall(i, "Lock")
				return ok && recvMutex(fn, mu) == f
			}
			if x, _ := an.Cut(an.CutQuery{From: an.Entry(fn), Target: func(i ssa.Instruction) bool { return i == ins }, AcceptInstr: isLock}); x != nil {
				continue // a path reaches it without the lock
			}
			released := false
			for _, b := range fn.Blocks {
				for _, i := range b.Instrs {
					if mu, ok := isSyncCall(i, "Unlock"); ok && recvMutex(fn, mu) == f {
						if x, _ := an.Cut(an.CutQuery{From: an.After(i), Target: func(j ssa.Instruction) bool { return j == ins }, AcceptInstr: isLock}); x != nil {
							released = true
						}
					}
				}
			}
			if !released {
				return f
			}
		}
		return ""
	}
	var heldAlong func(fn *ssa.Function, ins ssa.Instruction, depth int) (string, string)
	heldAlong = func(fn *ssa.Function, ins ssa.Instruction, depth int) (string, string) {
		if f := held(fn, ins); f != "" {
			return f, ""
		}
		if depth >= 3 {
			return "", "no session mutex is held in " + Fn(fn) + " or its callers"
		}
		callers := c.staticCallers()[fn]
		n := 0
		field := ""
		for _, cs := range callers {
			if prog.IsTestish(prog.PkgPathOf(cs.Parent())) || prog.PkgPathOf(cs.Parent()) != pkg {
				continue
			}
			n++
			f, why := heldAlong(cs.Parent(), cs.(ssa.Instruction), depth+1)
			if f == "" {
				return "", why
			}
			field = f
		}
		if n == 0 {
			return "", "the import in " + Fn(fn) + " runs without a session mutex held, and nothing in the package that calls it holds one"
		}
		return field, ""
	}
	n := 0
	for _, fn := range c.P.ModuleFuncs() {
		if prog.PkgPathOf(fn) != pkg || fn.Blocks == nil {
			continue
		}
		for _, ci := range Calls(fn, func(ci ssa.CallInstruction) bool {
			cc := ci.Common()
			return cc.IsInvoke() && namedIs(cc.Value.Type(), pkgWTypes, "WalletDistributedAccountImporter")
		}) {
			n++
			if f, why := heldAlong(fn, ci.(ssa.Instruction), 0); f == "" {
				c.R.Fail(rule, Fn(fn), c.Pos(ci), "the distributed account is imported into the wallet without the service's session mutex held: two commits for different accounts of one wallet overlapping on this instance overwrite each other's index write - "+why, "ImportDistributedAccount only with the session mutex held", nil)
			} else {
				c.R.OK(rule, Fn(fn), c.Pos(ci), "the import runs with "+f+" held")
			}
		}
	}
	c.R.Floor(rule, "distributed account imports in the process service", n, 1)
}
