package rules

import (
	"fmt"
	"go/constant"
	"go/types"
	"strings"

	"dirkcheck/internal/an"
	"dirkcheck/internal/prog"

	"golang.org/x/tools/go/ssa"
)

// TLSConfig: C19.O1 and O2.
func (c *Ctx) TLSConfig(prop string) {
	rule := "C19.O1 tls.config"
	rule2 := "C19.O2 single-server"
	var newServers []ssa.CallInstruction
	for _, fn := range c.P.ModuleFuncs() {
		if prog.IsTestish(prog.PkgPathOf(fn)) {
			continue
		}
		for _, ci := range Calls(fn, func(ci ssa.CallInstruction) bool { return IsCallTo(ci, "google.golang.org/grpc.NewServer") }) {
			newServers = append(newServers, ci)
		}
		// session-ticket keys chosen by the program: a resumed session takes the peer certificates from the decrypted
		// ticket without verifying them again, so whoever can compute the key can claim any verified identity. crypto/tls
		// generates and rotates random keys when none are set; production code must leave it at that.
		for _, ci := range Calls(fn, func(ci ssa.CallInstruction) bool {
			f := ci.Common().StaticCallee()
			return f != nil && f.Name() == "SetSessionTicketKeys" && f.Pkg != nil && f.Pkg.Pkg.Path() == "crypto/tls"
		}) {
			c.R.Fail(rule, Fn(fn)+":session-tickets", c.Pos(ci), "the program installs its own TLS session-ticket keys: resumed sessions carry the peer's certificates inside the ticket unverified, so a computable or shared key lets a caller without a certificate claim a verified identity", "no SetSessionTicketKeys / SessionTicketKey in production code (crypto/tls generates random keys)", nil)
		}
		for _, b := range fn.Blocks {
			for _, ins := range b.Instrs {
				if st, ok := ins.(*ssa.Store); ok {
					if fa, ok := st.Addr.(*ssa.FieldAddr); ok && fieldNameOf(fa) == "SessionTicketKey" && namedIs(fa.X.Type(), "crypto/tls", "Config") {
						c.R.Fail(rule, Fn(fn)+":session-tickets", c.Pos(st), "the program sets tls.Config.SessionTicketKey itself", "no SetSessionTicketKeys / SessionTicketKey in production code (crypto/tls generates random keys)", nil)
					}
				}
			}
		}
	}
	if len(newServers) != 1 {
		c.R.Fail(rule2, "grpc.NewServer", "-", fmt.Sprintf("expected exactly one gRPC server in production code, found %d", len(newServers)), "a single server carrying the TLS credentials", nil)
		if len(newServers) == 0 {
			return
		}
	}
	var serverField *types.Var
	for _, ns := range newServers {
		fn := ns.Parent()
		// the options passed: append(base, [Creds(NewTLS(cfg))]...)
		creds := findCredsOption(ns.Common().Args[0], 0)
		if creds == nil {
			c.R.Fail(rule, Fn(fn), c.Pos(ns), "the gRPC server is created without transport credentials on some path: its RPCs would be served in clear text to anyone", "grpc.NewServer(..., grpc.Creds(credentials.NewTLS(cfg)))", nil)
			continue
		}
		tlsCall, ok := creds.Call.Args[0].(*ssa.Call)
		if !ok || !IsCallTo(tlsCall, "google.golang.org/grpc/credentials.NewTLS") {
			c.R.Fail(rule, Fn(fn), c.Pos(creds), "the server credentials are not TLS credentials built from a tls.Config: "+an.Term(creds.Call.Args[0]), "grpc.Creds(credentials.NewTLS(&tls.Config{...}))", nil)
			continue
		}
		cfg, ok := tlsCall.Call.Args[0].(*ssa.Alloc)
		if !ok {
			// the configuration may be built by a helper: its (single) success result must be a composite literal there
			if rvs, isH := HelperSuccessResults(tlsCall.Call.Args[0]); isH && len(rvs) == 1 {
				if a2, isAlloc := rvs[0].Val.(*ssa.Alloc); isAlloc {
					cfg, ok = a2, true
					fn = a2.Parent()
				}
			}
		}
		if !ok {
			c.R.Unknown(rule, Fn(fn), c.Pos(tlsCall), "the tls.Config is not a local composite literal")
			continue
		}
		// the Creds option must reach NewServer on every path: Creds call dominates NewServer and is in the appended slice (checked structurally above)
		fields := map[string]ssa.Value{}
		dupe := false
		for _, r := range *cfg.Referrers() {
			fa, ok := r.(*ssa.FieldAddr)
			if !ok {
				if _, isCall := r.(ssa.CallInstruction); isCall && r != ssa.Instruction(tlsCall) {
					c.R.Unknown(rule, Fn(fn), c.Pos(r), "the tls.Config is passed to another function before use")
				}
				if st, isStore := r.(*ssa.Store); isStore && st.Val == ssa.Value(cfg) {
					c.R.Unknown(rule, Fn(fn), c.Pos(r), "the tls.Config is stored somewhere before use")
				}
				continue
			}
			for _, r2 := range *fa.Referrers() {
				if st, ok := r2.(*ssa.Store); ok {
					if _, seen := fields[fieldNameOf(fa)]; seen {
						dupe = true
					}
					fields[fieldNameOf(fa)] = st.Val
				}
			}
		}
		if dupe {
			c.R.Unknown(rule, Fn(fn), c.Pos(tlsCall), "a tls.Config field is assigned more than once")
			continue
		}
		bad := 0
		// ClientAuth
		want, _ := c.EnumConst(rule, "crypto/tls", "RequireAndVerifyClientCert")
		if v, ok := fields["ClientAuth"]; !ok || !an.IsConstInt(v, want) {
			bad++
			c.R.Fail(rule, Fn(fn)+":ClientAuth", c.Pos(tlsCall), "ClientAuth is "+termOrUnset(v)+": a caller without a certificate from the configured authority is admitted", "ClientAuth = tls.RequireAndVerifyClientCert", nil)
		}
		// MinVersion >= TLS 1.2
		if v, ok := fields["MinVersion"]; ok {
			k, isK := v.(*ssa.Const)
			mv, _ := constant.Int64Val(k.Value)
			if !isK || mv < 0x0303 {
				bad++
				c.R.Fail(rule, Fn(fn)+":MinVersion", c.Pos(tlsCall), "MinVersion is below TLS 1.2", "MinVersion >= tls.VersionTLS12", nil)
			}
		}
		// no verification overrides
		for _, f := range []string{"InsecureSkipVerify", "VerifyPeerCertificate", "VerifyConnection", "GetConfigForClient", "GetCertificate"} {
			if v, ok := fields[f]; ok {
				if k, isK := v.(*ssa.Const); isK && (k.Value == nil || an.Term(k) == "false") {
					continue
				}
				bad++
				c.R.Fail(rule, Fn(fn)+":"+f, c.Pos(tlsCall), "the TLS configuration sets "+f+", which can replace or bypass client-certificate verification", "no verification overrides", nil)
			}
		}
		// ClientCAs: pool from NewCertPool, filled only by AppendCertsFromPEM(ca parameter), failure -> error
		pool, ok := fields["ClientCAs"]
		poolFn := fn
		// the pool may be built by a helper handed the configured authority: every success result is one and the same pool
		if rvs, isH := HelperSuccessResults(pool); ok && isH && len(rvs) > 0 {
			var one ssa.Value
			same := true
			for _, rv := range rvs {
				if one != nil && rv.Val != one {
					same = false
				}
				one = rv.Val
			}
			if pc, isC := one.(*ssa.Call); same && isC {
				pool, poolFn = pc, pc.Parent()
			}
		}
		poolCall, isCall := pool.(*ssa.Call)
		if !ok || !isCall || !IsCallTo(poolCall, "crypto/x509.NewCertPool") {
			bad++
			c.R.Fail(rule, Fn(fn)+":ClientCAs", c.Pos(tlsCall), "ClientCAs is "+termOrUnset(pool)+", not a fresh pool filled from the configured authority (a system pool would admit certificates of any public authority)", "ClientCAs = x509.NewCertPool() + AppendCertsFromPEM(configured CA)", nil)
		} else {
			nadd := 0
			for _, r := range *poolCall.Referrers() {
				ci, ok := r.(ssa.CallInstruction)
				if !ok || r == ssa.Instruction(tlsCall) {
					continue
				}
				f := ci.Common().StaticCallee()
				if f == nil {
					continue
				}
				switch f.String() {
				case "(*crypto/x509.CertPool).AppendCertsFromPEM":
					nadd++
					p, isParam := ci.Common().Args[1].(*ssa.Parameter)
					if !isParam || p.Parent() != poolFn {
						bad++
						c.R.Fail(rule, Fn(fn)+":ClientCAs", c.Pos(ci), "certificates other than the configured authority are added to the client CA pool: "+an.Term(ci.Common().Args[1]), "only the configured CA", nil)
					}
				default:
					if strings.HasPrefix(f.String(), "(*crypto/x509.CertPool).") {
						bad++
						c.R.Fail(rule, Fn(fn)+":ClientCAs", c.Pos(ci), "the client CA pool is modified by "+f.Name(), "only AppendCertsFromPEM(configured CA)", nil)
					}
				}
			}
			if nadd == 0 {
				bad++
				c.R.Fail(rule, Fn(fn)+":ClientCAs", c.Pos(tlsCall), "the configured authority is never added to the client CA pool", "AppendCertsFromPEM(configured CA)", nil)
			}
		}
		if bad == 0 {
			c.R.OK(rule, Fn(fn), c.Pos(tlsCall), "ClientAuth = RequireAndVerifyClientCert; ClientCAs = fresh pool + configured CA only; MinVersion >= TLS 1.2; no verification overrides; credentials reach grpc.NewServer on every path")
		}
		// where the server is stored (directly, or after being returned by its constructor)
		if f := c.storedField(ns.Value(), 0); f != nil {
			serverField = f
		}
	}
	// O2: registrations and Serve on that server
	if serverField == nil {
		c.R.Unknown(rule2, "server-field", "-", "cannot identify where the gRPC server is kept")
		return
	}
	isServerVal := func(v ssa.Value) bool {
		u, ok := v.(*ssa.UnOp)
		if !ok {
			return false
		}
		fa, ok := u.X.(*ssa.FieldAddr)
		if !ok {
			return false
		}
		t := fa.X.Type().Underlying().(*types.Pointer).Elem().Underlying().(*types.Struct)
		return t.Field(fa.Field) == serverField
	}
	nreg, nserve, bad := 0, 0, 0
	for _, fn := range c.P.ModuleFuncs() {
		if prog.IsTestish(prog.PkgPathOf(fn)) {
			continue
		}
		for _, ci := range Calls(fn, func(ci ssa.CallInstruction) bool {
			f := ci.Common().StaticCallee()
			if f == nil {
				return false
			}
			if f.Pkg != nil && f.Pkg.Pkg.Path() == pkgPB && strings.HasPrefix(f.Name(), "Register") && strings.HasSuffix(f.Name(), "Server") {
				return true
			}
			return f.String() == "(*google.golang.org/grpc.Server).Serve" || f.String() == "(*google.golang.org/grpc.Server).RegisterService"
		}) {
			f := ci.Common().StaticCallee()
			arg := ci.Common().Args[0]
			if mi, ok := arg.(*ssa.MakeInterface); ok {
				arg = mi.X
			}
			if strings.HasPrefix(f.Name(), "Register") {
				nreg++
			} else {
				nserve++
			}
			if !isServerVal(arg) {
				bad++
				c.R.Fail(rule2, Fn(fn)+":"+f.Name(), c.Pos(ci), "a service is registered or served on a server other than the one carrying the client-certificate requirement", "everything on the single TLS server", nil)
			}
		}
	}
	c.R.Floor(rule2, "service registrations", nreg, 5)
	c.R.Floor(rule2, "Serve calls", nserve, 1)
	// handler methods have no other production caller than the gRPC runtime
	g := c.ModGraph()
	for _, H := range c.HandlerMethods(rule2) {
		for _, caller := range g.In[H] {
			site := g.Site[[2]*ssa.Function{caller, H}]
			if _, isMI := site.(*ssa.MakeInterface); isMI {
				continue
			}
			bad++
			c.R.Fail(rule2, Fn(H)+":caller", c.Pos(site), "a handler method is invoked from "+Fn(caller)+" (another entrance than the authenticated server)", "handlers are reached only through the TLS server", nil)
		}
	}
	// other network listeners must not expose handler types: http servers in production get only non-handler muxes (metrics/pprof) - not checked further
	if bad == 0 {
		c.R.OK(rule2, "server", "-", fmt.Sprintf("%d registrations and %d Serve call(s), all on the server built with the TLS credentials; handlers have no other caller", nreg, nserve))
	}
}

// storedField follows value v to the struct field it is stored in, through returns to the static callers.
func (c *Ctx) storedField(v ssa.Value, depth int) *types.Var {
	if v == nil || v.Referrers() == nil || depth > 3 {
		return nil
	}
	for _, r := range *v.Referrers() {
		switch x := r.(type) {
		case *ssa.Store:
			if fa, ok := x.Addr.(*ssa.FieldAddr); ok && x.Val == v {
				t := fa.X.Type().Underlying().(*types.Pointer).Elem().Underlying().(*types.Struct)
				return t.Field(fa.Field)
			}
		case *ssa.Return:
			idx := -1
			for i, rv := range x.Results {
				if rv == v {
					idx = i
				}
			}
			if idx < 0 {
				continue
			}
			fn := x.Parent()
			for _, cs := range c.staticCallers()[fn] {
				cv := cs.Value()
				if cv == nil {
					continue
				}
				if fn.Signature.Results().Len() == 1 {
					if f := c.storedField(cv, depth+1); f != nil {
						return f
					}
					continue
				}
				for _, r2 := range *cv.Referrers() {
					if ex, ok := r2.(*ssa.Extract); ok && ex.Index == idx {
						if f := c.storedField(ex, depth+1); f != nil {
							return f
						}
					}
				}
			}
		}
	}
	return nil
}

func termOrUnset(v ssa.Value) string {
	if v == nil {
		return "unset"
	}
	return an.Term(v)
}

// findCredsOption finds the grpc.Creds(...) call among the elements of the option slice value v.
func findCredsOption(v ssa.Value, depth int) *ssa.Call {
	if depth > 6 || v == nil {
		return nil
	}
	switch x := v.(type) {
	case *ssa.Call:
		if bi, ok := x.Call.Value.(*ssa.Builtin); ok && bi.Name() == "append" {
			// all appended parts; Creds must be in one of them (unconditional since append is a single expression)
			for _, a := range x.Call.Args {
				if c := findCredsOption(a, depth+1); c != nil {
					return c
				}
			}
		}
	case *ssa.Slice:
		if arr, ok := x.X.(*ssa.Alloc); ok {
			for _, r := range *arr.Referrers() {
				if ia, ok := r.(*ssa.IndexAddr); ok {
					for _, r2 := range *ia.Referrers() {
						if st, ok := r2.(*ssa.Store); ok {
							if call, ok := st.Val.(*ssa.Call); ok && IsCallTo(call, "google.golang.org/grpc.Creds") {
								return call
							}
						}
					}
				}
			}
		}
	case *ssa.Phi:
		// every incoming alternative must carry credentials
		var found *ssa.Call
		for _, e := range x.Edges {
			c := findCredsOption(e, depth+1)
			if c == nil {
				return nil
			}
			found = c
		}
		return found
	}
	return nil
}

func init() {
	register(&Spec{
		ID: "C19",
		Run: func(c *Ctx) {
			c.TLSConfig("C19")
			c.IdentitySource("C19")
			c.AuthoriseBeforeAct("C07")       // the decision is taken by the checker, for the name itself, before anything is done
			c.CheckSemantics("C07")           // the decision is taken under the entry of the very name the certificate bears
			c.CredentialsRequestScoped("C19") // every decision is taken under the request's own authenticated name
			c.PeerGate("C19")                 // the key-generation service identifies its callers from the same verified name
		},
		Explanation: "The one gRPC server of the production program is created with TLS credentials whose configuration requires and verifies a client certificate against a fresh pool holding only the configured authority, with TLS >= 1.2 and no verification overrides; all five services are registered and served on that server and handlers have no other caller; the identity used for permissions is the subject name of the first verified peer certificate, set in one place only. See DESIGN.md §5 C19.",
		Trusted:     append([]string{"crypto/tls: with RequireAndVerifyClientCert the handshake fails without a chain to ClientCAs; PeerCertificates[0] is the verified leaf", "grpc-go applies the server credentials to every connection"}, commonTrusted...),
	})
}
