package rules

import (
	"fmt"
	"go/types"
	"sort"
	"strings"

	"dirkcheck/internal/an"
	"dirkcheck/internal/prog"

	"golang.org/x/tools/go/ssa"
)

// mapCopyLoops returns, for destination map M in fn, the source maps X for which a full copy loop
// `for k, v := range X { M[k] = v }` exists (every iteration stores its own key/value), with the loop's (header, done) edge.
type copyLoop struct {
	Src    ssa.Value
	Header *ssa.BasicBlock
	Done   *ssa.BasicBlock
}

func mapCopyLoops(fn *ssa.Function, M ssa.Value) []copyLoop {
	var out []copyLoop
	for _, b := range fn.Blocks {
		for _, ins := range b.Instrs {
			mu, ok := ins.(*ssa.MapUpdate)
			if !ok || mu.Map != M {
				continue
			}
			k, ok1 := mu.Key.(*ssa.Extract)
			v, ok2 := mu.Value.(*ssa.Extract)
			if !ok1 || !ok2 || k.Tuple != v.Tuple || k.Index != 1 || v.Index != 2 {
				continue
			}
			nx, ok := k.Tuple.(*ssa.Next)
			if !ok {
				continue
			}
			rg, ok := nx.Iter.(*ssa.Range)
			if !ok {
				continue
			}
			hdr := nx.Block()
			iff, ok := hdr.Instrs[len(hdr.Instrs)-1].(*ssa.If)
			if !ok {
				continue
			}
			okv, isEx := iff.Cond.(*ssa.Extract)
			if !isEx || okv.Tuple != ssa.Value(nx) || okv.Index != 0 {
				continue
			}
			// every iteration performs the update: from body start the header is reachable only through the update
			body := hdr.Succs[0]
			if x, _ := an.Cut(an.CutQuery{From: an.Point{Block: body, Idx: 0}, Target: func(i ssa.Instruction) bool { return i == hdr.Instrs[0] },
				AcceptInstr: func(i ssa.Instruction) bool { return i == ssa.Instruction(mu) }}); x != nil {
				continue
			}
			out = append(out, copyLoop{Src: rg.X, Header: hdr, Done: hdr.Succs[1]})
		}
	}
	return out
}

// innerMapOf resolves the map operand of an update/lookup to the struct-field map it belongs to. It returns the field-map
// value and whether m is an INNER map of it (an element of a map-of-maps field): m may be the field map itself, a Lookup /
// comma-ok Lookup on it, a fresh map that is also stored into it, or a phi of such values for one and the same field map.
func innerMapOf(m ssa.Value, depth int) (field ssa.Value, inner bool, ok bool) {
	if depth > 4 || m == nil {
		return nil, false, false
	}
	switch x := m.(type) {
	case *ssa.Lookup:
		return x.X, true, true
	case *ssa.Extract:
		if lk, isLk := x.Tuple.(*ssa.Lookup); isLk && x.Index == 0 {
			return lk.X, true, true
		}
	case *ssa.MakeMap:
		// a fresh inner map: it must be put into a field map
		for _, r := range *x.Referrers() {
			if mu, isMu := r.(*ssa.MapUpdate); isMu && mu.Value == ssa.Value(x) {
				return mu.Map, true, true
			}
		}
	case *ssa.Phi:
		var f ssa.Value
		for _, e := range x.Edges {
			f2, in2, ok2 := innerMapOf(e, depth+1)
			if !ok2 || !in2 || (f != nil && !sameFieldLoad(f, f2)) {
				return nil, false, false
			}
			f = f2
		}
		return f, true, f != nil
	}
	return m, false, true
}

// sameFieldLoad: two loads of the same struct field of the same base object.
func sameFieldLoad(a, b ssa.Value) bool {
	if a == b {
		return true
	}
	oa, fa, ba := an.FieldOf(a)
	ob, fb, bb := an.FieldOf(b)
	return oa != nil && ob != nil && fa == fb && ba == bb
}

// mapPutCall recognises a static call of a module function that stores into one of its own (map-typed) parameters on every
// path to its returns (a `put` method of a named map type, or a helper): it returns the argument that is written into.
func mapPutCall(ins ssa.Instruction) (ssa.Value, bool) {
	call, ok := ins.(*ssa.Call)
	if !ok || call.Call.IsInvoke() {
		return nil, false
	}
	f := call.Call.StaticCallee()
	if f == nil || !prog.InModule(f) || f.Blocks == nil {
		return nil, false
	}
	for k, q := range f.Params {
		if _, isMap := q.Type().Underlying().(*types.Map); !isMap || k >= len(call.Call.Args) {
			continue
		}
		var upd ssa.Instruction
		for _, b := range f.Blocks {
			for _, i2 := range b.Instrs {
				if mu, ok := i2.(*ssa.MapUpdate); ok && mu.Map == ssa.Value(q) {
					upd = mu
				}
			}
		}
		if upd == nil {
			continue
		}
		if x, _ := an.Cut(an.CutQuery{From: an.Entry(f), Target: func(i ssa.Instruction) bool { _, isRet := i.(*ssa.Return); return isRet },
			AcceptInstr: func(i ssa.Instruction) bool { return i == upd }}); x == nil {
			return call.Call.Args[k], true
		}
	}
	return nil, false
}

// OverlayRules: C18.O3 overlay-merge, C18.O4 overlay-write (also C12.O4).
func (c *Ctx) OverlayRules(prop string) {
	rule3 := "C18.O3 overlay-merge"
	rule4 := "C18.O4 overlay-write"
	impl := c.Role(rule3, pkgFetcher, "Service")
	if impl == nil {
		return
	}
	st := impl.Underlying().(*types.Struct)
	// field roles: maps of accounts per wallet: start-up and overlay (written by AddAccount); the RWMutex
	add := c.Method(rule4, impl, "AddAccount")
	fa := c.Method(rule3, impl, "FetchAccounts")
	fone := c.Method(rule3, impl, "FetchAccount")
	fkey := c.Method(rule3, impl, "FetchAccountByKey")
	if add == nil || fa == nil || fone == nil || fkey == nil {
		return
	}
	overlay := map[string]bool{}
	isFieldMap := func(v ssa.Value) (string, bool) {
		owner, f, _ := an.FieldOf(v)
		if owner == nil || namedOf(owner) != impl {
			return "", false
		}
		return f, true
	}
	var muKey string
	for _, ci := range Calls(add, func(ci ssa.CallInstruction) bool { _, ok := mutexOp(ci); return ok }) {
		op, _ := mutexOp(ci)
		muKey = op.Key()
	}
	if muKey == "" {
		c.R.Fail(rule4, Fn(add), c.P.FuncPos(add), "AddAccount takes no mutex", "overlay written under the write lock", nil)
		return
	}
	// overlay fields = fields whose maps AddAccount updates (directly or the inner map of)
	h := Held(add, muKey)
	nupd := 0
	for _, b := range add.Blocks {
		for _, ins := range b.Instrs {
			var root ssa.Value
			if mu, ok := ins.(*ssa.MapUpdate); ok {
				root, _, _ = innerMapOf(mu.Map, 0)
			} else if m, ok := mapPutCall(ins); ok {
				root = m
			} else {
				continue
			}
			if f, ok := isFieldMap(root); ok {
				overlay[f] = true
				nupd++
				if h.Before[ins] != 2 {
					c.R.Fail(rule4, Fn(add)+":"+f, c.Pos(ins), "the overlay map "+f+" is written without the write lock held", "AddAccount writes under "+muKey+".Lock()", nil)
				}
			}
		}
	}
	// which overlay holds accounts per wallet, which holds key->path
	var acctOverlay, keyOverlay, acctStart, keyStart string
	for i := 0; i < st.NumFields(); i++ {
		f := st.Field(i)
		mt, ok := f.Type().Underlying().(*types.Map)
		if !ok {
			continue
		}
		_, inner := mt.Elem().Underlying().(*types.Map)
		_, arrKey := mt.Key().Underlying().(*types.Array)
		switch {
		case inner && overlay[f.Name()]:
			acctOverlay = f.Name()
		case inner:
			acctStart = f.Name()
		case arrKey && overlay[f.Name()]:
			keyOverlay = f.Name()
		case arrKey:
			keyStart = f.Name()
		}
	}
	if acctOverlay == "" || keyOverlay == "" || acctStart == "" || keyStart == "" {
		c.R.Fail(rule4, Fn(add), c.P.FuncPos(add), fmt.Sprintf("AddAccount does not update both overlay maps (accounts per wallet: %q, key to path: %q)", acctOverlay, keyOverlay), "both rw maps updated", nil)
		return
	}
	// every nil-error return of AddAccount passes both updates
	{
		bad := false
		for _, want := range []string{acctOverlay, keyOverlay} {
			want := want
			isUpd := func(i ssa.Instruction) bool {
				if m, ok := mapPutCall(i); ok {
					f, _ := isFieldMap(m)
					return f == want
				}
				mu, ok := i.(*ssa.MapUpdate)
				if !ok {
					return false
				}
				root, inner, _ := innerMapOf(mu.Map, 0)
				if inner {
					// inner map: only the account insertion counts, not the creation of the inner map
					f, _ := isFieldMap(root)
					return f == want
				}
				f, _ := isFieldMap(root)
				if f != want {
					return false
				}
				// direct update of the outer accounts map (creating the inner map) does not count
				if _, isMake := mu.Value.(*ssa.MakeMap); isMake {
					return false
				}
				return true
			}
			for _, ret := range an.Returns(add) {
				if !isNilConst(unwrapErr(an.Result(ret, 0))) {
					continue
				}
				target := ssa.Instruction(ret)
				if x, path := an.Cut(an.CutQuery{From: an.Entry(add), Target: func(i ssa.Instruction) bool { return i == target }, AcceptInstr: isUpd}); x != nil {
					bad = true
					c.R.Fail(rule4, Fn(add)+":"+want, c.Pos(ret), "AddAccount can succeed without recording the account in "+want+" (lookups by "+map[bool]string{true: "name", false: "public key"}[want == acctOverlay]+" would miss it)", "both overlay maps updated on success", an.PathString(c.Pos, path))
				}
			}
		}
		if !bad {
			c.R.OK(rule4, Fn(add), c.P.FuncPos(add), "success passes the update of "+acctOverlay+" and of "+keyOverlay+", under the write lock")
		}
	}
	// start-up maps and overlay maps are written nowhere else
	nw := 0
	for _, fn := range c.P.ModuleFuncs() {
		if prog.PkgPathOf(fn) != impl.Obj().Pkg().Path() || fn.Blocks == nil {
			continue
		}
		for _, b := range fn.Blocks {
			for _, ins := range b.Instrs {
				var root ssa.Value
				switch x := ins.(type) {
				case *ssa.MapUpdate:
					root, _, _ = innerMapOf(x.Map, 0)
				case *ssa.Call:
					if m, ok := mapPutCall(x); ok {
						root = m
					}
					if bi, ok := x.Call.Value.(*ssa.Builtin); ok && (bi.Name() == "delete" || bi.Name() == "clear") {
						root = x.Call.Args[0]
						if lk, ok := root.(*ssa.Lookup); ok {
							root = lk.X
						}
					}
				}
				if root == nil {
					continue
				}
				f, ok := isFieldMap(root)
				if !ok {
					continue
				}
				nw++
				if fn != add {
					c.R.Fail(rule4, Fn(fn)+":"+f, c.Pos(ins), "the account cache field "+f+" is modified outside AddAccount (readers of the start-up maps take no lock)", "start-up maps are read-only after construction; overlay maps are written by AddAccount only", nil)
				}
			}
		}
	}
	c.R.Floor(rule4, "cache map writes", nw, 2)
	// ---- O3 merge in FetchAccounts
	{
		hfa := Held(fa, muKey)
		var startVal, overVal, overOK ssa.Value
		for _, b := range fa.Blocks {
			for _, ins := range b.Instrs {
				lk, ok := ins.(*ssa.Lookup)
				if !ok || !lk.CommaOk {
					continue
				}
				f, ok := isFieldMap(lk.X)
				if !ok {
					continue
				}
				for _, r := range *lk.Referrers() {
					if ex, ok := r.(*ssa.Extract); ok {
						if f == acctStart && ex.Index == 0 {
							startVal = ex
						}
						if f == acctOverlay && ex.Index == 0 {
							overVal = ex
						}
						if f == acctOverlay && ex.Index == 1 {
							overOK = ex
						}
					}
				}
				if f == acctOverlay && hfa.Before[ins]&(2|4) == 0 || (f == acctOverlay && hfa.Before[ins]&1 != 0) {
					c.R.Fail(rule3, Fn(fa)+":lock", c.Pos(ins), "the overlay is read without the lock", "overlay read under RLock", nil)
				}
			}
		}
		if startVal == nil || overVal == nil || overOK == nil {
			c.R.Fail(rule3, Fn(fa), c.P.FuncPos(fa), "the listing source does not consult both the start-up accounts and the overlay of dynamically added accounts", "lookup in both maps", nil)
		} else {
			bad := false
			nret := 0
			for _, ret := range an.Returns(fa) {
				if !isNilConst(unwrapErr(an.Result(ret, 1))) {
					continue
				}
				nret++
				v := an.Result(ret, 0)
				var alts []struct {
					v    ssa.Value
					site ssa.Instruction
				}
				if phi, ok := v.(*ssa.Phi); ok {
					for i, e := range phi.Edges {
						pred := phi.Block().Preds[i]
						alts = append(alts, struct {
							v    ssa.Value
							site ssa.Instruction
						}{e, pred.Instrs[len(pred.Instrs)-1]})
					}
				} else {
					alts = append(alts, struct {
						v    ssa.Value
						site ssa.Instruction
					}{v, ret})
				}
				for _, alt := range alts {
					switch {
					case alt.v == startVal:
						// allowed only when the overlay has nothing for this wallet
						site := alt.site
						if x, path := an.Cut(an.CutQuery{From: an.Entry(fa), Target: func(i ssa.Instruction) bool { return i == site },
							AcceptEdge: func(b *ssa.BasicBlock, i int, a *an.Atom) bool { return a != nil && a.Op == "false" && a.LV == overOK }}); x != nil {
							// the phi edge itself may be the !exists edge
							if e := edgeAtomTo(site.Block(), ret.Block()); e != nil && e.Op == "false" && e.LV == overOK {
								continue
							}
							bad = true
							c.R.Fail(rule3, Fn(fa), c.Pos(ret), "the start-up accounts alone are returned although the overlay holds dynamically created accounts for the wallet", "start-up map only below [overlay has no entry]", an.PathString(c.Pos, path))
						}
					case isMakeMap(alt.v) || isMergeHelperCall(alt.v):
						mfn, mmap, msite := fa, alt.v, alt.site
						srcOf := func(v ssa.Value) ssa.Value { return v }
						if hc, isCall := alt.v.(*ssa.Call); isCall {
							// a merge helper: its single return is a fresh map; its copy loops range over its parameters
							h := hc.Call.StaticCallee()
							rets := an.Returns(h)
							mfn, mmap, msite = h, an.Result(rets[0], 0), rets[0]
							srcOf = func(v ssa.Value) ssa.Value {
								if q, ok := v.(*ssa.Parameter); ok {
									for i, qq := range h.Params {
										if qq == q && i < len(hc.Call.Args) {
											return hc.Call.Args[i]
										}
									}
								}
								return v
							}
						}
						loops := mapCopyLoops(mfn, mmap)
						hasStart, hasOver := false, false
						site := msite
						for _, cl := range loops {
							cl := cl
							// the loop must be completed on every path to the return
							if x, _ := an.Cut(an.CutQuery{From: an.After(mmap.(*ssa.MakeMap)), Target: func(i ssa.Instruction) bool { return i == site },
								AcceptEdge: func(b *ssa.BasicBlock, i int, a *an.Atom) bool { return b == cl.Header && b.Succs[i] == cl.Done }}); x != nil {
								continue
							}
							if srcOf(cl.Src) == startVal {
								hasStart = true
							}
							if srcOf(cl.Src) == overVal {
								hasOver = true
							}
						}
						if !hasStart || !hasOver {
							bad = true
							c.R.Fail(rule3, Fn(fa), c.Pos(ret), fmt.Sprintf("the merged account map does not receive a full copy of both sources (start-up: %v, overlay: %v)", hasStart, hasOver), "for k,v := range startUp { m[k]=v }; for k,v := range overlay { m[k]=v }", nil)
						}
					default:
						bad = true
						c.R.Fail(rule3, Fn(fa), c.Pos(ret), "the accounts returned are neither the start-up map nor a merge of both maps: "+an.Term(alt.v), "start-up map (overlay absent) or merged copy", nil)
					}
				}
			}
			if nret == 0 {
				c.R.Unknown(rule3, Fn(fa), c.P.FuncPos(fa), "no success return found")
			} else if !bad {
				c.R.OK(rule3, Fn(fa), c.P.FuncPos(fa), "returns the start-up map only when the overlay has no entry, else a fresh map holding full copies of both; overlay read under the lock")
			}
		}
	}
	// single-account lookups consult the overlay too
	for _, fq := range []struct {
		fn  *ssa.Function
		fld string
	}{{fone, acctOverlay}, {fkey, keyOverlay}} {
		found := false
		// the lookup itself, or a same-receiver helper it calls (the lock is then judged inside that helper)
		scope := []*ssa.Function{fq.fn}
		for _, ci := range Calls(fq.fn, func(ci ssa.CallInstruction) bool {
			g := ci.Common().StaticCallee()
			return g != nil && g.Blocks != nil && !ci.Common().IsInvoke() && g.Signature.Recv() != nil && namedOf(g.Signature.Recv().Type()) == impl && g != fone && g != fkey && g != fa && g != add
		}) {
			scope = append(scope, ci.Common().StaticCallee())
		}
		for _, g := range scope {
			hq := Held(g, muKey)
			for _, b := range g.Blocks {
				for _, ins := range b.Instrs {
					if lk, ok := ins.(*ssa.Lookup); ok {
						if f, ok := isFieldMap(lk.X); ok && f == fq.fld {
							found = true
							if hq.Before[ins]&1 != 0 {
								c.R.Fail(rule3, Fn(g)+":lock", c.Pos(ins), "the overlay is read without the lock", "overlay read under RLock", nil)
							}
						}
					}
					// the overlay map handed to a lookup helper (which performs a Lookup on that parameter): the lock is judged here
					if call, ok := ins.(*ssa.Call); ok && !call.Call.IsInvoke() {
						h := call.Call.StaticCallee()
						if h == nil || !prog.InModule(h) || h.Blocks == nil {
							continue
						}
						for ai, a := range call.Call.Args {
							f, ok := isFieldMap(a)
							if !ok || f != fq.fld || ai >= len(h.Params) {
								continue
							}
							looksUp := false
							for _, hb := range h.Blocks {
								for _, hi := range hb.Instrs {
									if lk, ok := hi.(*ssa.Lookup); ok {
										if r, _, _ := innerMapOf(lk.X, 0); r == ssa.Value(h.Params[ai]) || lk.X == ssa.Value(h.Params[ai]) {
											looksUp = true
										}
									}
								}
							}
							if looksUp {
								found = true
								if hq.Before[ins]&1 != 0 {
									c.R.Fail(rule3, Fn(g)+":lock", c.Pos(ins), "the overlay is read without the lock", "overlay read under RLock", nil)
								}
							}
						}
					}
				}
			}
		}
		if !found {
			c.R.Fail(rule3, Fn(fq.fn), c.P.FuncPos(fq.fn), "the lookup does not consult the overlay "+fq.fld+": accounts created after start-up cannot be found", "fallback to the overlay", nil)
		} else {
			c.R.OK(rule3, Fn(fq.fn), c.P.FuncPos(fq.fn), "falls back to the overlay "+fq.fld+" under the lock")
		}
	}
	_ = strings.Contains
}

func isMakeMap(v ssa.Value) bool { _, ok := v.(*ssa.MakeMap); return ok }

// isMergeHelperCall: v is a static call of a module helper whose single return yields a map made in the helper.
func isMergeHelperCall(v ssa.Value) bool {
	call, ok := v.(*ssa.Call)
	if !ok || call.Call.IsInvoke() {
		return false
	}
	h := call.Call.StaticCallee()
	if h == nil || !prog.InModule(h) || h.Blocks == nil {
		return false
	}
	rets := an.Returns(h)
	if len(rets) != 1 || len(rets[0].Results) != 1 {
		return false
	}
	return isMakeMap(an.Result(rets[0], 0))
}

// LookupsReadOnly (C18.O7 fetcher.lookups-read-only): what a lookup answers is a function of the account maps - the start-up
// maps and the overlay AddAccount maintains (C18.O3/O4). The lookups themselves (FetchWallet, FetchAccounts, FetchAccount,
// FetchAccountByKey, with the same-receiver helpers they call) write no state of the fetcher: no store into a field of the
// service or into a map held by one, no mutation of a sync.Map field. A cache filled on the lookup path (positive or
// negative) is a second source of answers that AddAccount then has to keep in step - an account created at run time that was
// asked for too early stays "unknown".
func (c *Ctx) LookupsReadOnly(prop string) {
	rule := "C18.O7 fetcher.lookups-read-only"
	impl := c.Role(rule, pkgFetcher, "Service")
	if impl == nil {
		return
	}
	n := 0
	for _, name := range []string{"FetchWallet", "FetchAccounts", "FetchAccount", "FetchAccountByKey"} {
		F := c.P.Method(impl, name)
		if F == nil || F.Blocks == nil {
			continue
		}
		n++
		unit := map[*ssa.Function]bool{}
		var collect func(f *ssa.Function, d int)
		collect = func(f *ssa.Function, d int) {
			if f == nil || unit[f] || f.Blocks == nil || d > 3 {
				return
			}
			unit[f] = true
			for _, g := range WithClosures(f) {
				unit[g] = true
				for _, ci := range Calls(g, func(ssa.CallInstruction) bool { return true }) {
					cal := ci.Common().StaticCallee()
					if cal != nil && !ci.Common().IsInvoke() && cal.Signature.Recv() != nil && namedOf(cal.Signature.Recv().Type()) == impl {
						collect(cal, d+1)
					}
				}
			}
		}
		collect(F, 0)
		ofService := func(v ssa.Value) bool {
			for i := 0; i < 8 && v != nil; i++ {
				switch x := v.(type) {
				case *ssa.FieldAddr:
					if namedOf(x.X.Type()) == impl {
						return true
					}
					v = x.X
				case *ssa.UnOp:
					v = x.X
				case *ssa.IndexAddr:
					v = x.X
				case *ssa.Lookup:
					v = x.X
				case *ssa.Extract:
					v = x.Tuple
				default:
					return false
				}
			}
			return false
		}
		bad := 0
		var fns []*ssa.Function
		for f := range unit {
			fns = append(fns, f)
		}
		sort.Slice(fns, func(i, j int) bool { return fns[i].String() < fns[j].String() })
		for _, f := range fns {
			for _, b := range f.Blocks {
				for _, ins := range b.Instrs {
					what := ""
					switch x := ins.(type) {
					case *ssa.Store:
						if ofService(x.Addr) {
							what = "stores into " + an.Term(x.Addr)
						}
					case *ssa.MapUpdate:
						if ofService(x.Map) {
							what = "updates a map of the service"
						}
					case ssa.CallInstruction:
						if op, ok := isSyncMapOp(x); ok && op != "Load" && op != "Range" && len(x.Common().Args) > 0 && ofService(x.Common().Args[0]) {
							what = "calls " + op + " on a sync.Map of the service"
						}
						if cal := x.Common().StaticCallee(); cal != nil && cal.Pkg != nil && cal.Pkg.Pkg.Path() == "sync/atomic" && len(x.Common().Args) > 0 && ofService(x.Common().Args[0]) && !strings.HasPrefix(cal.Name(), "Load") {
							what = "writes an atomic of the service"
						}
					}
					if what != "" {
						bad++
						c.R.Fail(rule, Fn(F)+":"+Fn(f), c.Pos(ins), "a lookup "+what+": its later answers no longer depend on the account maps alone (a cache filled on the lookup path has to be kept in step by AddAccount)", "lookups write no state of the fetcher", nil)
					}
				}
			}
		}
		if bad == 0 {
			c.R.OK(rule, Fn(F), c.P.FuncPos(F), fmt.Sprintf("%d functions on the lookup path write no state of the fetcher", len(unit)))
		}
	}
	c.R.Floor(rule, "fetcher lookups", n, 4)
}
