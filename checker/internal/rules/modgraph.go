package rules

import (
	"go/types"
	"sort"

	"dirkcheck/internal/prog"

	"golang.org/x/tools/go/ssa"
)

// ModGraph is a call graph over module functions with lexical closure edges (P5): a closure is entered from the
// function that creates it, and dynamic calls of function-typed *parameters* (higher-order helpers such as
// util.Scatter) are not followed, so closures passed to one helper by different callers are not merged.
type ModGraph struct {
	Out map[*ssa.Function][]*ssa.Function
	In  map[*ssa.Function][]*ssa.Function
	// Sites records one call site per edge for reporting.
	Site map[[2]*ssa.Function]ssa.Instruction
	// Unresolved dynamic calls (function values that are neither parameters nor resolvable).
	Unresolved []ssa.CallInstruction
}

// ModGraph builds (once) the module graph using VTA for interface invokes.
func (c *Ctx) ModGraph() *ModGraph {
	if g, ok := c.memo["modgraph"].(*ModGraph); ok {
		return g
	}
	g := &ModGraph{Out: map[*ssa.Function][]*ssa.Function{}, In: map[*ssa.Function][]*ssa.Function{}, Site: map[[2]*ssa.Function]ssa.Instruction{}}
	c.memo["modgraph"] = g
	add := func(from, to *ssa.Function, site ssa.Instruction) {
		if to == nil || !prog.InModule(to) {
			return
		}
		k := [2]*ssa.Function{from, to}
		if _, dup := g.Site[k]; dup {
			return
		}
		g.Site[k] = site
		g.Out[from] = append(g.Out[from], to)
		g.In[to] = append(g.In[to], from)
	}
	for _, fn := range c.P.ModuleFuncs() {
		for _, b := range fn.Blocks {
			for _, ins := range b.Instrs {
				switch x := ins.(type) {
				case *ssa.MakeClosure:
					add(fn, x.Fn.(*ssa.Function), ins)
				case ssa.CallInstruction:
					cc := x.Common()
					if f := cc.StaticCallee(); f != nil {
						add(fn, f, ins)
						// method values / function values passed as arguments to third-party code: follow them lexically
						continue
					}
					if _, isB := cc.Value.(*ssa.Builtin); isB {
						continue
					}
					if cc.IsInvoke() {
						for _, f := range c.P.Callees(x) {
							add(fn, f, ins)
						}
						if c.UseCHA {
							// thorough tier: also every class-hierarchy callee that is not in a mock/testing package
							if n := c.P.CHA().Nodes[fn]; n != nil {
								for _, e := range n.Out {
									if e.Site == x && e.Callee.Func != nil && !prog.IsTestish(prog.PkgPathOf(e.Callee.Func)) {
										add(fn, e.Callee.Func, ins)
									}
								}
							}
						}
						continue
					}
					// dynamic call of a function value
					if isParamOrCell(cc.Value) {
						continue // higher-order parameter: lexical edges cover it
					}
					cs := c.P.Callees(x)
					if len(cs) == 0 {
						g.Unresolved = append(g.Unresolved, x)
					}
					for _, f := range cs {
						add(fn, f, ins)
					}
				}
				// function values escaping as operands (e.g. handler registration, method values): add lexical edge
				for _, op := range ins.Operands(nil) {
					if op == nil || *op == nil {
						continue
					}
					if f, ok := (*op).(*ssa.Function); ok {
						if ci, isCall := ins.(ssa.CallInstruction); isCall && ci.Common().Value == ssa.Value(f) {
							continue
						}
						add(fn, f, ins)
					}
				}
			}
		}
	}
	// bound-method and thunk wrappers (`s.method` used as a value) are synthetic and not among the module's source functions:
	// give each one reached above its own out-edges (the wrapped method)
	{
		src := map[*ssa.Function]bool{}
		for _, fn := range c.P.ModuleFuncs() {
			src[fn] = true
		}
		var work []*ssa.Function
		for to := range g.In {
			if !src[to] && to.Synthetic != "" && to.Blocks != nil {
				work = append(work, to)
			}
		}
		sort.Slice(work, func(i, j int) bool { return work[i].String() < work[j].String() })
		done := map[*ssa.Function]bool{}
		for len(work) > 0 {
			w := work[0]
			work = work[1:]
			if done[w] {
				continue
			}
			done[w] = true
			for _, b := range w.Blocks {
				for _, ins := range b.Instrs {
					ci, ok := ins.(ssa.CallInstruction)
					if !ok {
						continue
					}
					var callees []*ssa.Function
					if f := ci.Common().StaticCallee(); f != nil {
						callees = append(callees, f)
					} else if ci.Common().IsInvoke() {
						callees = c.P.Callees(ci)
					}
					for _, f := range callees {
						add(w, f, ins)
						if !src[f] && f.Synthetic != "" && f.Blocks != nil {
							work = append(work, f)
						}
					}
				}
			}
		}
	}
	// interface method sets handed to third-party registries (gRPC): a MakeInterface of a module type into a
	// non-module interface makes all its methods callable by the outside world; model as edges from the registering function.
	for _, fn := range c.P.ModuleFuncs() {
		for _, b := range fn.Blocks {
			for _, ins := range b.Instrs {
				mi, ok := ins.(*ssa.MakeInterface)
				if !ok {
					continue
				}
				named := namedOf(mi.X.Type())
				if named == nil || named.Obj().Pkg() == nil || !prog.IsModulePath(named.Obj().Pkg().Path()) {
					continue
				}
				it := namedOf(mi.Type())
				if it == nil || it.Obj().Pkg() == nil || prog.IsModulePath(it.Obj().Pkg().Path()) {
					continue
				}
				iface, ok := it.Underlying().(*types.Interface)
				if !ok {
					continue
				}
				for i := 0; i < iface.NumMethods(); i++ {
					if f := c.P.Method(named, iface.Method(i).Name()); f != nil {
						add(fn, f, ins)
					}
				}
			}
		}
	}
	for k := range g.Out {
		sort.Slice(g.Out[k], func(i, j int) bool { return g.Out[k][i].String() < g.Out[k][j].String() })
	}
	return g
}

func namedOf(t types.Type) *types.Named {
	if p, ok := t.(*types.Pointer); ok {
		t = p.Elem()
	}
	n, _ := t.(*types.Named)
	return n
}

func isParamOrCell(v ssa.Value) bool {
	switch x := v.(type) {
	case *ssa.Parameter:
		return true
	case *ssa.FreeVar:
		return true
	case *ssa.UnOp:
		return isParamOrCell(x.X)
	case *ssa.Alloc:
		return true
	case *ssa.Phi:
		return false
	}
	return false
}

// Reach returns the functions reachable from roots without entering any function in `without`.
func (g *ModGraph) Reach(roots []*ssa.Function, without map[*ssa.Function]bool) map[*ssa.Function]*ssa.Function {
	pred := map[*ssa.Function]*ssa.Function{}
	var st []*ssa.Function
	for _, r := range roots {
		if r != nil && !without[r] {
			if _, ok := pred[r]; !ok {
				pred[r] = nil
				st = append(st, r)
			}
		}
	}
	for len(st) > 0 {
		f := st[0]
		st = st[1:]
		for _, t := range g.Out[f] {
			if without[t] {
				continue
			}
			if _, ok := pred[t]; !ok {
				pred[t] = f
				st = append(st, t)
			}
		}
	}
	return pred
}

// PathTo renders the path root..f from a Reach result.
func PathTo(pred map[*ssa.Function]*ssa.Function, f *ssa.Function) []string {
	var out []string
	for x := f; x != nil; x = pred[x] {
		out = append([]string{Fn(x)}, out...)
		if len(out) > 40 {
			break
		}
	}
	return out
}
