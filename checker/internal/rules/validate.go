package rules

import (
	"fmt"
	"go/token"
	"go/types"
	"sort"
	"strings"

	"dirkcheck/internal/an"
	"dirkcheck/internal/prog"

	"golang.org/x/tools/go/ssa"
)

// objRef describes a value as (a field path below) a request-data object.
type objRef struct {
	T     *types.Named // request data type
	Param *ssa.Parameter
	Elem  bool      // element of a []*T parameter
	Idx   ssa.Value // index value for elements
	Path  string    // "" = the object itself, else one field name (pointer or slice typed)
}

func isReqDataType(t types.Type) *types.Named {
	if p, ok := t.(*types.Pointer); ok {
		t = p.Elem()
	}
	n, ok := t.(*types.Named)
	if !ok || n.Obj().Pkg() == nil || n.Obj().Pkg().Path() != pkgRules {
		return nil
	}
	switch n.Obj().Name() {
	case "SignData", "SignBeaconAttestationData", "SignBeaconProposalData":
		return n
	}
	return nil
}

// objOf resolves v (a *T value) to a parameter or an element of a slice parameter of its function family.
func objOf(v ssa.Value) (objRef, bool) {
	T := isReqDataType(v.Type())
	if T == nil {
		return objRef{}, false
	}
	for i := 0; i < 6; i++ {
		switch x := v.(type) {
		case *ssa.Parameter:
			return objRef{T: T, Param: x}, true
		case *ssa.UnOp:
			if inner, ok := an.ResolveCell(x.X); ok {
				v = inner
				continue
			}
			if ia, ok := x.X.(*ssa.IndexAddr); ok {
				root := sliceRootExact(ia.X)
				if p, ok := root.(*ssa.Parameter); ok {
					return objRef{T: T, Param: p, Elem: true, Idx: ia.Index}, true
				}
			}
			return objRef{}, false
		case *ssa.FreeVar:
			if b := closureBindingOf(x); b != nil {
				v = b
				continue
			}
			return objRef{}, false
		default:
			return objRef{}, false
		}
	}
	return objRef{}, false
}

// fieldRef resolves v = load(o.F) for a request-data object o.
func fieldRef(v ssa.Value) (objRef, bool) {
	owner, f, base := an.FieldOf(v)
	if owner == nil || isReqDataType(owner) == nil {
		return objRef{}, false
	}
	o, ok := objOf(base)
	if !ok {
		return objRef{}, false
	}
	o.Path = f
	return o, true
}

func (o objRef) same(p objRef) bool {
	return o.T == p.T && o.Param == p.Param && o.Elem == p.Elem && o.Path == p.Path && (!o.Elem || o.Idx == p.Idx)
}

func (o objRef) String() string {
	s := o.T.Obj().Name()
	if o.Path != "" {
		s += "." + o.Path
	}
	return s
}

// refAtom judges whether an atom establishes the needed fact about ref.
type refAtom func(a *an.Atom, ref objRef) bool

// minLenAtom returns a judge for "len(ref) >= n".
func minLenAtom(n int64) refAtom {
	return func(a *an.Atom, ref objRef) bool {
		if a == nil {
			return false
		}
		lenOf := func(v ssa.Value) bool {
			call, ok := v.(*ssa.Call)
			if !ok || !isBuiltin(call, "len") {
				return false
			}
			r, ok := fieldRef(call.Call.Args[0])
			return ok && r.same(ref)
		}
		switch a.Op {
		case "==":
			for _, side := range [][2]ssa.Value{{a.LV, a.RV}, {a.RV, a.LV}} {
				if k, ok := constIntOf(side[1]); ok && lenOf(side[0]) && k >= n {
					return true
				}
			}
		case "<=":
			if k, ok := constIntOf(a.LV); ok && lenOf(a.RV) && k >= n {
				return true
			}
		case "<":
			if k, ok := constIntOf(a.LV); ok && lenOf(a.RV) && k >= n-1 {
				return true
			}
		}
		return false
	}
}

// nonNilAtomFor: atom establishes that ref (object or field) is non-nil.
func nonNilAtomFor(a *an.Atom, ref objRef) bool {
	if a == nil || a.Op != "!=" {
		return false
	}
	for _, side := range [][2]ssa.Value{{a.LV, a.RV}, {a.RV, a.LV}} {
		if !isNilConst(side[1]) {
			continue
		}
		var r objRef
		var ok bool
		if ref.Path == "" {
			r, ok = objOf(side[0])
		} else {
			r, ok = fieldRef(side[0])
		}
		if ok && r.same(ref) {
			return true
		}
	}
	return false
}

// helperKSites: atom a states that a call of a module helper yielded a particular constant K (nil error, "" or another
// string/integer constant, true/false). It returns the call and, for every return of the helper that can yield K, either the
// site to cut (constant returns) or the condition atom that then holds (`return cond`). ok=false if a is not of that form or
// the helper has a return that cannot be classified.
func helperKSites(a *an.Atom) (call *ssa.Call, sites []ssa.Instruction, conds []*an.Atom, ok bool) {
	if a == nil {
		return nil, nil, nil, false
	}
	var want *ssa.Const
	wantBool, isBool := false, false
	switch a.Op {
	case "==":
		for _, side := range [][2]ssa.Value{{a.LV, a.RV}, {a.RV, a.LV}} {
			k, isK := side[1].(*ssa.Const)
			if !isK {
				continue
			}
			if cl, isCall := unwrapErr(side[0]).(*ssa.Call); isCall {
				call, want = cl, k
			} else if ex, isEx := unwrapErr(side[0]).(*ssa.Extract); isEx {
				if cl, isCall := ex.Tuple.(*ssa.Call); isCall {
					call, want = cl, k
				}
			}
		}
	case "true", "false":
		if cl, isCall := a.LV.(*ssa.Call); isCall {
			call, isBool, wantBool = cl, true, a.Op == "true"
		}
	}
	if call == nil {
		return nil, nil, nil, false
	}
	h := call.Call.StaticCallee()
	if h == nil || !prog.InModule(h) || h.Blocks == nil || call.Call.IsInvoke() {
		return nil, nil, nil, false
	}
	idx := 0
	if !isBool && want.Value == nil {
		// nil: the error result
		idx = errResultIndex(h)
		if idx < 0 {
			return nil, nil, nil, false
		}
	} else if h.Signature.Results().Len() != 1 {
		return nil, nil, nil, false
	}
	for _, ret := range an.Returns(h) {
		if idx >= len(ret.Results) {
			return nil, nil, nil, false
		}
		v := an.Result(ret, idx)
		if !isBool && want.Value == nil {
			v = unwrapErr(v)
		}
		type cand struct {
			v    ssa.Value
			site ssa.Instruction
		}
		var cands []cand
		if phi, isPhi := v.(*ssa.Phi); isPhi {
			for j, e := range phi.Edges {
				pred := phi.Block().Preds[j]
				cands = append(cands, cand{e, pred.Instrs[len(pred.Instrs)-1]})
			}
		} else {
			cands = append(cands, cand{v, ret})
		}
		for _, cd := range cands {
			k, isK := cd.v.(*ssa.Const)
			switch {
			case isBool && isK:
				if (an.Term(k) == "true") == wantBool {
					sites = append(sites, cd.site)
				}
			case isBool:
				conds = append(conds, an.CondAtom(cd.v, wantBool))
				sites = append(sites, cd.site) // the site is also acceptable if cut
			case isK:
				if an.Term(k) == an.Term(want) {
					sites = append(sites, cd.site)
				}
			default:
				if want.Value == nil {
					// a non-constant error value may be nil at run time (`return validate(x)`): only a freshly constructed error,
					// or (a wrap of) an error value tested non-nil on every path to this return, is a failure for sure
					if errorSurelyNonNil(cd.v, cd.site, h) {
						continue
					}
					sites = append(sites, cd.site)
					continue
				}
				return nil, nil, nil, false
			}
		}
	}
	return call, sites, conds, true
}

// errorSurelyNonNil: error value v returned at `site` of fn is never nil there: built by an error constructor, or a (wrapped)
// error value e with every path to the site passing [e != nil].
func errorSurelyNonNil(v ssa.Value, site ssa.Instruction, fn *ssa.Function) bool {
	e := unwrapErr(v)
	for k := 0; k < 4; k++ {
		call, ok := e.(*ssa.Call)
		if !ok || call.Call.StaticCallee() == nil {
			break
		}
		switch call.Call.StaticCallee().String() {
		case "fmt.Errorf", "errors.New", "github.com/pkg/errors.New", "github.com/pkg/errors.Errorf":
			return true
		case "github.com/pkg/errors.Wrap", "github.com/pkg/errors.Wrapf", "github.com/pkg/errors.WithStack", "github.com/pkg/errors.WithMessage":
			if len(call.Call.Args) == 0 {
				return false
			}
			e = unwrapErr(call.Call.Args[0])
			continue
		}
		break
	}
	if _, isGlobalLoad := e.(*ssa.UnOp); isGlobalLoad {
		if u := e.(*ssa.UnOp); u != nil {
			if _, isG := u.X.(*ssa.Global); isG {
				return true // a sentinel error variable
			}
		}
	}
	x, _ := an.Cut(an.CutQuery{From: an.Entry(fn), Target: func(i ssa.Instruction) bool { return i == site },
		AcceptEdge: func(b *ssa.BasicBlock, i int, a *an.Atom) bool {
			return a != nil && a.Op == "!=" && ((sameFieldLoadIn(a.LV, e, fn) && isNilConst(a.RV)) || (sameFieldLoadIn(a.RV, e, fn) && isNilConst(a.LV)))
		}})
	return x == nil
}

// sameFieldLoadIn: a and b are the same value, or two loads of one field of one object that fn never stores to (go/ssa does
// not merge repeated loads: `if o.err != nil { return wrap(o.err) }` reads the field twice).
func sameFieldLoadIn(a, b ssa.Value, fn *ssa.Function) bool {
	if a == b {
		return true
	}
	ua, ok1 := a.(*ssa.UnOp)
	ub, ok2 := b.(*ssa.UnOp)
	if !ok1 || !ok2 || ua.Op != token.MUL || ub.Op != token.MUL {
		return false
	}
	fa, ok1 := ua.X.(*ssa.FieldAddr)
	fb, ok2 := ub.X.(*ssa.FieldAddr)
	if !ok1 || !ok2 || fa.X != fb.X || fa.Field != fb.Field {
		return false
	}
	for _, blk := range fn.Blocks {
		for _, ins := range blk.Instrs {
			if st, ok := ins.(*ssa.Store); ok {
				if sa, ok := st.Addr.(*ssa.FieldAddr); ok && sa.Field == fa.Field && types.Identical(sa.X.Type(), fa.X.Type()) {
					return false
				}
			}
		}
	}
	return true
}

// helperEstablishes: atom a is the K-result of a helper that received (as argument accepted by matchArg) the object of
// interest, and every K-return of the helper is cut by the edges accepted by judgeIn(helper, parameter).
func helperEstablishes(a *an.Atom, matchArg func(ssa.Value) bool, judgeIn func(h *ssa.Function, prm *ssa.Parameter) func(*an.Atom) bool) bool {
	call, sites, conds, ok := helperKSites(a)
	if !ok || len(sites) == 0 {
		return false
	}
	h := call.Call.StaticCallee()
	for ai, arg := range call.Call.Args {
		if ai >= len(h.Params) || !matchArg(arg) {
			continue
		}
		judge := judgeIn(h, h.Params[ai])
		if judge == nil {
			continue
		}
		good := true
		for k, site := range sites {
			site := site
			// `return cond` with cond itself establishing the fact
			_ = k
			if x, _ := an.Cut(an.CutQuery{From: an.Entry(h), Target: func(i ssa.Instruction) bool { return i == site },
				AcceptEdge: func(b *ssa.BasicBlock, i int, e *an.Atom) bool { return judge(e) }}); x != nil {
				okCond := false
				for _, ca := range conds {
					if judge(ca) {
						okCond = true
					}
				}
				if !okCond {
					good = false
					break
				}
			}
		}
		if good {
			return true
		}
	}
	return false
}

// forallGuardLoops returns full-range loops over slice parameter p of fn in which an iteration continues only past
// [p[i](.path) != nil], directly or through a per-element helper whose nil-error returns imply it.
func (c *Ctx) forallGuardLoops(fn *ssa.Function, p *ssa.Parameter, T *types.Named, path string, judge refAtom) []*Loop {
	var out []*Loop
	for _, l := range FindLoops(fn) {
		if !l.FullRange || l.BoundLen != ssa.Value(p) {
			continue
		}
		l := l
		ref := objRef{T: T, Param: p, Elem: true, Idx: l.Idx, Path: path}
		hdr := l.Header
		x, _ := an.Cut(an.CutQuery{From: an.Point{Block: l.BodyFirst, Idx: 0}, Target: func(i ssa.Instruction) bool { return i == hdr.Instrs[0] },
			AcceptEdge: func(b *ssa.BasicBlock, i int, a *an.Atom) bool {
				if judge(a, ref) {
					return true
				}
				// the K-result of a per-element helper (nil error, "" problem, true/false ...)
				if helperEstablishes(a, func(arg ssa.Value) bool {
					r, ok := objOf(arg)
					return ok && r.same(objRef{T: T, Param: p, Elem: true, Idx: l.Idx})
				}, func(h *ssa.Function, prm *ssa.Parameter) func(*an.Atom) bool {
					ref := objRef{T: T, Param: prm, Path: path}
					return func(e *an.Atom) bool { return judge(e, ref) }
				}) {
					return true
				}
				return false
			}})
		if x == nil {
			out = append(out, l)
		}
	}
	return out
}

// helperImpliesNonNil: every nil-error return of helper h is cut by [param(.path) != nil].
func (c *Ctx) helperImpliesNonNil(h *ssa.Function, prm *ssa.Parameter, T *types.Named, path string, judge refAtom) bool {
	k := errResultIndex(h)
	if k < 0 {
		return false
	}
	ref := objRef{T: T, Param: prm, Path: path}
	any := false
	for _, ret := range an.Returns(h) {
		if !isNilConst(unwrapErr(an.Result(ret, k))) {
			continue
		}
		any = true
		target := ssa.Instruction(ret)
		if x, _ := an.Cut(an.CutQuery{From: an.Entry(h), Target: func(i ssa.Instruction) bool { return i == target },
			AcceptEdge: func(b *ssa.BasicBlock, i int, a *an.Atom) bool { return judge(a, ref) }}); x != nil {
			return false
		}
	}
	return any
}

// sliceHelperImpliesNonNil: helper h taking the whole list returns a nil error only after a forall-guard loop for path.
func (c *Ctx) sliceHelperImpliesNonNil(h *ssa.Function, prm *ssa.Parameter, T *types.Named, path string, judge refAtom) bool {
	k := errResultIndex(h)
	if k < 0 {
		return false
	}
	loops := c.forallGuardLoops(h, prm, T, path, judge)
	if len(loops) == 0 {
		return false
	}
	for _, ret := range an.Returns(h) {
		if !isNilConst(unwrapErr(an.Result(ret, k))) {
			continue
		}
		target := ssa.Instruction(ret)
		okAny := false
		for _, l := range loops {
			hdr, exitB := l.Header, l.Exit
			if x, _ := an.Cut(an.CutQuery{From: an.Entry(h), Target: func(i ssa.Instruction) bool { return i == target },
				AcceptEdge: func(b *ssa.BasicBlock, i int, a *an.Atom) bool { return b == hdr && b.Succs[i] == exitB }}); x == nil {
				okAny = true
			}
		}
		if !okAny {
			return false
		}
	}
	return true
}

// established: is ref non-nil on every path from fn's entry to site? (local tests, forall loops, validation helpers)
func (c *Ctx) established(fn *ssa.Function, site ssa.Instruction, ref objRef, judge refAtom) bool {
	// direct local test
	if x, _ := an.Cut(an.CutQuery{From: an.Entry(fn), Target: func(i ssa.Instruction) bool { return i == site },
		AcceptEdge: func(b *ssa.BasicBlock, i int, a *an.Atom) bool {
			if judge(a, ref) {
				return true
			}
			// per-object helper: the K-result of helper(obj)
			if !ref.Elem && helperEstablishes(a, func(arg ssa.Value) bool {
				r, ok := objOf(arg)
				return ok && r.same(objRef{T: ref.T, Param: ref.Param})
			}, func(h *ssa.Function, prm *ssa.Parameter) func(*an.Atom) bool {
				r2 := objRef{T: ref.T, Param: prm, Path: ref.Path}
				return func(e *an.Atom) bool { return judge(e, r2) }
			}) {
				return true
			}
			return false
		}}); x == nil {
		return true
	}
	if !ref.Elem {
		return false
	}
	// forall loop over the list, completed before the site
	for _, l := range c.forallGuardLoops(fn, ref.Param, ref.T, ref.Path, judge) {
		hdr, exitB := l.Header, l.Exit
		if x, _ := an.Cut(an.CutQuery{From: an.Entry(fn), Target: func(i ssa.Instruction) bool { return i == site },
			AcceptEdge: func(b *ssa.BasicBlock, i int, a *an.Atom) bool { return b == hdr && b.Succs[i] == exitB }}); x == nil {
			return true
		}
	}
	// whole-list validation helper with err == nil
	if x, _ := an.Cut(an.CutQuery{From: an.Entry(fn), Target: func(i ssa.Instruction) bool { return i == site },
		AcceptEdge: func(b *ssa.BasicBlock, i int, a *an.Atom) bool {
			if a == nil || a.Op != "==" {
				return false
			}
			for _, side := range [][2]ssa.Value{{a.LV, a.RV}, {a.RV, a.LV}} {
				if !isNilConst(side[1]) {
					continue
				}
				if call, ok := unwrapErr(side[0]).(*ssa.Call); ok {
					cal := call.Call.StaticCallee()
					if cal == nil || !prog.InModule(cal) || cal.Blocks == nil {
						continue
					}
					for ai, arg := range call.Call.Args {
						if sliceRootExact(arg) == ssa.Value(ref.Param) && ai < len(cal.Params) && c.sliceHelperImpliesNonNil(cal, cal.Params[ai], ref.T, ref.Path, judge) {
							return true
						}
					}
				}
			}
			return false
		}}); x == nil {
		return true
	}
	return false
}

// need is one unguarded use of a request-data field.
type need struct {
	Ref    objRef
	Site   ssa.Instruction
	Fn     *ssa.Function
	What   string
	MinLen int64 // > 0: the field must have at least this many bytes (array conversion); 0: non-nil suffices
}

func (n need) judge() refAtom {
	if n.MinLen > 0 {
		return minLenAtom(n.MinLen)
	}
	return nonNilAtomFor
}

func (n need) key() string {
	if n.MinLen > 0 {
		return n.Ref.Path + fmt.Sprintf("#len>=%d", n.MinLen)
	}
	return n.Ref.Path
}

// arrayConvNeeds: byte-slice parameters of fn that are converted to an array (panics when shorter) without a local length test.
func arrayConvNeeds(fn *ssa.Function) map[int]int64 {
	out := map[int]int64{}
	for _, b := range fn.Blocks {
		for _, ins := range b.Instrs {
			sp, ok := ins.(*ssa.SliceToArrayPointer)
			if !ok {
				continue
			}
			p, ok := sp.X.(*ssa.Parameter)
			if !ok {
				continue
			}
			at, ok := sp.Type().(*types.Pointer).Elem().Underlying().(*types.Array)
			if !ok {
				continue
			}
			// local guard len(p) >= N ?
			target := ssa.Instruction(sp)
			if x, _ := an.Cut(an.CutQuery{From: an.Entry(fn), Target: func(i ssa.Instruction) bool { return i == target },
				AcceptEdge: func(b *ssa.BasicBlock, i int, a *an.Atom) bool {
					if a == nil {
						return false
					}
					isLen := func(v ssa.Value) bool {
						call, ok := v.(*ssa.Call)
						return ok && isBuiltin(call, "len") && call.Call.Args[0] == ssa.Value(p)
					}
					if a.Op == "==" {
						for _, side := range [][2]ssa.Value{{a.LV, a.RV}, {a.RV, a.LV}} {
							if k, ok := constIntOf(side[1]); ok && isLen(side[0]) && k >= at.Len() {
								return true
							}
						}
					}
					if k, ok := constIntOf(a.LV); ok && isLen(a.RV) && ((a.Op == "<=" && k >= at.Len()) || (a.Op == "<" && k >= at.Len()-1)) {
						return true
					}
					return false
				}}); x == nil {
				continue
			}
			for i, pp := range fn.Params {
				if pp == p {
					out[i] = at.Len()
				}
			}
		}
	}
	return out
}

// usesIn lists dereferences / constant slicings of request-data objects and their pointer/slice fields in fn (own body only),
// restricted to instructions satisfying inScope.
func usesIn(fn *ssa.Function, inScope func(ssa.Instruction) bool) []need {
	var out []need
	for _, b := range fn.Blocks {
		for _, ins := range b.Instrs {
			if inScope != nil && !inScope(ins) {
				continue
			}
			switch x := ins.(type) {
			case *ssa.FieldAddr:
				// deref of the object itself
				if o, ok := objOf(x.X); ok {
					out = append(out, need{Ref: o, Site: ins, Fn: fn, What: "field access through the request data pointer"})
					continue
				}
				// deref of a pointer field
				if r, ok := fieldRef(x.X); ok {
					out = append(out, need{Ref: r, Site: ins, Fn: fn, What: "field access through " + r.String()})
				}
			case *ssa.SliceToArrayPointer:
				if r, ok := fieldRef(x.X); ok {
					if at, ok := x.Type().(*types.Pointer).Elem().Underlying().(*types.Array); ok {
						out = append(out, need{Ref: r, Site: ins, Fn: fn, What: fmt.Sprintf("conversion of %s to a %d-byte array (panics when shorter)", r.String(), at.Len()), MinLen: at.Len()})
					}
				}
			case *ssa.Slice:
				if x.High == nil {
					continue
				}
				if _, isConst := x.High.(*ssa.Const); !isConst {
					continue
				}
				if r, ok := fieldRef(x.X); ok {
					out = append(out, need{Ref: r, Site: ins, Fn: fn, What: "constant-bound slicing of " + r.String()})
				}
			}
		}
	}
	return out
}

// unguardedNeeds returns the needs of fn w.r.t. its own parameters: uses not established locally, plus the needs of
// module callees (same request object passed on) not established at the call site. Memoised.
func (c *Ctx) unguardedNeeds(fn *ssa.Function, depth int) []need {
	key := "needs:" + fn.String()
	if v, ok := c.memo[key].([]need); ok {
		return v
	}
	if depth > 4 {
		return nil
	}
	c.memo[key] = []need{}
	var out []need
	for _, u := range usesIn(fn, nil) {
		if !c.established(fn, u.Site, u.Ref, u.judge()) {
			out = append(out, u)
		}
	}
	// callees
	for _, ci := range Calls(fn, func(ci ssa.CallInstruction) bool {
		cal := ci.Common().StaticCallee()
		return cal != nil && prog.InModule(cal) && cal.Blocks != nil && !prog.IsTestish(prog.PkgPathOf(cal))
	}) {
		cal := ci.Common().StaticCallee()
		// byte-slice helpers that convert their argument to an array
		for ai, n := range arrayConvNeeds(cal) {
			if ai >= len(ci.Common().Args) {
				continue
			}
			if r, ok := fieldRef(ci.Common().Args[ai]); ok {
				nd := need{Ref: r, Site: ci.(ssa.Instruction), Fn: fn, What: fmt.Sprintf("conversion of %s to a %d-byte array in %s (panics when shorter)", r.String(), n, Fn(cal)), MinLen: n}
				if !c.established(fn, nd.Site, nd.Ref, nd.judge()) {
					out = append(out, nd)
				}
			}
		}
		for ai, arg := range ci.Common().Args {
			o, ok := objOf(arg)
			if !ok || ai >= len(cal.Params) {
				continue
			}
			for _, nd := range c.unguardedNeeds(cal, depth+1) {
				if nd.Ref.Param != cal.Params[ai] || nd.Ref.Elem {
					continue
				}
				ref := o
				ref.Path = nd.Ref.Path
				n2 := need{Ref: ref, Site: nd.Site, Fn: nd.Fn, What: nd.What, MinLen: nd.MinLen}
				if !c.established(fn, ci.(ssa.Instruction), ref, n2.judge()) {
					out = append(out, n2)
				}
			}
		}
	}
	c.memo[key] = out
	return out
}

// ValidateBeforeUse: C20.O1.
func (c *Ctx) ValidateBeforeUse(prop string) {
	rule := "C20.O1 validate-before-use"
	sg := c.Signer(prop + ".anchors")
	s := c.Slashing(prop + ".anchors")
	r := c.Ruler(prop + ".anchors")
	if !sg.OK() || !s.OK() || !r.OK() {
		return
	}
	methodsFor := map[string][]*ssa.Function{
		"SignGeneric":            {s.Sign},
		"Multisign":              {s.Sign},
		"SignBeaconProposal":     {s.Propose},
		"SignBeaconAttestation":  {s.Attest},
		"SignBeaconAttestations": {s.Attest, s.AttestB}, // a one-entry batch goes through the single rule
	}
	total := 0
	for _, name := range signerEndpoints {
		E := sg.Endpoints[name]
		run := sg.RunRules[E]
		var dataP *ssa.Parameter
		for _, p := range E.Params {
			t := p.Type()
			if sl, ok := t.(*types.Slice); ok {
				t = sl.Elem()
			}
			if isReqDataType(t) != nil {
				dataP = p
			}
		}
		if dataP == nil {
			c.R.Unknown(rule, Fn(E), c.P.FuncPos(E), "endpoint has no request data parameter")
			continue
		}
		_, batch := dataP.Type().(*types.Slice)
		T := isReqDataType(dataP.Type())
		if batch {
			T = isReqDataType(dataP.Type().(*types.Slice).Elem())
		}
		// Need: from the rules implementation (w.r.t. its request parameter) ...
		needPaths := map[string]need{}
		for _, m := range methodsFor[name] {
			for _, nd := range c.unguardedNeeds(m, 0) {
				if nd.Ref.T == T {
					needPaths[nd.key()] = nd
				}
			}
		}
		// ... and from the endpoint's own code after the rules returned (incl. signing closures)
		for _, f := range WithClosures(E) {
			scope := func(i ssa.Instruction) bool { return f != E || an.Reachable(an.After(run), i) }
			if f != E {
				// only closures created after RunRules
				created := false
				for _, b := range E.Blocks {
					for _, ins := range b.Instrs {
						if mc, ok := ins.(*ssa.MakeClosure); ok && mc.Fn == f && an.Reachable(an.After(run), ins) {
							created = true
						}
					}
				}
				if !created {
					continue
				}
			}
			for _, u := range usesIn(f, scope) {
				if u.Ref.T != T || u.Ref.Param != dataP {
					continue
				}
				if f == E && c.established(E, u.Site, u.Ref, u.judge()) {
					continue
				}
				if _, dup := needPaths[u.key()]; !dup {
					needPaths[u.key()] = u
				}
			}
		}
		var paths []string
		for p := range needPaths {
			paths = append(paths, p)
		}
		sort.Strings(paths)
		// Have at the RunRules site
		for _, p := range paths {
			total++
			nd := needPaths[p]
			ref := objRef{T: T, Param: dataP, Elem: batch, Path: nd.Ref.Path}
			label := T.Obj().Name()
			if nd.Ref.Path != "" {
				label += "." + nd.Ref.Path
			}
			if nd.MinLen > 0 {
				label += fmt.Sprintf(" (at least %d bytes)", nd.MinLen)
			}
			ok := false
			how := ""
			if !batch {
				if c.established(E, run.(ssa.Instruction), ref, nd.judge()) {
					ok, how = true, "dominating test in the service"
				}
			} else {
				// any index: use a forall guard before RunRules
				probe := ref
				probe.Idx = nil
				if c.establishedForall(E, run.(ssa.Instruction), probe, nd.judge()) {
					ok, how = true, "validated for every position in the service before the rules run"
				}
			}
			if !ok && nd.MinLen == 0 && c.byConstruction(E, dataP, T, nd.Ref.Path, batch) {
				ok, how = true, "non-nil by construction in every handler"
			}
			if ok {
				c.R.OK(rule, Fn(E)+":"+label, c.Pos(run), label+" (needed by "+Fn(nd.Fn)+": "+nd.What+") is established: "+how)
			} else {
				c.R.Fail(rule, Fn(E)+":"+label, c.Pos(nd.Site), label+" is dereferenced or sliced without a guard ("+nd.What+" in "+Fn(nd.Fn)+") but nothing between the wire and that point guarantees it is present: a request omitting it crashes the daemon", "a test of "+label+" in the service (or handler) before RunRules, or a value that is non-nil by construction in every handler", nil)
			}
		}
	}
	c.R.Floor(rule, "needed request fields across the five endpoints", total, 10)
}

// establishedForall: ref (an element field, index-agnostic) holds for every position on every path from entry to site.
func (c *Ctx) establishedForall(fn *ssa.Function, site ssa.Instruction, ref objRef, judge refAtom) bool {
	for _, l := range c.forallGuardLoops(fn, ref.Param, ref.T, ref.Path, judge) {
		hdr, exitB := l.Header, l.Exit
		if x, _ := an.Cut(an.CutQuery{From: an.Entry(fn), Target: func(i ssa.Instruction) bool { return i == site },
			AcceptEdge: func(b *ssa.BasicBlock, i int, a *an.Atom) bool { return b == hdr && b.Succs[i] == exitB }}); x == nil {
			return true
		}
	}
	x, _ := an.Cut(an.CutQuery{From: an.Entry(fn), Target: func(i ssa.Instruction) bool { return i == site },
		AcceptEdge: func(b *ssa.BasicBlock, i int, a *an.Atom) bool {
			if a == nil || a.Op != "==" {
				return false
			}
			for _, side := range [][2]ssa.Value{{a.LV, a.RV}, {a.RV, a.LV}} {
				if !isNilConst(side[1]) {
					continue
				}
				if call, ok := unwrapErr(side[0]).(*ssa.Call); ok {
					cal := call.Call.StaticCallee()
					if cal == nil || !prog.InModule(cal) || cal.Blocks == nil {
						continue
					}
					for ai, arg := range call.Call.Args {
						if sliceRootExact(arg) == ssa.Value(ref.Param) && ai < len(cal.Params) && c.sliceHelperImpliesNonNil(cal, cal.Params[ai], ref.T, ref.Path, judge) {
							return true
						}
					}
				}
			}
			return false
		}})
	return x == nil
}

// byConstruction: at every production call site of endpoint E (handlers invoking the signer service), the data object(s)
// passed are fresh composite literals whose field `path` is assigned a fresh object (non-nil).
func (c *Ctx) byConstruction(E *ssa.Function, dataP *ssa.Parameter, T *types.Named, path string, batch bool) bool {
	pi := -1
	for i, p := range E.Params {
		if p == dataP {
			pi = i
		}
	}
	// the endpoint may be the core of an exported wrapper: the handlers call the wrapper, which hands its own parameter on
	if sg := c.Signer("C20.O1 validate-before-use"); sg != nil && sg.Wrapper[E] != nil && pi >= 0 {
		W := sg.Wrapper[E]
		wi := -1
		for _, ci := range Calls(W, func(ci ssa.CallInstruction) bool { return ci.Common().StaticCallee() == E }) {
			if pi < len(ci.Common().Args) {
				for i, p := range W.Params {
					if ssa.Value(p) == ci.Common().Args[pi] {
						wi = i
					}
				}
			}
		}
		if wi < 0 {
			return false
		}
		E, pi = W, wi
	}
	nsites := 0
	for _, H := range c.HandlerMethods("C20.O1 validate-before-use") {
		for _, ci := range Calls(H, func(ci ssa.CallInstruction) bool {
			return ci.Common().IsInvoke() && namedIs(ci.Common().Value.Type(), pkgSigner, "Service") && ci.Common().Method.Name() == E.Name()
		}) {
			nsites++
			arg := ci.Common().Args[pi-1] // invoke: receiver is not in Args
			var objs []*ssa.Alloc
			if !batch {
				a, ok := arg.(*ssa.Alloc)
				if !ok {
					return false
				}
				objs = append(objs, a)
			} else {
				mk, ok := sliceRootExact(arg).(*ssa.MakeSlice)
				if !ok {
					return false
				}
				for _, b := range H.Blocks {
					for _, ins := range b.Instrs {
						if st, ok := ins.(*ssa.Store); ok {
							if ia, ok := st.Addr.(*ssa.IndexAddr); ok && sliceRootExact(ia.X) == ssa.Value(mk) {
								a, ok := st.Val.(*ssa.Alloc)
								if !ok {
									return false
								}
								objs = append(objs, a)
							}
						}
					}
				}
				if len(objs) == 0 {
					return false
				}
			}
			for _, o := range objs {
				if namedOf(o.Type()) != T {
					return false
				}
				if path == "" {
					continue // a fresh object is non-nil
				}
				okField := false
				for _, r := range *o.Referrers() {
					fa, ok := r.(*ssa.FieldAddr)
					if !ok || fieldNameOf(fa) != path {
						continue
					}
					for _, r2 := range *fa.Referrers() {
						if st, ok := r2.(*ssa.Store); ok {
							if a2, ok := st.Val.(*ssa.Alloc); ok && a2.Heap {
								okField = true
							}
						}
					}
				}
				if !okField {
					return false
				}
			}
		}
	}
	return nsites > 0
}

var _ = fmt.Sprint
var _ = strings.Contains
