package rules

import (
	"dirkcheck/internal/an"
	"dirkcheck/internal/prog"

	"golang.org/x/tools/go/ssa"
)

// MetadataImmutable (C01.O14 metadata.built-once): the request metadata (*rules.ReqMetadata: account, public key, client,
// address) names the key whose watermark a rule reads and writes. The ruler's batch path keeps one metadata object per
// entry and hands them all to the rule at once: they must be distinct objects. Decided as immutability after construction:
// production code stores into the fields of a ReqMetadata only when the object was allocated in the storing function
// (`&rules.ReqMetadata{…}`) - an object obtained from anywhere else (a call, a parameter, a list) is never written, so two
// entries cannot end up sharing one object whose key is that of the last writer.
func (c *Ctx) MetadataImmutable(prop string) {
	rule := "C01.O14 metadata.built-once"
	n := 0
	for _, fn := range c.P.ModuleFuncs() {
		p := prog.PkgPathOf(fn)
		if prog.IsTestish(p) || fn.Blocks == nil {
			continue
		}
		for _, b := range fn.Blocks {
			for _, ins := range b.Instrs {
				st, ok := ins.(*ssa.Store)
				if !ok {
					continue
				}
				fa, ok := st.Addr.(*ssa.FieldAddr)
				if !ok || !namedIs(derefT(fa.X.Type()), pkgRules, "ReqMetadata") {
					continue
				}
				n++
				if al, fresh := fa.X.(*ssa.Alloc); fresh && al.Parent() == fn {
					c.R.OK(rule, Fn(fn)+":"+fieldNameOf(fa), c.Pos(st), "a field of a metadata object built here")
				} else {
					c.R.Fail(rule, Fn(fn)+":"+fieldNameOf(fa), c.Pos(st), "a field of a request-metadata object that was not built here is rewritten ("+an.Term(fa.X)+"): entries sharing the object then all carry the key of the last writer, and the rules check and record them under one key", "ReqMetadata fields are set only in the composite literal that creates the object", nil)
				}
			}
		}
	}
	c.R.Floor(rule, "stores into request-metadata fields", n, 2)
}
