package rules

import (
	"go/types"
	"strings"

	"golang.org/x/tools/go/ssa"
)

// lockOp is one sync.Mutex / sync.RWMutex operation on a struct field (P6).
type lockOp struct {
	Ins      ssa.CallInstruction
	Owner    *types.Named
	Field    string
	Op       string // Lock, Unlock, RLock, RUnlock
	Deferred bool
}

func (o lockOp) Key() string { return o.Owner.Obj().Name() + "." + o.Field }

// mutexOp recognises ci as a sync mutex operation on a field; ok=false otherwise.
func mutexOp(ci ssa.CallInstruction) (lockOp, bool) {
	f := ci.Common().StaticCallee()
	if f == nil {
		return lockOp{}, false
	}
	name := f.String()
	var op string
	switch name {
	case "(*sync.Mutex).Lock", "(*sync.RWMutex).Lock":
		op = "Lock"
	case "(*sync.Mutex).Unlock", "(*sync.RWMutex).Unlock":
		op = "Unlock"
	case "(*sync.RWMutex).RLock":
		op = "RLock"
	case "(*sync.RWMutex).RUnlock":
		op = "RUnlock"
	default:
		return lockOp{}, false
	}
	recv := ci.Common().Args[0]
	fa, ok := recv.(*ssa.FieldAddr)
	if !ok {
		return lockOp{}, false
	}
	owner := namedOf(fa.X.Type())
	if owner == nil {
		return lockOp{}, false
	}
	_, isDefer := ci.(*ssa.Defer)
	return lockOp{Ins: ci, Owner: owner, Field: fieldNameOf(fa), Op: op, Deferred: isDefer}, true
}

func fieldNameOf(fa *ssa.FieldAddr) string {
	t := fa.X.Type()
	if p, ok := t.Underlying().(*types.Pointer); ok {
		t = p.Elem()
	}
	return t.Underlying().(*types.Struct).Field(fa.Field).Name()
}

// Held computes, for the mutex field `key` ("Type.field"), the lock state before each instruction of fn:
// bit 1 = not held, bit 2 = write-held, bit 4 = read-held. A deferred unlock keeps the lock held until return
// and is recorded in deferredRelease.
type heldInfo struct {
	Before          map[ssa.Instruction]uint8
	DeferredRelease bool
	ReturnsHeld     []ssa.Instruction // returns reachable with the lock held and no deferred release
	DoubleLock      []ssa.Instruction
	UnlockUnheld    []ssa.Instruction
	Ops             []lockOp
}

func Held(fn *ssa.Function, key string) *heldInfo {
	h := &heldInfo{Before: map[ssa.Instruction]uint8{}}
	if fn.Blocks == nil {
		return h
	}
	type st struct{ held, deferred uint8 }
	in := map[*ssa.BasicBlock]st{fn.Blocks[0]: {1, 1}}
	work := []*ssa.BasicBlock{fn.Blocks[0]}
	seenOps := map[ssa.Instruction]bool{}
	seenRet := map[ssa.Instruction]bool{}
	for len(work) > 0 {
		b := work[len(work)-1]
		work = work[:len(work)-1]
		s := in[b]
		for _, ins := range b.Instrs {
			h.Before[ins] |= s.held
			if ci, ok := ins.(ssa.CallInstruction); ok {
				if op, ok := mutexOp(ci); ok && op.Key() == key {
					if !seenOps[ins] {
						seenOps[ins] = true
						h.Ops = append(h.Ops, op)
					}
					if op.Deferred {
						if op.Op == "Unlock" || op.Op == "RUnlock" {
							s.deferred = 2
							h.DeferredRelease = true
						}
						continue
					}
					switch op.Op {
					case "Lock":
						if s.held&(2|4) != 0 {
							h.DoubleLock = append(h.DoubleLock, ins)
						}
						s.held = 2
					case "RLock":
						if s.held&2 != 0 {
							h.DoubleLock = append(h.DoubleLock, ins)
						}
						s.held = 4
					case "Unlock", "RUnlock":
						if s.held&1 != 0 {
							h.UnlockUnheld = append(h.UnlockUnheld, ins)
						}
						s.held = 1
					}
				}
			}
			if _, ok := ins.(*ssa.Return); ok {
				if s.held&(2|4) != 0 && s.deferred&1 != 0 && !seenRet[ins] {
					seenRet[ins] = true
					h.ReturnsHeld = append(h.ReturnsHeld, ins)
				}
			}
		}
		for _, nx := range b.Succs {
			o := in[nx]
			n := st{o.held | s.held, o.deferred | s.deferred}
			if n != o {
				in[nx] = n
				work = append(work, nx)
			}
		}
	}
	return h
}

// isSyncMapOp reports whether ci is a non-blocking sync.Map operation.
func isSyncMapOp(ci ssa.CallInstruction) (string, bool) {
	f := ci.Common().StaticCallee()
	if f == nil {
		return "", false
	}
	n := f.String()
	if strings.HasPrefix(n, "(*sync.Map).") {
		return strings.TrimPrefix(n, "(*sync.Map)."), true
	}
	return "", false
}
