package rules

import (
	"fmt"
	"go/token"
	"go/types"
	"sort"
	"strings"

	"dirkcheck/internal/an"
	"dirkcheck/internal/prog"

	"golang.org/x/tools/go/ssa"
)

// expected container <- request field tables (consensus spec: phase0 AttestationData / BeaconBlockHeader).
var containerTables = map[string]map[string]string{
	"AttestationData": {
		"Slot": "Slot", "Index": "CommitteeIndex", "BeaconBlockRoot": "BeaconBlockRoot",
		"Source.Epoch": "Source.Epoch", "Source.Root": "Source.Root", "Target.Epoch": "Target.Epoch", "Target.Root": "Target.Root",
	},
	"BeaconBlockHeader": {
		"Slot": "Slot", "ProposerIndex": "ProposerIndex", "ParentRoot": "ParentRoot", "StateRoot": "StateRoot", "BodyRoot": "BodyRoot",
	},
}

// reqPathFrom renders v as a field path below object D ("Slot", "Source.Epoch"), or "" if v is not such a load.
func reqPathFrom(v ssa.Value, isD func(ssa.Value) bool) string {
	for {
		switch x := v.(type) {
		case *ssa.ChangeType:
			v = x.X
			continue
		case *ssa.Convert:
			v = x.X
			continue
		}
		break
	}
	var parts []string
	cur := v
	for i := 0; i < 4; i++ {
		owner, f, base := an.FieldOf(cur)
		if owner == nil {
			return ""
		}
		parts = append([]string{f}, parts...)
		if isD(base) {
			return strings.Join(parts, ".")
		}
		cur = base
	}
	return ""
}

// singleStoreTo returns the value of the only Store to alloc a.
func singleStoreTo(a *ssa.Alloc) ssa.Value {
	var v ssa.Value
	var st ssa.Instruction
	n := 0
	for _, r := range *a.Referrers() {
		if s2, ok := r.(*ssa.Store); ok && s2.Addr == ssa.Value(a) {
			v = s2.Val
			st = s2
			n++
		}
	}
	if n != 1 {
		return nil
	}
	// every use of the cell is preceded by the store on every path from its allocation (no stale value of an earlier
	// loop iteration, no zero value)
	for _, r := range *a.Referrers() {
		if r == st {
			continue
		}
		if _, isDbg := r.(*ssa.DebugRef); isDbg {
			continue
		}
		use := r
		if x, _ := an.Cut(an.CutQuery{From: an.After(a), Target: func(i ssa.Instruction) bool { return i == use },
			AcceptInstr: func(i ssa.Instruction) bool { return i == st }}); x != nil {
			return nil
		}
	}
	return v
}

// arraySliceSource: v = slice A[:] where A is a local array cell with a single store; returns that stored value.
func arraySliceSource(v ssa.Value) ssa.Value {
	sl, ok := v.(*ssa.Slice)
	if !ok || sl.Low != nil || sl.High != nil {
		return nil
	}
	a, ok := sl.X.(*ssa.Alloc)
	if !ok {
		return nil
	}
	return singleStoreTo(a)
}

// SigningRootProvenance: C08 O2-O4, C05.O6, C01/C02 O11-O12 - what is signed is exactly what was checked.
func (c *Ctx) SigningRootProvenance(prop string) {
	sg := c.Signer(prop + ".anchors")
	if !sg.OK() {
		return
	}
	rule2 := "C08.O2 rules->container"
	rule3 := "C08.O3 root->signing-root->sign"
	rule4 := "C08.O4 account"
	ruleD := "C05.O6 same-domain"
	ruleP := "C01.O12 pubkey.resolved"
	var sigRootFn *ssa.Function
	sigRootData, sigRootDomain, sigRootCombined := 1, 2, false
	nsites := 0
	for _, site := range sg.Sites {
		E, F := site.Endpoint, site.Fn
		// the endpoint's data parameter
		var dataP *ssa.Parameter
		for _, p := range E.Params {
			t := p.Type()
			if sl, ok := t.(*types.Slice); ok {
				t = sl.Elem()
			}
			if pt, ok := t.(*types.Pointer); ok {
				if n, ok := pt.Elem().(*types.Named); ok && n.Obj().Pkg() != nil && n.Obj().Pkg().Path() == pkgRules {
					dataP = p
				}
			}
		}
		if dataP == nil {
			c.R.Unknown(rule3, Fn(E), c.P.FuncPos(E), "endpoint has no request data parameter")
			continue
		}
		var wantIdx ssa.Value
		if site.Batch {
			l, ok := scatterLoopIdx(F)
			if !ok {
				c.R.Unknown(rule3, Fn(F), c.Pos(site.Call), "signing closure is not a scatter worker loop")
				continue
			}
			wantIdx = l.Idx
		}
		isD := func(v ssa.Value) bool {
			if !site.Batch {
				return paramIndexOf(E, v) >= 0 && paramIs(E, v, dataP)
			}
			root, idx, ok := elemLoad(v)
			return ok && root == ssa.Value(dataP) && idx == wantIdx
		}
		args := site.Call.Common().Args
		if len(args) != 3 && len(args) != 4 {
			c.R.Unknown(rule3, Fn(F), c.Pos(site.Call), "unexpected signing helper signature")
			continue
		}
		nsites++
		accountArg := args[1]
		var dataRootArg, domainArg ssa.Value
		var G ssa.Instruction
		if len(args) == 4 {
			// a combined helper sign(ctx, account, dataRoot, domain) that computes the signing root itself and signs it
			comb := site.Call.Common().StaticCallee()
			if comb == nil || !prog.InModule(comb) {
				c.R.Unknown(rule3, Fn(F), c.Pos(site.Call), "unexpected signing helper")
				continue
			}
			dataRootArg, domainArg = args[2], args[3]
			G = site.Call.(ssa.Instruction)
			sigRootFn, sigRootData, sigRootDomain, sigRootCombined = comb, 2, 3, true
		} else {
			rootArg := args[2]
			// 1. root <- G
			src := arraySliceSource(rootArg)
			ex, _ := src.(*ssa.Extract)
			var GC *ssa.Call
			if ex != nil && ex.Index == 0 {
				GC, _ = ex.Tuple.(*ssa.Call)
			}
			if GC == nil || GC.Call.StaticCallee() == nil || !prog.InModule(GC.Call.StaticCallee()) || len(GC.Call.Args) != 3 {
				c.R.Fail(rule3, Fn(F), c.Pos(site.Call), "what is signed is not the output of the signing-root computation: "+an.Term(rootArg), "Sign(signingRoot[:]) with signingRoot = generateSigningRoot(dataRoot, domain)", nil)
				continue
			}
			sigRootFn, sigRootData, sigRootDomain, sigRootCombined = GC.Call.StaticCallee(), 1, 2, false
			dataRootArg, domainArg = GC.Call.Args[1], GC.Call.Args[2]
			G = GC
		}
		// 2. domain
		if p := reqPathFrom(domainArg, isD); p != "Domain" {
			c.R.Fail(ruleD, Fn(F), c.Pos(G), "the domain that is signed is not the Domain of the request data that the rules examined at this position: "+an.Term(domainArg), "generateSigningRoot(_, data.Domain) with the same data object that went to the rules", nil)
		} else {
			c.R.OK(ruleD, Fn(F), c.Pos(G), "signed domain = Domain of this position's request data")
		}
		// 3. data root
		if p := reqPathFrom(dataRootArg, isD); p == "Data" {
			c.R.OK(rule3, Fn(F), c.Pos(G), "generic: signing root over the supplied Data and Domain of this position's request")
		} else {
			hsrc := arraySliceSource(dataRootArg)
			hex, _ := hsrc.(*ssa.Extract)
			var H *ssa.Call
			if hex != nil && hex.Index == 0 {
				H, _ = hex.Tuple.(*ssa.Call)
			}
			// the container may be built and hashed in a module helper that is given this position's request
			FC, isDC := F, isD
			if H != nil && H.Call.StaticCallee() != nil && prog.InModule(H.Call.StaticCallee()) && H.Call.StaticCallee().Blocks != nil && !H.Call.IsInvoke() {
				callee := H.Call.StaticCallee()
				var hp *ssa.Parameter
				for i, a := range H.Call.Args {
					if isD(a) && i < len(callee.Params) {
						hp = callee.Params[i]
					}
				}
				var inner *ssa.Call
				okH := hp != nil
				for _, ret := range an.Returns(callee) {
					ex, isEx := an.Result(ret, 0).(*ssa.Extract)
					if !isEx || ex.Index != 0 {
						okH = false
						break
					}
					call, isCall := ex.Tuple.(*ssa.Call)
					if !isCall || (inner != nil && inner != call) {
						okH = false
						break
					}
					// the error of the hash is returned with it
					if len(ret.Results) == 2 {
						if e2, isE2 := an.Result(ret, 1).(*ssa.Extract); !isE2 || e2.Tuple != ssa.Value(call) || e2.Index != 1 {
							okH = false
							break
						}
					}
					inner = call
				}
				if okH && inner != nil {
					H, FC = inner, callee
					isDC = func(v ssa.Value) bool { return v == ssa.Value(hp) }
				}
			}
			if H == nil || H.Call.StaticCallee() == nil || H.Call.StaticCallee().Name() != "HashTreeRoot" || len(H.Call.Args) != 1 {
				c.R.Fail(rule3, Fn(F), c.Pos(G), "the data root is neither the request's Data nor the hash tree root of a container built from it: "+an.Term(dataRootArg), "dataRoot = container.HashTreeRoot()", nil)
				continue
			}
			C, ok := H.Call.Args[0].(*ssa.Alloc)
			if !ok {
				c.R.Unknown(rule2, Fn(F), c.Pos(H), "the hashed container is not a local object")
				continue
			}
			cname := namedOf(C.Type()).Obj().Name()
			want := containerTables[cname]
			if want == nil {
				c.R.Unknown(rule2, Fn(F), c.Pos(H), "unknown container type "+cname)
				continue
			}
			got, why := containerFill(FC, C, isDC)
			if why != "" {
				c.R.Fail(rule2, Fn(F), c.Pos(H), why, "each container field from the same-named request field", nil)
				continue
			}
			var diffs []string
			for k, v := range want {
				if got[k] != v {
					diffs = append(diffs, fmt.Sprintf("%s <- %q (want %q)", k, got[k], v))
				}
			}
			for k := range got {
				if _, ok := want[k]; !ok {
					diffs = append(diffs, "unexpected field "+k)
				}
			}
			sort.Strings(diffs)
			if len(diffs) > 0 {
				c.R.Fail(rule2, Fn(F), c.Pos(H), "the "+cname+" that is hashed does not take its fields from the checked request data: "+strings.Join(diffs, "; "), "each container field from the same-named request field of this position", nil)
			} else {
				c.R.OK(rule2, Fn(F), c.Pos(H), fmt.Sprintf("%s: %d fields, each from the same-named field of this position's request data", cname, len(want)))
				c.R.OK(rule3, Fn(F), c.Pos(G), "signing root over container.HashTreeRoot() and the request's Domain")
			}
		}
		// 4. account
		var accountVal ssa.Value
		if !site.Batch {
			if ex, ok := accountArg.(*ssa.Extract); ok {
				if call, ok := ex.Tuple.(*ssa.Call); ok && call.Call.StaticCallee() == sg.PreCheck {
					accountVal = ex
				}
			}
			if accountVal == nil {
				c.R.Fail(rule4, Fn(F), c.Pos(site.Call), "the account that signs is not the one the pre-check resolved and authorised: "+an.Term(accountArg), "Sign with the account returned by preCheck", nil)
			} else {
				c.R.OK(rule4, Fn(F), c.Pos(site.Call), "signing account = account returned by this request's preCheck")
			}
		} else {
			root, idx, ok := elemLoad(accountArg)
			if !ok || idx != wantIdx {
				c.R.Fail(rule4, Fn(F), c.Pos(site.Call), "the account that signs is not accounts[i] of the worker's own index: "+an.Term(accountArg), "Sign with accounts[i]", nil)
			} else {
				// accounts[j] is filled from preCheck at index j (checked by C06.O4 batch form); verify the stored value here
				okFill := false
				root = sg.ListOrigin(E, root)
				for _, f := range sg.Unit(E) {
					for _, b := range f.Blocks {
						for _, ins := range b.Instrs {
							st, ok := ins.(*ssa.Store)
							if !ok {
								continue
							}
							ia, ok := st.Addr.(*ssa.IndexAddr)
							if !ok || sliceRootExact(ia.X) != root {
								continue
							}
							if ex, ok := st.Val.(*ssa.Extract); ok {
								if call, ok := ex.Tuple.(*ssa.Call); ok && call.Call.StaticCallee() == sg.PreCheck {
									if l, ok := scatterLoopIdx(f); ok && ia.Index == l.Idx {
										okFill = true
										continue
									}
								}
							}
							okFill = false
							c.R.Fail(rule4, Fn(f), c.Pos(st), "accounts[i] is assigned something other than the account preCheck returned for request i", "accounts[i] = account from preCheck(i)", nil)
						}
					}
				}
				if okFill {
					c.R.OK(rule4, Fn(F), c.Pos(site.Call), "signing account = accounts[i], filled from preCheck of request i")
				} else {
					c.R.Unknown(rule4, Fn(F), c.Pos(site.Call), "cannot find where accounts[i] is filled from the pre-check")
				}
			}
		}
	}
	c.R.Floor(rule3, "signing sites", nsites, 5)
	// RulesData.PubKey and .Data per endpoint
	for _, name := range signerEndpoints {
		E := sg.Endpoints[name]
		okPK, okData := false, false
		var pos ssa.Instruction
		for _, f := range sg.Unit(E) {
			for _, b := range f.Blocks {
				for _, ins := range b.Instrs {
					st, ok := ins.(*ssa.Store)
					if !ok {
						continue
					}
					fa, ok := st.Addr.(*ssa.FieldAddr)
					if !ok || !namedIs(fa.X.Type(), pkgRuler, "RulesData") {
						continue
					}
					switch fieldNameOf(fa) {
					case "PubKey":
						pos = st
						// Marshal(PublicKey(account)) with account from preCheck
						m, ok := st.Val.(*ssa.Call)
						if !ok || !m.Call.IsInvoke() || m.Call.Method.Name() != "Marshal" {
							continue
						}
						pk, ok := m.Call.Value.(*ssa.Call)
						if !ok || !pk.Call.IsInvoke() || pk.Call.Method.Name() != "PublicKey" {
							continue
						}
						if ex, ok := pk.Call.Value.(*ssa.Extract); ok {
							if call, ok := ex.Tuple.(*ssa.Call); ok && call.Call.StaticCallee() == sg.PreCheck {
								okPK = true
							}
						}
					case "Data":
						okData = true
					}
				}
			}
		}
		if !okPK {
			c.R.Fail(ruleP, Fn(E), c.Pos(pos), "the public key given to the rules (which keys the lock and the watermark) is not the resolved account's own key", "RulesData.PubKey = account.PublicKey().Marshal() of the account returned by preCheck", nil)
		} else if okData {
			c.R.OK(ruleP, Fn(E), c.Pos(pos), "RulesData.PubKey = public key of the account resolved by preCheck (by name or by key alike)")
		}
	}
	// the signing-root helper
	if sigRootFn != nil {
		c.signingRootHelper(rule3, sigRootFn, sigRootData, sigRootDomain, sigRootCombined)
	}
}

func paramIs(E *ssa.Function, v ssa.Value, p *ssa.Parameter) bool {
	idx := paramIndexOf(E, v)
	return idx >= 0 && E.Params[idx] == p
}

// containerFill collects containerPath -> requestPath for all writes into container C in F.
func containerFill(F *ssa.Function, C *ssa.Alloc, isD func(ssa.Value) bool) (map[string]string, string) {
	got := map[string]string{}
	// nested objects stored into fields of C
	nested := map[ssa.Value]string{}
	for _, r := range *C.Referrers() {
		fa, ok := r.(*ssa.FieldAddr)
		if !ok {
			continue
		}
		name := fieldNameOf(fa)
		for _, r2 := range *fa.Referrers() {
			if st, ok := r2.(*ssa.Store); ok && st.Addr == ssa.Value(fa) {
				if a, ok := st.Val.(*ssa.Alloc); ok {
					nested[a] = name
				}
			}
		}
	}
	pathOf := func(addr ssa.Value) string {
		fa, ok := addr.(*ssa.FieldAddr)
		if !ok {
			return ""
		}
		f := fieldNameOf(fa)
		if fa.X == ssa.Value(C) {
			return f
		}
		if n, ok := nested[fa.X]; ok {
			return n + "." + f
		}
		if u, ok := fa.X.(*ssa.UnOp); ok && u.Op == token.MUL {
			if fa2, ok := u.X.(*ssa.FieldAddr); ok && fa2.X == ssa.Value(C) {
				return fieldNameOf(fa2) + "." + f
			}
		}
		return ""
	}
	for _, b := range F.Blocks {
		for _, ins := range b.Instrs {
			switch x := ins.(type) {
			case *ssa.Store:
				p := pathOf(x.Addr)
				if p == "" {
					continue
				}
				if _, isAlloc := x.Val.(*ssa.Alloc); isAlloc {
					continue // nested object
				}
				rp := reqPathFrom(x.Val, isD)
				if rp == "" {
					return nil, "container field " + p + " is assigned " + an.Term(x.Val) + ", not a field of this position's request data"
				}
				if old, dup := got[p]; dup && old != rp {
					return nil, "container field " + p + " is assigned twice"
				}
				got[p] = rp
			case *ssa.Call:
				if !isBuiltin(x, "copy") {
					continue
				}
				sl, ok := x.Call.Args[0].(*ssa.Slice)
				if !ok {
					continue
				}
				p := pathOf(sl.X)
				if p == "" {
					continue
				}
				rp := reqPathFrom(x.Call.Args[1], isD)
				if rp == "" {
					return nil, "container field " + p + " is copied from " + an.Term(x.Call.Args[1]) + ", not a field of this position's request data"
				}
				if old, dup := got[p]; dup && old != rp {
					return nil, "container field " + p + " is filled twice"
				}
				got[p] = rp
			}
		}
	}
	return got, ""
}

// signingRootHelper: generateSigningRoot(root, domain) = SigningRoot{DataRoot: root, Domain: domain}.HashTreeRoot(), and the
// hasher feeds DataRoot before Domain.
func (c *Ctx) signingRootHelper(rule string, fn *ssa.Function, dataIdx, domIdx int, combined bool) {
	var obj *ssa.Alloc
	var H *ssa.Call
	for _, ci := range Calls(fn, func(ci ssa.CallInstruction) bool {
		f := ci.Common().StaticCallee()
		return f != nil && f.Name() == "HashTreeRoot" && prog.InModule(f)
	}) {
		H, _ = ci.(*ssa.Call)
	}
	if H != nil {
		obj, _ = H.Call.Args[0].(*ssa.Alloc)
	}
	if obj == nil {
		if H != nil {
			if u, ok := H.Call.Args[0].(*ssa.UnOp); ok {
				if g, ok := u.X.(*ssa.Global); ok {
					c.R.Fail(rule, Fn(fn), c.Pos(H), "the object that is hashed is the package-level "+g.Name()+", shared by every request: concurrent signers (scatter workers, parallel calls) overwrite each other's root and domain between filling and hashing", "a SigningRoot object local to the call", nil)
					return
				}
			}
		}
		c.R.Unknown(rule, Fn(fn), c.P.FuncPos(fn), "the signing-root helper does not hash a local SigningRoot object")
		return
	}
	fields := map[string]int{}
	for _, r := range *obj.Referrers() {
		fa, ok := r.(*ssa.FieldAddr)
		if !ok {
			continue
		}
		for _, r2 := range *fa.Referrers() {
			if st, ok := r2.(*ssa.Store); ok {
				if p, ok := st.Val.(*ssa.Parameter); ok {
					for i, pp := range fn.Params {
						if pp == p {
							fields[fieldNameOf(fa)] = i
						}
					}
				}
			}
		}
	}
	if fields["DataRoot"] != dataIdx || fields["Domain"] != domIdx {
		c.R.Fail(rule, Fn(fn), c.Pos(H), fmt.Sprintf("the signing-root object is not {DataRoot: root parameter, Domain: domain parameter}: %v", fields), "SigningRoot{DataRoot: root, Domain: domain}", nil)
		return
	}
	if combined {
		// the helper signs what it hashed: the argument of AccountSigner.Sign is the slice of H's root
		nsign := 0
		for _, ci := range Calls(fn, func(ci ssa.CallInstruction) bool { return IsInvokeOf(ci, pkgWTypes, "AccountSigner", "Sign") }) {
			nsign++
			src := arraySliceSource(ci.Common().Args[len(ci.Common().Args)-1])
			ex, ok := src.(*ssa.Extract)
			if !ok || ex.Tuple != ssa.Value(H) || ex.Index != 0 {
				c.R.Fail(rule, Fn(fn), c.Pos(ci), "the combined signing helper signs something other than the hash tree root of its signing-root object", "Sign(signingRoot[:]) with signingRoot = container.HashTreeRoot()", nil)
				return
			}
		}
		if nsign != 1 {
			c.R.Unknown(rule, Fn(fn), c.P.FuncPos(fn), fmt.Sprintf("expected one Sign call in the combined signing helper, found %d", nsign))
			return
		}
	}
	// result returned is H's result
	for _, ret := range an.Returns(fn) {
		if combined {
			break
		}
		v := an.Result(ret, 0)
		okRet := v == ssa.Value(H)
		if ex, ok := v.(*ssa.Extract); ok && ex.Tuple == ssa.Value(H) {
			okRet = true
		}
		if !okRet {
			c.R.Fail(rule, Fn(fn), c.Pos(ret), "the helper returns something other than the hash tree root of the signing-root object", "return signingData.HashTreeRoot()", nil)
			return
		}
	}
	// hasher order
	hw := c.P.Method(namedOf(obj.Type()), "HashTreeRootWith")
	if hw == nil {
		c.R.Unknown(rule, Fn(fn)+":hasher", c.Pos(H), "no HashTreeRootWith method on the signing-root type")
		return
	}
	var putData, putDomain ssa.Instruction
	for _, ci := range Calls(hw, func(ci ssa.CallInstruction) bool {
		return ci.Common().IsInvoke() && ci.Common().Method.Name() == "PutBytes"
	}) {
		_, f, _ := an.FieldOf(ci.Common().Args[0])
		switch f {
		case "DataRoot":
			putData = ci
		case "Domain":
			putDomain = ci
		}
	}
	if putData == nil || putDomain == nil {
		c.R.Fail(rule, Fn(hw), c.P.FuncPos(hw), "the hasher does not feed both DataRoot and Domain", "PutBytes(DataRoot); PutBytes(Domain)", nil)
		return
	}
	if x, _ := an.Cut(an.CutQuery{From: an.Entry(hw), Target: func(i ssa.Instruction) bool { return i == putDomain }, AcceptInstr: func(i ssa.Instruction) bool { return i == putData }}); x != nil || an.Reachable(an.After(putDomain), putData) {
		c.R.Fail(rule, Fn(hw), c.Pos(putDomain), "the hasher does not feed DataRoot before Domain", "PutBytes(DataRoot) then PutBytes(Domain)", nil)
		return
	}
	c.R.OK(rule, Fn(fn), c.P.FuncPos(fn), "signing root = HashTreeRoot of {DataRoot: root, Domain: domain}; the hasher feeds DataRoot then Domain")
	// C06.O5: a malformed root or domain makes the hash fail (and with it the request): each field is fed only below
	// a test of its length against a constant
	ruleF := "C06.O5 hash.fail-closed"
	for _, put := range []struct {
		field string
		ins   ssa.Instruction
	}{{"DataRoot", putData}, {"Domain", putDomain}} {
		put := put
		x, path := an.Cut(an.CutQuery{From: an.Entry(hw), Target: func(i ssa.Instruction) bool { return i == put.ins },
			AcceptEdge: func(b *ssa.BasicBlock, i int, a *an.Atom) bool {
				if a == nil || a.Op != "==" {
					return false
				}
				for _, side := range [][2]ssa.Value{{a.LV, a.RV}, {a.RV, a.LV}} {
					call, ok := side[0].(*ssa.Call)
					if !ok || !isBuiltin(call, "len") {
						continue
					}
					if _, isConst := side[1].(*ssa.Const); !isConst {
						continue
					}
					if _, f, _ := an.FieldOf(call.Call.Args[0]); f == put.field {
						return true
					}
				}
				return false
			}})
		if x != nil {
			c.R.Fail(ruleF, Fn(hw)+":"+put.field, c.Pos(put.ins), "the "+put.field+" is hashed whatever its length: a malformed value is padded or truncated and signed instead of failing the request", "PutBytes("+put.field+") only below [len("+put.field+") == 32]", an.PathString(c.Pos, path))
		} else {
			c.R.OK(ruleF, Fn(hw)+":"+put.field, c.Pos(put.ins), "the "+put.field+" is hashed only below a test of its length; otherwise the hash, and with it the request, fails")
		}
	}
}
