package rules

import (
	"dirkcheck/internal/an"
	"dirkcheck/internal/prog"

	"golang.org/x/tools/go/ssa"
)

// ConfigOrderPreserved (C07.O7 config.order-preserved): the checker reads each entry's operation list first-match-wins,
// so the order in which the operator wrote it is part of its meaning ("~Sign, All" is not "All, ~Sign"). Outside the
// checker package, the list placed in checker.Permissions.Operations must be a configuration value that is handed
// on untouched: it is not passed to anything that could reorder or edit it (sort.*, slices.*, append, copy, a helper).
func (c *Ctx) ConfigOrderPreserved(prop string) {
	rule := "C07.O7 config.order-preserved"
	n := 0
	for _, fn := range c.P.ModuleFuncs() {
		pp := prog.PkgPathOf(fn)
		if prog.IsTestish(pp) || fn.Blocks == nil || pp == pkgChecker || len(pp) > len(pkgChecker) && pp[:len(pkgChecker)+1] == pkgChecker+"/" {
			continue
		}
		for _, b := range fn.Blocks {
			for _, ins := range b.Instrs {
				st, ok := ins.(*ssa.Store)
				if !ok {
					continue
				}
				fa, ok := st.Addr.(*ssa.FieldAddr)
				if !ok || !namedIs(fa.X.Type(), pkgChecker, "Permissions") || fieldNameOf(fa) != "Operations" {
					continue
				}
				n++
				v := st.Val
				// a configuration value: element of a map obtained from a call (range value or lookup)
				okOrigin := false
				switch x := v.(type) {
				case *ssa.Extract:
					if _, isNext := x.Tuple.(*ssa.Next); isNext {
						okOrigin = true
					}
				case *ssa.Lookup:
					okOrigin = true
				}
				if !okOrigin {
					c.R.Fail(rule, Fn(fn), c.Pos(st), "the operation list given to the checker is not the configured list itself: "+an.Term(v), "Operations: the list as read from the configuration", nil)
					continue
				}
				var offender ssa.Instruction
				for _, r := range *v.Referrers() {
					switch y := r.(type) {
					case *ssa.DebugRef:
					case *ssa.Store:
						if y != st {
							offender = y
						}
					case ssa.CallInstruction:
						if bi, isB := y.Common().Value.(*ssa.Builtin); isB && (bi.Name() == "len" || bi.Name() == "cap") {
							continue
						}
						offender = r
					case *ssa.IndexAddr:
						for _, r2 := range *y.Referrers() {
							if s2, isSt := r2.(*ssa.Store); isSt && s2.Addr == ssa.Value(y) {
								offender = s2
							}
						}
					case *ssa.Slice:
						offender = r
					}
				}
				if offender != nil {
					c.R.Fail(rule, Fn(fn), c.Pos(offender), "the configured operation list is passed to code that can reorder or edit it before it reaches the checker; the checker takes the first matching item, so a deny item written before an allow item may end up behind it", "the configured list handed on untouched", nil)
				} else {
					c.R.OK(rule, Fn(fn), c.Pos(st), "the configured operation list reaches the checker untouched")
				}
			}
		}
	}
	c.R.Floor(rule, "places that build checker permissions from configuration", n, 1)
}
