package rules

import (
	"fmt"
	"go/token"
	"go/types"
	"sort"
	"strings"

	"dirkcheck/internal/an"
	"dirkcheck/internal/prog"

	"golang.org/x/tools/go/ssa"
)

// dim is one watermark dimension.
type dim struct {
	Kind     string // att / prop
	ReqField string // Target.Epoch / Source.Epoch / Slot
	StateFld string
	Strict   bool
	Name     string
}

func (s *Slashing) dims(kind string) []dim {
	if kind == "att" {
		return []dim{
			{Kind: "att", ReqField: "Target.Epoch", StateFld: s.AttTargetField, Strict: true, Name: "target"},
			{Kind: "att", ReqField: "Source.Epoch", StateFld: s.AttSourceField, Strict: false, Name: "source"},
		}
	}
	return []dim{{Kind: "prop", ReqField: "Slot", StateFld: s.PropSlotField, Strict: true, Name: "slot"}}
}

// approvalSites returns the constant origins of the entry's verdict and reports opaque / non-enum origins.
func (c *Ctx) approvalSites(rule string, s *Slashing, entry *ssa.Function, batch bool) (approved []Origin, all []Origin) {
	var origins []Origin
	nret := 0
	for _, ret := range an.Returns(entry) {
		if len(ret.Results) == 0 {
			continue
		}
		nret++
		if batch {
			origins = append(origins, ElemOrigins(an.Result(ret, 0), ret)...)
		} else {
			origins = append(origins, ValueOrigins(an.Result(ret, 0), ret)...)
		}
	}
	seen := map[ssa.Instruction]bool{}
	enum := map[int64]bool{s.APPROVED: true, s.DENIED: true, s.FAILED: true, s.UNKNOWN: true}
	for _, o := range origins {
		if seen[o.Site] && o.Kind == "const" {
			// same site may be found via several returns
			dup := false
			for _, p := range all {
				if p.Site == o.Site && p.Const == o.Const && p.Kind == o.Kind {
					dup = true
				}
			}
			if dup {
				continue
			}
		}
		seen[o.Site] = true
		all = append(all, o)
		switch o.Kind {
		case "opaque":
			c.R.Unknown(rule, "origin:"+Fn(entry)+":"+an.Term(o.Val), c.Pos(o.Site),
				"the verdict can come from a value the analysis cannot trace to constants: "+an.Term(o.Val))
		case "const":
			if !enum[o.Const] {
				c.R.Fail(rule, "origin:"+Fn(entry)+":const", c.Pos(o.Site), fmt.Sprintf("verdict constant %d is not a declared rules.Result value", o.Const), "only declared enum constants", nil)
			}
			if o.Const == s.APPROVED {
				approved = append(approved, o)
			}
		}
	}
	return approved, all
}

// WatermarkGuards: O1 origin, O2/O3 guards, for entry functions of one kind.
func (c *Ctx) WatermarkGuards(prop string, s *Slashing, kind string) {
	prop = homeProp(kind)
	type ent struct {
		fn    *ssa.Function
		batch bool
	}
	var entries []ent
	if kind == "att" {
		entries = []ent{{s.Attest, false}, {s.AttestB, true}}
	} else {
		entries = []ent{{s.Propose, false}}
	}
	ruleO := prop + ".O1 origin"
	sites := map[ssa.Instruction]Origin{}
	for _, e := range entries {
		appr, all := c.approvalSites(ruleO, s, e.fn, e.batch)
		c.R.Count("verdict_origins", len(all))
		c.R.Floor(ruleO, "APPROVED origins of "+Fn(e.fn), len(appr), 1)
		for _, o := range appr {
			sites[o.Site] = o
			c.R.OK(ruleO, "approved@"+Fn(o.Fn)+" via "+Fn(e.fn), c.Pos(o.Site), "APPROVED constant reaches the verdict of "+Fn(e.fn))
		}
	}
	// guards at each distinct approval site
	var keys []ssa.Instruction
	for k := range sites {
		keys = append(keys, k)
	}
	sort.Slice(keys, func(i, j int) bool { return c.Pos(keys[i]) < c.Pos(keys[j]) })
	for _, site := range keys {
		o := sites[site]
		F := o.Fn
		for _, d := range s.dims(kind) {
			d := d
			rule := fmt.Sprintf("%s.O2 guard.%s", prop, d.Name)
			if d.Name == "source" {
				rule = prop + ".O3 guard.source"
			}
			isRoot := func(f *ssa.Function) bool { return f == s.Attest || f == s.AttestB || f == s.Propose }
			ok, path := c.InterCut(F, site, isRoot, func(a *an.Atom, sub Subst) bool {
				return s.watermarkAtomS(a, sub, d.Kind, d.StateFld, d.ReqField, d.Strict)
			})
			want := fmt.Sprintf("every path to APPROVED passes [state.%s < 0] or [request %s %s uint64(state.%s)]", d.StateFld, d.ReqField, map[bool]string{true: ">", false: ">="}[d.Strict], d.StateFld)
			if !ok {
				c.R.Fail(rule, Fn(F), c.Pos(site), "APPROVED is reachable without the "+d.Name+" watermark comparison", want, path)
			} else {
				c.R.OK(rule, Fn(F), c.Pos(site), want)
			}
			// bound guard on the approving path (O6 local form): the request value is <= MaxInt64
			ruleB := prop + ".O6 conv.narrow/approve-bound." + d.Name
			ok, path = c.InterCut(F, site, isRoot, func(a *an.Atom, sub Subst) bool {
				return s.boundAtomS(a, sub, d.Kind, d.ReqField)
			})
			wantB := fmt.Sprintf("every path to APPROVED passes [request %s <= MaxInt64] (the watermark is an int64)", d.ReqField)
			if !ok {
				c.R.Fail(ruleB, Fn(F), c.Pos(site), "APPROVED is reachable for request "+d.ReqField+" values >= 2^63, which wrap to a negative watermark", wantB, path)
			} else {
				c.R.OK(ruleB, Fn(F), c.Pos(site), wantB)
			}
		}
	}
}

// WatermarkConversions: O5 widen / O6 narrow over the rules implementation package.
func (c *Ctx) WatermarkConversions(prop string, s *Slashing, kind string) {
	prop = homeProp(kind)
	ruleW := prop + ".O5 conv.widen"
	ruleN := prop + ".O6 conv.narrow"
	nW, nN := 0, 0
	// summary: functions whose APPROVED returns are all behind the bound for a request field
	boundedBy := func(fn *ssa.Function, reqFld string) bool {
		any := false
		for _, ret := range an.Returns(fn) {
			{
				if len(ret.Results) != 1 {
					continue
				}
				for _, o := range ValueOrigins(an.Result(ret, 0), ret) {
					if o.Kind == "opaque" {
						return false
					}
					if o.Const != s.APPROVED || o.Fn != fn {
						if o.Const == s.APPROVED {
							return false
						}
						continue
					}
					any = true
					site := o.Site
					if x, _ := an.Cut(an.CutQuery{From: an.Entry(fn), Target: func(i ssa.Instruction) bool { return i == site },
						AcceptEdge: c.WithSummaries(func(a *an.Atom, sub Subst) bool { return s.boundAtomS(a, sub, kind, reqFld) })}); x != nil {
						return false
					}
				}
			}
		}
		return any
	}
	for _, fn := range c.P.ModuleFuncs() {
		if prog.PkgPathOf(fn) != s.Pkg.Pkg.Path() {
			continue
		}
		c.R.Count("functions_scanned", 1)
		for _, b := range fn.Blocks {
			for _, ins := range b.Instrs {
				cv, ok := ins.(*ssa.Convert)
				if !ok {
					continue
				}
				to, ok1 := cv.Type().Underlying().(*types.Basic)
				from, ok2 := cv.X.Type().Underlying().(*types.Basic)
				if !ok1 || !ok2 {
					continue
				}
				// widen through a helper parameter: the operand is a parameter that receives a state field at a call site
				if p, isParam := cv.X.(*ssa.Parameter); isParam && to.Info()&types.IsUnsigned != 0 && from.Info()&types.IsUnsigned == 0 && from.Info()&types.IsInteger != 0 {
					fld := ""
					for _, caller := range c.P.ModuleFuncs() {
						if prog.PkgPathOf(caller) != s.Pkg.Pkg.Path() {
							continue
						}
						for _, ci := range Calls(caller, func(ci ssa.CallInstruction) bool { return ci.Common().StaticCallee() == fn }) {
							for ai, a := range ci.Common().Args {
								if ai < len(fn.Params) && fn.Params[ai] == p {
									if k, f := s.stateField(a); k == kind {
										fld = f
									}
								}
							}
						}
					}
					if fld != "" && onlyFeedsPutUint(cv) {
						fld = "" // a field writer helper of the encoder: the two's complement is written on purpose (decode is its inverse, C11.O1)
					}
					if fld != "" {
						nW++
						x, path := an.Cut(an.CutQuery{From: an.Entry(fn), Target: func(i ssa.Instruction) bool { return i == ins },
							AcceptEdge: func(b *ssa.BasicBlock, i int, a *an.Atom) bool {
								if a == nil {
									return false
								}
								if k, ok := a.LV.(*ssa.Const); ok && a.RV == ssa.Value(p) {
									if v, exact := constInt64(k); exact && ((a.Op == "<=" && v >= 0) || (a.Op == "<" && v >= -1)) {
										return true
									}
								}
								return false
							}})
						want := "conversion of the watermark (state." + fld + ", passed as a parameter) to unsigned is dominated by [value >= 0]"
						if x != nil {
							c.R.Fail(ruleW, Fn(fn)+":"+fld, c.Pos(ins), "a negative watermark (-1 = none) is converted to unsigned without a sign test", want, an.PathString(c.Pos, path))
						} else {
							c.R.OK(ruleW, Fn(fn)+":"+fld, c.Pos(ins), want)
						}
					}
				}
				// widen: unsigned <- signed state field
				if k, f := s.stateField(cv.X); k == kind && to.Info()&types.IsUnsigned != 0 && from.Info()&types.IsUnsigned == 0 {
					// the encoder writes the two's complement on purpose (decode is its inverse): exempt when the
					// conversion's only use is an argument of binary.*.PutUint64 (checked by C11 O1).
					if onlyFeedsPutUint(cv) {
						continue
					}
					nW++
					// the obligation is on the uses of the unsigned view (a view that is computed early but consumed only
					// below the sign test, or only written to the log, cannot influence a verdict)
					uses := widenUses(cv)
					x, path := an.Cut(an.CutQuery{From: an.Entry(fn), Target: func(i ssa.Instruction) bool { return uses[i] },
						AcceptEdge: func(b *ssa.BasicBlock, i int, a *an.Atom) bool { return s.nonNegAtom(a, kind, f) }})
					want := "every use of uint64(state." + f + ") is dominated by [state." + f + " >= 0]"
					if x != nil {
						c.R.Fail(ruleW, Fn(fn)+":"+f, c.Pos(ins), "a negative watermark (-1 = none) is converted to unsigned without a sign test", want, an.PathString(c.Pos, path))
					} else {
						c.R.OK(ruleW, Fn(fn)+":"+f, c.Pos(ins), want)
					}
				}
				// narrow: signed <- unsigned request field
				if k, f := s.reqField(cv.X); k == kind && to.Info()&types.IsUnsigned == 0 && to.Info()&types.IsInteger != 0 && from.Info()&types.IsUnsigned != 0 {
					nN++
					// accepted: local bound guard, or the true edge of `call == APPROVED` where the callee bounds the field
					x, path := an.Cut(an.CutQuery{From: an.Entry(fn), Target: func(i ssa.Instruction) bool { return i == ins },
						AcceptEdge: func(b *ssa.BasicBlock, i int, a *an.Atom) bool {
							if c.WithSummaries(func(a *an.Atom, sub Subst) bool { return s.boundAtomS(a, sub, kind, f) })(b, i, a) {
								return true
							}
							if a != nil && a.Op == "==" {
								for _, side := range [][2]ssa.Value{{a.LV, a.RV}, {a.RV, a.LV}} {
									call, ok := side[0].(*ssa.Call)
									if !ok || !an.IsConstInt(side[1], s.APPROVED) {
										continue
									}
									cal := call.Call.StaticCallee()
									if cal == nil || !prog.InModule(cal) || cal.Blocks == nil {
										continue
									}
									// same request object passed on
									same := false
									if _, _, base := reqBase(cv.X); base != nil {
										for _, arg := range call.Call.Args {
											if arg == base {
												same = true
											}
										}
									}
									if same && boundedBy(cal, f) {
										return true
									}
								}
							}
							return false
						}})
					if x != nil {
						// a state updater handed the request (`state.advance(req)`): judged at its call sites, each below
						// [check(... same request ...) == APPROVED] of a check that only approves bounded values
						_, _, rb := reqBase(cv.X)
						if reqP, ok := rb.(*ssa.Parameter); ok && reqP.Parent() == fn {
							ri := -1
							for i, q := range fn.Params {
								if q == reqP {
									ri = i
								}
							}
							callers := c.staticCallers()[fn]
							okAll := len(callers) > 0 && ri >= 0
							for _, K := range callers {
								if !okAll || ri >= len(K.Common().Args) {
									okAll = false
									break
								}
								reqArg := K.Common().Args[ri]
								kt := K.(ssa.Instruction)
								if y, _ := an.Cut(an.CutQuery{From: an.Entry(K.Parent()), Target: func(i ssa.Instruction) bool { return i == kt },
									AcceptEdge: func(b *ssa.BasicBlock, i int, a *an.Atom) bool {
										if a == nil || a.Op != "==" {
											return false
										}
										for _, side := range [][2]ssa.Value{{a.LV, a.RV}, {a.RV, a.LV}} {
											call := storedCall(side[0])
											if call == nil || !an.IsConstInt(side[1], s.APPROVED) {
												continue
											}
											cal := call.Call.StaticCallee()
											if cal == nil || !prog.InModule(cal) || cal.Blocks == nil || !boundedBy(cal, f) {
												continue
											}
											for _, arg := range call.Call.Args {
												if arg == reqArg || sameValue(arg, reqArg) {
													return true
												}
											}
										}
										return false
									}}); y != nil {
									okAll = false
								}
							}
							if okAll {
								x = nil
							}
						}
					}
					want := "conversion of request " + f + " to int64 is dominated by [" + f + " <= MaxInt64] (directly or via a check that only approves bounded values)"
					if x != nil {
						c.R.Fail(ruleN, Fn(fn)+":"+f, c.Pos(ins), "request "+f+" (full uint64 range) is narrowed to int64 without a bound; values >= 2^63 become negative and read back as 'nothing signed'", want, an.PathString(c.Pos, path))
					} else {
						c.R.OK(ruleN, Fn(fn)+":"+f, c.Pos(ins), want)
					}
				}
			}
		}
	}
	// comparisons in the signed domain (`int64(t) <= state.T` behind the bound) need no unsigned view of the watermark: the
	// "none" marker -1 is below every bounded request value. They stand in for the widenings they replace in the floor.
	nS := 0
	for _, fn := range c.P.ModuleFuncs() {
		if prog.PkgPathOf(fn) != s.Pkg.Pkg.Path() {
			continue
		}
		for _, b := range fn.Blocks {
			for _, ins := range b.Instrs {
				bo, ok := ins.(*ssa.BinOp)
				if !ok {
					continue
				}
				switch bo.Op {
				case token.LSS, token.LEQ, token.GTR, token.GEQ:
				default:
					continue
				}
				for _, side := range [][2]ssa.Value{{bo.X, bo.Y}, {bo.Y, bo.X}} {
					if k, _ := s.stateField(side[0]); k != kind {
						continue
					}
					v := side[1]
					if lv, isLocal := an.LocalFieldLoad(v); isLocal {
						v = lv
					}
					if cv, isConv := v.(*ssa.Convert); isConv {
						if k, _ := s.reqField(cv.X); k == kind {
							nS++
						}
					}
				}
			}
		}
	}
	c.R.Count("signed_domain_comparisons", nS)
	nW += nS
	// one narrowing per watermark field is the principled minimum (the entry's re-assignment after the checks is redundant)
	floorW, floorN := 2, 2
	if kind == "prop" {
		floorW, floorN = 1, 1
	}
	c.R.Floor(ruleW, "unsigned<-state conversions", nW, floorW)
	c.R.Floor(ruleN, "int64<-request conversions", nN, floorN)
}

// reqBase returns the request object (parameter-level value) a request field load is rooted at.
func reqBase(v ssa.Value) (types.Type, string, ssa.Value) {
	owner, f, base := an.FieldOf(v)
	if owner == nil {
		return nil, "", nil
	}
	if n, ok := owner.(*types.Named); ok && n.Obj().Name() == "Checkpoint" {
		_, _, b2 := an.FieldOf(base)
		return owner, f, b2
	}
	return owner, f, base
}

// widenUses returns the instructions that consume the unsigned view of a watermark in a way that can matter:
// every referrer except debug references and arguments of zerolog event builders (logging only).
func widenUses(cv *ssa.Convert) map[ssa.Instruction]bool {
	out := map[ssa.Instruction]bool{}
	if cv.Referrers() == nil {
		return out
	}
	for _, r := range *cv.Referrers() {
		if _, ok := r.(*ssa.DebugRef); ok {
			continue
		}
		if call, ok := r.(*ssa.Call); ok {
			if f := call.Call.StaticCallee(); f != nil && f.Pkg != nil && f.Pkg.Pkg.Path() == "github.com/rs/zerolog" && call.Call.Value != ssa.Value(cv) {
				continue
			}
		}
		out[r] = true
	}
	return out
}

func onlyFeedsPutUint(cv *ssa.Convert) bool {
	refs := cv.Referrers()
	if refs == nil || len(*refs) == 0 {
		return false
	}
	for _, r := range *refs {
		ci, ok := r.(ssa.CallInstruction)
		if !ok {
			return false
		}
		cc := ci.Common()
		name := ""
		if cc.IsInvoke() {
			name = cc.Method.Name()
		} else if f := cc.StaticCallee(); f != nil {
			name = f.Name()
		}
		if !strings.HasPrefix(name, "PutUint") {
			return false
		}
	}
	return true
}

// StateStoreDiscipline (C01/C02.O8 state.writers): the watermark object is written only (a) by the fetch helper's
// "none" marker, (b) by its own decoder, (c) in fresh objects built by import/export, (d) with the request's value of
// the matching role, at a point every path to which has passed the watermark comparison and the bound.
func (c *Ctx) StateStoreDiscipline(prop string, s *Slashing, kind string) {
	prop = homeProp(kind)
	rule := prop + ".O8 state.writers"
	state := s.AttState
	if kind == "prop" {
		state = s.PropState
	}
	fh := map[*ssa.Function]bool{}
	for _, f := range c.fetchHelpers(s, state) {
		fh[f] = true
	}
	// approval functions: those containing an APPROVED origin of this kind's entries
	approvalFns := map[*ssa.Function]bool{}
	entries := []*ssa.Function{s.Propose}
	if kind == "att" {
		entries = []*ssa.Function{s.Attest, s.AttestB}
	}
	for _, e := range entries {
		var origins []Origin
		for _, ret := range an.Returns(e) {
			if e == s.AttestB {
				origins = append(origins, ElemOrigins(an.Result(ret, 0), ret)...)
			} else {
				origins = append(origins, ValueOrigins(an.Result(ret, 0), ret)...)
			}
		}
		for _, o := range origins {
			if o.Kind == "const" && o.Const == s.APPROVED {
				approvalFns[o.Fn] = true
			}
		}
	}
	roleOf := map[string]dim{}
	for _, d := range s.dims(kind) {
		roleOf[d.StateFld] = d
	}
	n, bad := 0, 0
	for _, fs := range c.stateFieldStores(s) {
		if fs.Kind != kind {
			continue
		}
		n++
		fn := fs.Fn
		// (b) decoder: a method on the state type with an error result
		if fn.Signature.Recv() != nil && namedOf(fn.Signature.Recv().Type()) == state && errResultIndex(fn) >= 0 {
			continue
		}
		// (a) fetch helper: checked by none-is-minus-one
		if fh[fn] {
			continue
		}
		obj := fs.Obj
		// (c) fresh object in import/export, or in a package helper that only they call
		if a, ok := obj.(*ssa.Alloc); ok && a.Heap && c.onlyCalledFrom(fn, map[*ssa.Function]bool{s.ExportFn: true, s.ImportFn: true}, 2) {
			continue
		}
		d, known := roleOf[fs.Field]
		if !known {
			bad++
			c.R.Fail(rule, Fn(fn)+":"+fs.Field, c.Pos(fs.Store), "a watermark field without an inferred role is written", "only fields with a request->state role", nil)
			continue
		}
		// (d)
		v := fs.Val
		cv, isConv := v.(*ssa.Convert)
		okVal := false
		if isConv {
			if k, f := s.reqField(cv.X); k == kind && f == d.ReqField {
				okVal = true
			}
		}
		if !okVal {
			bad++
			c.R.Fail(rule, Fn(fn)+":"+fs.Field, c.Pos(fs.Store), "the watermark field "+fs.Field+" is assigned "+termOrZero(v)+" rather than the request's "+d.ReqField, fs.Field+" = int64(request "+d.ReqField+")", nil)
			continue
		}
		target := ssa.Instruction(fs.Store)
		approvedEdge := func(a *an.Atom) bool {
			if a == nil || a.Op != "==" {
				return false
			}
			for _, side := range [][2]ssa.Value{{a.LV, a.RV}, {a.RV, a.LV}} {
				call := storedCall(side[0])
				if call != nil && an.IsConstInt(side[1], s.APPROVED) && approvalFns[call.Call.StaticCallee()] {
					return true
				}
			}
			return false
		}
		x, path := an.Cut(an.CutQuery{From: an.Entry(fn), Target: func(i ssa.Instruction) bool { return i == target },
			AcceptEdge: func(b *ssa.BasicBlock, i int, a *an.Atom) bool {
				return approvedEdge(a) || c.WithSummaries(func(a *an.Atom, sub Subst) bool {
					return s.watermarkAtomS(a, sub, d.Kind, d.StateFld, d.ReqField, d.Strict)
				})(b, i, a)
			}})
		if x != nil {
			// an updater of the state object (`state.advance(req)`): judged at its call sites - each lies below
			// [check(... same request ...) == APPROVED] of a function that holds the comparisons
			if p, isParam := an.Unspill(obj).(*ssa.Parameter); isParam && p.Parent() == fn && errResultIndex(fn) < 0 {
				_, _, rb := reqBase(cv.X)
				reqP, _ := rb.(*ssa.Parameter)
				callers := c.staticCallers()[fn]
				okAll := len(callers) > 0 && reqP != nil
				for _, K := range callers {
					if !okAll {
						break
					}
					ri := -1
					for i, q := range fn.Params {
						if q == reqP {
							ri = i
						}
					}
					if ri < 0 || ri >= len(K.Common().Args) {
						okAll = false
						break
					}
					reqArg := K.Common().Args[ri]
					kt := K.(ssa.Instruction)
					if y, _ := an.Cut(an.CutQuery{From: an.Entry(K.Parent()), Target: func(i ssa.Instruction) bool { return i == kt },
						AcceptEdge: func(b *ssa.BasicBlock, i int, a *an.Atom) bool {
							if a == nil || a.Op != "==" {
								return false
							}
							for _, side := range [][2]ssa.Value{{a.LV, a.RV}, {a.RV, a.LV}} {
								call := storedCall(side[0])
								if call == nil || !an.IsConstInt(side[1], s.APPROVED) || !approvalFns[call.Call.StaticCallee()] {
									continue
								}
								for _, arg := range call.Call.Args {
									if arg == reqArg || sameValue(arg, reqArg) {
										return true
									}
								}
							}
							return false
						}}); y != nil {
						okAll = false
					}
				}
				if okAll {
					x = nil
				}
			}
		}
		if x != nil {
			bad++
			c.R.Fail(rule, Fn(fn)+":"+fs.Field, c.Pos(fs.Store), "the watermark field "+fs.Field+" can be overwritten on a path that has not passed the comparison with its previous value (the watermark could move backwards)", "written only after the "+d.Name+" comparison (or after the check returned APPROVED)", an.PathString(c.Pos, path))
		}
		// a check function that writes into its caller's state object must not refuse afterwards: the batch entry
		// persists every state object whatever the verdict of its position
		if p, isParam := an.Unspill(obj).(*ssa.Parameter); isParam && p.Parent() == fn {
			k := -1
			res := fn.Signature.Results()
			for i := 0; i < res.Len(); i++ {
				if namedIs(res.At(i).Type(), pkgRules, "Result") {
					k = i
				}
			}
			if k >= 0 {
				if x, path := an.Cut(an.CutQuery{From: an.After(fs.Store), Target: func(i ssa.Instruction) bool {
					ret, isRet := i.(*ssa.Return)
					return isRet && !an.IsConstInt(an.Result(ret, k), s.APPROVED)
				}}); x != nil {
					bad++
					c.R.Fail(rule, Fn(fn)+":"+fs.Field+":refused-after-write", c.Pos(fs.Store), "the caller's watermark object is modified and the request can still be refused afterwards: the batch path records every state object, so a refused request moves the watermark", "watermark fields are written only when nothing but APPROVED can follow", an.PathString(c.Pos, path))
				}
			}
		}
	}
	floor := 4
	if kind == "att" {
		floor = 8
	}
	c.R.Floor(rule, "stores to watermark fields ("+kind+")", n, floor)
	if bad == 0 {
		c.R.OK(rule, kind, "-", fmt.Sprintf("%d stores to watermark fields: decoder, 'none' marker, fresh import/export objects, or the request value after the comparison", n))
	}
}

// storedCall sees through `res[i] = check(...); ... res[i] ...`: for a load of an element whose only store in the function
// (same list, same index value) is the result of a call, it returns that call.
func storedCall(v ssa.Value) *ssa.Call {
	if call, ok := v.(*ssa.Call); ok {
		return call
	}
	root, idx, ok := elemLoad(v)
	if !ok {
		return nil
	}
	u := v.(*ssa.UnOp)
	var found *ssa.Call
	n := 0
	for _, b := range u.Parent().Blocks {
		for _, ins := range b.Instrs {
			st, ok := ins.(*ssa.Store)
			if !ok {
				continue
			}
			ia, ok := st.Addr.(*ssa.IndexAddr)
			if !ok || sliceRootExact(ia.X) != root {
				continue
			}
			if ia.Index != idx {
				if _, isConst := st.Val.(*ssa.Const); isConst {
					continue // initialisation of the list with a constant at another index
				}
				return nil
			}
			if call, ok := st.Val.(*ssa.Call); ok && (b == u.Block() || b.Dominates(u.Block())) {
				found = call
				n++
			} else if _, isConst := st.Val.(*ssa.Const); !isConst {
				return nil
			}
		}
	}
	if n == 1 {
		return found
	}
	return nil
}

// homeProp is the property a shared watermark obligation belongs to, whichever property evaluates it.
func homeProp(kind string) string {
	if kind == "prop" {
		return "C02"
	}
	return "C01"
}

// onlyCalledFrom: fn is one of the roots, or every static call of fn in the module (there is at least one, and fn is not
// used as a value) comes from a function for which the same holds (depth-limited).
func (c *Ctx) onlyCalledFrom(fn *ssa.Function, roots map[*ssa.Function]bool, depth int) bool {
	if roots[fn] {
		return true
	}
	if depth == 0 || fn == nil {
		return false
	}
	if refs := fn.Referrers(); refs != nil && len(*refs) > 0 {
		return false
	}
	for _, g := range c.P.ModuleFuncs() {
		for _, b := range g.Blocks {
			for _, ins := range b.Instrs {
				for _, op := range ins.Operands(nil) {
					if *op == ssa.Value(fn) {
						if ci, ok := ins.(ssa.CallInstruction); !ok || ci.Common().Value != ssa.Value(fn) {
							return false // used as a value
						}
					}
				}
			}
		}
	}
	callers := c.staticCallers()[fn]
	if len(callers) == 0 {
		return false
	}
	for _, ci := range callers {
		if !c.onlyCalledFrom(ci.Parent(), roots, depth-1) {
			return false
		}
	}
	return true
}

func termOrZero(v ssa.Value) string {
	if v == nil {
		return "the zero value (or a struct value the analysis cannot read field by field)"
	}
	return an.Term(v)
}
