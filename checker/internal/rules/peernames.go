package rules

import (
	"go/types"

	"dirkcheck/internal/an"
	"dirkcheck/internal/prog"

	"golang.org/x/tools/go/ssa"
)

// PeerNamesUnique (C16.O6 peer-names.unique-as-stored): a caller is mapped to a participant id by its authenticated name
// (C16.O1: the id is the table key of the entry whose Name equals the name). That is a function only if no two entries carry
// the same name. The peers service refuses duplicate names when it is built - the check has to be made on the name as it is
// stored: where the constructor puts an endpoint into the peers table, the endpoint's Name is the very value that was looked
// up in, and added to, the set of names seen (a name tidied, trimmed or lower-cased after the check can collide with
// another entry's, and map iteration order then decides whose share a caller receives).
func (c *Ctx) PeerNamesUnique(prop string) {
	rule := "C16.O6 peer-names.unique-as-stored"
	impl := c.Role(rule, pkgPeers, "Service")
	if impl == nil {
		return
	}
	same := func(a, b ssa.Value) bool {
		if a == b || sameValue(a, b) {
			return true
		}
		ua, ok1 := a.(*ssa.UnOp)
		ub, ok2 := b.(*ssa.UnOp)
		if ok1 && ok2 {
			ia, ok1 := ua.X.(*ssa.IndexAddr)
			ib, ok2 := ub.X.(*ssa.IndexAddr)
			if ok1 && ok2 && sliceRootExact(ia.X) == sliceRootExact(ib.X) {
				ka, ok1 := ia.Index.(*ssa.Const)
				kb, ok2 := ib.Index.(*ssa.Const)
				return ok1 && ok2 && ka.Value != nil && kb.Value != nil && ka.Int64() == kb.Int64()
			}
		}
		return false
	}
	n := 0
	for _, fn := range c.P.ModuleFuncs() {
		if prog.PkgPathOf(fn) != impl.Obj().Pkg().Path() || fn.Blocks == nil || prog.IsTestish(prog.PkgPathOf(fn)) {
			continue
		}
		if outer := outermost(fn); outer.Signature.Recv() != nil {
			continue // accessor methods hand out copies of table entries; the table is built by the constructor
		}
		for _, b := range fn.Blocks {
			for _, ins := range b.Instrs {
				mu, ok := ins.(*ssa.MapUpdate)
				if !ok {
					continue
				}
				mt, ok := mu.Map.Type().Underlying().(*types.Map)
				if !ok {
					continue
				}
				isEndpoint := namedIs(mt.Elem(), pkgCore, "Endpoint")
				if pt, isPtr := mt.Elem().(*types.Pointer); isPtr && namedIs(pt.Elem(), pkgCore, "Endpoint") {
					isEndpoint = true
				}
				if !isEndpoint {
					continue
				}
				n++
				val := mu.Value
				if ld, isLoad := val.(*ssa.UnOp); isLoad {
					val = ld.X // a table of endpoint values: the literal is built in a local and copied in
				}
				al, ok := val.(*ssa.Alloc)
				if !ok {
					c.R.Fail(rule, Fn(fn), c.Pos(mu), "the endpoint put into the peers table is built elsewhere ("+an.Term(mu.Value)+"): the name it carries is not the value the duplicate check was made on", "table[id] = &Endpoint{Name: <the checked name>}", nil)
					continue
				}
				var name ssa.Value
				for _, r := range *al.Referrers() {
					if fa, ok := r.(*ssa.FieldAddr); ok && fieldNameOf(fa) == "Name" {
						for _, r2 := range *fa.Referrers() {
							if st, ok := r2.(*ssa.Store); ok && st.Addr == ssa.Value(fa) {
								name = st.Val
							}
						}
					}
				}
				if name == nil {
					c.R.Fail(rule, Fn(fn), c.Pos(mu), "the endpoint put into the peers table has no name", "Name: <the checked name>", nil)
					continue
				}
				// the set of names seen: a local map keyed by string, looked up and updated with that very value
				looked, added := false, false
				for _, b2 := range fn.Blocks {
					for _, i2 := range b2.Instrs {
						switch x := i2.(type) {
						case *ssa.Lookup:
							if mk, isLocal := x.X.(*ssa.MakeMap); isLocal && mk.Parent() == fn && x.CommaOk && same(x.Index, name) {
								looked = true
							}
						case *ssa.MapUpdate:
							if mk, isLocal := x.Map.(*ssa.MakeMap); isLocal && mk.Parent() == fn && x != mu && same(x.Key, name) {
								added = true
							}
						}
					}
				}
				if looked && added {
					c.R.OK(rule, Fn(fn), c.Pos(mu), "the stored name is the value looked up in and added to the set of names seen")
				} else {
					c.R.Fail(rule, Fn(fn), c.Pos(mu), "the name stored with the endpoint ("+an.Term(name)+") is not the value the duplicate-name check looks up and records: two table entries can carry one name", "the duplicate check is made on the name as stored", nil)
				}
			}
		}
	}
	c.R.Floor(rule, "insertions into the peers table", n, 1)
}

func outermost(fn *ssa.Function) *ssa.Function {
	for fn.Parent() != nil {
		fn = fn.Parent()
	}
	return fn
}
