package rules

import (
	"fmt"
	"go/constant"
	"go/token"
	"go/types"
	"sort"

	"dirkcheck/internal/an"
	"dirkcheck/internal/prog"

	"golang.org/x/tools/go/ssa"
)

const (
	pkgRules  = mod + "/rules"
	pkgRuler  = mod + "/services/ruler"
	pkgCore   = mod + "/core"
	pkgBadger = "github.com/dgraph-io/badger/v2"
)

// Slashing gathers the anchors shared by the slashing-protection properties.
type Slashing struct {
	RulesImpl *types.Named
	Pkg       *ssa.Package

	Attest    *ssa.Function // OnSignBeaconAttestation
	AttestB   *ssa.Function // OnSignBeaconAttestations
	Propose   *ssa.Function // OnSignBeaconProposal
	Sign      *ssa.Function // OnSign
	ExportFn  *ssa.Function
	ImportFn  *ssa.Function
	StoreType *types.Named // the badger-backed store

	StoreStore, StoreBatch, StoreFetch, StoreFetchAll *ssa.Function

	AttReq, PropReq *types.Named // rules.SignBeaconAttestationData, rules.SignBeaconProposalData

	// state types discovered by flow: the receiver types of encoders whose output reaches the store.
	AttState, PropState *types.Named
	// field roles discovered by flow (state field <- request field)
	AttSourceField, AttTargetField, PropSlotField string

	APPROVED, DENIED, FAILED, UNKNOWN int64
	ok                                bool
}

// Slashing resolves (once) the shared anchors. Failures are recorded under rule.
func (c *Ctx) Slashing(rule string) *Slashing {
	if s, ok := c.memo["slashing"].(*Slashing); ok {
		return s
	}
	s := &Slashing{}
	c.memo["slashing"] = s
	s.RulesImpl = c.Role(rule, pkgRules, "Service")
	if s.RulesImpl == nil {
		return s
	}
	s.Pkg = c.P.Package(s.RulesImpl.Obj().Pkg().Path())
	s.Attest = c.Method(rule, s.RulesImpl, "OnSignBeaconAttestation")
	s.AttestB = c.Method(rule, s.RulesImpl, "OnSignBeaconAttestations")
	s.Propose = c.Method(rule, s.RulesImpl, "OnSignBeaconProposal")
	s.Sign = c.Method(rule, s.RulesImpl, "OnSign")
	s.ExportFn = c.Method(rule, s.RulesImpl, "ExportSlashingProtection")
	s.ImportFn = c.Method(rule, s.RulesImpl, "ImportSlashingProtection")
	s.AttReq = c.P.LookupType(pkgRules, "SignBeaconAttestationData")
	s.PropReq = c.P.LookupType(pkgRules, "SignBeaconProposalData")
	if s.AttReq == nil || s.PropReq == nil {
		c.R.Anchor(rule, "type:rules.Sign*Data", "request types not found")
		return s
	}
	var ok1, ok2, ok3, ok4 bool
	s.APPROVED, ok1 = c.EnumConst(rule, pkgRules, "APPROVED")
	s.DENIED, ok2 = c.EnumConst(rule, pkgRules, "DENIED")
	s.FAILED, ok3 = c.EnumConst(rule, pkgRules, "FAILED")
	s.UNKNOWN, ok4 = c.EnumConst(rule, pkgRules, "UNKNOWN")
	if !(ok1 && ok2 && ok3 && ok4) || s.Attest == nil || s.AttestB == nil || s.Propose == nil || s.Sign == nil || s.ExportFn == nil || s.ImportFn == nil {
		return s
	}
	// Store type: the module type whose methods call (*badger.DB).Update / View / NewWriteBatch.
	cands := map[*types.Named]bool{}
	for _, fn := range c.P.ModuleFuncs() {
		if prog.IsTestish(prog.PkgPathOf(fn)) || fn.Signature.Recv() == nil {
			continue
		}
		for _, ci := range Calls(fn, func(ci ssa.CallInstruction) bool {
			f := ci.Common().StaticCallee()
			if f == nil {
				return false
			}
			n := f.String()
			return n == "(*"+pkgBadger+".DB).Update" || n == "(*"+pkgBadger+".DB).View" || n == "(*"+pkgBadger+".DB).NewWriteBatch"
		}) {
			_ = ci
			rt := fn.Signature.Recv().Type()
			if p, ok := rt.(*types.Pointer); ok {
				rt = p.Elem()
			}
			if n, ok := rt.(*types.Named); ok {
				cands[n] = true
			}
		}
	}
	if len(cands) != 1 {
		c.R.Anchor(rule, "role:Store", fmt.Sprintf("expected exactly one badger-backed store type, found %d", len(cands)))
		return s
	}
	for n := range cands {
		s.StoreType = n
	}
	s.StoreStore = c.Method(rule, s.StoreType, "Store")
	s.StoreBatch = c.Method(rule, s.StoreType, "BatchStore")
	s.StoreFetch = c.Method(rule, s.StoreType, "Fetch")
	s.StoreFetchAll = c.Method(rule, s.StoreType, "FetchAll")
	if s.StoreStore == nil || s.StoreBatch == nil || s.StoreFetch == nil || s.StoreFetchAll == nil {
		return s
	}
	// State types by flow: receiver type of calls whose result reaches the value argument of Store/BatchStore
	// from functions statically reachable from the attestation / proposal entries.
	s.AttState = c.stateTypeFrom(rule, s, []*ssa.Function{s.Attest, s.AttestB}, "attestation")
	s.PropState = c.stateTypeFrom(rule, s, []*ssa.Function{s.Propose}, "proposal")
	if s.AttState == nil || s.PropState == nil {
		return s
	}
	if types.Identical(s.AttState, s.PropState) {
		c.R.Anchor(rule, "role:state-types", "attestation and proposal state resolve to the same type")
		return s
	}
	// Field roles by flow.
	roles := c.stateFieldRoles(s)
	s.AttSourceField = roles["att:Source.Epoch"]
	s.AttTargetField = roles["att:Target.Epoch"]
	s.PropSlotField = roles["prop:Slot"]
	if s.AttSourceField == "" || s.AttTargetField == "" || s.PropSlotField == "" || s.AttSourceField == s.AttTargetField {
		c.R.Anchor(rule, "role:state-fields", fmt.Sprintf("could not infer state field roles from the request->state flow: %v", roles))
		return s
	}
	s.ok = true
	return s
}

// OK reports whether all anchors resolved.
func (s *Slashing) OK() bool { return s != nil && s.ok }

func (c *Ctx) stateTypeFrom(rule string, s *Slashing, entries []*ssa.Function, what string) *types.Named {
	found := map[*types.Named]bool{}
	for _, e := range entries {
		reach := c.StaticReach(e, 4)
		inReach := map[*ssa.Function]bool{}
		for _, fn := range reach {
			inReach[fn] = true
		}
		for _, fn := range reach {
			for _, ci := range Calls(fn, func(ci ssa.CallInstruction) bool {
				f := ci.Common().StaticCallee()
				return f == s.StoreStore || f == s.StoreBatch
			}) {
				args := ci.Common().Args
				val := args[len(args)-1]
				var producers []ssa.Value
				if ci.Common().StaticCallee() == s.StoreStore {
					producers = append(producers, val)
				} else {
					for _, o := range ElemOrigins(val, ci) {
						producers = append(producers, o.Val)
					}
				}
				// a store wrapper that is handed the encoded value: the producers are its callers' arguments (callers
				// reachable from these entries only)
				for round := 0; round < 2; round++ {
					var next []ssa.Value
					for _, p := range producers {
						q, isParam := p.(*ssa.Parameter)
						if !isParam {
							next = append(next, p)
							continue
						}
						idx := -1
						for k, qq := range q.Parent().Params {
							if qq == q {
								idx = k
							}
						}
						for _, cs := range c.staticCallers()[q.Parent()] {
							if inReach[cs.Parent()] && idx >= 0 && idx < len(cs.Common().Args) {
								next = append(next, cs.Common().Args[idx])
							}
						}
					}
					producers = next
				}
				for _, p := range producers {
					if call, ok := p.(*ssa.Call); ok {
						if f := call.Call.StaticCallee(); f != nil && f.Signature.Recv() != nil {
							rt := f.Signature.Recv().Type()
							if pt, ok := rt.(*types.Pointer); ok {
								rt = pt.Elem()
							}
							if n, ok := rt.(*types.Named); ok {
								found[n] = true
							}
						}
					}
				}
			}
		}
	}
	if len(found) != 1 {
		var names []string
		for n := range found {
			names = append(names, n.String())
		}
		sort.Strings(names)
		c.R.Anchor(rule, "role:state-type:"+what, fmt.Sprintf("expected exactly one encoder receiver type reaching the store, found %v", names))
		return nil
	}
	for n := range found {
		return n
	}
	return nil
}

// reqField describes v as a load of a uint64 field path rooted at a request object:
// returns ("att","Target.Epoch") / ("att","Source.Epoch") / ("prop","Slot") ... or "", "".
func (s *Slashing) reqField(v ssa.Value) (string, string) {
	owner, f, base := an.FieldOf(v)
	if owner == nil {
		return "", ""
	}
	if named, ok := owner.(*types.Named); ok {
		if types.Identical(named, s.PropReq) {
			return "prop", f
		}
		if types.Identical(named, s.AttReq) {
			return "att", f
		}
		if named.Obj().Name() == "Checkpoint" && named.Obj().Pkg().Path() == pkgRules {
			// base is load of req.Source / req.Target
			o2, f2, _ := an.FieldOf(base)
			if n2, ok := o2.(*types.Named); ok && types.Identical(n2, s.AttReq) {
				return "att", f2 + "." + f
			}
		}
	}
	return "", ""
}

// stateField describes v as a load of a field of a state object.
func (s *Slashing) stateField(v ssa.Value) (kind string, field string) {
	owner, f, _ := an.FieldOf(v)
	if owner == nil {
		return "", ""
	}
	if n, ok := owner.(*types.Named); ok {
		if types.Identical(n, s.AttState) {
			return "att", f
		}
		if types.Identical(n, s.PropState) {
			return "prop", f
		}
	}
	return "", ""
}

type fieldStore struct {
	Fn    *ssa.Function
	Store *ssa.Store
	Kind  string // att / prop
	Field string
	Val   ssa.Value // the value the field receives (nil: the zero value, or a value the analysis cannot name)
	Obj   ssa.Value // the state object written (pointer)
	Whole bool      // part of an assignment of the whole struct (`*state = newState`)
}

// stateFieldStores lists the writes of fields of the state types in module functions: stores to a field, and assignments of
// a whole struct value (one entry per field; the value of a field is known when the assigned struct is a local value built
// once, field by field). Field stores into such a local builder value are not writes of a watermark object themselves and
// are not listed - the assignment that copies the value out is.
func (c *Ctx) stateFieldStores(s *Slashing) []fieldStore {
	var out []fieldStore
	kindOf := func(t types.Type) (string, *types.Named) {
		if p, ok := t.Underlying().(*types.Pointer); ok {
			t = p.Elem()
		}
		n, ok := t.(*types.Named)
		if !ok {
			return "", nil
		}
		if types.Identical(n, s.AttState) {
			return "att", n
		} else if types.Identical(n, s.PropState) {
			return "prop", n
		}
		return "", nil
	}
	// a local struct value all whole-value loads of which are only copied on (assigned to another variable or object)
	builder := func(v ssa.Value) *ssa.Alloc {
		al, ok := v.(*ssa.Alloc)
		if !ok || !an.PureLocalStruct(al) {
			return nil
		}
		for _, r := range *al.Referrers() {
			if ld, isLoad := r.(*ssa.UnOp); isLoad {
				if ld.Referrers() == nil {
					return nil
				}
				for _, lr := range *ld.Referrers() {
					switch y := lr.(type) {
					case *ssa.DebugRef:
					case *ssa.Store:
						if y.Val != ssa.Value(ld) {
							return nil
						}
					default:
						return nil
					}
				}
			}
		}
		return al
	}
	for _, fn := range c.P.ModuleFuncs() {
		if prog.IsTestish(prog.PkgPathOf(fn)) {
			continue
		}
		for _, b := range fn.Blocks {
			for _, ins := range b.Instrs {
				st, ok := ins.(*ssa.Store)
				if !ok {
					continue
				}
				if fa, ok := st.Addr.(*ssa.FieldAddr); ok {
					kind, n := kindOf(fa.X.Type())
					if kind == "" {
						continue
					}
					if builder(fa.X) != nil {
						continue
					}
					st2 := n.Underlying().(*types.Struct)
					out = append(out, fieldStore{Fn: fn, Store: st, Kind: kind, Field: st2.Field(fa.Field).Name(), Val: st.Val, Obj: fa.X})
					continue
				}
				// assignment of a whole state value
				kind, n := kindOf(st.Addr.Type())
				if kind == "" {
					continue
				}
				if _, isStruct := st.Val.Type().Underlying().(*types.Struct); !isStruct {
					continue
				}
				if builder(st.Addr) != nil {
					continue // a copy between local builder values
				}
				st2 := n.Underlying().(*types.Struct)
				var src *ssa.Alloc
				if ld, isLoad := st.Val.(*ssa.UnOp); isLoad {
					src = builder(ld.X)
				}
				for i := 0; i < st2.NumFields(); i++ {
					var val ssa.Value
					if src != nil {
						if v, zero, ok := an.LocalStructField(src, i, st.Val.(*ssa.UnOp)); ok && !zero {
							val = v
						}
					}
					out = append(out, fieldStore{Fn: fn, Store: st, Kind: kind, Field: st2.Field(i).Name(), Val: val, Obj: st.Addr, Whole: true})
				}
			}
		}
	}
	return out
}

// stateFieldRoles infers which state field records which request field.
func (c *Ctx) stateFieldRoles(s *Slashing) map[string]string {
	roles := map[string]string{}
	conflict := map[string]bool{}
	for _, fs := range c.stateFieldStores(s) {
		v := fs.Val
		if v == nil {
			continue
		}
		if cv, ok := v.(*ssa.Convert); ok {
			v = cv.X
		}
		k, f := s.reqField(v)
		if k == "" || k != fs.Kind {
			continue
		}
		key := k + ":" + f
		if prev, ok := roles[key]; ok && prev != fs.Field {
			conflict[key] = true
		}
		roles[key] = fs.Field
	}
	for k := range conflict {
		roles[k] = ""
	}
	return roles
}

// isConvOf reports whether v is Convert(to <- x) and returns x.
func isConvOf(v ssa.Value, to types.BasicKind) (ssa.Value, bool) {
	cv, ok := v.(*ssa.Convert)
	if !ok {
		return nil, false
	}
	b, ok := cv.Type().Underlying().(*types.Basic)
	if !ok || b.Kind() != to {
		return nil, false
	}
	return cv.X, true
}

// guardAtomLowerBound reports whether atom a is one of the accepted forms of
// "no previous value recorded (state<0) OR request value exceeds (strict) / is not below (non-strict) the recorded one".
func (s *Slashing) watermarkAtom(a *an.Atom, kind, stateFld, reqFld string, strict bool) bool {
	return s.watermarkAtomS(a, nil, kind, stateFld, reqFld, strict)
}

// convOfS is isConvOf through a substitution: Convert(x) where x may be a callee parameter.
func convOfS(v ssa.Value, sub Subst, to types.BasicKind) (ssa.Value, bool) {
	r := sub.Res(v)
	if lv, isLocal := an.LocalFieldLoad(r); isLocal {
		// `n := T{F: int64(x)}; ... n.F ...`: a field of a local struct value that is written once
		r = sub.Res(lv)
	}
	x, ok := isConvOf(r, to)
	if !ok {
		return nil, false
	}
	return sub.Res(x), true
}

func (s *Slashing) watermarkAtomS(a *an.Atom, sub Subst, kind, stateFld, reqFld string, strict bool) bool {
	if a == nil {
		return false
	}
	a = resolveAtom(a, sub)
	isState := func(v ssa.Value) bool {
		k, f := s.stateField(sub.Res(v))
		return k == kind && f == stateFld
	}
	isReq := func(v ssa.Value) bool {
		k, f := s.reqField(sub.Res(v))
		return k == kind && f == reqFld
	}
	isConvOf := func(v ssa.Value, to types.BasicKind) (ssa.Value, bool) { return convOfS(v, sub, to) }
	// "nothing recorded": T < 0, T <= -1, T == -1
	if a.Op == "<" && isState(a.LV) && an.IsConstInt(a.RV, 0) {
		return true
	}
	if a.Op == "<=" && isState(a.LV) && an.IsConstInt(a.RV, -1) {
		return true
	}
	if a.Op == "==" && ((isState(a.LV) && an.IsConstInt(a.RV, -1)) || (isState(a.RV) && an.IsConstInt(a.LV, -1))) {
		return true
	}
	// comparison, unsigned domain: uint64(T) < t (strict) or uint64(S) <= s (non strict)
	wantOp := "<"
	if !strict {
		wantOp = "<="
	}
	if a.Op == wantOp {
		if x, ok := isConvOf(a.LV, types.Uint64); ok && isState(x) && isReq(a.RV) {
			return true
		}
		// signed domain: T < int64(t)
		if x, ok := isConvOf(a.RV, types.Int64); ok && isState(a.LV) && isReq(x) {
			return true
		}
	}
	return false
}

// boundAtom reports whether atom a bounds request value (kind, reqFld) by MaxInt64: x <= MaxInt64 or x < 2^63.
func (s *Slashing) boundAtom(a *an.Atom, kind, reqFld string) bool {
	return s.boundAtomS(a, nil, kind, reqFld)
}

func (s *Slashing) boundAtomS(a *an.Atom, sub Subst, kind, reqFld string) bool {
	if a == nil {
		return false
	}
	a = resolveAtom(a, sub)
	k, f := s.reqField(a.LV)
	if k != kind || f != reqFld {
		return false
	}
	u, ok := an.ConstUint64(a.RV)
	if !ok {
		return false
	}
	if a.Op == "<=" && u <= 1<<63-1 {
		return true
	}
	if a.Op == "<" && u <= 1<<63 {
		return true
	}
	return false
}

// nonNegAtom reports whether atom a establishes state field >= 0.
func (s *Slashing) nonNegAtom(a *an.Atom, kind, stateFld string) bool {
	return s.nonNegAtomS(a, nil, kind, stateFld)
}

func (s *Slashing) nonNegAtomS(a *an.Atom, sub Subst, kind, stateFld string) bool {
	if a == nil {
		return false
	}
	a = resolveAtom(a, sub)
	isState := func(v ssa.Value) bool {
		k, f := s.stateField(sub.Res(v))
		return k == kind && f == stateFld
	}
	if k, ok := a.LV.(*ssa.Const); ok && isState(a.RV) && k.Value != nil {
		if v, exact := constInt64(k); exact {
			if a.Op == "<=" && v >= 0 {
				return true
			}
			if a.Op == "<" && v >= -1 {
				return true
			}
		}
	}
	return false
}

func constInt64(k *ssa.Const) (int64, bool) {
	if k.Value == nil || k.Value.Kind() != constant.Int {
		return 0, false
	}
	return constant.Int64Val(k.Value)
}

var _ = token.ADD
