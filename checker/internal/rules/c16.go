package rules

import (
	"fmt"
	"go/token"
	"go/types"
	"strings"

	"dirkcheck/internal/an"
	"dirkcheck/internal/prog"

	"golang.org/x/tools/go/ssa"
)

const (
	pkgInterceptors = mod + "/services/api/grpc/interceptors"
	pkgPeers        = mod + "/services/peers"
)

var protocolMethods = map[string]bool{"OnPrepare": true, "OnExecute": true, "OnCommit": true, "OnAbort": true, "OnContribute": true}

// ctxValueOfKey: v is the (type-asserted) result of ctx.Value(&interceptors.<key>{}); returns key type name.
func ctxValueOfKey(v ssa.Value) string {
	return ctxValueOfKeyS(v, nil, 0)
}

// ctxValueOfKeyS resolves the key through helper parameters; a string helper `f(ctx, key)` every non-empty result of which is
// ctx.Value(key).(string) counts as that context value.
func ctxValueOfKeyS(v ssa.Value, sub Subst, depth int) string {
	v = sub.Res(v)
	var hcall *ssa.Call
	if call, ok := v.(*ssa.Call); ok {
		hcall = call
	} else if ex, ok := v.(*ssa.Extract); ok {
		hcall, _ = ex.Tuple.(*ssa.Call) // a (name, ok) helper: the name component
	}
	if hcall != nil && depth < 2 && !hcall.Call.IsInvoke() && hcall.Call.StaticCallee() != nil && prog.InModule(hcall.Call.StaticCallee()) {
		rvs, isH := HelperResults(v)
		if !isH || len(rvs) == 0 {
			return ""
		}
		name := ""
		for _, rv := range rvs {
			if k, isK := rv.Val.(*ssa.Const); isK && an.Term(k) == "\"\"" {
				continue // the zero string: no identity
			}
			ns := Subst{}
			for a, b := range rv.Sub {
				ns[a] = sub.Res(b)
			}
			n := ctxValueOfKeyS(rv.Val, ns, depth+1)
			if n == "" || (name != "" && n != name) {
				return ""
			}
			name = n
		}
		return name
	}
	if ex, ok := v.(*ssa.Extract); ok {
		v = ex.Tuple
	}
	ta, ok := v.(*ssa.TypeAssert)
	if ok {
		v = ta.X
	}
	call, ok := v.(*ssa.Call)
	if !ok || !call.Call.IsInvoke() || call.Call.Method.Name() != "Value" || len(call.Call.Args) != 1 {
		return ""
	}
	mi, ok := sub.Res(call.Call.Args[0]).(*ssa.MakeInterface)
	if !ok {
		return ""
	}
	n := namedOf(mi.X.Type())
	if n == nil || n.Obj().Pkg() == nil || n.Obj().Pkg().Path() != pkgInterceptors {
		return ""
	}
	return n.Obj().Name()
}

// PeerGate: C16.O1, O2, O4.
func (c *Ctx) PeerGate(prop string) {
	rule := "C16.O1 peer-gate"
	hs := c.handlersIn(rule, "/handlers/receiver")
	isHandler := map[*ssa.Function]bool{}
	for _, H := range hs {
		isHandler[H] = true
	}
	n := 0
	var lookups = map[*ssa.Function]bool{}
	// gated: the instruction `site` (a protocol call, or the creation of a closure / a call of a helper that leads to one) is only
	// reachable for an authenticated peer, and idVal is that peer's looked-up id.
	var gated func(site ssa.Instruction, idVal ssa.Value, depth int) (bool, string, []string)
	gated = func(site ssa.Instruction, idVal ssa.Value, depth int) (bool, string, []string) {
		if depth > 5 {
			return false, "call chain too deep", nil
		}
		fn := site.Parent()
		// resolve the id through captured-variable cells
		for i := 0; i < 4; i++ {
			if u, ok := idVal.(*ssa.UnOp); ok {
				if inner, ok := an.ResolveCell(u.X); ok {
					idVal = inner
					continue
				}
			}
			break
		}
		if isHandler[fn] {
			// the id may come from a wrapper (id, known) := h.knownSender(ctx): known is true only for a non-zero looked-up id
			if ex, isEx := idVal.(*ssa.Extract); isEx && ex.Index == 0 {
				if w, isCall := ex.Tuple.(*ssa.Call); isCall && w.Parent() == fn && w.Call.StaticCallee() != nil && prog.InModule(w.Call.StaticCallee()) && w.Call.StaticCallee().Blocks != nil {
					W := w.Call.StaticCallee()
					if W.Signature.Results().Len() != 2 {
						return false, "the sender id comes from " + Fn(W) + ", which is not of the form (id, known)", nil
					}
					nTrue := 0
					errForm := isErrorType(W.Signature.Results().At(1).Type()) // (id, error): known <=> the error is nil
					for _, ret := range an.Returns(W) {
						if errForm {
							if !isNilConst(unwrapErr(an.Result(ret, 1))) {
								continue
							}
						} else {
							k, isK := an.Result(ret, 1).(*ssa.Const)
							if !isK {
								return false, "the wrapper " + Fn(W) + " returns a computed 'known' flag", nil
							}
							if an.Term(k) != "true" {
								continue
							}
						}
						nTrue++
						var idCall2 ssa.Value
						if ic, ok := an.Result(ret, 0).(*ssa.Call); ok && ic.Call.StaticCallee() != nil && prog.InModule(ic.Call.StaticCallee()) {
							idCall2 = ic
							lookups[ic.Call.StaticCallee()] = true
						} else if _, isK := an.Result(ret, 0).(*ssa.Const); !isK {
							// the wrapper is the lookup itself: `for id, peer := range peers { if peer.Name == client && id != 0 { return id, nil } }`
							// (what it may return as an id is judged below, like any lookup)
							idCall2 = an.Result(ret, 0)
							lookups[W] = true
						} else {
							return false, "the wrapper " + Fn(W) + " reports a known sender with a fixed id", nil
						}
						target := ssa.Instruction(ret)
						if x, path := an.Cut(an.CutQuery{From: an.Entry(W), Target: func(i ssa.Instruction) bool { return i == target },
							AcceptEdge: func(b *ssa.BasicBlock, i int, a *an.Atom) bool {
								if a == nil {
									return false
								}
								if a.Op == "!=" && ((a.LV == idCall2 && an.IsConstInt(a.RV, 0)) || (a.RV == idCall2 && an.IsConstInt(a.LV, 0))) {
									return true
								}
								return a.Op == "<" && an.IsConstInt(a.LV, 0) && a.RV == idCall2
							}}); x != nil {
							return false, "the wrapper " + Fn(W) + " can report a known sender for id 0", an.PathString(c.Pos, path)
						}
					}
					if nTrue == 0 {
						return false, "the wrapper " + Fn(W) + " never reports a known sender", nil
					}
					var known ssa.Value
					for _, r := range *w.Referrers() {
						if e2, ok := r.(*ssa.Extract); ok && e2.Index == 1 {
							known = e2
						}
					}
					x, path := an.Cut(an.CutQuery{From: an.Entry(fn), Target: func(i ssa.Instruction) bool { return i == site },
						AcceptEdge: func(b *ssa.BasicBlock, i int, a *an.Atom) bool {
							if a == nil || known == nil {
								return false
							}
							if errForm {
								return a.Op == "==" && ((a.LV == known && isNilConst(a.RV)) || (a.RV == known && isNilConst(a.LV)))
							}
							return a.Op == "true" && a.LV == known
						}})
					if x != nil {
						return false, "reachable although the caller is not a configured peer (the wrapper's 'known' flag is not tested)", an.PathString(c.Pos, path)
					}
					return true, "", nil
				}
			}
			idCall, ok := idVal.(*ssa.Call)
			if !ok || idCall.Call.StaticCallee() == nil || !prog.InModule(idCall.Call.StaticCallee()) || idCall.Parent() != fn {
				return false, "the sender id handed to the key-generation process is not the result of the peer lookup: " + an.Term(idVal), nil
			}
			lookups[idCall.Call.StaticCallee()] = true
			x, path := an.Cut(an.CutQuery{From: an.Entry(fn), Target: func(i ssa.Instruction) bool { return i == site },
				AcceptEdge: func(b *ssa.BasicBlock, i int, a *an.Atom) bool {
					if a == nil {
						return false
					}
					res := func(v ssa.Value) ssa.Value {
						if u, ok := v.(*ssa.UnOp); ok {
							if inner, ok := an.ResolveCell(u.X); ok {
								return inner
							}
						}
						return v
					}
					lv, rv := res(a.LV), res(a.RV)
					if a.Op == "!=" && ((lv == ssa.Value(idCall) && an.IsConstInt(rv, 0)) || (rv == ssa.Value(idCall) && an.IsConstInt(lv, 0))) {
						return true
					}
					if a.Op == "<" && an.IsConstInt(lv, 0) && rv == ssa.Value(idCall) {
						return true
					}
					return false
				}})
			if x != nil {
				return false, "reachable although the caller is not a configured peer (sender id 0)", an.PathString(c.Pos, path)
			}
			return true, "", nil
		}
		if fn.Parent() != nil {
			// closure: gate its creation in the enclosing function
			okAll, nsites := true, 0
			var why string
			var wit []string
			for _, b := range fn.Parent().Blocks {
				for _, ins := range b.Instrs {
					mc, ok := ins.(*ssa.MakeClosure)
					if !ok || mc.Fn != fn {
						continue
					}
					nsites++
					// the id inside the closure: a free variable -> its binding
					id2 := idVal
					if fv, ok := idVal.(*ssa.FreeVar); ok {
						for k, f := range fn.FreeVars {
							if f == fv {
								id2 = mc.Bindings[k]
							}
						}
					}
					if a, ok := id2.(*ssa.Alloc); ok {
						if inner, ok := an.ResolveCell(a); ok {
							id2 = inner
						}
					}
					if ok2, w, p := gated(mc, id2, depth+1); !ok2 {
						okAll, why, wit = false, w, p
					}
				}
			}
			if nsites == 0 {
				return false, "closure without a creation site", nil
			}
			return okAll, why, wit
		}
		// helper: every call site must be gated, with the id passed through
		pi := -1
		for i, p := range fn.Params {
			if ssa.Value(p) == idVal {
				pi = i
			}
		}
		if pi < 0 {
			return false, "the sender id used in helper " + Fn(fn) + " is not one of its parameters: " + an.Term(idVal), nil
		}
		ncs := 0
		for _, caller := range c.P.ModuleFuncs() {
			if prog.IsTestish(prog.PkgPathOf(caller)) {
				continue
			}
			for _, cs := range Calls(caller, func(x ssa.CallInstruction) bool { return x.Common().StaticCallee() == fn }) {
				ncs++
				if ok2, w, p := gated(cs, cs.Common().Args[pi], depth+1); !ok2 {
					return false, "via " + Fn(caller) + ": " + w, p
				}
			}
		}
		return true, "", nil
	}
	procImpl := c.Role(rule, pkgProcess, "Service")
	for _, fn := range c.P.ModuleFuncs() {
		if prog.IsTestish(prog.PkgPathOf(fn)) {
			continue
		}
		for _, ci := range Calls(fn, func(ci ssa.CallInstruction) bool {
			cc := ci.Common()
			if cc.IsInvoke() && namedIs(cc.Value.Type(), pkgProcess, "Service") && protocolMethods[cc.Method.Name()] {
				return true
			}
			if f := cc.StaticCallee(); f != nil && procImpl != nil && f.Signature.Recv() != nil && namedOf(f.Signature.Recv().Type()) == procImpl && protocolMethods[f.Name()] {
				return true
			}
			return false
		}) {
			n++
			m := CalleeName(ci)
			if ci.Common().IsInvoke() {
				m = ci.Common().Method.Name()
			}
			idArg := ci.Common().Args[1]
			if !ci.Common().IsInvoke() {
				idArg = ci.Common().Args[2]
			}
			ok, why, wit := gated(ci, idArg, 0)
			if !ok {
				c.R.Fail(rule, Fn(fn)+":"+m, c.Pos(ci), "a key-generation protocol method ("+m+") is "+why, "process.On* only for callers whose looked-up peer id is non-zero, with that id as the sender", wit)
			} else {
				c.R.OK(rule, Fn(fn)+":"+m, c.Pos(ci), m+" only below [senderID != 0] (directly or through gated helpers/closures), with the looked-up id as the sender")
			}
		}
	}
	c.R.Floor(rule, "call sites of protocol methods", n, 5)
	// the lookup: non-zero only below peer.Name == authenticated client name
	for L := range lookups {
		bad := false
		nz := 0
		cmpFn := L // the function holding the name comparison
		var walk func(F *ssa.Function, sub Subst, depth int)
		walk = func(F *ssa.Function, sub Subst, depth int) {
			for _, ret := range an.Returns(F) {
				for _, o := range ValueOrigins(an.Result(ret, 0), ret) {
					if o.Kind == "const" {
						if o.Const != 0 {
							bad = true
							c.R.Fail(rule, Fn(L)+":lookup", c.Pos(o.Site), "the peer lookup can return a fixed non-zero id", "non-zero only for a peer whose name equals the authenticated client name", nil)
						}
						continue
					}
					// the id may be looked up by a package helper that is given the client name
					if call, isCall := an.Result(ret, 0).(*ssa.Call); isCall && depth < 2 && !call.Call.IsInvoke() {
						if P := call.Call.StaticCallee(); P != nil && prog.InModule(P) && P.Blocks != nil {
							ns := Subst{}
							for k, q := range P.Params {
								if k < len(call.Call.Args) {
									ns[q] = sub.Res(call.Call.Args[k])
								}
							}
							cmpFn = P
							walk(P, ns, depth+1)
							continue
						}
					}
					nz++
					site := o.Site
					x, path := an.Cut(an.CutQuery{From: an.Entry(F), Target: func(i ssa.Instruction) bool { return i == site },
						AcceptEdge: func(b *ssa.BasicBlock, i int, a *an.Atom) bool {
							if a == nil || a.Op != "==" {
								return false
							}
							for _, side := range [][2]ssa.Value{{a.LV, a.RV}, {a.RV, a.LV}} {
								owner, f, _ := an.FieldOf(side[0])
								if owner == nil || f != "Name" || !namedIs(owner, pkgCore, "Endpoint") {
									continue
								}
								if ctxValueOfKeyS(side[1], sub, 0) == "ClientName" {
									return true
								}
							}
							return false
						}})
					// the id returned must be the key of the entry whose name matched: same iteration
					if x != nil {
						bad = true
						c.R.Fail(rule, Fn(F)+":lookup", c.Pos(site), "the peer lookup can yield a peer id without the peer's configured name being equal to the caller's authenticated name", "id only below [peer.Name == ctx.Value(ClientName)]", an.PathString(c.Pos, path))
					}
				}
			}
		}
		walk(L, Subst{}, 0)
		if nz == 0 {
			bad = true
			c.R.Fail(rule, Fn(L)+":lookup", c.P.FuncPos(L), "the peer lookup never yields an id", "id of the peer named like the caller", nil)
		}
		// the id and the name come from the same peer-table entry
		if !bad && !sameEntryIDName(cmpFn) {
			bad = true
			c.R.Fail(rule, Fn(L)+":lookup", c.P.FuncPos(L), "the id returned is not the table key of the entry whose name was compared", "for id, peer := range peers { if peer.Name == client { return id } }", nil)
		}
		if !bad {
			c.R.OK(rule, Fn(L)+":lookup", c.P.FuncPos(L), "non-zero only as the key of the peer-table entry whose Name equals the authenticated client name")
		}
	}
	// O2 identity-source: the ClientName context key is set only by the client-info interceptor from the verified certificate
	c.IdentitySource(prop)
}

// sameEntryIDName: in L, the non-zero result is Extract#1 (key) of the same Next whose Extract#2 (value) has its Name compared.
func sameEntryIDName(L *ssa.Function) bool {
	for _, b := range L.Blocks {
		for _, ins := range b.Instrs {
			nx, ok := ins.(*ssa.Next)
			if !ok {
				continue
			}
			var key, val ssa.Value
			for _, r := range *nx.Referrers() {
				if ex, ok := r.(*ssa.Extract); ok {
					if ex.Index == 1 {
						key = ex
					}
					if ex.Index == 2 {
						val = ex
					}
				}
			}
			if key == nil || val == nil {
				continue
			}
			// Name of val compared; key flows to the return
			cmp := false
			for _, b2 := range L.Blocks {
				for i := range b2.Succs {
					a := an.EdgeAtom(b2, i)
					if a == nil || a.Op != "==" {
						continue
					}
					for _, side := range []ssa.Value{a.LV, a.RV} {
						if _, f, base := an.FieldOf(side); f == "Name" && base == val {
							cmp = true
						}
					}
				}
			}
			flows := false
			for _, ret := range an.Returns(L) {
				for _, o := range ValueOrigins(an.Result(ret, 0), ret) {
					if o.Kind == "opaque" && o.Val == key {
						flows = true
					}
				}
			}
			if cmp && flows {
				return true
			}
		}
	}
	return false
}

// IdentitySource: C16.O2 / C19.O3.
func (c *Ctx) IdentitySource(prop string) {
	rule := "C19.O3 identity"
	if c.memo["identity:"+c.R.Property] != nil {
		return
	}
	c.memo["identity:"+c.R.Property] = true
	nset := 0
	for _, fn := range c.P.ModuleFuncs() {
		if prog.IsTestish(prog.PkgPathOf(fn)) {
			continue
		}
		for _, ci := range Calls(fn, func(ci ssa.CallInstruction) bool { return IsCallTo(ci, "context.WithValue") }) {
			mi, ok := ci.Common().Args[1].(*ssa.MakeInterface)
			if !ok {
				continue
			}
			n := namedOf(mi.X.Type())
			if n == nil || n.Obj().Name() != "ClientName" || n.Obj().Pkg().Path() != pkgInterceptors {
				continue
			}
			nset++
			// value: PeerCertificates[0].Subject.CommonName of the TLS connection state, below HandshakeComplete
			val := an.StripConv(ci.Common().Args[2])
			cutFn, cutTargets := fn, []ssa.Instruction{ci.(ssa.Instruction)}
			if ex, isEx := val.(*ssa.Extract); isEx && ex.Index == 0 {
				// a helper returning (name, authenticated): used only below [authenticated]; its authenticated returns are examined
				if hc, isCall := ex.Tuple.(*ssa.Call); isCall && hc.Call.StaticCallee() != nil && prog.InModule(hc.Call.StaticCallee()) && guardedByOk(hc, ci.(ssa.Instruction)) {
					h := hc.Call.StaticCallee()
					var vals []ssa.Value
					var sites []ssa.Instruction
					for _, ret := range an.Returns(h) {
						if len(ret.Results) != 2 {
							continue
						}
						if k, isK := an.Result(ret, 1).(*ssa.Const); isK && an.Term(k) == "false" {
							continue
						}
						vals = append(vals, an.StripConv(an.Result(ret, 0)))
						sites = append(sites, ret)
					}
					if len(vals) == 1 {
						val, cutFn, cutTargets = vals[0], h, sites
					}
				}
			}
			term := an.Term(val)
			okVal := strings.HasSuffix(term, ".PeerCertificates[0].Subject.CommonName") || strings.HasSuffix(term, "PeerCertificates[0].Subject.CommonName")
			if !okVal {
				c.R.Fail(rule, Fn(fn), c.Pos(ci), "the client identity placed in the request context is not the subject name of the first (verified leaf) peer certificate: "+term, "ClientName = State.PeerCertificates[0].Subject.CommonName", nil)
				continue
			}
			if !strings.Contains(term, "credentials.TLSInfo") {
				c.R.Fail(rule, Fn(fn), c.Pos(ci), "the certificate is not taken from the connection's TLS authentication info: "+term, "peer.AuthInfo.(credentials.TLSInfo).State", nil)
				continue
			}
			target := cutTargets[0]
			x, path := an.Cut(an.CutQuery{From: an.Entry(cutFn), Target: func(i ssa.Instruction) bool { return i == target },
				AcceptEdge: func(b *ssa.BasicBlock, i int, a *an.Atom) bool {
					if a == nil || a.Op != "true" {
						return false
					}
					_, f, _ := an.FieldOf(a.LV)
					return f == "HandshakeComplete"
				}})
			if x != nil {
				c.R.Fail(rule, Fn(fn), c.Pos(ci), "the client identity is taken before the TLS handshake is known to be complete", "identity only below [HandshakeComplete]", an.PathString(c.Pos, path))
				continue
			}
			if prog.PkgPathOf(fn) != pkgInterceptors {
				c.R.Fail(rule, Fn(fn), c.Pos(ci), "the client identity is set outside the gRPC interceptor package", "only the client-info interceptor sets ClientName", nil)
				continue
			}
			c.R.OK(rule, Fn(fn), c.Pos(ci), "ClientName = PeerCertificates[0].Subject.CommonName of the TLS state, below HandshakeComplete")
		}
	}
	if nset != 1 {
		c.R.Fail(rule, "context.WithValue(ClientName)", "-", fmt.Sprintf("expected exactly one place that sets the client identity, found %d", nset), "single source of identity", nil)
	}
	// readers: GenerateCredentials and the DKG sender lookup read exactly that key; Credentials.Client is written only from it
	nw := 0
	for _, fn := range c.P.ModuleFuncs() {
		if prog.IsTestish(prog.PkgPathOf(fn)) {
			continue
		}
		for _, b := range fn.Blocks {
			for _, ins := range b.Instrs {
				st, ok := ins.(*ssa.Store)
				if !ok {
					continue
				}
				fa, ok := st.Addr.(*ssa.FieldAddr)
				if !ok || !namedIs(fa.X.Type(), pkgChecker, "Credentials") || fieldNameOf(fa) != "Client" {
					continue
				}
				nw++
				// the credentials object belongs to this request alone: a fresh object that is only filled and returned
				// (a pooled, cached or otherwise retained object can be re-labelled by another request while this one still uses it)
				{
					al, isAlloc := fa.X.(*ssa.Alloc)
					fresh := isAlloc
					why := "it is not created by this call: " + an.Term(fa.X)
					if isAlloc {
						for _, r := range *al.Referrers() {
							switch x := r.(type) {
							case *ssa.DebugRef, *ssa.Return:
							case *ssa.FieldAddr:
								for _, r2 := range *x.Referrers() {
									if st2, ok := r2.(*ssa.Store); !ok || st2.Addr != ssa.Value(x) {
										if _, isLoad := r2.(*ssa.UnOp); !isLoad {
											fresh, why = false, "a field address of it is handed on"
										}
									}
								}
							default:
								fresh, why = false, "it is also kept or handed on at "+c.Pos(r)
							}
						}
					}
					if !fresh {
						c.R.Fail(rule, Fn(fn)+":fresh", c.Pos(st), "the credentials object carrying the caller's identity is shared beyond this request: "+why, "a new Credentials object per call, only filled and returned", nil)
					} else {
						c.R.OK(rule, Fn(fn)+":fresh", c.Pos(st), "the credentials object is created by this call and only filled and returned")
					}
				}
				if ctxValueOfKey(st.Val) != "ClientName" {
					c.R.Fail(rule, Fn(fn)+":credentials", c.Pos(st), "the client name used for permission decisions is not read from the authenticated identity in the request context: "+an.Term(st.Val), "Credentials.Client = ctx.Value(ClientName)", nil)
				} else {
					c.R.OK(rule, Fn(fn)+":credentials", c.Pos(st), "Credentials.Client = ctx.Value(ClientName)")
				}
			}
		}
	}
	c.R.Floor(rule, "writers of Credentials.Client", nw, 1)
	// every handler passes GenerateCredentials(ctx) of its own context to the services
	nh := 0
	for _, H := range c.HandlerMethods(rule) {
		for _, ci := range Calls(H, func(ci ssa.CallInstruction) bool {
			cc := ci.Common()
			if !cc.IsInvoke() {
				return false
			}
			for _, a := range cc.Args {
				if p, ok := a.Type().(*types.Pointer); ok && namedIs(p.Elem(), pkgChecker, "Credentials") {
					return true
				}
			}
			return false
		}) {
			nh++
			okCred := false
			for _, a := range ci.Common().Args {
				if call, ok := a.(*ssa.Call); ok && call.Call.StaticCallee() != nil && call.Call.StaticCallee().Name() == "GenerateCredentials" {
					if len(call.Call.Args) == 1 && call.Call.Args[0] == ssa.Value(H.Params[1]) {
						okCred = true
					}
				}
			}
			if !okCred {
				c.R.Fail(rule, Fn(H)+":credentials", c.Pos(ci), "a handler passes credentials that are not derived from its own request context", "service(ctx, GenerateCredentials(ctx), ...)", nil)
			}
		}
	}
	c.R.Floor(rule, "handler calls passing credentials", nh, 10)
	_ = token.ADD
}

// ShareOwner: C16.O3.
func (c *Ctx) ShareOwner(prop string) {
	rule := "C16.O3 share-owner"
	procImpl := c.Role(rule, pkgProcess, "Service")
	if procImpl == nil {
		return
	}
	F := c.Method(rule, procImpl, "OnContribute")
	if F == nil {
		return
	}
	sender := ssa.Value(F.Params[2])
	// every read of the distribution-secret map in the package
	var secretField string
	nreads := 0
	for _, fn := range c.P.ModuleFuncs() {
		if prog.PkgPathOf(fn) != procImpl.Obj().Pkg().Path() {
			continue
		}
		for _, b := range fn.Blocks {
			for _, ins := range b.Instrs {
				switch x := ins.(type) {
				case *ssa.Lookup:
					owner, f, _ := an.FieldOf(x.X)
					if owner == nil || !strings.Contains(strings.ToLower(f), "distribution") {
						continue
					}
					secretField = f
					nreads++
					if fn != F {
						c.R.Fail(rule, Fn(fn), c.Pos(x), "a distribution secret is looked up outside the contribution reply", "lookup by the authenticated sender id only", nil)
						continue
					}
					if x.Index != sender {
						c.R.Fail(rule, Fn(fn), c.Pos(x), "the contribution reply is indexed by "+an.Term(x.Index)+" rather than the authenticated sender's id: a participant can obtain another participant's share", "distributionSecrets[senderID]", nil)
						continue
					}
					// and the looked-up value is what is returned
					okRet := false
					for _, ret := range an.Returns(F) {
						if an.Result(ret, 0) == ssa.Value(x) {
							okRet = true
						}
					}
					if !okRet {
						c.R.Fail(rule, Fn(fn), c.Pos(x), "the share returned is not the one looked up for the sender", "return distributionSecrets[senderID]", nil)
					} else {
						c.R.OK(rule, Fn(fn), c.Pos(x), "reply share = distributionSecrets[senderID] with senderID the handler-supplied (authenticated) id")
					}
				case *ssa.Range:
					owner, f, _ := an.FieldOf(x.X)
					if owner == nil || !strings.Contains(strings.ToLower(f), "distribution") {
						continue
					}
					nreads++
					// range: value sent to peers.Peer(key) of the same iteration
					c.rangeShareOwner(rule, fn, x)
				}
			}
		}
	}
	_ = secretField
	c.R.Floor(rule, "reads of the distribution-secret map", nreads, 2)
	// the sender id parameter of the non-failing returns: not overwritten
}

func (c *Ctx) rangeShareOwner(rule string, fn *ssa.Function, rg *ssa.Range) {
	for _, r := range *rg.Referrers() {
		nx, ok := r.(*ssa.Next)
		if !ok {
			continue
		}
		var key, val ssa.Value
		for _, r2 := range *nx.Referrers() {
			if ex, ok := r2.(*ssa.Extract); ok {
				if ex.Index == 1 {
					key = ex
				}
				if ex.Index == 2 {
					val = ex
				}
			}
		}
		// every send of val goes to the peer obtained for key (directly, or in a helper that is given both)
		nsend := c.sendsToOwner(rule, fn, key, val, 0)
		if nsend == 0 {
			c.R.Unknown(rule, Fn(fn), c.Pos(rg), "the iteration over distribution secrets does not send them through the sender service")
		}
	}
}

// sendsToOwner checks, in fn, every sender-service call that transmits val: its peer argument is peers.Peer(key). Calls of
// module helpers that receive val are followed (they must receive key as well). Returns the number of sends found.
func (c *Ctx) sendsToOwner(rule string, fn *ssa.Function, key, val ssa.Value, depth int) int {
	nsend := 0
	for _, ci := range Calls(fn, func(ci ssa.CallInstruction) bool { return true }) {
		uses := false
		for _, a := range ci.Common().Args {
			if a == val {
				uses = true
			}
		}
		if !uses {
			continue
		}
		if ci.Common().IsInvoke() && namedIs(ci.Common().Value.Type(), pkgSender, "Service") {
			nsend++
			okPeer := false
			for _, a := range ci.Common().Args {
				if ex, ok := a.(*ssa.Extract); ok {
					if pc, ok := ex.Tuple.(*ssa.Call); ok && pc.Call.IsInvoke() && namedIs(pc.Call.Value.Type(), pkgPeers, "Service") && pc.Call.Method.Name() == "Peer" && len(pc.Call.Args) == 1 && pc.Call.Args[0] == key {
						okPeer = true
					}
				}
			}
			if !okPeer {
				c.R.Fail(rule, Fn(fn), c.Pos(ci), "a participant's share is sent to a peer other than the one it was computed for", "send distributionSecrets[id] to peers.Peer(id) of the same iteration", nil)
			} else {
				c.R.OK(rule, Fn(fn), c.Pos(ci), "share for id is sent to peers.Peer(id) of the same iteration")
			}
			continue
		}
		h := ci.Common().StaticCallee()
		if h == nil || !prog.InModule(h) || h.Blocks == nil || ci.Common().IsInvoke() {
			continue
		}
		if depth >= 2 {
			c.R.Unknown(rule, Fn(fn), c.Pos(ci), "a distribution secret is passed down more than two helper levels")
			nsend++
			continue
		}
		var hk, hv ssa.Value
		for ai, a := range ci.Common().Args {
			if ai >= len(h.Params) {
				continue
			}
			if a == val {
				hv = h.Params[ai]
			}
			if a == key {
				hk = h.Params[ai]
			}
		}
		if hv == nil {
			continue
		}
		if hk == nil {
			nsend++
			c.R.Fail(rule, Fn(fn), c.Pos(ci), "a participant's share is handed to "+Fn(h)+" without the id it was computed for", "the share travels with its owner's id", nil)
			continue
		}
		nsend += c.sendsToOwner(rule, h, hk, hv, depth+1)
	}
	return nsend
}

func init() {
	register(&Spec{
		ID: "C16",
		Run: func(c *Ctx) {
			c.PeerGate("C16")
			c.ShareOwner("C16")
			c.IdentifierPure("C16")
			c.PeerNamesUnique("C16")
			c.ReplyRequestScoped("C16") // the share leaves in a response object no other request can touch before it is sent
			c.TLSConfig("C19")          // "the authenticated name" is the name of a certificate the handshake verified against the configured authority
		},
		Explanation: "Each of the five key-generation handlers calls the process service only below [sender id != 0], passing the looked-up id; the lookup yields a non-zero id only as the table key of the peer whose configured name equals the authenticated client name; that name enters the context only in the client-info interceptor, from the first verified peer certificate; nothing else calls the protocol methods; the contribution reply is the share indexed by that id, carried in a response object allocated by the call, and outgoing shares go to the peer of their own id. See DESIGN.md §5 C16.",
		Trusted:     append([]string{"crypto/tls: PeerCertificates[0] is the verified leaf when RequireAndVerifyClientCert is set"}, commonTrusted...),
	})
}
