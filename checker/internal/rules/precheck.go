package rules

import (
	"fmt"
	"go/constant"
	"go/types"
	"sort"

	"dirkcheck/internal/an"
	"dirkcheck/internal/prog"

	"golang.org/x/tools/go/ssa"
)

const (
	pkgFetcher  = mod + "/services/fetcher"
	pkgUnlocker = mod + "/services/unlocker"
)

// coreResultOf returns the SSA value holding the core.Result of call ci (the call or its Extract).
func coreResultOf(ci ssa.CallInstruction) ssa.Value {
	v := ci.Value()
	if v == nil {
		return nil
	}
	sig := ci.Common().Signature()
	if sig.Results().Len() == 1 {
		if namedIs(sig.Results().At(0).Type(), pkgCore, "Result") {
			return v
		}
		return nil
	}
	for _, r := range *v.Referrers() {
		if ex, ok := r.(*ssa.Extract); ok && namedIs(sig.Results().At(ex.Index).Type(), pkgCore, "Result") {
			return ex
		}
	}
	return nil
}

// invokesAny reports whether fn (not closures) invokes a method of the given interface.
func invokesIface(fn *ssa.Function, pkg, iface string, methods ...string) []ssa.CallInstruction {
	return Calls(fn, func(ci ssa.CallInstruction) bool {
		cc := ci.Common()
		if !cc.IsInvoke() || !namedIs(cc.Value.Type(), pkg, iface) {
			return false
		}
		if len(methods) == 0 {
			return true
		}
		for _, m := range methods {
			if cc.Method.Name() == m {
				return true
			}
		}
		return false
	})
}

func eqConstAtom(a *an.Atom, v ssa.Value, k int64) bool {
	return a != nil && a.Op == "==" && ((a.LV == v && an.IsConstInt(a.RV, k)) || (a.RV == v && an.IsConstInt(a.LV, k)))
}

// succeededReturns lists (return, index) pairs where fn returns the constant ResultSucceeded as its core.Result.
func succeededReturns(fn *ssa.Function, succ int64) []*ssa.Return {
	var out []*ssa.Return
	k := -1
	res := fn.Signature.Results()
	for i := 0; i < res.Len(); i++ {
		if namedIs(res.At(i).Type(), pkgCore, "Result") {
			k = i
		}
	}
	if k < 0 {
		return nil
	}
	for _, ret := range an.Returns(fn) {
		v := an.Result(ret, k)
		if an.IsConstInt(v, succ) {
			out = append(out, ret)
			continue
		}
		if _, isConst := v.(*ssa.Const); !isConst {
			// variable result: treat as possibly Succeeded unless cut by != Succeeded
			target := ssa.Instruction(ret)
			if x, _ := an.Cut(an.CutQuery{From: an.Entry(fn), Target: func(i ssa.Instruction) bool { return i == target },
				AcceptEdge: func(b *ssa.BasicBlock, i int, a *an.Atom) bool {
					return a != nil && a.Op == "!=" && ((a.LV == v && an.IsConstInt(a.RV, succ)) || (a.RV == v && an.IsConstInt(a.LV, succ)))
				}}); x != nil {
				out = append(out, ret)
			}
		}
	}
	return out
}

// PreCheckRules: C06.O4 (and the authorise-before-act backbone of C07.O3 for the signer).
func (c *Ctx) PreCheckRules(prop string) {
	s := c.Signer(prop + ".anchors")
	if !s.OK() {
		return
	}
	rule := "C06.O4 precheck"
	succ, ok := c.EnumConst(rule, pkgCore, "ResultSucceeded")
	if !ok {
		return
	}
	PC := s.PreCheck
	// roles of the helpers called by the pre-check
	type role struct {
		name string
		test func(f *ssa.Function) bool
	}
	// a helper has a role if it, or a package helper it hands the work to (depth <= 2), invokes the service
	reachInvokes := func(f *ssa.Function, pkg, iface string, methods ...string) bool {
		for _, g := range c.StaticReach(f, 2) {
			if g != f && prog.PkgPathOf(g) != prog.PkgPathOf(f) {
				continue
			}
			if len(invokesIface(g, pkg, iface, methods...)) > 0 {
				return true
			}
		}
		return false
	}
	roles := []role{
		{"account lookup", func(f *ssa.Function) bool {
			return reachInvokes(f, pkgFetcher, "Service", "FetchAccount", "FetchAccountByKey")
		}},
		{"permission check", func(f *ssa.Function) bool { return reachInvokes(f, pkgChecker, "Service", "Check") }},
		{"account unlock", func(f *ssa.Function) bool { return reachInvokes(f, pkgUnlocker, "Service", "UnlockAccount") }},
	}
	rets := succeededReturns(PC, succ)
	c.R.Floor(rule, "success returns of the pre-check", len(rets), 1)
	helper := map[string]*ssa.Function{}
	for _, ro := range roles {
		var D ssa.CallInstruction
		for _, ci := range Calls(PC, func(ci ssa.CallInstruction) bool {
			f := ci.Common().StaticCallee()
			return f != nil && prog.InModule(f) && ro.test(f)
		}) {
			D = ci
		}
		if D == nil {
			c.R.Fail(rule, Fn(PC)+":"+ro.name, c.P.FuncPos(PC), "the pre-check does not perform the "+ro.name, "pre-check = lookup, permission check, unlock", nil)
			continue
		}
		helper[ro.name] = D.Common().StaticCallee()
		dv := coreResultOf(D)
		bad := false
		for _, ret := range rets {
			target := ssa.Instruction(ret)
			if x, path := an.Cut(an.CutQuery{From: an.Entry(PC), Target: func(i ssa.Instruction) bool { return i == target },
				AcceptEdge: func(b *ssa.BasicBlock, i int, a *an.Atom) bool { return eqConstAtom(a, dv, succ) }}); x != nil {
				bad = true
				c.R.Fail(rule, Fn(PC)+":"+ro.name, c.Pos(ret), "the pre-check can succeed although the "+ro.name+" did not", "success only below ["+ro.name+" == ResultSucceeded]", an.PathString(c.Pos, path))
			}
		}
		if !bad {
			c.R.OK(rule, Fn(PC)+":"+ro.name, c.Pos(D), "pre-check success is cut by ["+ro.name+" == ResultSucceeded]")
		}
	}
	// permission helper: Succeeded only below Check(...) true
	if f := helper["permission check"]; f != nil {
		c.accessHelperOK(rule, f, succ)
	}
	// lookup helper: Succeeded only below err == nil of the fetch
	if f := helper["account lookup"]; f != nil {
		bad := false
		origins, unknown := c.succeededOrigins(f, succ, 0)
		for _, u := range unknown {
			bad = true
			c.R.Unknown(rule, Fn(f), c.Pos(u), "the account lookup returns a result whose origin is not understood")
		}
		for _, ret := range origins {
			g := ret.Parent()
			errs := map[ssa.Value]bool{}
			for _, ci := range invokesIface(g, pkgFetcher, "Service", "FetchAccount", "FetchAccountByKey") {
				for _, e := range errValuesOfCall(ci) {
					errs[e] = true
				}
			}
			target := ssa.Instruction(ret)
			if x, path := an.Cut(an.CutQuery{From: an.Entry(g), Target: func(i ssa.Instruction) bool { return i == target },
				AcceptEdge: func(b *ssa.BasicBlock, i int, a *an.Atom) bool { return errNilAtomPhi(a, errs) }}); x != nil {
				bad = true
				c.R.Fail(rule, Fn(g), c.Pos(ret), "the account lookup reports success although the fetcher returned an error", "success only below [fetch err == nil]", an.PathString(c.Pos, path))
			}
		}
		if len(origins) == 0 {
			bad = true
			c.R.Unknown(rule, Fn(f), c.P.FuncPos(f), "the account lookup never reports success")
		}
		if !bad {
			c.R.OK(rule, Fn(f), c.P.FuncPos(f), "lookup success only below [fetch err == nil]")
		}
	}
	// unlock helper
	if f := helper["account unlock"]; f != nil {
		var boolOK = map[ssa.Value]bool{}
		for _, ci := range Calls(f, func(ci ssa.CallInstruction) bool {
			cc := ci.Common()
			if !cc.IsInvoke() {
				return false
			}
			return (namedIs(cc.Value.Type(), pkgUnlocker, "Service") && cc.Method.Name() == "UnlockAccount") || (namedIs(cc.Value.Type(), pkgWTypes, "AccountLocker") && cc.Method.Name() == "IsUnlocked")
		}) {
			for _, r := range *ci.Value().Referrers() {
				if ex, ok := r.(*ssa.Extract); ok && ex.Index == 0 {
					boolOK[ex] = true
				}
			}
		}
		bad := false
		rets, unknownU := c.succeededOrigins(f, succ, 0)
		for _, u := range unknownU {
			bad = true
			c.R.Unknown(rule, Fn(f), c.Pos(u), "the unlock step returns a result whose origin is not understood")
		}
		// IsUnlocked / UnlockAccount results in the helpers the unlock step hands over to
		for _, ret := range rets {
			if g := ret.Parent(); g != f {
				for _, ci := range Calls(g, func(ci ssa.CallInstruction) bool {
					cc := ci.Common()
					if !cc.IsInvoke() {
						return false
					}
					return (namedIs(cc.Value.Type(), pkgUnlocker, "Service") && cc.Method.Name() == "UnlockAccount") || (namedIs(cc.Value.Type(), pkgWTypes, "AccountLocker") && cc.Method.Name() == "IsUnlocked")
				}) {
					for _, r := range *ci.Value().Referrers() {
						if ex, ok := r.(*ssa.Extract); ok && ex.Index == 0 {
							boolOK[ex] = true
						}
					}
				}
			}
		}
		for _, ret := range rets {
			target := ssa.Instruction(ret)
			gfn := ret.Parent()
			accept := func(b *ssa.BasicBlock, i int, a *an.Atom) bool {
				if a == nil {
					return false
				}
				if a.Op == "true" && boolOK[a.LV] {
					return true
				}
				// `unlocked` merged from IsUnlocked and UnlockAccount: true means the merged-in answer was true
				if phi, isPhi := a.LV.(*ssa.Phi); a.Op == "true" && isPhi {
					all := len(phi.Edges) > 0
					for _, e := range phi.Edges {
						if !boolOK[e] {
							all = false
						}
					}
					if all {
						return true
					}
				}
				// not lockable: comma-ok of the assertion to AccountLocker is false
				if a.Op == "false" {
					if ex, ok := a.LV.(*ssa.Extract); ok && ex.Index == 1 {
						if ta, ok := ex.Tuple.(*ssa.TypeAssert); ok && namedIs(ta.AssertedType, pkgWTypes, "AccountLocker") {
							return true
						}
					}
				}
				return false
			}
			x, path := an.Cut(an.CutQuery{From: an.Entry(gfn), Target: func(i ssa.Instruction) bool { return i == target }, AcceptEdge: accept})
			if x != nil {
				bad = true
				c.R.Fail(rule, Fn(gfn), c.Pos(ret), "the unlock step reports success for an account that is lockable and was neither found unlocked nor unlocked by a known passphrase", "success only if not lockable, or IsUnlocked() true, or UnlockAccount() true", an.PathString(c.Pos, path))
			}
		}
		c.R.Floor(rule, "success returns of the unlock helper", len(rets), 2)
		if !bad {
			c.R.OK(rule, Fn(f), c.P.FuncPos(f), "unlock success only if not lockable, IsUnlocked() == true or UnlockAccount() == true")
		}
	}
	// endpoints: rules (and everything after) only below preCheck == Succeeded
	for _, name := range signerEndpoints {
		E := s.Endpoints[name]
		run := s.RunRules[E]
		batch := name == "SignBeaconAttestations" || name == "Multisign"
		if !batch {
			var D ssa.CallInstruction
			for _, ci := range Calls(E, func(ci ssa.CallInstruction) bool { return ci.Common().StaticCallee() == PC }) {
				D = ci
			}
			if D == nil {
				c.R.Fail(rule, Fn(E), c.P.FuncPos(E), "the endpoint does not run the pre-check", "preCheck before RunRules", nil)
				continue
			}
			dv := coreResultOf(D)
			target := run.(ssa.Instruction)
			if x, path := an.Cut(an.CutQuery{From: an.Entry(E), Target: func(i ssa.Instruction) bool { return i == target },
				AcceptEdge: func(b *ssa.BasicBlock, i int, a *an.Atom) bool { return eqConstAtom(a, dv, succ) }}); x != nil {
				c.R.Fail(rule, Fn(E), c.Pos(run), "rules are evaluated (and a signature may follow) without a successful pre-check", "RunRules only below [preCheck == ResultSucceeded]", an.PathString(c.Pos, path))
			} else {
				c.R.OK(rule, Fn(E), c.Pos(run), "RunRules only below [preCheck == ResultSucceeded]")
			}
			continue
		}
		c.batchPreCheck(rule, s, E, run, succ)
	}
}

// succeededOrigins follows the Succeeded results of helper f to the returns where the constant originates: a constant
// Succeeded return of f itself, or (for `return g(...)`, the result of a package helper handed on unchanged) of g, recursively.
// Returns with a result of any other origin are reported in unknown.
func (c *Ctx) succeededOrigins(f *ssa.Function, succ int64, depth int) (origins []*ssa.Return, unknown []ssa.Instruction) {
	k := -1
	res := f.Signature.Results()
	for i := 0; i < res.Len(); i++ {
		if namedIs(res.At(i).Type(), pkgCore, "Result") {
			k = i
		}
	}
	if k < 0 {
		return nil, nil
	}
	for _, ret := range succeededReturns(f, succ) {
		v := an.Result(ret, k)
		if an.IsConstInt(v, succ) {
			origins = append(origins, ret)
			continue
		}
		var call *ssa.Call
		switch x := v.(type) {
		case *ssa.Call:
			call = x
		case *ssa.Extract:
			call, _ = x.Tuple.(*ssa.Call)
		}
		if call != nil && depth < 3 {
			g := call.Call.StaticCallee()
			if g != nil && g.Blocks != nil && !call.Call.IsInvoke() && prog.PkgPathOf(g) == prog.PkgPathOf(f) {
				o2, u2 := c.succeededOrigins(g, succ, depth+1)
				origins = append(origins, o2...)
				unknown = append(unknown, u2...)
				continue
			}
		}
		unknown = append(unknown, ret)
	}
	return origins, unknown
}

// errNilAtomPhi is errNilAtom that also accepts a phi of the error values (err assigned on two branches).
func errNilAtomPhi(a *an.Atom, errs map[ssa.Value]bool) bool {
	if errNilAtom(a, errs) {
		return true
	}
	if a == nil || a.Op != "==" {
		return false
	}
	for _, side := range [][2]ssa.Value{{a.LV, a.RV}, {a.RV, a.LV}} {
		if !isNilConst(side[0]) {
			continue
		}
		if phi, ok := side[1].(*ssa.Phi); ok {
			all := len(phi.Edges) > 0
			for _, e := range phi.Edges {
				if !errs[unwrapErr(e)] {
					all = false
				}
			}
			if all {
				return true
			}
		}
	}
	return false
}

// accessHelperOK: helper f returns Succeeded only below the true edge of checker.Check.
func (c *Ctx) accessHelperOK(rule string, f *ssa.Function, succ int64) {
	checks := map[ssa.Value]bool{}
	for _, ci := range invokesIface(f, pkgChecker, "Service", "Check") {
		checks[ci.Value()] = true
	}
	bad := false
	for _, ret := range succeededReturns(f, succ) {
		target := ssa.Instruction(ret)
		if x, path := an.Cut(an.CutQuery{From: an.Entry(f), Target: func(i ssa.Instruction) bool { return i == target },
			AcceptEdge: func(b *ssa.BasicBlock, i int, a *an.Atom) bool { return a != nil && a.Op == "true" && checks[a.LV] }}); x != nil {
			bad = true
			c.R.Fail(rule, Fn(f), c.Pos(ret), "the permission helper reports success without a positive answer from the checker", "success only below [checker.Check(...) == true]", an.PathString(c.Pos, path))
		}
	}
	if !bad {
		c.R.OK(rule, Fn(f), c.P.FuncPos(f), "permission helper succeeds only below [checker.Check(...) == true]")
	}
}

// batchPreCheck: the batch form of "rules only after a successful pre-check" (DESIGN §5 C06 O4).
func (c *Ctx) batchPreCheck(rule string, s *Signer, E *ssa.Function, run ssa.CallInstruction, succ int64) {
	PC := s.PreCheck
	// the phase function P holding the pre-check workers and the verdict scan: the endpoint itself, or a package
	// helper the endpoint calls that returns (rulesData, accounts, allPassed)
	P := E
	var hcall *ssa.Call
	var W *ssa.Function
	var D ssa.CallInstruction
	find := func(root *ssa.Function) {
		for _, f := range WithClosures(root) {
			for _, ci := range Calls(f, func(ci ssa.CallInstruction) bool { return ci.Common().StaticCallee() == PC }) {
				W, D = f, ci
			}
		}
	}
	find(E)
	if W == nil {
		for _, ci := range Calls(E, func(ci ssa.CallInstruction) bool {
			h := ci.Common().StaticCallee()
			return h != nil && prog.InModule(h) && h.Blocks != nil && prog.PkgPathOf(h) == prog.PkgPathOf(E) && !ci.Common().IsInvoke()
		}) {
			call, ok := ci.(*ssa.Call)
			if !ok || W != nil {
				continue
			}
			find(call.Call.StaticCallee())
			if W != nil {
				P, hcall = call.Call.StaticCallee(), call
			}
		}
	}
	if W == nil || W == P {
		c.R.Unknown(rule, Fn(E), c.P.FuncPos(E), "the batch endpoint does not run the pre-check inside a worker closure")
		return
	}
	l, ok := scatterLoopIdx(W)
	if !ok {
		c.R.Unknown(rule, Fn(W), c.P.FuncPos(W), "the pre-check worker is not a scatter worker loop")
		return
	}
	dv := coreResultOf(D)
	var rulesDataRoot, accountsRoot, resultsRoot ssa.Value
	var gated []ssa.Instruction // instructions of P that must lie behind the completed verdict scan
	if P == E {
		rulesDataRoot = sliceRootExact(run.Common().Args[len(run.Common().Args)-1])
		gated = []ssa.Instruction{run.(ssa.Instruction)}
	}
	for _, b := range P.Blocks {
		for _, ins := range b.Instrs {
			if mk, ok := ins.(*ssa.MakeSlice); ok {
				if sl, ok := mk.Type().(*types.Slice); ok {
					if namedIs(sl.Elem(), pkgWTypes, "Account") {
						accountsRoot = mk
					}
					if P == E && namedIs(sl.Elem(), pkgCore, "Result") && lenIsData(mk) && resultsRoot == nil {
						resultsRoot = mk
					}
				}
			}
		}
	}
	var eResults ssa.Value
	for _, ret := range an.Returns(E) {
		if r, ok := sliceRootExact(an.Result(ret, 0)).(*ssa.MakeSlice); ok && lenIsData(r) {
			eResults = r
		}
	}
	if P == E && eResults != nil {
		resultsRoot = eResults
	}
	if P != E {
		// in E: RunRules takes the helper's rules data and runs only below [allPassed]; the helper is given E's verdict list
		ex, ok := sliceRootExact(run.Common().Args[len(run.Common().Args)-1]).(*ssa.Extract)
		if !ok || ex.Tuple != ssa.Value(hcall) {
			c.R.Unknown(rule, Fn(E), c.Pos(run), "the rules data passed to RunRules is not the result of the helper that runs the pre-checks")
			return
		}
		res := P.Signature.Results()
		boolIdx := -1
		for k := 0; k < res.Len(); k++ {
			if bt, ok := res.At(k).Type().Underlying().(*types.Basic); ok && bt.Kind() == types.Bool {
				boolIdx = k
			}
		}
		if boolIdx < 0 {
			c.R.Unknown(rule, Fn(P), c.P.FuncPos(P), "the helper that runs the pre-checks does not report whether all passed")
			return
		}
		var flag ssa.Value
		for _, r := range *hcall.Referrers() {
			if e2, ok := r.(*ssa.Extract); ok && e2.Index == boolIdx {
				flag = e2
			}
		}
		target := run.(ssa.Instruction)
		if x, path := an.Cut(an.CutQuery{From: an.Entry(E), Target: func(i ssa.Instruction) bool { return i == target },
			AcceptEdge: func(b *ssa.BasicBlock, i int, a *an.Atom) bool {
				return a != nil && flag != nil && a.Op == "true" && a.LV == flag
			}}); x != nil {
			c.R.Fail(rule, Fn(E)+":gate", c.Pos(run), "RunRules is reachable although the pre-check helper did not report that all pre-checks passed", "RunRules only below [allPassed]", an.PathString(c.Pos, path))
			return
		}
		for k, q := range P.Params {
			if sl, ok := q.Type().(*types.Slice); ok && namedIs(sl.Elem(), pkgCore, "Result") && k < len(hcall.Call.Args) {
				if eResults != nil && sliceRootExact(hcall.Call.Args[k]) == eResults {
					resultsRoot = q
				}
			}
		}
		for _, ret := range an.Returns(P) {
			r, ok := sliceRootExact(an.Result(ret, ex.Index)).(*ssa.MakeSlice)
			if !ok || (rulesDataRoot != nil && rulesDataRoot != ssa.Value(r)) {
				c.R.Unknown(rule, Fn(P), c.Pos(ret), "the rules data returned by the pre-check helper is not one freshly made list")
				return
			}
			rulesDataRoot = r
			if cst, ok := an.Result(ret, boolIdx).(*ssa.Const); ok && cst.Value != nil && !constant.BoolVal(cst.Value) {
				continue
			}
			gated = append(gated, ret)
		}
	}
	if accountsRoot == nil || resultsRoot == nil || rulesDataRoot == nil {
		c.R.Unknown(rule, Fn(E), c.P.FuncPos(E), "cannot identify the accounts / results slices")
		return
	}
	bad := false
	nst := 0
	for _, b := range W.Blocks {
		for _, ins := range b.Instrs {
			st, ok := ins.(*ssa.Store)
			if !ok {
				continue
			}
			ia, ok := st.Addr.(*ssa.IndexAddr)
			if !ok {
				continue
			}
			root := sliceRootExact(ia.X)
			if root != rulesDataRoot && root != accountsRoot {
				continue
			}
			nst++
			if ia.Index != l.Idx {
				bad = true
				c.R.Fail(rule, Fn(W)+":index", c.Pos(st), "rules data / account of request i is stored at another position", "rulesData[i], accounts[i] at the worker's own index", nil)
				continue
			}
			target := ssa.Instruction(st)
			if x, path := an.Cut(an.CutQuery{From: an.Entry(W), Target: func(i ssa.Instruction) bool { return i == target },
				AcceptEdge: func(b *ssa.BasicBlock, i int, a *an.Atom) bool { return eqConstAtom(a, dv, succ) }}); x != nil {
				bad = true
				c.R.Fail(rule, Fn(W), c.Pos(st), "rules data or the signing account is recorded for a request whose pre-check did not succeed", "rulesData[i] / accounts[i] only below [preCheck == ResultSucceeded]", an.PathString(c.Pos, path))
			}
		}
	}
	if nst < 2 {
		bad = true
		c.R.Fail(rule, Fn(W), c.P.FuncPos(W), "the worker does not record rulesData[i] and accounts[i]", "both recorded below the pre-check", nil)
	}
	// failed pre-check leaves a non-success verdict at results[i]: from the != Succeeded edge the loop header is reachable only through a store of dv into results[idx]
	{
		hdr := l.Header
		x, path := an.Cut(an.CutQuery{From: an.After(D), Target: func(i ssa.Instruction) bool { return i == hdr.Instrs[0] },
			AcceptEdge: func(b *ssa.BasicBlock, i int, a *an.Atom) bool { return eqConstAtom(a, dv, succ) },
			AcceptInstr: func(i ssa.Instruction) bool {
				st, ok := i.(*ssa.Store)
				if !ok {
					return false
				}
				ia, ok := st.Addr.(*ssa.IndexAddr)
				return ok && sliceRootExact(ia.X) == resultsRoot && ia.Index == l.Idx && st.Val == dv
			}})
		if x != nil {
			bad = true
			c.R.Fail(rule, Fn(W)+":verdict", c.Pos(D), "a failed pre-check can leave no trace in results[i]", "results[i] = pre-check verdict when it is not SUCCEEDED", an.PathString(c.Pos, path))
		}
	}
	// in E: RunRules is reached only through the exit edge of a full-range loop over results whose iterations
	// continue only when results[i] is UNKNOWN or SUCCEEDED
	unk, _ := c.EnumConst(rule, pkgCore, "ResultUnknown")
	var gate *Loop
	for _, lp := range FindLoops(P) {
		if !lp.FullRange || lp.BoundLen != resultsRoot {
			continue
		}
		lp := lp
		hdr := lp.Header
		x, _ := an.Cut(an.CutQuery{From: an.Point{Block: lp.BodyFirst, Idx: 0}, Target: func(i ssa.Instruction) bool { return i == hdr.Instrs[0] },
			AcceptEdge: func(b *ssa.BasicBlock, i int, a *an.Atom) bool {
				if a == nil || a.Op != "==" {
					return false
				}
				for _, side := range [][2]ssa.Value{{a.LV, a.RV}, {a.RV, a.LV}} {
					root, idx, ok := elemLoad(side[0])
					if ok && root == resultsRoot && idx == lp.Idx && (an.IsConstInt(side[1], unk) || an.IsConstInt(side[1], succ)) {
						return true
					}
				}
				return false
			}})
		if x == nil {
			gate = lp
		}
	}
	if gate == nil {
		bad = true
		c.R.Fail(rule, Fn(P)+":gate", c.Pos(run), "no scan of the pre-check verdicts stops the request before rules are evaluated", "for i := range results { if results[i] is neither UNKNOWN nor SUCCEEDED { return } } before RunRules", nil)
	} else {
		hdr, exitB := gate.Header, gate.Exit
		isGated := func(i ssa.Instruction) bool {
			for _, g := range gated {
				if g == i {
					return true
				}
			}
			return false
		}
		if x, path := an.Cut(an.CutQuery{From: an.Entry(P), Target: isGated,
			AcceptEdge: func(b *ssa.BasicBlock, i int, a *an.Atom) bool { return b == hdr && b.Succs[i] == exitB }}); x != nil {
			bad = true
			c.R.Fail(rule, Fn(P)+":gate", c.Pos(x), "RunRules is reachable without the scan of pre-check verdicts having completed", "RunRules only after the scan", an.PathString(c.Pos, path))
		}
		// the scan must come after the scatter that runs the pre-check
		var scatter ssa.CallInstruction
		for _, ci := range Calls(P, func(ci ssa.CallInstruction) bool {
			for _, a := range ci.Common().Args {
				if mc, ok := a.(*ssa.MakeClosure); ok && mc.Fn == W {
					return true
				}
			}
			return false
		}) {
			scatter = ci
		}
		if scatter == nil || !an.Reachable(an.After(scatter), gate.Header.Instrs[0]) || an.Reachable(an.Point{Block: gate.Exit, Idx: 0}, scatter.(ssa.Instruction)) {
			bad = true
			c.R.Fail(rule, Fn(E)+":gate-order", c.Pos(run), "the scan of pre-check verdicts does not follow the pre-check workers", "scatter(preCheck) ; scan ; RunRules", nil)
		}
	}
	if !bad {
		c.R.OK(rule, Fn(E), c.Pos(run), "per position: rulesData[i]/accounts[i] only below [preCheck == SUCCEEDED]; a failed pre-check is recorded in results[i]; RunRules only after a scan that returns on any such verdict")
	}
	_ = fmt.Sprint
	_ = sort.Strings
}
