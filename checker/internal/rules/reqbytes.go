package rules

import (
	"go/types"
	"strings"

	"dirkcheck/internal/an"
	"dirkcheck/internal/prog"

	"golang.org/x/tools/go/ssa"
)

// RequestBytesReadOnly (C08.O11 request.bytes-read-only): what is signed is the data and the domain the client supplied.
// The rules and the signer read them from the request-data object; `append` to a sub-slice of one of its byte fields
// (`append(req.Domain[0:4], …)`: the capacity reaches to the end of the field) writes into the request's own memory, so what
// is hashed afterwards is no longer what was submitted, and a comparison of the field with the appended result can never
// fail. In the rules and the signer, the first argument of `append`, and the destination of `copy`, never is (a slice of) a
// byte field of a rules request-data object - directly, or as a parameter that a caller in the module fills with one.
func (c *Ctx) RequestBytesReadOnly(prop string) {
	rule := "C08.O11 request.bytes-read-only"
	isReqData := func(t types.Type) bool {
		n := namedOf(t)
		return n != nil && n.Obj().Pkg() != nil && n.Obj().Pkg().Path() == pkgRules && strings.HasSuffix(n.Obj().Name(), "Data")
	}
	var fromRequest func(v ssa.Value, d int) string
	fromRequest = func(v ssa.Value, d int) string {
		if d > 4 {
			return ""
		}
		switch x := v.(type) {
		case *ssa.Slice:
			return fromRequest(x.X, d+1)
		case *ssa.UnOp:
			if owner, f, _ := an.FieldOf(x); owner != nil && isReqData(owner) {
				return namedOf(owner).Obj().Name() + "." + f
			}
		case *ssa.Parameter:
			fn := x.Parent()
			idx := -1
			for i, q := range fn.Params {
				if q == x {
					idx = i
				}
			}
			for _, s := range c.staticCallers()[fn] {
				if idx >= 0 && idx < len(s.Common().Args) {
					if w := fromRequest(s.Common().Args[idx], d+1); w != "" {
						return w + " (handed to " + prog.ShortFunc(fn) + ")"
					}
				}
			}
		case *ssa.Phi:
			for _, e := range x.Edges {
				if w := fromRequest(e, d+1); w != "" {
					return w
				}
			}
		}
		return ""
	}
	n := 0
	for _, fn := range c.P.ModuleFuncs() {
		p := prog.PkgPathOf(fn)
		if prog.IsTestish(p) || fn.Blocks == nil || !(strings.HasSuffix(p, "/rules/standard") || strings.HasSuffix(p, "/services/signer/standard") || strings.HasSuffix(p, "/services/ruler/golang")) {
			continue
		}
		for _, b := range fn.Blocks {
			for _, ins := range b.Instrs {
				call, ok := ins.(*ssa.Call)
				if !ok {
					continue
				}
				bi, ok := call.Call.Value.(*ssa.Builtin)
				if !ok || (bi.Name() != "append" && bi.Name() != "copy") || len(call.Call.Args) == 0 {
					continue
				}
				if sl, isSl := call.Call.Args[0].Type().Underlying().(*types.Slice); !isSl {
					continue
				} else if b, isB := sl.Elem().Underlying().(*types.Basic); !isB || b.Kind() != types.Byte {
					continue
				}
				n++
				if w := fromRequest(call.Call.Args[0], 0); w != "" {
					c.R.Fail(rule, Fn(fn)+":"+bi.Name(), c.Pos(call), bi.Name()+" writes into the request's own bytes ("+w+"): what is hashed and signed afterwards is no longer what the client supplied", "append / copy only into memory the function made itself", nil)
				} else {
					c.R.OK(rule, Fn(fn)+":"+bi.Name(), c.Pos(call), "the destination is not a field of the request data")
				}
			}
		}
	}
	c.R.Floor(rule, "byte appends / copies in the rules, the ruler and the signer", n, 1)
}
