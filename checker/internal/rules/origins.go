package rules

import (
	"go/constant"
	"go/token"
	"go/types"

	"dirkcheck/internal/an"
	"dirkcheck/internal/prog"

	"golang.org/x/tools/go/ssa"
)

// Origin is a place where a value of an enum-typed result is produced.
type Origin struct {
	Kind  string          // "const", "opaque"
	Const int64           // for Kind const
	Fn    *ssa.Function   // function containing Site
	Site  ssa.Instruction // instruction whose execution fixes the value (return, store, jump into phi)
	Val   ssa.Value       // the value (const or opaque producer)
	// Chain is the list of call sites (outermost first) through which the origin was found.
	Chain []ssa.CallInstruction
}

type originWalker struct {
	seen map[[2]any]bool
	out  []Origin
}

// ValueOrigins computes where the scalar value v (used at instruction at) can come from.
func ValueOrigins(v ssa.Value, at ssa.Instruction) []Origin {
	w := &originWalker{seen: map[[2]any]bool{}}
	w.value(v, at, nil, 0)
	return w.out
}

// ElemOrigins computes where the elements of slice value s can come from.
func ElemOrigins(s ssa.Value, at ssa.Instruction) []Origin {
	w := &originWalker{seen: map[[2]any]bool{}}
	w.elems(s, at, nil, 0)
	return w.out
}

func (w *originWalker) opaque(v ssa.Value, at ssa.Instruction, chain []ssa.CallInstruction) {
	w.out = append(w.out, Origin{Kind: "opaque", Fn: at.Parent(), Site: at, Val: v, Chain: chain})
}

func (w *originWalker) value(v ssa.Value, at ssa.Instruction, chain []ssa.CallInstruction, d int) {
	v = an.Unspill(v)
	k := [2]any{v, at}
	if w.seen[k] {
		return
	}
	w.seen[k] = true
	if d > 12 {
		w.opaque(v, at, chain)
		return
	}
	switch x := v.(type) {
	case *ssa.Const:
		if x.Value != nil && x.Value.Kind() == constant.Int {
			i, _ := constant.Int64Val(x.Value)
			w.out = append(w.out, Origin{Kind: "const", Const: i, Fn: at.Parent(), Site: at, Val: x, Chain: chain})
			return
		}
		w.opaque(v, at, chain)
	case *ssa.Phi:
		for i, e := range x.Edges {
			pred := x.Block().Preds[i]
			site := pred.Instrs[len(pred.Instrs)-1]
			if _, isConst := e.(*ssa.Const); !isConst {
				// non-constant edges keep their own defining site semantics
				w.value(e, site, chain, d+1)
			} else {
				w.value(e, site, chain, d+1)
			}
		}
	case *ssa.ChangeType:
		w.value(x.X, at, chain, d)
	case *ssa.Parameter:
		// a parameter of a callee entered through the chain: the caller's argument
		if arg, call, ok := chainArg(chain, x); ok {
			w.value(arg, call.(ssa.Instruction), chain[:len(chain)-1], d+1)
			return
		}
		w.opaque(v, at, chain)
	case *ssa.Convert:
		// a conversion into the enum type from something else: opaque (enum-closure reports it)
		w.opaque(v, at, chain)
	case *ssa.Call:
		w.call(x, 0, at, chain, d)
	case *ssa.Extract:
		if c, ok := x.Tuple.(*ssa.Call); ok {
			w.call(c, x.Index, at, chain, d)
			return
		}
		w.opaque(v, at, chain)
	case *ssa.UnOp:
		if x.Op != token.MUL {
			w.opaque(v, at, chain)
			return
		}
		switch a := x.X.(type) {
		case *ssa.Alloc:
			// named result / local cell: all stores
			n := 0
			for _, r := range *a.Referrers() {
				if st, ok := r.(*ssa.Store); ok && st.Addr == a {
					w.value(st.Val, st, chain, d+1)
					n++
				}
			}
			if n == 0 {
				w.opaque(v, at, chain)
			}
		case *ssa.IndexAddr:
			w.elems(a.X, at, chain, d+1)
		default:
			w.opaque(v, at, chain)
		}
	default:
		w.opaque(v, at, chain)
	}
}

func (w *originWalker) call(c *ssa.Call, idx int, at ssa.Instruction, chain []ssa.CallInstruction, d int) {
	callee := c.Call.StaticCallee()
	if callee == nil || callee.Blocks == nil || !prog.InModule(callee) {
		w.opaque(c, c, chain)
		return
	}
	nchain := append(append([]ssa.CallInstruction{}, chain...), c)
	for _, ret := range an.Returns(callee) {
		if idx < len(ret.Results) {
			w.value(an.Result(ret, idx), ret, nchain, d+1)
		}
	}
}

// chainArg maps parameter p of the function entered by the last call of chain to that call's argument.
func chainArg(chain []ssa.CallInstruction, p *ssa.Parameter) (ssa.Value, ssa.CallInstruction, bool) {
	if len(chain) == 0 {
		return nil, nil, false
	}
	call := chain[len(chain)-1]
	callee := call.Common().StaticCallee()
	if callee == nil || callee != p.Parent() {
		return nil, nil, false
	}
	for i, q := range callee.Params {
		if q == p && i < len(call.Common().Args) {
			return call.Common().Args[i], call, true
		}
	}
	return nil, nil, false
}

// identityArg: if call is a static call of a module function every return of which yields (as result 0) one and the same
// parameter of that function, the corresponding argument is returned (helpers that return the slice they were given).
func identityArg(call *ssa.Call) (ssa.Value, bool) {
	callee := call.Call.StaticCallee()
	if callee == nil || callee.Blocks == nil || !prog.InModule(callee) || call.Call.IsInvoke() {
		return nil, false
	}
	var p *ssa.Parameter
	rets := an.Returns(callee)
	if len(rets) == 0 {
		return nil, false
	}
	for _, ret := range rets {
		if len(ret.Results) == 0 {
			return nil, false
		}
		v := an.Result(ret, 0)
		for {
			if ct, ok := v.(*ssa.ChangeType); ok {
				v = ct.X
				continue
			}
			break
		}
		q, ok := v.(*ssa.Parameter)
		if !ok || (p != nil && q != p) {
			return nil, false
		}
		p = q
	}
	for i, q := range callee.Params {
		if q == p && i < len(call.Call.Args) {
			return call.Call.Args[i], true
		}
	}
	return nil, false
}

// sliceRoot resolves a slice-typed value to its allocation root (MakeSlice / Call / Parameter / ...).
func sliceRoot(s ssa.Value) ssa.Value {
	for i := 0; i < 8; i++ {
		switch x := s.(type) {
		case *ssa.UnOp:
			if x.Op == token.MUL {
				if inner, ok := an.ResolveCell(x.X); ok {
					s = inner
					continue
				}
			}
			return s
		case *ssa.ChangeType:
			s = x.X
		case *ssa.Slice:
			s = x.X
		case *ssa.Call:
			if a, ok := identityArg(x); ok {
				s = a
				continue
			}
			return s
		default:
			return s
		}
	}
	return s
}

// sliceRootExact is sliceRoot without seeing through re-slicing (x[a:b] is not x).
func sliceRootExact(s ssa.Value) ssa.Value {
	for i := 0; i < 8; i++ {
		switch x := s.(type) {
		case *ssa.UnOp:
			if x.Op == token.MUL {
				if inner, ok := an.ResolveCell(x.X); ok {
					s = inner
					continue
				}
			}
			return s
		case *ssa.ChangeType:
			s = x.X
		case *ssa.Call:
			if a, ok := identityArg(x); ok {
				s = a
				continue
			}
			return s
		default:
			return s
		}
	}
	return s
}

func (w *originWalker) elems(s ssa.Value, at ssa.Instruction, chain []ssa.CallInstruction, d int) {
	root := sliceRoot(s)
	k := [2]any{root, "elems"}
	if w.seen[k] {
		return
	}
	w.seen[k] = true
	if d > 12 {
		w.opaque(s, at, chain)
		return
	}
	switch x := root.(type) {
	case *ssa.MakeSlice:
		w.localWrites(root, x.Parent(), at, chain, d)
	case *ssa.Call:
		callee := x.Call.StaticCallee()
		if callee == nil || callee.Blocks == nil || !prog.InModule(callee) {
			w.opaque(x, x, chain)
			return
		}
		nchain := append(append([]ssa.CallInstruction{}, chain...), x)
		for _, ret := range an.Returns(callee) {
			if len(ret.Results) > 0 {
				w.elems(an.Result(ret, 0), ret, nchain, d+1)
			}
		}
		// the slice a helper hands back is also written by the function that received it
		w.localWrites(root, x.Parent(), at, chain, d)
	case *ssa.Extract:
		if c, ok := x.Tuple.(*ssa.Call); ok {
			callee := c.Call.StaticCallee()
			if callee != nil && callee.Blocks != nil && prog.InModule(callee) {
				nchain := append(append([]ssa.CallInstruction{}, chain...), c)
				for _, ret := range an.Returns(callee) {
					if x.Index < len(ret.Results) {
						w.elems(an.Result(ret, x.Index), ret, nchain, d+1)
					}
				}
				return
			}
		}
		w.opaque(x, at, chain)
	case *ssa.Phi:
		for i, e := range x.Edges {
			pred := x.Block().Preds[i]
			w.elems(e, pred.Instrs[len(pred.Instrs)-1], chain, d+1)
		}
	case *ssa.Const:
		// nil slice: no elements
	case *ssa.Parameter:
		if arg, call, ok := chainArg(chain, x); ok {
			w.elems(arg, call.(ssa.Instruction), chain[:len(chain)-1], d+1)
			return
		}
		w.opaque(root, at, chain)
	case *ssa.Alloc:
		// slice literal: new [N]T; &t[i] = v; slice t[:]
		if _, isArr := x.Type().(*types.Pointer).Elem().Underlying().(*types.Array); !isArr {
			w.opaque(root, at, chain)
			return
		}
		for _, r := range *x.Referrers() {
			switch y := r.(type) {
			case *ssa.IndexAddr:
				for _, r2 := range *y.Referrers() {
					if st, ok := r2.(*ssa.Store); ok && st.Addr == ssa.Value(y) {
						w.value(st.Val, st, chain, d+1)
					}
				}
			case *ssa.Slice:
			default:
				if _, isDbg := r.(*ssa.DebugRef); !isDbg {
					w.opaque(root, at, chain)
				}
			}
		}
	default:
		w.opaque(root, at, chain)
	}
}

// paramElemStores collects stores into elements of slice parameter p inside callee.
func (w *originWalker) paramElemStores(callee *ssa.Function, p *ssa.Parameter, chain []ssa.CallInstruction, d int) {
	for _, f := range WithClosures(callee) {
		for _, b := range f.Blocks {
			for _, ins := range b.Instrs {
				st, ok := ins.(*ssa.Store)
				if !ok {
					continue
				}
				ia, ok := st.Addr.(*ssa.IndexAddr)
				if !ok {
					continue
				}
				if sliceRoot(ia.X) == ssa.Value(p) {
					w.value(st.Val, st, chain, d+1)
				}
			}
		}
	}
}

// localWrites collects what fn (and its closures) writes into the slice rooted at root: element stores, and stores made
// by module callees the slice is passed to.
func (w *originWalker) localWrites(root ssa.Value, fn *ssa.Function, at ssa.Instruction, chain []ssa.CallInstruction, d int) {
	n := 0
	for _, f := range WithClosures(fn) {
		for _, b := range f.Blocks {
			for _, ins := range b.Instrs {
				st, ok := ins.(*ssa.Store)
				if !ok {
					continue
				}
				ia, ok := st.Addr.(*ssa.IndexAddr)
				if !ok {
					continue
				}
				if sliceRoot(ia.X) == root {
					w.value(st.Val, st, chain, d+1)
					n++
				}
			}
		}
	}
	_ = n
	// also: the slice may be passed to a module callee that writes it (e.g. checkAttestationsData(results))
	for _, f := range WithClosures(fn) {
		for _, b := range f.Blocks {
			for _, ins := range b.Instrs {
				ci, ok := ins.(ssa.CallInstruction)
				if !ok {
					continue
				}
				for ai, a := range ci.Common().Args {
					if sliceRoot(a) != root {
						continue
					}
					callee := ci.Common().StaticCallee()
					if callee == nil || callee.Blocks == nil || !prog.InModule(callee) {
						if _, isB := ci.Common().Value.(*ssa.Builtin); isB {
							continue // len, copy source etc.
						}
						if callee != nil && !prog.InModule(callee) {
							continue // third-party callee: assumed not to write enum slices
						}
						w.opaque(a, ins, chain)
						continue
					}
					pi := ai
					if callee.Signature.Recv() != nil && !ci.Common().IsInvoke() {
						// receiver is args[0]
					}
					if pi < len(callee.Params) {
						w.paramElemStores(callee, callee.Params[pi], append(append([]ssa.CallInstruction{}, chain...), ci), d+1)
					}
				}
			}
		}
	}
}
