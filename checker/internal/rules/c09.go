package rules

import (
	"fmt"
	"go/types"
	"sort"
	"strings"

	"dirkcheck/internal/an"
	"dirkcheck/internal/prog"

	"golang.org/x/tools/go/ssa"
)

// refusalClass classifies the atom on the edge entering a DENIED site in a watermark rule; "" if not an allowed reason.
func (s *Slashing) refusalClass(a *an.Atom, kind string) string {
	return s.refusalClassS(a, nil, kind)
}

func (s *Slashing) refusalClassS(a *an.Atom, sub Subst, kind string) string {
	if a == nil {
		return ""
	}
	a = resolveAtom(a, sub)
	// wrong domain
	want := "DomainBeaconAttester"
	if kind == "prop" {
		want = "DomainBeaconProposer"
	}
	if domainAtomS(a, sub, want, false) {
		return "wrong domain"
	}
	reqIs := func(v ssa.Value, f string) bool {
		k, ff := s.reqField(sub.Res(v))
		return k == kind && ff == f
	}
	stateIs := func(v ssa.Value, f string) bool {
		if x, ok := convOfS(v, sub, types.Uint64); ok {
			v = x
		}
		k, ff := s.stateField(sub.Res(v))
		return k == kind && ff == f
	}
	for _, d := range s.dims(kind) {
		// bound exceeded: MaxInt64 < x
		if a.Op == "<" && reqIs(a.RV, d.ReqField) {
			if u, ok := an.ConstUint64(a.LV); ok && u >= 1<<63-1 {
				return "value above the recordable range (" + d.Name + ")"
			}
		}
		if a.Op == "<=" && reqIs(a.RV, d.ReqField) {
			if u, ok := an.ConstUint64(a.LV); ok && u >= 1<<63 {
				return "value above the recordable range (" + d.Name + ")"
			}
		}
		// strict dimension: refuse t <= T ; non-strict: refuse s < S
		if d.Strict && a.Op == "<=" && reqIs(a.LV, d.ReqField) && stateIs(a.RV, d.StateFld) {
			return d.Name + " not above the recorded one"
		}
		if !d.Strict && a.Op == "<" && reqIs(a.LV, d.ReqField) && stateIs(a.RV, d.StateFld) {
			return d.Name + " below the recorded one"
		}
		// the same in the signed domain: int64(t) <= T, int64(s) < S. The "none" marker -1 is below every request value that
		// passed the bound, so this form needs no [recorded value >= 0] beside it.
		if x, ok := convOfS(a.LV, sub, types.Int64); ok && reqIs(x, d.ReqField) {
			if k, ff := s.stateField(sub.Res(a.RV)); k == kind && ff == d.StateFld {
				if d.Strict && a.Op == "<=" {
					return d.Name + " not above the recorded one" + signedMark
				}
				if !d.Strict && a.Op == "<" {
					return d.Name + " below the recorded one" + signedMark
				}
			}
		}
	}
	if kind == "att" && a.Op == "<=" && reqIs(a.LV, "Target.Epoch") && reqIs(a.RV, "Source.Epoch") {
		return "target not above source"
	}
	return ""
}

const signedMark = " (compared as signed values)"

// RefusalReasons: C09.O1 and O2.
func (c *Ctx) RefusalReasons(prop string) {
	s := c.Slashing(prop + ".anchors")
	if !s.OK() {
		return
	}
	rule := "C09.O1 refusal-reasons"
	type ent struct {
		fn    *ssa.Function
		batch bool
		kind  string
	}
	tables := map[string][]string{}
	for _, e := range []ent{{s.Attest, false, "att"}, {s.AttestB, true, "att"}, {s.Propose, false, "prop"}} {
		_, all := c.approvalSites(rule, s, e.fn, e.batch)
		var classes []string
		nden, nfail := 0, 0
		seen := map[ssa.Instruction]bool{}
		for _, o := range all {
			if o.Kind != "const" || seen[o.Site] {
				continue
			}
			seen[o.Site] = true
			F := o.Fn
			blk := o.Site.Block()
			switch o.Const {
			case s.DENIED:
				nden++
				isRoot := func(f *ssa.Function) bool { return f == e.fn }
				// (1) every path to the refusal crosses an edge on which one of the listed reasons holds (in whatever frame or
				// helper the test is written)
				ok, wit := c.InterCut(F, o.Site, isRoot, func(a *an.Atom, sub Subst) bool {
					cls := s.refusalClassS(a, sub, e.kind)
					if cls != "" {
						classes = append(classes, cls)
					}
					return cls != ""
				})
				if !ok {
					c.R.Fail(rule, Fn(F)+":denied", c.Pos(o.Site), "a well-formed, advancing duty can be refused for a reason outside the rule", "DENIED only for: wrong domain; target <= source (not both 0); target <= recorded target; source < recorded source; slot <= recorded slot; value above 2^63-1", wit)
					continue
				}
				// (2) side conditions: a refusal that rests on 'target <= source' also passed a non-zero test, and one that rests
				// on a comparison with a recorded value also passed [recorded value >= 0]
				if e.kind == "att" {
					ok, wit := c.InterCut(F, o.Site, isRoot, func(a *an.Atom, sub Subst) bool {
						if cls := s.refusalClassS(a, sub, e.kind); cls != "" && cls != "target not above source" {
							return true
						}
						at := resolveAtom(a, sub)
						if at == nil || at.Op != "!=" {
							return false
						}
						for _, side := range [][2]ssa.Value{{at.LV, at.RV}, {at.RV, at.LV}} {
							if k, f := s.reqField(sub.Res(side[0])); k == "att" && (f == "Source.Epoch" || f == "Target.Epoch") && an.IsConstInt(side[1], 0) {
								return true
							}
						}
						return false
					})
					if !ok {
						c.R.Fail(rule, Fn(F)+":genesis", c.Pos(o.Site), "the genesis attestation (source 0, target 0) is refused as 'target not above source'", "target <= source refused only if not both are 0", wit)
					}
				}
				for _, d := range s.dims(e.kind) {
					d := d
					ok, wit := c.InterCut(F, o.Site, isRoot, func(a *an.Atom, sub Subst) bool {
						if cls := s.refusalClassS(a, sub, e.kind); cls != "" && (!(strings.Contains(cls, "recorded") && strings.HasPrefix(cls, d.Name+" ")) || strings.HasSuffix(cls, signedMark)) {
							return true
						}
						return s.nonNegAtomS(a, sub, e.kind, d.StateFld)
					})
					if !ok {
						c.R.Fail(rule, Fn(F)+":first-duty", c.Pos(o.Site), "a duty can be refused by comparison with a watermark that does not exist yet (-1 compared as a number): "+d.Name, "comparison only below [recorded value >= 0]", wit)
					}
				}
			case s.FAILED:
				nfail++
				if o.Fn != e.fn && !strings.Contains(prog.PkgPathOf(o.Fn), "/rules/") {
					continue
				}
				for _, p := range blk.Preds {
					a := edgeAtomTo(p, blk)
					if !failureEdge(a) && !inBlanketOverwrite(o.Site) {
						// walk one more unconditional predecessor
						okUp := false
						if a == nil && len(p.Preds) == 1 {
							if failureEdge(edgeAtomTo(p.Preds[0], p)) {
								okUp = true
							}
						}
						if !okUp {
							c.R.Fail(rule, Fn(F)+":failed", c.Pos(o.Site), "a request can be failed for a reason that is neither an error of fetch/decode/store nor a malformed-argument test: ["+a.String()+"]", "FAILED only below an error edge or a nil/length test", nil)
						}
					}
				}
			}
		}
		sort.Strings(classes)
		tables[Fn(e.fn)] = classes
		c.R.OK(rule, Fn(e.fn), c.P.FuncPos(e.fn), fmt.Sprintf("%d DENIED sites %v; %d FAILED sites, all for listed reasons", nden, uniq(classes), nfail))
	}
	// O2: single and batch attestation verdict tables agree
	rule2 := "C09.O2 verdict-table-agreement"
	a, b := strings.Join(uniq(tables[Fn(s.Attest)]), "; "), strings.Join(uniq(tables[Fn(s.AttestB)]), "; ")
	if a != b {
		c.R.Fail(rule2, "attestation", c.P.FuncPos(s.AttestB), "the single and the batch attestation rule refuse for different reasons: single {"+a+"} batch {"+b+"}", "one-at-a-time and batched verdicts follow the same table", nil)
	} else {
		c.R.OK(rule2, "attestation", c.P.FuncPos(s.AttestB), "single and batch paths refuse for the same reasons: {"+a+"}")
	}
}

func uniq(in []string) []string {
	seen := map[string]bool{}
	var out []string
	for _, s := range in {
		if !seen[s] {
			seen[s] = true
			out = append(out, s)
		}
	}
	sort.Strings(out)
	return out
}

// failureEdge: the atom is an error test, a nil test or a length mismatch test.
func failureEdge(a *an.Atom) bool {
	if a == nil {
		return false
	}
	if a.Op == "!=" {
		for _, side := range [][2]ssa.Value{{a.LV, a.RV}, {a.RV, a.LV}} {
			if isNilConst(side[1]) && isErrorType(side[0].Type()) {
				return true
			}
		}
		lc, ok1 := a.LV.(*ssa.Call)
		rc, ok2 := a.RV.(*ssa.Call)
		if ok1 && ok2 && isBuiltin(lc, "len") && isBuiltin(rc, "len") {
			return true
		}
	}
	if a.Op == "==" && (isNilConst(a.LV) || isNilConst(a.RV)) {
		return true
	}
	// a validator: a receiver-less module function over the entry's own parameters reports a problem (a non-zero
	// constant comparison of its result): the malformed-argument tests live in that function
	if a.Op == "!=" {
		for _, side := range [][2]ssa.Value{{a.LV, a.RV}, {a.RV, a.LV}} {
			if _, isConst := side[1].(*ssa.Const); !isConst {
				continue
			}
			v := side[0]
			if ex, ok := v.(*ssa.Extract); ok {
				v = ex.Tuple
			}
			call, ok := v.(*ssa.Call)
			if !ok || call.Call.IsInvoke() {
				continue
			}
			f := call.Call.StaticCallee()
			if f == nil || !prog.InModule(f) || f.Signature.Recv() != nil || len(call.Call.Args) == 0 {
				continue
			}
			onlyParams := true
			for _, arg := range call.Call.Args {
				if p, isParam := arg.(*ssa.Parameter); !isParam || p.Parent() != call.Parent() {
					onlyParams = false
				}
			}
			if onlyParams {
				return true
			}
		}
	}
	return false
}

// inBlanketOverwrite: the FAILED store is the body of a `for i := range res { res[i] = FAILED }` loop.
func inBlanketOverwrite(site ssa.Instruction) bool {
	st, ok := site.(*ssa.Store)
	if !ok {
		return false
	}
	ia, ok := st.Addr.(*ssa.IndexAddr)
	if !ok {
		return false
	}
	for _, l := range FindLoops(site.Parent()) {
		if l.Body[site.Block()] && BlanketOverwrite(l, sliceRootExact(ia.X), func(*ssa.Const) bool { return true }) {
			return true
		}
	}
	return false
}

// RulerFastPath: C09.O3 (ruler side) - the multi-attestation fast path hands metadata[i]/data[i] built from rulesData[i]
// to the batch rule and returns its verdicts unchanged.
func (c *Ctx) RulerFastPath(prop string) {
	rule := "C09.O3 batch.alignment/ruler"
	r := c.Ruler(prop + ".anchors")
	if !r.OK() {
		return
	}
	var inv ssa.CallInstruction
	for _, ri := range r.RuleInvokes {
		if ri.Common().Method.Name() == "OnSignBeaconAttestations" {
			inv = ri
		}
	}
	if inv == nil {
		c.R.Anchor(rule, "invoke:OnSignBeaconAttestations", "not found below RunRules")
		return
	}
	F := inv.Parent()
	args := inv.Common().Args
	metaMk, ok1 := sliceRootExact(args[1]).(*ssa.MakeSlice)
	dataMk, ok2 := sliceRootExact(args[2]).(*ssa.MakeSlice)
	var dataP *ssa.Parameter
	for _, p := range F.Params {
		if sl, ok := p.Type().(*types.Slice); ok {
			if pt, ok := sl.Elem().(*types.Pointer); ok && namedIs(pt.Elem(), pkgRuler, "RulesData") {
				dataP = p
			}
		}
	}
	if !ok1 || !ok2 || dataP == nil || !lenIs(metaMk.Len, dataP) || !lenIs(dataMk.Len, dataP) {
		c.R.Fail(rule, Fn(F), c.Pos(inv), "the metadata / request lists given to the batch rule are not made with one slot per rules-data entry", "make(_, len(rulesData)) for both", nil)
		return
	}
	bad := false
	for _, f := range WithClosures(F) {
		l, isWorker := scatterLoopIdx(f)
		for _, b := range f.Blocks {
			for _, ins := range b.Instrs {
				st, ok := ins.(*ssa.Store)
				if !ok {
					continue
				}
				ia, ok := st.Addr.(*ssa.IndexAddr)
				if !ok {
					continue
				}
				root := sliceRootExact(ia.X)
				if root != ssa.Value(metaMk) && root != ssa.Value(dataMk) {
					continue
				}
				if !isWorker || ia.Index != l.Idx {
					bad = true
					c.R.Fail(rule, Fn(f), c.Pos(st), "position i of the list given to the batch rule is not filled at the worker's own index", "lists filled at [i]", nil)
					continue
				}
				if root == ssa.Value(dataMk) {
					// value: type assertion of rulesData[i].Data
					isEntryData := func(v ssa.Value, sub Subst) bool {
						if ex, isEx := v.(*ssa.Extract); isEx {
							if ta, isTA := ex.Tuple.(*ssa.TypeAssert); isTA {
								if _, fld, base := an.FieldOf(sub.Res(ta.X)); fld == "Data" {
									if rr, idx, ok2 := elemLoad(sub.Res(base)); ok2 && rr == ssa.Value(dataP) && idx == l.Idx {
										return true
									}
								}
							}
						}
						return false
					}
					ok := isEntryData(st.Val, nil)
					if !ok {
						// a per-entry helper that is given rulesData[i] and hands back its asserted Data
						if rvs, isH := HelperResults(st.Val); isH && len(rvs) > 0 {
							ok = true
							for _, rv := range rvs {
								if !isEntryData(rv.Val, rv.Sub) {
									ok = false
								}
							}
						}
					}
					if !ok {
						bad = true
						c.R.Fail(rule, Fn(f), c.Pos(st), "request i given to the batch rule is not the data of rules-data entry i", "reqData[i] = rulesData[i].Data.(*SignBeaconAttestationData)", nil)
					}
				}
			}
		}
	}
	// verdicts returned unchanged
	for _, ret := range an.Returns(F) {
		if an.Reachable(an.After(inv), ret) && an.Result(ret, 0) != inv.Value() {
			bad = true
			c.R.Fail(rule, Fn(F), c.Pos(ret), "the verdicts of the batch rule are not returned as they are", "return rules.OnSignBeaconAttestations(...)", nil)
		}
	}
	if !bad {
		c.R.OK(rule, Fn(F), c.Pos(inv), "metadata[i] and reqData[i] are built from rulesData[i] at the worker's own index; the batch rule's verdict list is returned unchanged")
	}
}

func init() {
	register(&Spec{
		ID: "C09",
		Run: func(c *Ctx) {
			s := c.Slashing("C09.anchors")
			if !s.OK() {
				return
			}
			c.FirstSlashOnly("C09") // a name with a second slash is the same account in a batch as on its own
			c.CheckSemantics("C07") // "authorised": the permission checker reads each list in order, first match decides
			c.RefusalReasons("C09")
			c.EntryAlignment("C09", s, "att")
			c.RulerFastPath("C09")
			c.RulerKeyAgreement("C09")
			if sl := c.Slashing("C09.anchors"); sl.OK() {
				// a refused request leaves the watermark where it was
				c.StateStoreDiscipline("C09", sl, "att")
				c.StateStoreDiscipline("C09", sl, "prop")
				c.StoreCommit("C03", sl) // what the batch path records is what a one-at-a-time history records
			}
			c.SignerRefusalReasons("C09")
			c.BatchIdentifiers("C08")
			c.LookupsReadOnly("C18")
			c.LockerInternals("C15") // a batch of distinct keys returns its verdicts only if distinct keys have distinct mutexes
			c.ScatterPartition("C09")
			c.RulerPositions("C09")
			c.MetadataImmutable("C01")
			c.ScatterIndexDiscipline("C09")
			c.ImmutableAfterConstruction("C09.O5 config.immutable", pkgUnlocker, "unlocker passphrase")
			c.ImmutableAfterConstruction("C09.O5 config.immutable", pkgChecker, "permission table")
			c.PreCheckRules("C09")
		},
		Explanation: "No spurious refusal, decided as a closed table: every DENIED of the attestation and proposal rules is entered through an edge whose atom is one of {wrong domain; target <= source and not both 0; target <= recorded target; source < recorded source; slot <= recorded slot; value above 2^63-1}, comparisons with a recorded value only below [recorded >= 0]; every FAILED lies below an error edge or a malformed-argument test; the single and the batch attestation rule refuse for the same reasons; the batch path pairs metadata[i], request[i] and state[i] of one index, records with the same encoder and key builder, and the ruler's fast path builds position i from rules-data entry i and returns the verdicts unchanged. See DESIGN.md §5 C09.",
		Trusted:     append([]string{"signer-level liveness (account unlock, third-party signer)", "util.Scatter covers every index exactly once (arithmetic over runtime values: not decided)"}, commonTrusted...),
	})
	register(&Spec{
		ID: "C14",
		Run: func(c *Ctx) {
			s := c.Slashing("C14.anchors")
			if !s.OK() {
				return
			}
			c.ThresholdRules("C14")
			c.WatermarkGuards("C14", s, "att")
			c.WatermarkGuards("C14", s, "prop")
			c.WatermarkConversions("C14", s, "att")
			c.WatermarkConversions("C14", s, "prop")
			c.RecordBeforeApprove("C14", s, "att")
			c.RecordBeforeApprove("C14", s, "prop")
			c.EntryAlignment("C14", s, "att")
			c.EntryAlignment("C14", s, "prop")
			c.RulerLocking("C14")
			c.LockerInternals("C15")
			c.SignIffApproved("C14", map[string]bool{"SignBeaconProposal": true, "SignBeaconAttestation": true, "SignBeaconAttestations": true})
			c.SigningRootProvenance("C14")
			c.StoreCommit("C03", s)
			c.SameStore("C10")
			c.BadgerBufferDiscipline("C11")
			c.RulerKeyAgreement("C14")
			c.ForkJoinRules("C03")
			c.DomainRules("C05") // a conflicting duty must not get its partial signatures through the generic endpoint
			c.StateStoreDiscipline("C14", s, "att")
			c.StateStoreDiscipline("C14", s, "prop")
			c.RulerPositions("C14")
			c.MetadataImmutable("C01")
		},
		Explanation: "A composition property: with t > n/2 any two sets of t instances intersect; the shared instance refuses one of two conflicting duties by C01/C02 (its watermark is keyed by its own share's public key), under any interleaving by C04. Decided structurally: the threshold bound exists on every path that starts a generation and is the threshold stored with the account (C12 O1/O3), plus the C01, C02 and C04 obligation groups re-evaluated. The counting lemma is mathematics (prose). See DESIGN.md §5 C14.",
		Trusted:     append([]string{"the quorum-intersection lemma (t > n/2) - mathematics", "accounts created outside Dirk with other thresholds are out of scope"}, commonTrusted...),
	})
}
