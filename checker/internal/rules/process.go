package rules

import (
	"fmt"
	"go/token"
	"go/types"
	"strings"

	"dirkcheck/internal/an"
	"dirkcheck/internal/prog"

	"golang.org/x/tools/go/ssa"
)

// Proc gathers anchors of the key-generation process service.
type Proc struct {
	Impl    *types.Named
	Methods map[string]*ssa.Function
	// LookupWrappers: helpers equivalent to Lookup for their callers (see Proc)
	LookupWrappers map[*ssa.Function]bool
	TableFld       string // the session table field (map[string]*session)
	Session        *types.Named
	MuKey          string        // "Service.<mutex field>"
	Lookup         *ssa.Function // helper reading the table and returning (*session, error)
	NotFound       *ssa.Global   // sentinel returned by the lookup
	LookupFlag     bool          // the lookup is of the form (session, found bool)
	Verify         *ssa.Function // contribution check
	ok             bool
}

func (c *Ctx) Proc(rule string) *Proc {
	if p, ok := c.memo["proc"].(*Proc); ok {
		return p
	}
	p := &Proc{Methods: map[string]*ssa.Function{}}
	c.memo["proc"] = p
	p.Impl = c.Role(rule, pkgProcess, "Service")
	if p.Impl == nil {
		return p
	}
	for _, m := range []string{"OnPrepare", "OnExecute", "OnCommit", "OnAbort", "OnContribute", "OnGenerate"} {
		f := c.Method(rule, p.Impl, m)
		if f == nil {
			return p
		}
		p.Methods[m] = f
	}
	// session table: a map[string]*T field of the implementation
	st := p.Impl.Underlying().(*types.Struct)
	for i := 0; i < st.NumFields(); i++ {
		if mt, ok := st.Field(i).Type().(*types.Map); ok {
			if pt, ok := mt.Elem().(*types.Pointer); ok {
				if n, ok := pt.Elem().(*types.Named); ok && n.Obj().Pkg() == p.Impl.Obj().Pkg() {
					p.TableFld, p.Session = st.Field(i).Name(), n
				}
			}
		}
	}
	if p.TableFld == "" {
		c.R.Anchor(rule, "process:table", "no session table field (map[string]*session) found")
		return p
	}
	// the mutex: the RWMutex/Mutex field locked in OnPrepare
	for _, ci := range Calls(p.Methods["OnPrepare"], func(ci ssa.CallInstruction) bool { _, ok := mutexOp(ci); return ok }) {
		op, _ := mutexOp(ci)
		p.MuKey = op.Key()
	}
	if p.MuKey == "" {
		c.R.Anchor(rule, "process:mutex", "OnPrepare does not take a mutex")
		return p
	}
	// lookup helper: function in the package that reads the table and returns (*session, error)
	for _, fn := range c.P.ModuleFuncs() {
		if prog.PkgPathOf(fn) != p.Impl.Obj().Pkg().Path() || fn.Blocks == nil {
			continue
		}
		res := fn.Signature.Results()
		if res.Len() == 2 && (isErrorType(res.At(1).Type()) || isBoolType(res.At(1).Type())) {
			if pt, ok := res.At(0).Type().(*types.Pointer); ok && types.Identical(pt.Elem(), p.Session) && len(c.tableAccesses(p, fn)) > 0 {
				p.Lookup = fn
				p.LookupFlag = isBoolType(res.At(1).Type()) // (session, found) instead of (session, error)
			}
		}
	}
	if p.Lookup == nil {
		c.R.Anchor(rule, "process:lookup", "no session lookup helper found")
		return p
	}
	// lookup wrappers: methods that pass their own arguments to the lookup and hand its session back unchanged, failing
	// whenever it failed (`activeGeneration`): they count as the lookup for every rule that speaks about it
	p.LookupWrappers = map[*ssa.Function]bool{}
	for _, fn := range c.P.ModuleFuncs() {
		if prog.PkgPathOf(fn) != p.Impl.Obj().Pkg().Path() || fn == p.Lookup || fn.Blocks == nil || fn.Parent() != nil {
			continue
		}
		if fn.Signature.Results().Len() != 2 || !types.Identical(fn.Signature.Results().At(0).Type(), p.Lookup.Signature.Results().At(0).Type()) || errResultIndex(fn) != 1 {
			continue
		}
		lcs := Calls(fn, func(ci ssa.CallInstruction) bool { return ci.Common().StaticCallee() == p.Lookup })
		if len(lcs) != 1 || len(c.tableAccesses(p, fn)) > 0 {
			continue
		}
		lc, isCall := lcs[0].(*ssa.Call)
		if !isCall || len(Calls(fn, func(ci ssa.CallInstruction) bool { _, ok := mutexOp(ci); return ok })) > 0 {
			continue
		}
		// arguments passed through
		okArgs := true
		for i, a := range lc.Call.Args {
			if i == 0 {
				continue // receiver
			}
			if _, isParam := a.(*ssa.Parameter); !isParam {
				// the context may be re-derived (span); the key must be the parameter itself
				if i == len(lc.Call.Args)-1 {
					okArgs = false
				}
			}
		}
		var lerr, lval ssa.Value
		for _, r := range *lc.Referrers() {
			if ex, ok := r.(*ssa.Extract); ok {
				if ex.Index == 1 {
					lerr = ex
				} else {
					lval = ex
				}
			}
		}
		okRet := okArgs && lerr != nil && lval != nil
		for _, ret := range an.Returns(fn) {
			if !okRet {
				break
			}
			if isNilConst(unwrapErr(an.Result(ret, 1))) {
				if an.Result(ret, 0) != lval {
					okRet = false
					break
				}
				target := ssa.Instruction(ret)
				errs := map[ssa.Value]bool{lerr: true}
				if x, _ := an.Cut(an.CutQuery{From: an.Entry(fn), Target: func(i ssa.Instruction) bool { return i == target },
					AcceptEdge: func(b *ssa.BasicBlock, i int, a *an.Atom) bool { return errNilAtom(a, errs) }}); x != nil {
					okRet = false
				}
				continue
			}
			if !isNilConst(an.Result(ret, 0)) || !errorSurelyNonNil(an.Result(ret, 1), ret, fn) {
				okRet = false
			}
		}
		if okRet {
			p.LookupWrappers[fn] = true
		}
	}
	// verify helper: bool function called in OnContribute with the received share
	for _, ci := range Calls(p.Methods["OnContribute"], func(ci ssa.CallInstruction) bool {
		f := ci.Common().StaticCallee()
		if f == nil || !prog.InModule(f) || f.Signature.Results().Len() != 1 {
			return false
		}
		b, ok := f.Signature.Results().At(0).Type().(*types.Basic)
		return ok && b.Kind() == types.Bool
	}) {
		p.Verify = ci.Common().StaticCallee()
	}
	// a method of the session that only forwards to the check proper (`g.valid(share, vec)` = verify(g.id, g.threshold, share,
	// vec)): the check proper is the anchor; the forwarder is seen through by the boolean-helper summaries
	for hop := 0; hop < 2 && p.Verify != nil; hop++ {
		var inner *ssa.Function
		rets := an.Returns(p.Verify)
		for _, ret := range rets {
			call, ok := an.Result(ret, 0).(*ssa.Call)
			if !ok || call.Call.IsInvoke() || call.Call.StaticCallee() == nil || !prog.InModule(call.Call.StaticCallee()) || call.Call.StaticCallee().Blocks == nil {
				inner = nil
				break
			}
			if inner != nil && inner != call.Call.StaticCallee() {
				inner = nil
				break
			}
			inner = call.Call.StaticCallee()
		}
		if inner == nil || len(rets) == 0 {
			break
		}
		p.Verify = inner
	}
	if p.Verify == nil {
		c.R.Anchor(rule, "process:verify", "no contribution check found in OnContribute")
		return p
	}
	p.ok = true
	return p
}

func (p *Proc) OK() bool { return p != nil && p.ok }

// isLookup: fn is the session lookup or a wrapper that is equivalent to it for its callers.
func (p *Proc) isLookup(fn *ssa.Function) bool {
	return fn != nil && (fn == p.Lookup || p.LookupWrappers[fn])
}

// tableAccess is an instruction that reads or writes the session table.
type tableAccess struct {
	Ins   ssa.Instruction
	Write bool
	Kind  string
	Key   ssa.Value
}

func (c *Ctx) tableAccesses(p *Proc, fn *ssa.Function) []tableAccess {
	var out []tableAccess
	isTable := func(v ssa.Value) bool {
		owner, f, _ := an.FieldOf(v)
		return owner != nil && f == p.TableFld && namedOf(owner) == p.Impl
	}
	for _, b := range fn.Blocks {
		for _, ins := range b.Instrs {
			switch x := ins.(type) {
			case *ssa.Lookup:
				if isTable(x.X) {
					out = append(out, tableAccess{ins, false, "lookup", x.Index})
				}
			case *ssa.MapUpdate:
				if isTable(x.Map) {
					out = append(out, tableAccess{ins, true, "insert", x.Key})
				}
			case *ssa.Range:
				if isTable(x.X) {
					out = append(out, tableAccess{ins, false, "range", nil})
				}
			case *ssa.Call:
				if bi, ok := x.Call.Value.(*ssa.Builtin); ok && len(x.Call.Args) > 0 && isTable(x.Call.Args[0]) {
					switch bi.Name() {
					case "delete":
						out = append(out, tableAccess{ins, true, "delete", x.Call.Args[1]})
					case "len":
						out = append(out, tableAccess{ins, false, "len", nil})
					case "clear":
						out = append(out, tableAccess{ins, true, "clear", nil})
					}
				}
			case *ssa.Store:
				// replacing the whole table
				if fa, ok := x.Addr.(*ssa.FieldAddr); ok && fieldNameOf(fa) == p.TableFld && namedOf(fa.X.Type()) == p.Impl {
					out = append(out, tableAccess{ins, true, "replace", nil})
				}
			}
		}
	}
	return out
}

// lookupSuccessAtom: the edge establishes that the lookup call lc found an active session.
func (p *Proc) lookupSuccessAtom(a *an.Atom, lc *ssa.Call) bool {
	if a == nil {
		return false
	}
	var errV ssa.Value
	for _, r := range *lc.Referrers() {
		if ex, ok := r.(*ssa.Extract); ok && ex.Index == 1 {
			errV = ex
		}
	}
	if errV == nil {
		return false
	}
	if p.LookupFlag && lc.Call.StaticCallee() == p.Lookup {
		return a.Op == "true" && a.LV == errV
	}
	if a.Op == "==" && ((a.LV == errV && isNilConst(a.RV)) || (a.RV == errV && isNilConst(a.LV))) {
		return true
	}
	if a.Op == "false" && p.NotFound != nil && lc.Call.StaticCallee() == p.Lookup {
		// only the lookup itself has the closed error set {nil, not found}; a wrapper may fail with other errors
		if call, ok := a.LV.(*ssa.Call); ok {
			if f := call.Call.StaticCallee(); f != nil && (f.String() == "errors.Is" || f.String() == "github.com/pkg/errors.Is") {
				return call.Call.Args[0] == errV && isLoadOfGlobal(call.Call.Args[1], p.NotFound)
			}
		}
	}
	return false
}

func (p *Proc) lookupFailAtom(a *an.Atom, lc *ssa.Call) bool {
	if a == nil {
		return false
	}
	var errV ssa.Value
	for _, r := range *lc.Referrers() {
		if ex, ok := r.(*ssa.Extract); ok && ex.Index == 1 {
			errV = ex
		}
	}
	if errV != nil && p.LookupFlag && lc.Call.StaticCallee() == p.Lookup {
		return a.Op == "false" && a.LV == errV
	}
	return errV != nil && a.Op == "!=" && ((a.LV == errV && isNilConst(a.RV)) || (a.RV == errV && isNilConst(a.LV)))
}

// SessionLifecycle: C17 O1-O5.
func (c *Ctx) SessionLifecycle(prop string) {
	p := c.Proc(prop + ".anchors")
	if !p.OK() {
		return
	}
	pkg := p.Impl.Obj().Pkg().Path()
	// ---- lookup error set: {nil with the found session, NotFound with nil}
	rule3 := "C17.O3 needs-active"
	{
		okSet := true
		if p.LookupFlag {
			// (session, found): wherever `found` can be true it is the presence flag of a read of the table, and the session
			// returned with it is the value of that same read
			type pair struct{ sess, flag ssa.Value }
			var pairs []pair
			for _, ret := range an.Returns(p.Lookup) {
				sv, fv := an.Result(ret, 0), an.Result(ret, 1)
				sp, ok1 := sv.(*ssa.Phi)
				fp, ok2 := fv.(*ssa.Phi)
				if ok1 && ok2 && sp.Block() == fp.Block() {
					for j := range fp.Edges {
						pairs = append(pairs, pair{sp.Edges[j], fp.Edges[j]})
					}
					continue
				}
				if ok2 {
					for j := range fp.Edges {
						pairs = append(pairs, pair{sv, fp.Edges[j]})
					}
					continue
				}
				// `return entry, true` below the presence test of the read that produced entry
				if k, isK := fv.(*ssa.Const); isK && an.Term(k) == "true" {
					if sx, okS := sv.(*ssa.Extract); okS && sx.Index == 0 {
						if lk, isLk := sx.Tuple.(*ssa.Lookup); isLk {
							var present ssa.Value
							for _, r := range *lk.Referrers() {
								if e2, ok := r.(*ssa.Extract); ok && e2.Index == 1 {
									present = e2
								}
							}
							target := ssa.Instruction(ret)
							if x, _ := an.Cut(an.CutQuery{From: an.Entry(p.Lookup), Target: func(i ssa.Instruction) bool { return i == target },
								AcceptEdge: func(b *ssa.BasicBlock, i int, a *an.Atom) bool {
									return a != nil && present != nil && a.Op == "true" && a.LV == present
								}}); x == nil && present != nil {
								continue
							}
						}
					}
				}
				pairs = append(pairs, pair{sv, fv})
			}
			for _, pr := range pairs {
				if k, isK := pr.flag.(*ssa.Const); isK && an.Term(k) == "false" {
					continue
				}
				fx, okF := pr.flag.(*ssa.Extract)
				sx, okS := pr.sess.(*ssa.Extract)
				var lk *ssa.Lookup
				if okF {
					lk, _ = fx.Tuple.(*ssa.Lookup)
				}
				if !okF || !okS || lk == nil || fx.Index != 1 || sx.Index != 0 || sx.Tuple != fx.Tuple {
					okSet = false
					c.R.Fail(rule3, Fn(p.Lookup)+":result", c.P.FuncPos(p.Lookup), "the lookup can report 'found' with something other than the table entry and its presence flag: ("+an.Term(pr.sess)+", "+an.Term(pr.flag)+")", "(table[name]) or (…, false)", nil)
				}
			}
			if okSet {
				c.R.OK(rule3, Fn(p.Lookup)+":errors", c.P.FuncPos(p.Lookup), "the lookup returns the table entry with its presence flag, or false")
			}
		}
		for _, ret := range an.Returns(p.Lookup) {
			if p.LookupFlag {
				break
			}
			ev := unwrapErr(an.Result(ret, 1))
			sv := an.Result(ret, 0)
			if isNilConst(ev) {
				// the session returned must be the looked-up value under its presence flag
				ex, ok := sv.(*ssa.Extract)
				lk, ok2 := (ssa.Value)(nil), false
				if ok {
					lk, ok2 = ex.Tuple.(*ssa.Lookup)
				}
				if !ok || !ok2 || ex.Index != 0 {
					okSet = false
					c.R.Fail(rule3, Fn(p.Lookup)+":result", c.Pos(ret), "the lookup reports success with something other than the table entry", "(table[name], nil)", nil)
				}
				_ = lk
				continue
			}
			u, ok := ev.(*ssa.UnOp)
			g, ok2 := (*ssa.Global)(nil), false
			if ok {
				g, ok2 = u.X.(*ssa.Global)
			}
			if !ok || !ok2 {
				okSet = false
				c.R.Fail(rule3, Fn(p.Lookup)+":errors", c.Pos(ret), "the lookup can fail with an error other than its not-found sentinel: "+an.Term(ev), "errors of the lookup = {nil, not found}", nil)
				continue
			}
			if p.NotFound != nil && p.NotFound != g {
				okSet = false
				c.R.Fail(rule3, Fn(p.Lookup)+":errors", c.Pos(ret), "the lookup uses two different failure sentinels", "errors of the lookup = {nil, not found}", nil)
			}
			p.NotFound = g
			if !isNilConst(sv) {
				okSet = false
				c.R.Fail(rule3, Fn(p.Lookup)+":result", c.Pos(ret), "the lookup returns a session together with an error", "(nil, not found)", nil)
			}
		}
		if p.NotFound != nil {
			if w := c.globalWrittenOutsideInit(p.NotFound); len(w) > 0 {
				okSet = false
				c.R.Fail(rule3, "global:"+p.NotFound.Name(), c.Pos(w[0]), "the not-found sentinel is reassigned", "sentinel constant", nil)
			}
		}
		if okSet && !p.LookupFlag && p.NotFound != nil {
			c.R.OK(rule3, Fn(p.Lookup)+":errors", c.P.FuncPos(p.Lookup), "the lookup returns (table entry, nil) or (nil, "+p.NotFound.Name()+")")
		}
	}
	// ---- O1 guarded-by
	rule1 := "C17.O1 guarded-by"
	nacc := 0
	for _, fn := range c.P.ModuleFuncs() {
		if prog.PkgPathOf(fn) != pkg || fn.Blocks == nil {
			continue
		}
		acc := c.tableAccesses(p, fn)
		lookCalls := Calls(fn, func(ci ssa.CallInstruction) bool { return p.isLookup(ci.Common().StaticCallee()) })
		if len(acc) == 0 && len(lookCalls) == 0 {
			continue
		}
		// constructor: the only access is the initial assignment of a fresh map
		if fn.Signature.Recv() == nil {
			onlyInit := true
			for _, a := range acc {
				if a.Kind != "replace" {
					onlyInit = false
				}
			}
			if onlyInit && len(lookCalls) == 0 {
				continue
			}
		}
		h := Held(fn, p.MuKey)
		if fn == p.Lookup || p.LookupWrappers[fn] {
			// callee assumes the lock: checked at its call sites
			nacc += len(acc)
			continue
		}
		var sites []ssa.Instruction
		for _, a := range acc {
			sites = append(sites, a.Ins)
		}
		for _, lc := range lookCalls {
			sites = append(sites, lc)
		}
		bad := false
		for _, s := range sites {
			nacc++
			if h.Before[s] != 2 {
				bad = true
				what := "accessed"
				if _, isCall := s.(*ssa.Call); isCall && p.isLookup(s.(*ssa.Call).Call.StaticCallee()) {
					what = "looked up (helper that assumes the lock)"
				}
				c.R.Fail(rule1, Fn(fn), c.Pos(s), "the session table is "+what+" without the table mutex write-held on every path: two protocol messages for one account can interleave", "every table access under "+p.MuKey+".Lock()", nil)
			}
		}
		if len(h.ReturnsHeld) > 0 {
			bad = true
			c.R.Fail(rule1, Fn(fn)+":release", c.Pos(h.ReturnsHeld[0]), "the table mutex is not released on every return: all later protocol messages block", "defer Unlock", nil)
		}
		if !bad {
			c.R.OK(rule1, Fn(fn), c.P.FuncPos(fn), fmt.Sprintf("%d table accesses / lookups, all with %s write-held; released on every return", len(sites), p.MuKey))
		}
	}
	c.R.Floor(rule1, "session table accesses", nacc, 8)
	// ---- O1b atomic check-then-act: between the lookup and any table write / session use the mutex is never released
	ruleA := "C17.O1 guarded-by/atomic"
	for _, name := range []string{"OnPrepare", "OnExecute", "OnContribute", "OnCommit", "OnAbort"} {
		F := p.Methods[name]
		h := Held(F, p.MuKey)
		var lcs []ssa.CallInstruction
		lcs = Calls(F, func(ci ssa.CallInstruction) bool { return p.isLookup(ci.Common().StaticCallee()) })
		var acts []ssa.Instruction
		for _, a := range c.tableAccesses(p, F) {
			if a.Write {
				acts = append(acts, a.Ins)
			}
		}
		for _, lc := range lcs {
			for _, r := range *lc.Value().Referrers() {
				if ex, ok := r.(*ssa.Extract); ok && ex.Index == 0 {
					for _, u := range *ex.Referrers() {
						if _, isDbg := u.(*ssa.DebugRef); !isDbg {
							acts = append(acts, u)
						}
					}
				}
			}
		}
		bad := false
		for _, op := range h.Ops {
			if op.Deferred || (op.Op != "Unlock" && op.Op != "RUnlock") {
				continue
			}
			u := op.Ins.(ssa.Instruction)
			for _, lc := range lcs {
				if !an.Reachable(an.After(lc), u) {
					continue
				}
				for _, act := range acts {
					if an.Reachable(an.After(u), act) {
						bad = true
						c.R.Fail(ruleA, Fn(F), c.Pos(u), name+" releases the table mutex between looking up the generation and acting on the result ("+c.Pos(act)+"): two messages for one account can both pass the check", "the mutex is held from the lookup to the last use of its result", nil)
					}
				}
			}
		}
		if !bad && len(lcs) > 0 {
			c.R.OK(ruleA, Fn(F), c.P.FuncPos(F), "the table mutex is not released between the lookup and the uses of its result / table writes")
		}
	}
	// ---- O2 prepare
	rule2 := "C17.O2 prepare"
	{
		F := p.Methods["OnPrepare"]
		acc := c.tableAccesses(p, F)
		var lc *ssa.Call
		for _, ci := range Calls(F, func(ci ssa.CallInstruction) bool { return p.isLookup(ci.Common().StaticCallee()) }) {
			lc, _ = ci.(*ssa.Call)
		}
		nins := 0
		if lc == nil {
			c.R.Fail(rule2, Fn(F), c.P.FuncPos(F), "prepare does not look for an active generation before creating one", "insert only if the lookup found nothing", nil)
		} else {
			for _, a := range acc {
				if a.Kind != "insert" {
					if a.Write {
						c.R.Fail(rule2, Fn(F)+":"+a.Kind, c.Pos(a.Ins), "prepare modifies the session table other than by inserting the new session", "prepare only inserts", nil)
					}
					continue
				}
				nins++
				target := a.Ins
				x, path := an.Cut(an.CutQuery{From: an.Entry(F), Target: func(i ssa.Instruction) bool { return i == target },
					AcceptEdge: func(b *ssa.BasicBlock, i int, at *an.Atom) bool { return p.lookupFailAtom(at, lc) }})
				if x != nil {
					c.R.Fail(rule2, Fn(F), c.Pos(a.Ins), "a new session can be installed although one is active for the account (the active generation is overwritten)", "insert only below [lookup err != nil]", an.PathString(c.Pos, path))
				} else if a.Key != lc.Call.Args[len(lc.Call.Args)-1] {
					c.R.Fail(rule2, Fn(F), c.Pos(a.Ins), "the session is stored under a name other than the one looked up", "same account name", nil)
				} else {
					c.R.OK(rule2, Fn(F), c.Pos(a.Ins), "insert only below [lookup err != nil], under the looked-up name")
				}
			}
			// the in-progress path writes nothing through the found session
			var gen ssa.Value
			for _, r := range *lc.Referrers() {
				if ex, ok := r.(*ssa.Extract); ok && ex.Index == 0 {
					gen = ex
				}
			}
			if gen != nil && gen.Referrers() != nil && len(*gen.Referrers()) > 0 {
				c.R.Fail(rule2, Fn(F)+":in-progress", c.Pos(lc), "prepare uses the active session it found", "an active session is left intact", nil)
			}
		}
		c.R.Floor(rule2, "session insertions in prepare", nins, 1)
	}
	// ---- O3 needs-active / O4 commit-complete
	rule4 := "C17.O4 commit-complete"
	for _, name := range []string{"OnExecute", "OnContribute", "OnCommit", "OnAbort"} {
		F := p.Methods[name]
		var lc *ssa.Call
		for _, ci := range Calls(F, func(ci ssa.CallInstruction) bool { return p.isLookup(ci.Common().StaticCallee()) }) {
			lc, _ = ci.(*ssa.Call)
		}
		if lc == nil {
			c.R.Fail(rule3, Fn(F), c.P.FuncPos(F), name+" does not look up the active generation", "act only on an active generation", nil)
			continue
		}
		var gen ssa.Value
		for _, r := range *lc.Referrers() {
			if ex, ok := r.(*ssa.Extract); ok && ex.Index == 0 {
				gen = ex
			}
		}
		var uses []ssa.Instruction
		if gen != nil {
			for _, r := range *gen.Referrers() {
				if _, isDbg := r.(*ssa.DebugRef); isDbg {
					continue
				}
				uses = append(uses, r)
			}
		}
		for _, a := range c.tableAccesses(p, F) {
			if a.Write {
				uses = append(uses, a.Ins)
			}
		}
		// success returns (nil error) are uses as well: the method must not report success without an active generation
		k := errResultIndex(F)
		for _, ret := range an.Returns(F) {
			if isNilConst(unwrapErr(an.Result(ret, k))) {
				uses = append(uses, ret)
			}
		}
		bad := false
		for _, u := range uses {
			target := u
			// from the entry: a success return placed before the lookup is reached without its success edge as well
			x, path := an.Cut(an.CutQuery{From: an.Entry(F), Target: func(i ssa.Instruction) bool { return i == target },
				AcceptEdge: func(b *ssa.BasicBlock, i int, at *an.Atom) bool { return p.lookupSuccessAtom(at, lc) }})
			if x != nil {
				bad = true
				c.R.Fail(rule3, Fn(F), c.Pos(u), name+" can use the session, change the table or report success although no generation is active for the account", "everything below [lookup succeeded]", an.PathString(c.Pos, path))
			}
		}
		if !bad {
			c.R.OK(rule3, Fn(F), c.Pos(lc), fmt.Sprintf("%d uses of the session / table writes / success returns, all below [lookup succeeded]", len(uses)))
		}
		// O4: commit and abort delete the session before reporting success
		if name == "OnCommit" || name == "OnAbort" {
			var dels []tableAccess
			for _, a := range c.tableAccesses(p, F) {
				if a.Kind == "delete" {
					dels = append(dels, a)
				}
			}
			isDel := func(i ssa.Instruction) bool {
				for _, d := range dels {
					if d.Ins == i && d.Key == lc.Call.Args[len(lc.Call.Args)-1] {
						return true
					}
				}
				return false
			}
			badD := false
			for _, ret := range an.Returns(F) {
				if !isNilConst(unwrapErr(an.Result(ret, k))) {
					continue
				}
				target := ssa.Instruction(ret)
				if x, path := an.Cut(an.CutQuery{From: an.Entry(F), Target: func(i ssa.Instruction) bool { return i == target }, AcceptInstr: isDel}); x != nil {
					badD = true
					c.R.Fail(rule4, Fn(F)+":delete", c.Pos(ret), name+" can report success and leave the generation in the table: further messages for it are honoured and a new generation for the name is refused", "delete(table, name) before success", an.PathString(c.Pos, path))
				}
			}
			if !badD {
				c.R.OK(rule4, Fn(F)+":delete", c.P.FuncPos(F), "success only after the session was removed from the table")
			}
		}
		if name == "OnCommit" {
			// both completeness tests before any success / before the key is stored
			for _, fld := range []string{"sharedSecrets", "sharedVVecs"} {
				fld := fld
				_ = fld
			}
			mapFlds := sessionMapFields(p.Session)
			listFld := sessionParticipantsField(p.Session)
			for _, mf := range mapFlds {
				mf := mf
				complete := func(a *an.Atom, sub Subst) bool {
					if a == nil || a.Op != "==" {
						return false
					}
					isLenOf := func(v ssa.Value, f string) bool {
						call, ok := v.(*ssa.Call)
						if !ok || !isBuiltin(call, "len") {
							return false
						}
						_, ff, base := an.FieldOf(call.Call.Args[0])
						return ff == f && sub.Res(base) == gen
					}
					return (isLenOf(a.LV, mf) && isLenOf(a.RV, listFld)) || (isLenOf(a.RV, mf) && isLenOf(a.LV, listFld))
				}
				badC := false
				for _, ret := range an.Returns(F) {
					if !isNilConst(unwrapErr(an.Result(ret, k))) {
						continue
					}
					target := ssa.Instruction(ret)
					if x, path := an.Cut(an.CutQuery{From: an.Entry(F), Target: func(i ssa.Instruction) bool { return i == target },
						AcceptEdge: c.WithSummaries(complete)}); x != nil {
						badC = true
						c.R.Fail(rule4, Fn(F)+":"+mf, c.Pos(ret), "commit can succeed without one "+mf+" entry per listed participant", "[len("+mf+") == len("+listFld+")] before success", an.PathString(c.Pos, path))
					}
				}
				if !badC {
					c.R.OK(rule4, Fn(F)+":"+mf, c.P.FuncPos(F), "commit success is cut by [len("+mf+") == len("+listFld+")]")
				}
			}
		}
	}
	// expiry inside the lookup: delete + not found below the timeout comparison
	{
		F := p.Lookup
		ndel := 0
		for _, a := range c.tableAccesses(p, F) {
			if a.Kind != "delete" {
				continue
			}
			ndel++
			target := a.Ins
			// the entry the deleted key names: the value read from the table under that very key, or the value of the range
			// iteration that yields the key (an age test on another entry says nothing about this one)
			entryOf := map[ssa.Value]bool{}
			if ex, isEx := a.Key.(*ssa.Extract); isEx && ex.Index == 1 {
				if nx, isNext := ex.Tuple.(*ssa.Next); isNext {
					for _, r := range *nx.Referrers() {
						if e2, ok := r.(*ssa.Extract); ok && e2.Index == 2 {
							entryOf[e2] = true
						}
					}
				}
			}
			for _, acc := range c.tableAccesses(p, F) {
				if lk, isLk := acc.Ins.(*ssa.Lookup); isLk && lk.Index == a.Key {
					entryOf[lk] = true
					for _, r := range *lk.Referrers() {
						if e2, ok := r.(*ssa.Extract); ok && e2.Index == 0 {
							entryOf[e2] = true
						}
					}
				}
			}
			x, path := an.Cut(an.CutQuery{From: an.Entry(F), Target: func(i ssa.Instruction) bool { return i == target },
				AcceptEdge: c.WithSummaries(func(at *an.Atom, sub Subst) bool {
					// timeout < time.Since(start) (either orientation; the timeout may reach a helper as an argument)
					if at == nil {
						return false
					}
					var tv, sv ssa.Value
					switch at.Op {
					case "<":
						tv, sv = at.LV, at.RV
					case ">":
						tv, sv = at.RV, at.LV
					default:
						return false
					}
					call, ok := sv.(*ssa.Call)
					if !ok || call.Call.StaticCallee() == nil || call.Call.StaticCallee().String() != "time.Since" {
						return false
					}
					_, f, _ := an.FieldOf(sub.Res(tv))
					if !strings.Contains(strings.ToLower(f), "timeout") {
						return false
					}
					// whose age: a field of the entry the deleted key names
					if len(call.Call.Args) != 1 {
						return false
					}
					_, _, base := an.FieldOf(sub.Res(call.Call.Args[0]))
					return base != nil && entryOf[sub.Res(base)]
				})})
			if x != nil {
				c.R.Fail(rule4, Fn(F)+":expiry", c.Pos(a.Ins), "the lookup removes a session for a reason other than its own age exceeding the configured timeout (the age tested must be that of the entry the deleted key names)", "delete(table, k) only below [time.Since(table[k].started) > timeout]", an.PathString(c.Pos, path))
			} else {
				c.R.OK(rule4, Fn(F)+":expiry", c.Pos(a.Ins), "expiry: delete only below [time.Since(started) > timeout]")
			}
		}
		c.R.Floor(rule4, "expiry deletions in the lookup", ndel, 1)
		// the age that is tested is the age since the generation was created: the field read by the expiry test is written only
		// where a session object is built (a store into an object allocated in the same function), never on a later message
		started := map[string]bool{}
		for _, g := range c.P.ModuleFuncs() {
			// (the age test may live in a method of the session: `g.expired(timeout)`)
			if prog.PkgPathOf(g) != pkg || g.Blocks == nil {
				continue
			}
			for _, b := range g.Blocks {
				for _, ins := range b.Instrs {
					call, ok := ins.(*ssa.Call)
					if !ok || call.Call.StaticCallee() == nil || call.Call.StaticCallee().String() != "time.Since" || len(call.Call.Args) != 1 {
						continue
					}
					if owner, f, _ := an.FieldOf(call.Call.Args[0]); owner != nil && namedOf(owner) == p.Session {
						started[f] = true
					}
				}
			}
		}
		nst := 0
		for _, fn := range c.P.ModuleFuncs() {
			if prog.PkgPathOf(fn) != pkg || fn.Blocks == nil {
				continue
			}
			for _, b := range fn.Blocks {
				for _, ins := range b.Instrs {
					st, ok := ins.(*ssa.Store)
					if !ok {
						continue
					}
					fa, ok := st.Addr.(*ssa.FieldAddr)
					if !ok || namedOf(fa.X.Type()) != p.Session || !started[fieldNameOf(fa)] {
						continue
					}
					nst++
					if _, fresh := fa.X.(*ssa.Alloc); fresh {
						c.R.OK(rule4, Fn(fn)+":started", c.Pos(st), "the start time is set where the generation is created")
					} else {
						c.R.Fail(rule4, Fn(fn)+":started", c.Pos(st), "the start time of an existing generation is rewritten: its lifetime is no longer bounded by the configured timeout (every message can extend it), a timed-out generation keeps accepting messages and blocks a new prepare", "the field the expiry test reads is written only when the generation is created", nil)
					}
				}
			}
		}
		c.R.Floor(rule4, "stores of the generation's start time", nst, 1)
	}
	// ---- O5 single-table: who writes
	rule5 := "C17.O5 single-table"
	allowed := map[*ssa.Function]string{p.Methods["OnPrepare"]: "insert", p.Methods["OnCommit"]: "delete", p.Methods["OnAbort"]: "delete", p.Lookup: "delete"}
	nw := 0
	bad := false
	for _, fn := range c.P.ModuleFuncs() {
		if prog.IsTestish(prog.PkgPathOf(fn)) || fn.Blocks == nil {
			continue
		}
		for _, a := range c.tableAccesses(p, fn) {
			if !a.Write {
				continue
			}
			if a.Kind == "replace" && fn.Signature.Recv() == nil {
				continue // constructor
			}
			nw++
			if allowed[fn] != a.Kind {
				bad = true
				c.R.Fail(rule5, Fn(fn)+":"+a.Kind, c.Pos(a.Ins), "the session table is modified ("+a.Kind+") outside the lifecycle operations", "insert in prepare; delete in commit, abort and on expiry", nil)
			}
		}
	}
	c.R.Floor(rule5, "session table writes", nw, 4)
	if !bad {
		c.R.OK(rule5, p.TableFld, "-", fmt.Sprintf("%d writes: insert in prepare; delete in commit, abort and expiry", nw))
	}
	_ = token.ADD
}

func sessionMapFields(sess *types.Named) []string {
	var out []string
	st := sess.Underlying().(*types.Struct)
	for i := 0; i < st.NumFields(); i++ {
		if _, ok := st.Field(i).Type().(*types.Map); ok && strings.HasPrefix(st.Field(i).Name(), "shared") {
			out = append(out, st.Field(i).Name())
		}
	}
	return out
}

func sessionParticipantsField(sess *types.Named) string {
	st := sess.Underlying().(*types.Struct)
	for i := 0; i < st.NumFields(); i++ {
		if sl, ok := st.Field(i).Type().(*types.Slice); ok {
			if pt, ok := sl.Elem().(*types.Pointer); ok && namedIs(pt.Elem(), pkgCore, "Endpoint") {
				return st.Field(i).Name()
			}
		}
	}
	return ""
}

func init() {
	register(&Spec{
		ID: "C17",
		Run: func(c *Ctx) {
			c.SessionLifecycle("C17")
			c.ParticipantsAsSent("C17")
			c.ReceiverFront("C17")
			c.OneInstance("C17", "process") // one session table
		},
		Explanation: "The session table is a typestate machine decided structurally: every access and every lookup happens with the table mutex write-held and the mutex is released on every return; prepare inserts only below the lookup's not-found edge and leaves a found session untouched; execute, contribute, commit and abort use the session, change the table or report success only below lookup success (the lookup's errors are exactly {nil, not found}); commit succeeds only past both per-participant completeness tests and after deleting the session, abort after deleting it, and the lookup deletes only past the timeout comparison; nothing else writes the table; the gRPC receiver in front answers success only past the nil-error edge of the process service's call and keeps no state of its own. See DESIGN.md §5 C17.",
		Trusted:     append([]string{"peers are cooperating (len == participants means the listed participants)", "wall clock"}, commonTrusted...),
	})
}

func isBoolType(t types.Type) bool {
	b, ok := t.Underlying().(*types.Basic)
	return ok && b.Kind() == types.Bool
}
