// Package rules holds the obligation builders, one file per property group.
package rules

import (
	"fmt"
	"go/constant"
	"go/types"
	"sort"
	"strings"

	"dirkcheck/internal/an"
	"dirkcheck/internal/prog"
	"dirkcheck/internal/report"

	"golang.org/x/tools/go/ssa"
)

// Ctx is the evaluation context of one property run.
type Ctx struct {
	P    *prog.Program
	R    *report.Collector
	Tier string
	// UseCHA makes who-may-call queries use the CHA graph as well (thorough).
	UseCHA bool

	roles map[string]*types.Named
	memo  map[string]any
}

// NewCtx builds a context.
func NewCtx(p *prog.Program, r *report.Collector, tier string) *Ctx {
	return &Ctx{P: p, R: r, Tier: tier, roles: map[string]*types.Named{}, memo: map[string]any{}}
}

const mod = prog.Module

// Pos of an instruction, falling back to neighbouring instructions when the instruction has none.
func (c *Ctx) Pos(ins ssa.Instruction) string {
	if ins == nil {
		return "-"
	}
	if ins.Pos().IsValid() {
		return c.P.Pos(ins.Pos())
	}
	// operands
	if v, ok := ins.(ssa.Value); ok {
		_ = v
	}
	b := ins.Block()
	if b != nil {
		idx := -1
		for i, x := range b.Instrs {
			if x == ins {
				idx = i
			}
		}
		for d := 1; d < len(b.Instrs); d++ {
			for _, j := range []int{idx - d, idx + d} {
				if j >= 0 && j < len(b.Instrs) && b.Instrs[j].Pos().IsValid() {
					return c.P.Pos(b.Instrs[j].Pos()) + "~"
				}
			}
		}
		return c.P.FuncPos(b.Parent()) + "~"
	}
	return "-"
}

// Fn renders a function name shortly.
func Fn(f *ssa.Function) string { return prog.ShortFunc(f) }

// Role resolves the unique production implementation of the interface pkg.name.
func (c *Ctx) Role(rule, ifacePkg, ifaceName string) *types.Named {
	key := ifacePkg + "." + ifaceName
	if t, ok := c.roles[key]; ok {
		return t
	}
	it := c.P.LookupType(ifacePkg, ifaceName)
	if it == nil {
		c.R.Anchor(rule, "role:"+key, "interface type not found")
		c.roles[key] = nil
		return nil
	}
	iface, ok := it.Underlying().(*types.Interface)
	if !ok {
		c.R.Anchor(rule, "role:"+key, "not an interface")
		c.roles[key] = nil
		return nil
	}
	impls := c.P.Implementations(iface, true)
	if len(impls) > 1 {
		// structural typing can make a sibling service satisfy a small interface; keep the implementations that live below the interface's own package
		var own []*types.Named
		for _, i := range impls {
			if strings.HasPrefix(i.Obj().Pkg().Path(), ifacePkg+"/") {
				own = append(own, i)
			}
		}
		if len(own) >= 1 {
			impls = own
		}
	}
	if len(impls) != 1 {
		var names []string
		for _, i := range impls {
			names = append(names, i.String())
		}
		c.R.Anchor(rule, "role:"+key, fmt.Sprintf("expected exactly one production implementation, found %d: %v", len(impls), names))
		c.roles[key] = nil
		return nil
	}
	c.roles[key] = impls[0]
	return impls[0]
}

// Method resolves a method of a role type; records an anchor failure if absent.
func (c *Ctx) Method(rule string, t *types.Named, name string) *ssa.Function {
	if t == nil {
		return nil
	}
	fn := c.P.Method(t, name)
	if fn == nil || fn.Blocks == nil {
		c.R.Anchor(rule, "method:"+t.String()+"."+name, "method not found or has no body")
		return nil
	}
	return fn
}

// EnumConst returns the integer value of a package-level constant.
func (c *Ctx) EnumConst(rule, pkgPath, name string) (int64, bool) {
	pk := c.P.ByPath[pkgPath]
	if pk == nil {
		c.R.Anchor(rule, "const:"+pkgPath+"."+name, "package not loaded")
		return 0, false
	}
	o, ok := pk.Types.Scope().Lookup(name).(*types.Const)
	if !ok {
		c.R.Anchor(rule, "const:"+pkgPath+"."+name, "constant not found")
		return 0, false
	}
	v, exact := constant.Int64Val(o.Val())
	if !exact {
		c.R.Anchor(rule, "const:"+pkgPath+"."+name, "not an integer constant")
		return 0, false
	}
	return v, true
}

// EnumValues returns all declared constants of a named integer type in its package: name -> value.
func (c *Ctx) EnumValues(t *types.Named) map[string]int64 {
	out := map[string]int64{}
	sc := t.Obj().Pkg().Scope()
	for _, n := range sc.Names() {
		if k, ok := sc.Lookup(n).(*types.Const); ok && types.Identical(k.Type(), t) {
			if v, exact := constant.Int64Val(k.Val()); exact {
				out[n] = v
			}
		}
	}
	return out
}

// Global finds a package-level variable.
func (c *Ctx) Global(rule, pkgPath, name string) *ssa.Global {
	sp := c.P.Package(pkgPath)
	if sp == nil {
		c.R.Anchor(rule, "global:"+pkgPath+"."+name, "package not loaded")
		return nil
	}
	g, _ := sp.Members[name].(*ssa.Global)
	if g == nil {
		c.R.Anchor(rule, "global:"+pkgPath+"."+name, "global not found")
	}
	return g
}

// StaticCallees returns module functions statically called (or closures created) in fn, transitively up to depth.
func (c *Ctx) StaticReach(fn *ssa.Function, depth int) []*ssa.Function {
	seen := map[*ssa.Function]bool{}
	var out []*ssa.Function
	var walk func(f *ssa.Function, d int)
	walk = func(f *ssa.Function, d int) {
		if f == nil || seen[f] || f.Blocks == nil {
			return
		}
		seen[f] = true
		out = append(out, f)
		if d == 0 {
			return
		}
		for _, b := range f.Blocks {
			for _, ins := range b.Instrs {
				switch x := ins.(type) {
				case ssa.CallInstruction:
					if cal := x.Common().StaticCallee(); cal != nil && prog.InModule(cal) {
						walk(cal, d-1)
					}
				}
				if mc, ok := ins.(*ssa.MakeClosure); ok {
					walk(mc.Fn.(*ssa.Function), d)
				}
			}
		}
	}
	walk(fn, depth)
	sort.Slice(out, func(i, j int) bool { return out[i].String() < out[j].String() })
	return out
}

// Calls returns all call instructions in fn (not descending into closures) satisfying pred.
func Calls(fn *ssa.Function, pred func(ssa.CallInstruction) bool) []ssa.CallInstruction {
	var out []ssa.CallInstruction
	for _, b := range fn.Blocks {
		for _, ins := range b.Instrs {
			if ci, ok := ins.(ssa.CallInstruction); ok && pred(ci) {
				out = append(out, ci)
			}
		}
	}
	return out
}

// WithClosures returns fn and all its nested anonymous functions.
func WithClosures(fn *ssa.Function) []*ssa.Function {
	out := []*ssa.Function{fn}
	for _, a := range fn.AnonFuncs {
		out = append(out, WithClosures(a)...)
	}
	return out
}

// IsInvokeOf reports whether ci invokes interface method `name` on an interface type declared as pkg.iface.
func IsInvokeOf(ci ssa.CallInstruction, ifacePkg, ifaceName, method string) bool {
	cc := ci.Common()
	if !cc.IsInvoke() || cc.Method.Name() != method {
		return false
	}
	return namedIs(cc.Value.Type(), ifacePkg, ifaceName)
}

func namedIs(t types.Type, pkg, name string) bool {
	if p, ok := t.(*types.Pointer); ok {
		t = p.Elem()
	}
	n, ok := t.(*types.Named)
	if !ok {
		return false
	}
	return n.Obj().Name() == name && n.Obj().Pkg() != nil && n.Obj().Pkg().Path() == pkg
}

// IsCallTo reports whether ci statically calls the function/method with the given full name
// (as printed by ssa.Function.String(), e.g. "bytes.Equal" or "(*pkg.T).M").
func IsCallTo(ci ssa.CallInstruction, full string) bool {
	f := ci.Common().StaticCallee()
	return f != nil && f.String() == full
}

// CalleeName returns the printable static callee or invoke method of ci.
func CalleeName(ci ssa.CallInstruction) string {
	cc := ci.Common()
	if cc.IsInvoke() {
		return "invoke " + an.TypeStr(cc.Value.Type()) + "." + cc.Method.Name()
	}
	if f := cc.StaticCallee(); f != nil {
		return prog.ShortFunc(f)
	}
	if b, ok := cc.Value.(*ssa.Builtin); ok {
		return "builtin " + b.Name()
	}
	return "dynamic " + an.Term(cc.Value)
}

func short(s string) string { return strings.ReplaceAll(s, mod+"/", "") }
