package rules

import (
	"go/token"

	"dirkcheck/internal/an"
	"dirkcheck/internal/prog"

	"golang.org/x/tools/go/ssa"
)

// SignerRefusalReasons (C09.O6 signer.refusal-reasons): the signer endpoints refuse a request (DENIED / FAILED written
// as a constant) only for a closed set of reasons, decided by the branch that enters the refusing site:
//   - the request itself is malformed: the deciding atom speaks only about the endpoint's own parameters;
//   - the rules' verdict for this position is not APPROVED;
//   - a step failed: an error value is non-nil / a comma-ok flag is false / a helper's core.Result is not SUCCEEDED.
//
// A refusal decided by anything else - in particular by state the service keeps between requests - would refuse a
// request that every serial order signs.
func (c *Ctx) SignerRefusalReasons(prop string) {
	rule := "C09.O6 signer.refusal-reasons"
	sg := c.Signer(prop + ".anchors")
	if !sg.OK() {
		return
	}
	denied, ok1 := c.EnumConst(rule, pkgCore, "ResultDenied")
	failed, ok2 := c.EnumConst(rule, pkgCore, "ResultFailed")
	approved, ok3 := c.EnumConst(rule, pkgRules, "APPROVED")
	if !ok1 || !ok2 || !ok3 {
		return
	}
	n := 0
	for _, name := range signerEndpoints {
		E := sg.Endpoints[name]
		run := sg.RunRules[E]
		// request-only values: built from the endpoint's parameters (not the receiver), constants, len, field and element reads
		var reqOnly func(v ssa.Value, d int) bool
		reqOnly = func(v ssa.Value, d int) bool {
			if d > 8 {
				return false
			}
			switch x := v.(type) {
			case *ssa.Const:
				return true
			case *ssa.Parameter:
				return x.Parent() == E && (E.Signature.Recv() == nil || x != E.Params[0])
			case *ssa.FreeVar:
				if b := closureBindingOf(x); b != nil {
					return reqOnly(b, d+1)
				}
				return false
			case *ssa.Alloc:
				if inner, ok := an.ResolveCell(x); ok {
					return reqOnly(inner, d+1)
				}
				return false
			case *ssa.UnOp:
				if x.Op == token.MUL {
					if inner, ok := an.ResolveCell(x.X); ok {
						return reqOnly(inner, d+1)
					}
				}
				return reqOnly(x.X, d+1)
			case *ssa.FieldAddr:
				return reqOnly(x.X, d+1)
			case *ssa.IndexAddr:
				return reqOnly(x.X, d+1) // the index is the position being judged
			case *ssa.Slice:
				return reqOnly(x.X, d+1)
			case *ssa.MakeSlice:
				return reqOnly(x.Len, d+1) // a fresh list sized by the request
			case *ssa.Convert:
				return reqOnly(x.X, d+1)
			case *ssa.ChangeType:
				return reqOnly(x.X, d+1)
			case *ssa.BinOp:
				return reqOnly(x.X, d+1) && reqOnly(x.Y, d+1)
			case *ssa.Phi:
				// an induction variable or a choice between request-only values
				return true
			case *ssa.Call:
				if b, ok := x.Call.Value.(*ssa.Builtin); ok && (b.Name() == "len" || b.Name() == "cap") {
					return reqOnly(x.Call.Args[0], d+1)
				}
				// a receiver-less module validator (or bytes.Equal and the like) over request-only arguments
				f := x.Call.StaticCallee()
				if f == nil || x.Call.IsInvoke() || f.Signature.Recv() != nil || len(x.Call.Args) == 0 {
					return false
				}
				if !prog.InModule(f) {
					if f.Pkg == nil || (f.Pkg.Pkg.Path() != "bytes" && f.Pkg.Pkg.Path() != "strings") {
						return false
					}
				}
				for _, a := range x.Call.Args {
					if !reqOnly(a, d+1) && !isCtx(a) && !isLogger(a) {
						return false
					}
				}
				return true
			case *ssa.Extract:
				return reqOnly(x.Tuple, d+1)
			}
			return false
		}
		isVerdict := func(v ssa.Value) bool {
			if run == nil {
				return false
			}
			if _, ok := verdictLoad(v, run); ok {
				return true
			}
			// a verdict handed to a helper or loaded through a list of verdicts
			root, _, ok := elemLoad(v)
			return ok && root == run.Value()
		}
		// strong reasons justify a refusal wherever they lie on the path (must-pass-through); "the request itself" only as
		// the branch that enters the refusing site (the negated validations are request-only atoms too)
		strong := func(a *an.Atom) string {
			if a == nil {
				return ""
			}
			for _, side := range [][2]ssa.Value{{a.LV, a.RV}, {a.RV, a.LV}} {
				if side[0] == nil {
					continue
				}
				if a.Op == "!=" && isErrorTyped(side[0]) && isNilConst(side[1]) {
					return "a step returned an error"
				}
				if isVerdict(side[0]) {
					if (a.Op == "!=" && an.IsConstInt(side[1], approved)) || (a.Op == "==" && !an.IsConstInt(side[1], approved)) {
						return "the rules' verdict"
					}
				}
				if namedIs(side[0].Type(), pkgCore, "Result") && a.Op == "!=" {
					if _, isCall := side[0].(*ssa.Extract); isCall {
						return "a helper's result is not SUCCEEDED"
					}
				}
			}
			if a.Op == "false" {
				if ex, ok := a.LV.(*ssa.Extract); ok {
					if _, isTA := ex.Tuple.(*ssa.TypeAssert); isTA {
						return "a type assertion failed"
					}
				}
			}
			return ""
		}
		classify := func(a *an.Atom) string {
			if a == nil {
				return ""
			}
			if r := strong(a); r != "" {
				return r
			}
			// step failure: err != nil, !ok, result != SUCCEEDED
			for _, side := range [][2]ssa.Value{{a.LV, a.RV}, {a.RV, a.LV}} {
				if side[0] == nil {
					continue
				}
				if a.Op == "!=" && isErrorTyped(side[0]) && isNilConst(side[1]) {
					return "a step returned an error"
				}
				if (a.Op == "!=" || a.Op == "==") && isVerdict(side[0]) {
					return "the rules' verdict"
				}
				if namedIs(side[0].Type(), pkgCore, "Result") && a.Op == "!=" {
					if _, isCall := side[0].(*ssa.Extract); isCall {
						return "a helper's result is not SUCCEEDED"
					}
				}
			}
			if a.Op == "false" || a.Op == "true" {
				if ex, ok := a.LV.(*ssa.Extract); ok {
					if _, isTA := ex.Tuple.(*ssa.TypeAssert); isTA {
						return "a type assertion"
					}
				}
			}
			okL := a.LV == nil || reqOnly(a.LV, 0)
			okR := a.RV == nil || reqOnly(a.RV, 0)
			if okL && okR {
				return "the request itself"
			}
			return ""
		}
		for _, f := range WithClosures(E) {
			for _, b := range f.Blocks {
				for _, ins := range b.Instrs {
					var site ssa.Instruction
					switch x := ins.(type) {
					case *ssa.Return:
						if f == E && len(x.Results) > 0 {
							if v := an.Result(x, 0); an.IsConstInt(v, denied) || an.IsConstInt(v, failed) {
								if namedIs(v.Type(), pkgCore, "Result") {
									site = x
								}
							}
						}
					case *ssa.Store:
						if k, ok := x.Val.(*ssa.Const); ok && namedIs(k.Type(), pkgCore, "Result") && (an.IsConstInt(k, denied) || an.IsConstInt(k, failed)) {
							if _, isIdx := x.Addr.(*ssa.IndexAddr); isIdx {
								site = x
							}
						}
					}
					if site == nil {
						continue
					}
					n++
					// the deciding edges: walk back over straight-line predecessors to the branches that lead here
					var bad []string
					seen := map[*ssa.BasicBlock]bool{}
					var back func(blk *ssa.BasicBlock, depth int)
					back = func(blk *ssa.BasicBlock, depth int) {
						if seen[blk] || depth > 6 {
							return
						}
						seen[blk] = true
						if len(blk.Preds) == 0 {
							bad = append(bad, "reached unconditionally")
							return
						}
						for _, p := range blk.Preds {
							if _, isIf := p.Instrs[len(p.Instrs)-1].(*ssa.If); isIf {
								a := edgeAtomTo(p, blk)
								if classify(a) == "" {
									bad = append(bad, a.String())
								}
								continue
							}
							back(p, depth+1)
						}
					}
					back(site.Block(), 0)
					if len(bad) > 0 {
						// a cosmetic branch below a justified one: every path to the site has passed a strong reason
						target := site
						if x, _ := an.Cut(an.CutQuery{From: an.Entry(f), Target: func(i ssa.Instruction) bool { return i == target },
							AcceptEdge: func(b *ssa.BasicBlock, i int, a *an.Atom) bool { return strong(a) != "" }}); x == nil {
							bad = nil
						}
					}
					if len(bad) > 0 {
						c.R.Fail(rule, Fn(f), c.Pos(site), "a request is refused for a reason that is neither the request itself, nor the rules' verdict, nor a failed step: ["+bad[0]+"] (state kept between requests can refuse a request that every serial order signs)", "refusals only for malformed requests, non-approving verdicts and failed steps", nil)
					} else {
						c.R.OK(rule, Fn(f), c.Pos(site), "refusal decided by the request itself, the rules' verdict or a failed step")
					}
				}
			}
		}
	}
	c.R.Floor(rule, "constant refusals in the signer endpoints", n, 20)
	_ = prog.InModule
}

func isCtx(v ssa.Value) bool    { return namedIs(v.Type(), "context", "Context") }
func isLogger(v ssa.Value) bool { return namedIs(v.Type(), "github.com/rs/zerolog", "Logger") }
func isErrorTyped(v ssa.Value) bool {
	return v.Type().String() == "error"
}
