package rules

import (
	"fmt"
	"go/types"
	"sort"

	"dirkcheck/internal/an"
	"dirkcheck/internal/prog"

	"golang.org/x/tools/go/ssa"
)

// SourceAddress (C05.O7 source-address.from-peer): the administrator test of the voluntary-exit rule compares
// ReqMetadata.IP with the configured list. That comparison is only as good as the address: it must be the address of the
// transport peer of this very connection, which the client cannot choose, and nothing the request itself carries (headers,
// message fields). The chain is checked link by link:
//
//	(a) the context value ExternalIP is set only in the interceptor package, and the value's whole backward data slice ends in
//	    constants and in peer.FromContext(ctx) - followed into module helpers with their parameters bound to the arguments;
//	    a parameter, captured variable, global or any other source in the slice (request metadata, the request message) fails;
//	(b) Credentials.IP is written only from ctx.Value(ExternalIP);
//	(c) ReqMetadata.IP is written only from Credentials.IP.
//
// Control dependence is not covered (an address chosen among several peer-derived ones by a header is still peer-derived).
func (c *Ctx) SourceAddress(prop string) {
	rule := "C05.O7 source-address.from-peer"
	nset := 0
	for _, fn := range c.P.ModuleFuncs() {
		if prog.IsTestish(prog.PkgPathOf(fn)) {
			continue
		}
		for _, ci := range Calls(fn, func(ci ssa.CallInstruction) bool { return IsCallTo(ci, "context.WithValue") }) {
			mi, ok := ci.Common().Args[1].(*ssa.MakeInterface)
			if !ok {
				continue
			}
			n := namedOf(mi.X.Type())
			if n == nil || n.Obj().Name() != "ExternalIP" || n.Obj().Pkg() == nil || n.Obj().Pkg().Path() != pkgInterceptors {
				continue
			}
			nset++
			if prog.PkgPathOf(fn) != pkgInterceptors {
				c.R.Fail(rule, Fn(fn)+":setter", c.Pos(ci), "the request's source address is set outside the gRPC interceptor package", "only the source-address interceptor sets ExternalIP", nil)
				continue
			}
			ps := &peerSlice{seen: map[peerKey]bool{}}
			ps.walk(ci.Common().Args[2], nil, 0)
			if ps.bad == "" && ps.peerParams > 0 {
				if foreign := c.peerValuesForeign(); len(foreign) > 0 {
					ps.bad = "a *peer.Peer parameter, and the module obtains such values from elsewhere than peer.FromContext (" + foreign[0] + ")"
				}
			}
			switch {
			case ps.bad != "":
				c.R.Fail(rule, Fn(fn)+":setter", c.Pos(ci), "the source address placed in the request context is not derived from the transport peer alone: it also depends on "+ps.bad, "ExternalIP = address of peer.FromContext(ctx), nothing the request carries", nil)
			case ps.peers == 0:
				c.R.Fail(rule, Fn(fn)+":setter", c.Pos(ci), "the source address placed in the request context does not come from peer.FromContext(ctx)", "ExternalIP = address of peer.FromContext(ctx)", nil)
			default:
				c.R.OK(rule, Fn(fn)+":setter", c.Pos(ci), fmt.Sprintf("ExternalIP is computed from peer.FromContext(ctx) and constants only (%d values examined)", len(ps.seen)))
			}
		}
	}
	c.R.Floor(rule, "places that set the source address", nset, 1)
	// (b), (c)
	ncred, nmeta := 0, 0
	for _, fn := range c.P.ModuleFuncs() {
		if prog.IsTestish(prog.PkgPathOf(fn)) {
			continue
		}
		for _, b := range fn.Blocks {
			for _, ins := range b.Instrs {
				st, ok := ins.(*ssa.Store)
				if !ok {
					continue
				}
				fa, ok := st.Addr.(*ssa.FieldAddr)
				if !ok || fieldNameOf(fa) != "IP" {
					continue
				}
				switch {
				case namedIs(fa.X.Type(), pkgChecker, "Credentials"):
					ncred++
					if ctxValueOfKey(st.Val) != "ExternalIP" {
						c.R.Fail(rule, Fn(fn)+":credentials", c.Pos(st), "the source address of the credentials is not read from the request context's ExternalIP: "+an.Term(st.Val), "Credentials.IP = ctx.Value(ExternalIP)", nil)
					} else {
						c.R.OK(rule, Fn(fn)+":credentials", c.Pos(st), "Credentials.IP = ctx.Value(ExternalIP)")
					}
				case namedIs(fa.X.Type(), pkgRules, "ReqMetadata"):
					nmeta++
					owner, f, _ := an.FieldOf(st.Val)
					if owner == nil || f != "IP" || !namedIs(owner, pkgChecker, "Credentials") {
						c.R.Fail(rule, Fn(fn)+":metadata", c.Pos(st), "the source address handed to the rules is not the credentials' address: "+an.Term(st.Val), "ReqMetadata.IP = credentials.IP", nil)
					} else {
						c.R.OK(rule, Fn(fn)+":metadata", c.Pos(st), "ReqMetadata.IP = credentials.IP")
					}
				}
			}
		}
	}
	c.R.Floor(rule, "writers of Credentials.IP", ncred, 1)
	c.R.Floor(rule, "writers of ReqMetadata.IP", nmeta, 1)
}

// peerFrame binds a helper's parameters to the arguments of the call being followed.
type peerFrame struct {
	call   *ssa.Call
	parent *peerFrame
}

type peerKey struct {
	v ssa.Value
	f *peerFrame
}

type peerSlice struct {
	seen       map[peerKey]bool
	bad        string
	peers      int
	peerParams int
}

const pkgGrpcPeer = "google.golang.org/grpc/peer"

func isPeerPtr(t types.Type) bool {
	pt, ok := t.(*types.Pointer)
	return ok && namedIs(pt.Elem(), pkgGrpcPeer, "Peer")
}

// peerValuesForeign: production code that makes a peer.Peer of its own, plants one in a context, or obtains one from anything
// but peer.FromContext. Empty when every *peer.Peer in the module is the transport's.
func (c *Ctx) peerValuesForeign() []string {
	var out []string
	for _, fn := range c.P.ModuleFuncs() {
		if prog.IsTestish(prog.PkgPathOf(fn)) {
			continue
		}
		for _, b := range fn.Blocks {
			for _, ins := range b.Instrs {
				switch x := ins.(type) {
				case *ssa.Alloc:
					if isPeerPtr(x.Type()) {
						out = append(out, c.Pos(x)+": a peer.Peer value is created")
					}
				case *ssa.Call:
					f := x.Call.StaticCallee()
					if f != nil && f.String() == pkgGrpcPeer+".NewContext" {
						out = append(out, c.Pos(x)+": a peer is planted in a context")
					}
					if f != nil && f.String() == pkgGrpcPeer+".FromContext" {
						continue
					}
					if f != nil && prog.InModule(f) {
						continue // its returns are module values, examined where they are produced
					}
					res := x.Call.Signature().Results()
					for i := 0; i < res.Len(); i++ {
						if isPeerPtr(res.At(i).Type()) {
							out = append(out, c.Pos(x)+": a *peer.Peer is obtained from "+CalleeName(x))
						}
					}
				case *ssa.Convert, *ssa.ChangeType:
					if isPeerPtr(x.(ssa.Value).Type()) {
						out = append(out, c.Pos(ins)+": a value is converted to *peer.Peer")
					}
				}
			}
		}
	}
	sort.Strings(out)
	return out
}

func (p *peerSlice) fail(what string) {
	if p.bad == "" {
		p.bad = what
	}
}

// walk follows the backward data slice of v. k >= 0 selects a component of a tuple-valued v.
func (p *peerSlice) walk(v ssa.Value, fr *peerFrame, depth int) {
	if v == nil || p.bad != "" {
		return
	}
	key := peerKey{v, fr}
	if p.seen[key] {
		return
	}
	p.seen[key] = true
	if depth > 40 || len(p.seen) > 4000 {
		p.fail("a value chain too long to follow")
		return
	}
	switch x := v.(type) {
	case *ssa.Const, *ssa.Builtin:
	case *ssa.Function:
		// a function value as such carries no request data
	case *ssa.Parameter:
		if fr == nil && isPeerPtr(x.Type()) {
			// a *peer.Peer handed in by the caller: accepted when the module obtains such values only from peer.FromContext
			p.peerParams++
			p.peers++
			return
		}
		if fr == nil {
			p.fail("parameter " + x.Name() + " of " + prog.ShortFunc(x.Parent()) + " (" + an.TypeStr(x.Type()) + ")")
			return
		}
		callee := fr.call.Call.StaticCallee()
		for i, q := range callee.Params {
			if q == x && i < len(fr.call.Call.Args) {
				p.walk(fr.call.Call.Args[i], fr.parent, depth+1)
				return
			}
		}
		p.fail("parameter " + x.Name() + " of " + prog.ShortFunc(x.Parent()))
	case *ssa.FreeVar:
		p.fail("captured variable " + x.Name())
	case *ssa.Global:
		p.fail("package-level variable " + x.Name())
	case *ssa.Call:
		cc := &x.Call
		if f := cc.StaticCallee(); f != nil && f.String() == "google.golang.org/grpc/peer.FromContext" {
			p.peers++
			return
		}
		if f := cc.StaticCallee(); f != nil && !cc.IsInvoke() && prog.InModule(f) && f.Blocks != nil {
			nf := &peerFrame{call: x, parent: fr}
			for _, ret := range an.Returns(f) {
				for _, r := range ret.Results {
					p.walk(r, nf, depth+1)
				}
			}
			return
		}
		if cc.IsInvoke() {
			p.walk(cc.Value, fr, depth+1)
		} else if cc.StaticCallee() == nil {
			if _, isB := cc.Value.(*ssa.Builtin); !isB {
				p.fail("the result of a dynamic call " + an.Term(cc.Value))
				return
			}
		}
		for _, a := range cc.Args {
			p.walk(a, fr, depth+1)
		}
	case *ssa.Alloc:
		// a local cell: everything stored into it (or into parts of it)
		p.walkCell(x, fr, depth)
	case *ssa.MakeClosure:
		p.fail("a closure value")
	default:
		ins, ok := v.(ssa.Instruction)
		if !ok {
			p.fail("a value of unknown kind: " + an.Term(v))
			return
		}
		switch v.(type) {
		case *ssa.Extract, *ssa.TypeAssert, *ssa.UnOp, *ssa.FieldAddr, *ssa.Field, *ssa.MakeInterface, *ssa.Convert, *ssa.ChangeType,
			*ssa.ChangeInterface, *ssa.Slice, *ssa.IndexAddr, *ssa.Index, *ssa.BinOp, *ssa.Phi, *ssa.Lookup, *ssa.Next, *ssa.Range,
			*ssa.SliceToArrayPointer, *ssa.MakeSlice, *ssa.MakeMap:
			for _, op := range ins.Operands(nil) {
				if op != nil && *op != nil {
					p.walk(*op, fr, depth+1)
				}
			}
		default:
			p.fail("a value of unknown kind: " + an.Term(v))
		}
	}
}

func (p *peerSlice) walkCell(a *ssa.Alloc, fr *peerFrame, depth int) {
	var visit func(addr ssa.Value, d int)
	visit = func(addr ssa.Value, d int) {
		if d > 4 {
			p.fail("a deeply nested local")
			return
		}
		for _, r := range *addr.Referrers() {
			switch y := r.(type) {
			case *ssa.Store:
				if y.Addr == addr {
					p.walk(y.Val, fr, depth+1)
				}
			case *ssa.FieldAddr:
				visit(y, d+1)
			case *ssa.IndexAddr:
				visit(y, d+1)
				p.walk(y.Index, fr, depth+1)
			case *ssa.Slice:
				// the array is filled through a slice of it (variadic arguments): contents come from the stores above
			case ssa.CallInstruction:
				// the cell's address is handed to a call: the callee may fill it
				for _, arg := range y.Common().Args {
					if arg != addr {
						p.walk(arg, fr, depth+1)
					}
				}
				if y.Common().IsInvoke() {
					p.walk(y.Common().Value, fr, depth+1)
				}
			}
		}
	}
	visit(a, 0)
}
