package rules

func init() {
	register(&Spec{
		ID: "C04",
		Run: func(c *Ctx) {
			c.RulerLocking("C04")
			c.Confinement("C04")
			c.WhoWrites("C04")
			c.LockerInternals("C04")
			c.OneInstance("C04", "locker", "ruler") // every request path goes through the one locker
			c.CheckSemantics("C07")                 // the permission decision is a function of the request alone (no memo shared between requests)
			c.CredentialsRequestScoped("C19")
			c.RulerKeyAgreement("C04")
			c.SignerRefusalReasons("C04")
			c.SigningRootProvenance("C04")
			c.ScatterIndexDiscipline("C04")
			c.ScatterPartition("C04")
			c.ForkJoinRules("C04")
			c.GateTypestate("C04")
			c.RequestPathWaits("C04")
			c.ImmutableAfterConstruction("C09.O5 config.immutable", pkgUnlocker, "unlocker passphrase")
		},
		Explanation: "Conservative two-phase locking, decided structurally: every request that can touch a watermark locks each of its keys (keyed by the same bytes as the database key) before the first read and releases them by defer after the last write; nothing reads or writes watermarks outside such a region. See DESIGN.md §5 C04.",
		Trusted:     append([]string{"Go memory model for sync.Mutex", "the standard 2PL serialisability argument (prose)"}, commonTrusted...),
	})
	register(&Spec{
		ID: "C15",
		Run: func(c *Ctx) {
			c.GateTypestate("C15")
			c.LockerInternals("C15")
			c.OneInstance("C15", "locker", "ruler")
			c.NoNestedAcquisition("C15")
			c.LockReleased("C15") // a lock kept beyond its function also leaves requests waiting forever
			c.NoRecursiveLock("C15")
			c.RequestPathWaits("C04") // a request parked behind another request's unlock, lookup or signature never completes if that one forgets it
			c.RulerLocking("C15")
		},
		Explanation: "Deadlock freedom by structure: key locks are only requested inside one locker-wide gate, the gate is released after the last request with nothing blocking in between, and nothing that runs while key locks are held asks for another. See DESIGN.md §5 C15.",
		Trusted:     append([]string{"Go memory model for sync.Mutex", "termination of badger operations and signers while locks are held"}, commonTrusted...),
	})
}
