package rules

import (
	"fmt"
	"go/token"
	"go/types"

	"dirkcheck/internal/an"
	"dirkcheck/internal/prog"

	"golang.org/x/tools/go/ssa"
)

// ParticipantCount (C12.O6 participants.count-as-requested): the threshold bounds are checked against the requested number of
// participants n, every later step (prepare, execute, the confirmation windows, the account each instance stores) works with
// the list the peers service selected and never looks at n again. "t of n" therefore only describes the key if that list has
// exactly n entries. Accepted, either
//
//	(A) the selection itself guarantees it: in the peers service's Suitable(n) every nil-error return hands back a list made
//	    with length n, and lies past an edge establishing [n <= filled] (or [n == filled]) where `filled` is computed from the
//	    index the list is filled at; or
//	(B) the initiator compares len(selected list) with n before the first message is sent.
func (c *Ctx) ParticipantCount(prop string) {
	rule := "C12.O6 participants.count-as-requested"
	nsel := 0
	for _, fn := range c.P.ModuleFuncs() {
		if prog.IsTestish(prog.PkgPathOf(fn)) || prog.PkgPathOf(fn) != pkgProcessStd() {
			continue
		}
		for _, K := range Calls(fn, func(ci ssa.CallInstruction) bool {
			cc := ci.Common()
			return cc.IsInvoke() && namedIs(cc.Value.Type(), pkgPeers, "Service") && cc.Method.Name() == "Suitable"
		}) {
			nsel++
			nArg := K.Common().Args[0]
			var list ssa.Value
			for _, r := range *K.Value().Referrers() {
				if ex, ok := r.(*ssa.Extract); ok && ex.Index == 0 {
					list = ex
				}
			}
			// (B) every message to a peer lies below [len(list) == n]
			if list != nil {
				okB := true
				nmsg := 0
				for _, m := range Calls(fn, func(ci ssa.CallInstruction) bool {
					return ci.Common().IsInvoke() && namedIs(ci.Common().Value.Type(), pkgSender, "Service")
				}) {
					if !an.Reachable(an.After(K.(ssa.Instruction)), m.(ssa.Instruction)) {
						continue
					}
					nmsg++
					target := m.(ssa.Instruction)
					if x, _ := an.Cut(an.CutQuery{From: an.After(K.(ssa.Instruction)), Target: func(i ssa.Instruction) bool { return i == target },
						AcceptEdge: func(b *ssa.BasicBlock, i int, a *an.Atom) bool {
							if a == nil || a.Op != "==" {
								return false
							}
							for _, side := range [][2]ssa.Value{{a.LV, a.RV}, {a.RV, a.LV}} {
								if isLenOf(side[0], list) && an.StripConv(stripConvert(side[1])) == an.StripConv(stripConvert(nArg)) {
									return true
								}
							}
							return false
						}}); x != nil {
						okB = false
					}
				}
				if okB && nmsg > 0 {
					c.R.OK(rule, Fn(fn), c.Pos(K), "the initiator sends messages only below [len(selected) == requested number]")
					continue
				}
			}
			// (A) the implementation
			impl := c.Role(rule, pkgPeers, "Service")
			if impl == nil {
				continue
			}
			S := c.Method(rule, impl, "Suitable")
			if S == nil {
				continue
			}
			if why, pos := suitableReturnsExactly(c, S); why != "" {
				c.R.Fail(rule, Fn(S), pos, why+" (the initiator never compares the selection with the requested number either: a short list passes every later check, which are all relative to the list)", "Suitable(n) succeeds only with a list of exactly n filled entries, or the initiator checks len(list) == n", nil)
			} else {
				c.R.OK(rule, Fn(S), c.P.FuncPos(S), "every successful selection is a list made with the requested length, returned only once that many entries were filled")
			}
		}
	}
	c.R.Floor(rule, "participant selections in the process service", nsel, 1)
}

func pkgProcessStd() string { return pkgProcess + "/standard" }

func isLenOf(v ssa.Value, list ssa.Value) bool {
	v = stripConvert(v)
	call, ok := v.(*ssa.Call)
	if !ok {
		return false
	}
	b, ok := call.Call.Value.(*ssa.Builtin)
	return ok && b.Name() == "len" && len(call.Call.Args) == 1 && call.Call.Args[0] == list
}

// suitableReturnsExactly: see ParticipantCount (A). Returns "" or the reason and its position.
func suitableReturnsExactly(c *Ctx, S *ssa.Function) (string, string) {
	if len(S.Params) < 2 {
		return "the selection takes no count", c.P.FuncPos(S)
	}
	var n *ssa.Parameter
	for _, p := range S.Params[1:] {
		if b, ok := p.Type().Underlying().(*types.Basic); ok && b.Info()&types.IsInteger != 0 {
			n = p
		}
	}
	if n == nil {
		return "the selection takes no count", c.P.FuncPos(S)
	}
	isN := func(v ssa.Value) bool { return stripConvert(v) == ssa.Value(n) }
	nsucc := 0
	for _, ret := range an.Returns(S) {
		if !isNilReturn(ret, S) {
			continue
		}
		nsucc++
		lst := an.Result(ret, 0)
		root := sliceRootExact(lst)
		ms, ok := root.(*ssa.MakeSlice)
		if !ok || !isN(ms.Len) {
			return "a successful selection returns a list that was not made with the requested length: " + an.Term(lst), c.Pos(ret)
		}
		// the indexes the list is filled at
		idx := map[ssa.Value]bool{}
		for _, b := range S.Blocks {
			for _, ins := range b.Instrs {
				if ia, ok := ins.(*ssa.IndexAddr); ok && sliceRootExact(ia.X) == root {
					for _, r := range *ia.Referrers() {
						if st, ok := r.(*ssa.Store); ok && st.Addr == ssa.Value(ia) {
							idx[ia.Index] = true
						}
					}
				}
			}
		}
		if len(idx) == 0 {
			return "the returned list is never filled", c.Pos(ret)
		}
		// the SSA values of the variable the list is filled at: the index values, the phis joining them, and the `v + 1`
		// that flow back into those phis (a fresh `v + 1` used only in a comparison is not a value of the variable)
		vals := map[ssa.Value]bool{}
		for v := range idx {
			vals[stripConvert(v)] = true
		}
		for changed := true; changed; {
			changed = false
			for _, b := range S.Blocks {
				for _, ins := range b.Instrs {
					phi, ok := ins.(*ssa.Phi)
					if !ok {
						continue
					}
					touches := vals[phi]
					for _, e := range phi.Edges {
						if vals[e] {
							touches = true
						}
						if bo, ok := e.(*ssa.BinOp); ok && bo.Op == token.ADD && vals[bo.X] && an.IsConstInt(bo.Y, 1) {
							touches = true
						}
					}
					if !touches {
						continue
					}
					if !vals[phi] {
						vals[phi] = true
						changed = true
					}
					for _, e := range phi.Edges {
						if bo, ok := e.(*ssa.BinOp); ok && bo.Op == token.ADD && vals[bo.X] && an.IsConstInt(bo.Y, 1) && !vals[e] {
							vals[e] = true
							changed = true
						}
					}
				}
			}
		}
		countsFilled := func(v ssa.Value, d int, seen map[ssa.Value]bool) bool { return vals[stripConvert(v)] }
		target := ssa.Instruction(ret)
		if x, _ := an.Cut(an.CutQuery{From: an.Entry(S), Target: func(i ssa.Instruction) bool { return i == target },
			AcceptEdge: func(b *ssa.BasicBlock, i int, a *an.Atom) bool {
				if a == nil {
					return false
				}
				switch a.Op {
				case "<=":
					return isN(a.LV) && countsFilled(a.RV, 0, map[ssa.Value]bool{})
				case "==":
					return (isN(a.LV) && countsFilled(a.RV, 0, map[ssa.Value]bool{})) || (isN(a.RV) && countsFilled(a.LV, 0, map[ssa.Value]bool{}))
				}
				return false
			}}); x != nil {
			return "a successful selection can be returned before the requested number of entries was filled", c.Pos(ret)
		}
	}
	if nsucc == 0 {
		return "the selection never succeeds", c.P.FuncPos(S)
	}
	_ = fmt.Sprint
	return "", ""
}

// IdentifierPure (C16.O4 identifier.pure-function-of-id): shares are computed, checked and handed out per participant through
// the BLS identifier of the participant's id; "participant i receives the share computed for i" needs that mapping to be a
// function of the id alone. The module function(s) mapping a uint64 to a *bls.ID read and write no package-level variable of
// the module (no table, cache or pool keyed by something coarser than the id), call no module function that does, and
// return an object allocated by the call.
func (c *Ctx) IdentifierPure(prop string) {
	rule := "C16.O4 identifier.pure-function-of-id"
	n := 0
	for _, fn := range c.P.ModuleFuncs() {
		if prog.IsTestish(prog.PkgPathOf(fn)) || fn.Blocks == nil || fn.Parent() != nil {
			continue
		}
		sig := fn.Signature
		if sig.Params().Len() != 1 || sig.Results().Len() != 1 || sig.Recv() != nil {
			continue
		}
		if b, ok := sig.Params().At(0).Type().Underlying().(*types.Basic); !ok || b.Kind() != types.Uint64 {
			continue
		}
		pt, ok := sig.Results().At(0).Type().(*types.Pointer)
		if !ok || !namedIs(pt.Elem(), "github.com/herumi/bls-eth-go-binary/bls", "ID") {
			continue
		}
		n++
		bad := ""
		pos := c.P.FuncPos(fn)
		seen := map[*ssa.Function]bool{}
		var scan func(f *ssa.Function, depth int)
		scan = func(f *ssa.Function, depth int) {
			if seen[f] || depth > 4 || f.Blocks == nil {
				return
			}
			seen[f] = true
			for _, g := range WithClosures(f) {
				for _, b := range g.Blocks {
					for _, ins := range b.Instrs {
						for _, op := range ins.Operands(nil) {
							if op == nil || *op == nil {
								continue
							}
							if gl, ok := (*op).(*ssa.Global); ok && gl.Pkg != nil && prog.IsModulePath(gl.Pkg.Pkg.Path()) && bad == "" {
								bad = "it uses the package-level variable " + gl.Name() + " of " + gl.Pkg.Pkg.Path()
								pos = c.Pos(ins)
							}
						}
						if ci, ok := ins.(ssa.CallInstruction); ok {
							if cal := ci.Common().StaticCallee(); cal != nil && prog.InModule(cal) {
								scan(cal, depth+1)
							}
						}
					}
				}
			}
		}
		scan(fn, 0)
		for _, ret := range an.Returns(fn) {
			if _, isAlloc := an.Result(ret, 0).(*ssa.Alloc); !isAlloc && bad == "" {
				bad = "it returns an object it did not allocate in this call: " + an.Term(an.Result(ret, 0))
				pos = c.Pos(ret)
			}
		}
		if bad != "" {
			c.R.Fail(rule, Fn(fn), pos, "the mapping from participant ids to BLS identifiers is not a function of the id alone: "+bad+" (two ids that share an entry get one identifier, and a participant is handed the share computed for another)", "a fresh identifier built from the id, no package-level state", nil)
		} else {
			c.R.OK(rule, Fn(fn), c.P.FuncPos(fn), "the identifier is allocated by the call and built without package-level state")
		}
	}
	c.R.Floor(rule, "functions mapping an id to a BLS identifier", n, 1)
}
