package rules

import (
	"fmt"
	"go/token"
	"go/types"
	"strings"

	"dirkcheck/internal/an"
	"dirkcheck/internal/prog"

	"golang.org/x/tools/go/ssa"
)

// CredentialsRequestScoped (C19.O4 credentials.request-scoped): the credentials object carries the certificate name the
// connection authenticated with; every permission decision and rule evaluation of a request must be taken under that request's
// own object. The object is created per call (C19.O3) - this obligation keeps it from travelling to another request: in
// production code a *checker.Credentials value is only handed down (call arguments), read, compared, kept in a local, put into
// a struct this function allocated, or captured by a closure that the function itself calls, defers, or hands to a module
// function (the scatter workers). It is never
//
//   - stored into a field of anything the function did not allocate, a package variable, a map, or sent on a channel;
//   - captured by a closure that is started as a goroutine or handed to code outside the module (single-flight groups, once
//     guards, timers, pools): such code decides when, and for whom, the closure runs - a result computed under one caller's
//     name is then delivered to another.
func (c *Ctx) CredentialsRequestScoped(prop string) {
	c.requestScoped("C19.O4 credentials.request-scoped", "credentials", 20, func(t types.Type) bool {
		p, ok := t.(*types.Pointer)
		return ok && namedIs(p.Elem(), pkgChecker, "Credentials")
	})
}

// RequestMessageScoped (C08.O10 request.message-scoped): the same discipline for the protobuf request message a handler is
// given: what is signed and answered for a request is computed from that request's own message. A request message is never
// stored in longer-lived state, sent, or captured by a closure that is started as a goroutine or handed to code outside the
// module (single-flight groups, pools, timers): coalescing two requests on a key that omits part of the message answers one
// of them with the other's signature.
func (c *Ctx) RequestMessageScoped(prop string) {
	c.requestScoped("C08.O10 request.message-scoped", "request message", 10, func(t types.Type) bool {
		p, ok := t.(*types.Pointer)
		if !ok {
			return false
		}
		n, ok := p.Elem().(*types.Named)
		return ok && n.Obj().Pkg() != nil && n.Obj().Pkg().Path() == pkgPB && strings.HasSuffix(n.Obj().Name(), "Request")
	})
}

func (c *Ctx) requestScoped(rule string, what string, floor int, isCred func(types.Type) bool, fresh ...bool) {
	mustBeFresh := len(fresh) > 0 && fresh[0]
	// for response messages: a place inside another response message of the same call (the per-request entries of a batch
	// response) is as request-scoped as the message itself
	inside := func(addr ssa.Value) bool {
		if !mustBeFresh {
			return false
		}
		v := addr
		for i := 0; i < 8 && v != nil; i++ {
			if isCred(v.Type()) {
				return true
			}
			switch x := v.(type) {
			case *ssa.Parameter:
				// a list of response messages handed down by the caller
				if sl, ok := x.Type().Underlying().(*types.Slice); ok && isCred(sl.Elem()) {
					return true
				}
				return false
			case *ssa.FieldAddr:
				v = x.X
			case *ssa.IndexAddr:
				v = x.X
			case *ssa.Slice:
				v = x.X
			case *ssa.UnOp:
				v = x.X
			case *ssa.Call:
				// a protobuf getter of a response message
				if f := x.Call.StaticCallee(); len(x.Call.Args) == 1 && f != nil && f.Pkg != nil && f.Pkg.Pkg.Path() == pkgPB && strings.HasPrefix(f.Name(), "Get") {
					v = x.Call.Args[0]
				} else {
					return false
				}
			default:
				return false
			}
		}
		return false
	}
	nvals, nfn := 0, 0
	for _, fn := range c.P.ModuleFuncs() {
		if prog.IsTestish(prog.PkgPathOf(fn)) || fn.Blocks == nil {
			continue
		}
		var roots []ssa.Value
		for _, p := range fn.Params {
			if isCred(p.Type()) {
				roots = append(roots, p)
			}
		}
		for _, fv := range fn.FreeVars {
			if isCred(fv.Type()) {
				roots = append(roots, fv)
			}
			// a captured cell holding credentials
			if pt, ok := fv.Type().(*types.Pointer); ok && isCred(pt.Elem()) {
				roots = append(roots, fv)
			}
		}
		// values produced here: calls returning credentials (GenerateCredentials) and loads of credential cells
		var stale []ssa.Instruction
		var staleWhy []string
		for _, b := range fn.Blocks {
			for _, ins := range b.Instrs {
				if v, ok := ins.(ssa.Value); ok && isCred(v.Type()) {
					switch x := ins.(type) {
					case *ssa.Call, *ssa.Phi, *ssa.Alloc:
						roots = append(roots, v)
					case *ssa.UnOp:
						roots = append(roots, v)
						if mustBeFresh && x.Op == token.MUL && !localAddr(x.X) && !inside(x.X) {
							if _, isFV := x.X.(*ssa.FreeVar); !isFV {
								stale = append(stale, ins)
								staleWhy = append(staleWhy, "it is read from "+an.Term(x.X)+", which outlives the request")
							}
						}
					case *ssa.Extract:
						roots = append(roots, v)
						if ta, isTA := x.Tuple.(*ssa.TypeAssert); isTA && mustBeFresh {
							if w := foreignSource(ta.X); w != "" {
								stale = append(stale, ins)
								staleWhy = append(staleWhy, w)
							}
						}
					case *ssa.TypeAssert:
						roots = append(roots, v)
						if mustBeFresh {
							if w := foreignSource(x.X); w != "" {
								stale = append(stale, ins)
								staleWhy = append(staleWhy, w)
							}
						}
					}
				}
			}
		}
		if len(roots) == 0 {
			continue
		}
		nfn++
		bad := 0
		for i, ins := range stale {
			bad++
			c.R.Fail(rule, Fn(fn)+":origin", c.Pos(ins), "a "+what+" is not made by the call that hands it out: "+staleWhy[i]+" (whoever else holds the object can rewrite it before it is sent, or it answers an earlier request)", what+" objects are allocated by the call that fills them", nil)
		}
		for _, v := range roots {
			nvals++
			for _, r := range *v.Referrers() {
				why := ""
				switch x := r.(type) {
				case *ssa.Store:
					if x.Val != v {
						continue
					}
					if !localAddr(x.Addr) && !inside(x.Addr) {
						why = "it is stored into " + an.Term(x.Addr) + ", which outlives the request"
					} else if cell, isCell := x.Addr.(*ssa.Alloc); isCell {
						// a local variable (or a captured parameter's cell): the closures that capture the cell
						for _, cr := range *cell.Referrers() {
							if mc, isMC := cr.(*ssa.MakeClosure); isMC {
								if w := c.closureEscapes(mc); w != "" {
									why = "it is captured by a closure that " + w
								}
							}
						}
					}
				case *ssa.MapUpdate:
					if x.Value == v || x.Key == v {
						if _, isLocal := x.Map.(*ssa.MakeMap); !isLocal {
							why = "it is put into a map"
						}
					}
				case *ssa.Send:
					if x.X == v {
						why = "it is sent on a channel"
					}
				case *ssa.MakeClosure:
					if w := c.closureEscapes(x); w != "" {
						why = "it is captured by a closure that " + w
					}
				case *ssa.Go:
					why = "it is handed to a goroutine"
				case *ssa.MakeInterface:
					if mustBeFresh {
						for _, mr := range *x.Referrers() {
							ci, isCall := mr.(ssa.CallInstruction)
							if !isCall {
								continue
							}
							if w := retainingCallee(ci); w != "" {
								why = "it is handed to " + w + ", which keeps it beyond the request"
							}
						}
					}
				}
				if why != "" {
					bad++
					c.R.Fail(rule, Fn(fn), c.Pos(r), "a request's "+what+" can reach another request: "+why, what+" values are only handed down, read, kept in locals or in objects this call allocated, or captured by closures the call itself runs or hands to module code", nil)
				}
			}
			// a local cell holding the credentials that is captured: the closures binding the cell
			if al, ok := v.(*ssa.Alloc); ok {
				for _, r := range *al.Referrers() {
					if mc, ok := r.(*ssa.MakeClosure); ok {
						if w := c.closureEscapes(mc); w != "" {
							bad++
							c.R.Fail(rule, Fn(fn), c.Pos(mc), "a request's "+what+" can reach another request: captured by a closure that "+w, "closures holding credentials are run by the call itself or handed to module code", nil)
						}
					}
				}
			}
		}
		if bad == 0 {
			c.R.OK(rule, Fn(fn), c.P.FuncPos(fn), what+" values are only handed down, read, or kept in request-local storage")
		}
	}
	c.R.Floor(rule, "functions handling "+what, nfn, floor)
	c.R.Count(strings.ReplaceAll(what, " ", "_")+"_values", nvals)
	_ = fmt.Sprint
}

// localAddr: the address is a local cell, or a field / element of an object allocated in the same function.
func localAddr(a ssa.Value) bool {
	for i := 0; i < 6; i++ {
		switch x := a.(type) {
		case *ssa.Alloc:
			return true
		case *ssa.FieldAddr:
			a = x.X
		case *ssa.IndexAddr:
			a = x.X
		case *ssa.Slice:
			a = x.X
		case *ssa.MakeSlice:
			return true
		case *ssa.UnOp:
			// a pointer loaded from a local cell that holds a locally allocated object
			if al, ok := x.X.(*ssa.Alloc); ok {
				okAll := true
				n := 0
				for _, r := range *al.Referrers() {
					if st, ok := r.(*ssa.Store); ok && st.Addr == ssa.Value(al) {
						n++
						if _, isAlloc := st.Val.(*ssa.Alloc); !isAlloc {
							okAll = false
						}
					}
				}
				return okAll && n > 0
			}
			return false
		default:
			return false
		}
	}
	return false
}

// closureEscapes: "" when the closure value is only called, deferred, or passed to module functions; else how it leaves.
func (c *Ctx) closureEscapes(mc *ssa.MakeClosure) string {
	for _, r := range *mc.Referrers() {
		switch x := r.(type) {
		case *ssa.Go:
			return "is started as a goroutine"
		case *ssa.Defer:
			continue
		case *ssa.Call:
			if x.Call.Value == ssa.Value(mc) {
				continue // called directly
			}
			f := x.Call.StaticCallee()
			if f != nil && prog.InModule(f) && !x.Call.IsInvoke() {
				continue
			}
			if x.Call.IsInvoke() {
				if n := namedOf(x.Call.Value.Type()); n != nil && n.Obj().Pkg() != nil && prog.IsModulePath(n.Obj().Pkg().Path()) {
					continue
				}
			}
			return "is handed to " + CalleeName(x) + ", outside the module (it decides when and for whom the closure runs)"
		case *ssa.Store:
			if !localAddr(x.Addr) {
				return "is stored into " + an.Term(x.Addr)
			}
		case *ssa.MakeInterface, *ssa.ChangeType:
			return "is converted and handed on"
		case *ssa.DebugRef:
		default:
			_ = x
		}
	}
	return ""
}

// foreignSource: the interface value comes out of code outside the module that hands out retained objects (sync.Pool.Get,
// sync.Map.Load, a cache): "" when it was produced by module code or is a parameter.
func foreignSource(v ssa.Value) string {
	if ex, ok := v.(*ssa.Extract); ok {
		v = ex.Tuple
	}
	call, ok := v.(*ssa.Call)
	if !ok {
		return ""
	}
	f := call.Call.StaticCallee()
	if call.Call.IsInvoke() || f == nil || prog.InModule(f) {
		return ""
	}
	if f.Pkg != nil && (f.Pkg.Pkg.Path() == "sync" || f.Pkg.Pkg.Path() == "sync/atomic" || strings.Contains(f.Pkg.Pkg.Path(), "cache") || strings.Contains(f.Pkg.Pkg.Path(), "singleflight")) {
		return "it is taken out of " + f.String() + ": an object other requests hold or held"
	}
	return ""
}

// retainingCallee: the call keeps its interface argument (sync.Pool.Put, sync.Map.Store, atomic.Value.Store, a cache).
func retainingCallee(ci ssa.CallInstruction) string {
	f := ci.Common().StaticCallee()
	if f == nil || ci.Common().IsInvoke() || prog.InModule(f) || f.Pkg == nil {
		return ""
	}
	p := f.Pkg.Pkg.Path()
	if p == "sync" || p == "sync/atomic" || strings.Contains(p, "cache") || strings.Contains(p, "singleflight") {
		return f.String()
	}
	return ""
}

// ReplyRequestScoped (C16.O5 reply.request-scoped): the protobuf response a handler returns is serialised by the gRPC
// framework after the handler (and the interceptors around it) returned. What the requester receives is what the object
// holds then: a response object is allocated by the call that fills it, never read from or put into state that outlives the
// request (a field, a package variable, a pool, a cache, a channel), and never captured by code that runs later.
func (c *Ctx) ReplyRequestScoped(prop string) {
	c.requestScoped("C16.O5 reply.request-scoped", "response message", 10, func(t types.Type) bool {
		p, ok := t.(*types.Pointer)
		if !ok {
			return false
		}
		n, ok := p.Elem().(*types.Named)
		return ok && n.Obj().Pkg() != nil && n.Obj().Pkg().Path() == pkgPB && strings.HasSuffix(n.Obj().Name(), "Response")
	}, true)
}
