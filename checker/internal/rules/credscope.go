package rules

import (
	"fmt"
	"go/types"
	"strings"

	"dirkcheck/internal/an"
	"dirkcheck/internal/prog"

	"golang.org/x/tools/go/ssa"
)

// CredentialsRequestScoped (C19.O4 credentials.request-scoped): the credentials object carries the certificate name the
// connection authenticated with; every permission decision and rule evaluation of a request must be taken under that request's
// own object. The object is created per call (C19.O3) - this obligation keeps it from travelling to another request: in
// production code a *checker.Credentials value is only handed down (call arguments), read, compared, kept in a local, put into
// a struct this function allocated, or captured by a closure that the function itself calls, defers, or hands to a module
// function (the scatter workers). It is never
//
//   - stored into a field of anything the function did not allocate, a package variable, a map, or sent on a channel;
//   - captured by a closure that is started as a goroutine or handed to code outside the module (single-flight groups, once
//     guards, timers, pools): such code decides when, and for whom, the closure runs - a result computed under one caller's
//     name is then delivered to another.
func (c *Ctx) CredentialsRequestScoped(prop string) {
	c.requestScoped("C19.O4 credentials.request-scoped", "credentials", 20, func(t types.Type) bool {
		p, ok := t.(*types.Pointer)
		return ok && namedIs(p.Elem(), pkgChecker, "Credentials")
	})
}

// RequestMessageScoped (C08.O10 request.message-scoped): the same discipline for the protobuf request message a handler is
// given: what is signed and answered for a request is computed from that request's own message. A request message is never
// stored in longer-lived state, sent, or captured by a closure that is started as a goroutine or handed to code outside the
// module (single-flight groups, pools, timers): coalescing two requests on a key that omits part of the message answers one
// of them with the other's signature.
func (c *Ctx) RequestMessageScoped(prop string) {
	c.requestScoped("C08.O10 request.message-scoped", "request message", 10, func(t types.Type) bool {
		p, ok := t.(*types.Pointer)
		if !ok {
			return false
		}
		n, ok := p.Elem().(*types.Named)
		return ok && n.Obj().Pkg() != nil && n.Obj().Pkg().Path() == pkgPB && strings.HasSuffix(n.Obj().Name(), "Request")
	})
}

func (c *Ctx) requestScoped(rule string, what string, floor int, isCred func(types.Type) bool) {
	nvals, nfn := 0, 0
	for _, fn := range c.P.ModuleFuncs() {
		if prog.IsTestish(prog.PkgPathOf(fn)) || fn.Blocks == nil {
			continue
		}
		var roots []ssa.Value
		for _, p := range fn.Params {
			if isCred(p.Type()) {
				roots = append(roots, p)
			}
		}
		for _, fv := range fn.FreeVars {
			if isCred(fv.Type()) {
				roots = append(roots, fv)
			}
			// a captured cell holding credentials
			if pt, ok := fv.Type().(*types.Pointer); ok && isCred(pt.Elem()) {
				roots = append(roots, fv)
			}
		}
		// values produced here: calls returning credentials (GenerateCredentials) and loads of credential cells
		for _, b := range fn.Blocks {
			for _, ins := range b.Instrs {
				if v, ok := ins.(ssa.Value); ok && isCred(v.Type()) {
					switch ins.(type) {
					case *ssa.Call, *ssa.UnOp, *ssa.Phi, *ssa.Extract, *ssa.Alloc:
						roots = append(roots, v)
					}
				}
			}
		}
		if len(roots) == 0 {
			continue
		}
		nfn++
		bad := 0
		for _, v := range roots {
			nvals++
			for _, r := range *v.Referrers() {
				why := ""
				switch x := r.(type) {
				case *ssa.Store:
					if x.Val != v {
						continue
					}
					if !localAddr(x.Addr) {
						why = "it is stored into " + an.Term(x.Addr) + ", which outlives the request"
					} else if cell, isCell := x.Addr.(*ssa.Alloc); isCell {
						// a local variable (or a captured parameter's cell): the closures that capture the cell
						for _, cr := range *cell.Referrers() {
							if mc, isMC := cr.(*ssa.MakeClosure); isMC {
								if w := c.closureEscapes(mc); w != "" {
									why = "it is captured by a closure that " + w
								}
							}
						}
					}
				case *ssa.MapUpdate:
					if x.Value == v || x.Key == v {
						if _, isLocal := x.Map.(*ssa.MakeMap); !isLocal {
							why = "it is put into a map"
						}
					}
				case *ssa.Send:
					if x.X == v {
						why = "it is sent on a channel"
					}
				case *ssa.MakeClosure:
					if w := c.closureEscapes(x); w != "" {
						why = "it is captured by a closure that " + w
					}
				case *ssa.Go:
					why = "it is handed to a goroutine"
				}
				if why != "" {
					bad++
					c.R.Fail(rule, Fn(fn), c.Pos(r), "a request's "+what+" can reach another request: "+why, "credentials are only handed down, read, kept in locals or in objects this call allocated, or captured by closures the call itself runs or hands to module code", nil)
				}
			}
			// a local cell holding the credentials that is captured: the closures binding the cell
			if al, ok := v.(*ssa.Alloc); ok {
				for _, r := range *al.Referrers() {
					if mc, ok := r.(*ssa.MakeClosure); ok {
						if w := c.closureEscapes(mc); w != "" {
							bad++
							c.R.Fail(rule, Fn(fn), c.Pos(mc), "a request's "+what+" can reach another request: captured by a closure that "+w, "closures holding credentials are run by the call itself or handed to module code", nil)
						}
					}
				}
			}
		}
		if bad == 0 {
			c.R.OK(rule, Fn(fn), c.P.FuncPos(fn), what+" values are only handed down, read, or kept in request-local storage")
		}
	}
	c.R.Floor(rule, "functions handling "+what, nfn, floor)
	c.R.Count(strings.ReplaceAll(what, " ", "_")+"_values", nvals)
	_ = fmt.Sprint
}

// localAddr: the address is a local cell, or a field / element of an object allocated in the same function.
func localAddr(a ssa.Value) bool {
	for i := 0; i < 6; i++ {
		switch x := a.(type) {
		case *ssa.Alloc:
			return true
		case *ssa.FieldAddr:
			a = x.X
		case *ssa.IndexAddr:
			a = x.X
		case *ssa.Slice:
			a = x.X
		case *ssa.MakeSlice:
			return true
		case *ssa.UnOp:
			// a pointer loaded from a local cell that holds a locally allocated object
			if al, ok := x.X.(*ssa.Alloc); ok {
				okAll := true
				n := 0
				for _, r := range *al.Referrers() {
					if st, ok := r.(*ssa.Store); ok && st.Addr == ssa.Value(al) {
						n++
						if _, isAlloc := st.Val.(*ssa.Alloc); !isAlloc {
							okAll = false
						}
					}
				}
				return okAll && n > 0
			}
			return false
		default:
			return false
		}
	}
	return false
}

// closureEscapes: "" when the closure value is only called, deferred, or passed to module functions; else how it leaves.
func (c *Ctx) closureEscapes(mc *ssa.MakeClosure) string {
	for _, r := range *mc.Referrers() {
		switch x := r.(type) {
		case *ssa.Go:
			return "is started as a goroutine"
		case *ssa.Defer:
			continue
		case *ssa.Call:
			if x.Call.Value == ssa.Value(mc) {
				continue // called directly
			}
			f := x.Call.StaticCallee()
			if f != nil && prog.InModule(f) && !x.Call.IsInvoke() {
				continue
			}
			if x.Call.IsInvoke() {
				if n := namedOf(x.Call.Value.Type()); n != nil && n.Obj().Pkg() != nil && prog.IsModulePath(n.Obj().Pkg().Path()) {
					continue
				}
			}
			return "is handed to " + CalleeName(x) + ", outside the module (it decides when and for whom the closure runs)"
		case *ssa.Store:
			if !localAddr(x.Addr) {
				return "is stored into " + an.Term(x.Addr)
			}
		case *ssa.MakeInterface, *ssa.ChangeType:
			return "is converted and handed on"
		case *ssa.DebugRef:
		default:
			_ = x
		}
	}
	return ""
}
