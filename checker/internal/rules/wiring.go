package rules

import (
	"fmt"
	"strings"

	"dirkcheck/internal/prog"

	"golang.org/x/tools/go/ssa"
)

// OneInstance (C12.O9 wiring.one-instance): the services that carry state the properties rest on - the fetcher's overlay of
// accounts created at run time, the locker's per-key mutexes and gate, the ruler in front of them, the process service's
// session table, the rules service's store handle - are built once, and every consumer is handed that one instance. A
// second instance splits the state: an account created through key generation lands in a cache the signer and the lister
// never read; two lockers do not exclude each other. Decided on the wiring code: in production code the constructor
// (the package-level `New` of the package that implements the role) has exactly one static call site, that site is not
// inside a loop, and the function it sits in is itself called from exactly one such site, up to `main` (depth-limited).
func (c *Ctx) OneInstance(prop string, roles ...string) {
	rule := "C12.O9 wiring.one-instance"
	ifaces := map[string][2]string{
		"fetcher":  {pkgFetcher, "the overlay of accounts created at run time"},
		"locker":   {pkgLocker, "the per-key mutexes and the gate"},
		"ruler":    {pkgRuler, "the locking section in front of the rules"},
		"process":  {pkgProcess, "the session table of key generations"},
		"rules":    {pkgRules, "the handle of the slashing-protection store"},
		"unlocker": {pkgUnlocker, "the configured passphrases"},
		"checker":  {pkgChecker, "the permission table"},
	}
	callers := c.staticCallers()
	inLoop := func(ci ssa.CallInstruction) bool {
		// the call's block can reach itself
		b := ci.(ssa.Instruction).Block()
		seen := map[*ssa.BasicBlock]bool{}
		st := append([]*ssa.BasicBlock{}, b.Succs...)
		for len(st) > 0 {
			x := st[len(st)-1]
			st = st[:len(st)-1]
			if x == b {
				return true
			}
			if seen[x] {
				continue
			}
			seen[x] = true
			st = append(st, x.Succs...)
		}
		return false
	}
	prodSites := func(f *ssa.Function) []ssa.CallInstruction {
		var out []ssa.CallInstruction
		for _, ci := range callers[f] {
			p := prog.PkgPathOf(ci.Parent())
			if prog.IsTestish(p) || strings.Contains(p, "/testing") || strings.Contains(p, "/mock") {
				continue
			}
			out = append(out, ci)
		}
		return out
	}
	n := 0
	for _, role := range roles {
		spec, ok := ifaces[role]
		if !ok {
			continue
		}
		impl := c.Role(rule, spec[0], "Service")
		if impl == nil {
			continue
		}
		var ctor *ssa.Function
		for _, fn := range c.P.ModuleFuncs() {
			if fn.Name() == "New" && fn.Signature.Recv() == nil && fn.Parent() == nil && prog.PkgPathOf(fn) == impl.Obj().Pkg().Path() {
				ctor = fn
			}
		}
		if ctor == nil {
			c.R.Unknown(rule, role, "-", "no package-level New found in "+impl.Obj().Pkg().Path())
			continue
		}
		n++
		f := ctor
		why := ""
		pos := c.P.FuncPos(ctor)
		chain := []string{}
		for d := 0; d < 6; d++ {
			if f.Name() == "main" && f.Pkg != nil && f.Pkg.Pkg.Name() == "main" {
				break
			}
			if refs := f.Referrers(); refs != nil {
				for _, r := range *refs {
					if ci, isCall := r.(ssa.CallInstruction); !isCall || ci.Common().Value != ssa.Value(f) {
						why = prog.ShortFunc(f) + " is used as a value: its callers cannot be counted"
					}
				}
			}
			sites := prodSites(f)
			if len(sites) == 0 {
				if d == 0 {
					why = "the constructor is never called in production code"
				}
				break // an entry point (a command's run function)
			}
			if len(sites) > 1 {
				var where []string
				for _, s := range sites {
					where = append(where, c.Pos(s))
				}
				why = fmt.Sprintf("%s is called from %d places (%s): more than one instance holds %s", prog.ShortFunc(f), len(sites), strings.Join(where, ", "), spec[1])
				pos = c.Pos(sites[1])
				break
			}
			if inLoop(sites[0]) {
				why = prog.ShortFunc(f) + " is called inside a loop: more than one instance holds " + spec[1]
				pos = c.Pos(sites[0])
				break
			}
			chain = append(chain, prog.ShortFunc(sites[0].Parent()))
			f = sites[0].Parent()
			for f.Parent() != nil {
				f = f.Parent()
			}
		}
		if why != "" {
			c.R.Fail(rule, role, pos, why, "one constructor call site, not in a loop, in a function that is itself called once", nil)
		} else {
			c.R.OK(rule, role, c.P.FuncPos(ctor), "built once: "+prog.ShortFunc(ctor)+" <- "+strings.Join(chain, " <- "))
		}
	}
	c.R.Floor(rule, "stateful service roles", n, len(roles))
}
